------------------------------ MODULE RuleReuse ------------------------------
(***************************************************************************)
(* Reloading rules must not disturb the runtime state of unchanged rules   *)
(* (property C14): the extension of RuleStore in which every enforced      *)
(* position carries the runtime state of its CONTROLLER (breaker state and *)
(* deadline, throttling queue, warm-up tokens, hot-parameter counters) and *)
(* of its STATISTICS (standalone window, error counters, token buckets).   *)
(*                                                                         *)
(* A rule token stands for the tuple of semantic fields; StatClass[t] is   *)
(* the tuple of its statistic parameters ("none": the rule keeps no        *)
(* statistics).  Runtime state is abstracted to an AGE: the number of      *)
(* traffic events absorbed since the object was created - two runs decide  *)
(* alike for a rule iff its controller and statistics have the same age.   *)
(*                                                                         *)
(* PROPERTY LEVEL (pure operators): the reuse relation of the statement -  *)
(*   a rule field-for-field identical in the old and the new list keeps    *)
(*   its controller (and statistics); equal rules are matched as multisets *)
(*   in order (k-th occurrence with k-th occurrence);                      *)
(*   a new / modified rule whose statistic parameters equal those of an    *)
(*   old rule that is not kept by an identical rule takes over its         *)
(*   statistics.                                                           *)
(* DESIGN LEVEL: a primary instance executes every reload with the reuse   *)
(* algorithm `Reuse'; a shadow instance SKIPS every reload in which the    *)
(* watched rule is unchanged (erase(sigma)).  ReloadInvisible: the watched *)
(* rule's state is the same in both.  Reuse = "statement" must satisfy it; *)
(* "greedy" is the algorithm of the pinned code (calculateReuseIndexFor    *)
(* serves the new rules in order: an earlier, merely stat-compatible new   *)
(* rule consumes the old controller of a later unchanged rule),            *)
(* "byPosition" and "none" are further broken variants.                    *)
(*                                                                         *)
(* ENTRY POINTS.  A module has two load entry points: the whole-set load   *)
(* (LoadRules) and the per-resource load (LoadRulesOfResource).  The       *)
(* property quantifies over the entry point PER LOAD, not per history, so  *)
(* the entry point is a parameter of every Reload action:                  *)
(*   "res"        per-resource load of the watched resource                *)
(*   "whole"      whole-set load, the rules of all other resources as they *)
(*                are                                                      *)
(*   "wholeOther" whole-set load that also changes another resource's rule *)
(* Each entry point has an unchanged-detection (Skipped): a load that      *)
(* re-sends exactly the current lists is ignored; a whole-set load in      *)
(* which ANOTHER resource changed rebuilds the watched resource's list too *)
(* even when that list is re-sent as it is.                                *)
(*                                                                         *)
(* DEFAULTING.  A token is the caller-visible field tuple BEFORE the       *)
(* module fills in defaults of optional fields left at their zero value;   *)
(* Norm[t] is the tuple with the defaults spelled out (a DIFFERENT rule    *)
(* for the statement).  Every enforced position carries the KEY under      *)
(* which the store will recognise it.  In the design under test the key is *)
(* the caller-visible tuple for every entry point (Defaulting = {}).  An   *)
(* entry point in `Defaulting' stores and compares the defaulted copy      *)
(* instead: with Defaulting = {"whole"} or {"res"} a rule with an unset    *)
(* optional field that is loaded through one entry point and re-sent       *)
(* through the other is no longer recognised (mutants; must violate        *)
(* ReloadInvisible and EntryPointAgnostic).                                *)
(*                                                                         *)
(* TRIPPED CONTROLLERS.  A controller may be in a tripped state at the     *)
(* moment of a reload (a circuit breaker that is Open or HalfOpen): here a *)
(* controller is tripped once it has absorbed TripAge traffic events.  The *)
(* statement hands the statistics of an old rule to a new / modified rule  *)
(* with the same statistic parameters WHATEVER the state of the old        *)
(* controller (StatMatch looks at rules only).  Reuse = "closedOnly" is    *)
(* the broken variant that takes over the statistics only of controllers   *)
(* that are not tripped (must violate ReuseRespected / NoStatWasted).      *)
(***************************************************************************)
EXTENDS Integers, Sequences, FiniteSets, TLC

---------------------------------------------------------------------------
(* PROPERTY LEVEL: operators over token sequences; sc = StatClass function *)

Count(s, t)      == Cardinality({j \in DOMAIN s : s[j] = t})
OccIdx(s, i)     == Cardinality({j \in 1..i : s[j] = s[i]})              \* s[i] is the OccIdx-th occurrence of its token
NthPos(s, t, k)  == LET P == {j \in DOMAIN s : s[j] = t /\ Cardinality({x \in 1..j : s[x] = t}) = k}
                    IN  IF P = {} THEN 0 ELSE CHOOSE j \in P : TRUE
Min2(a, b)       == IF a < b THEN a ELSE b
SetToSeq(S)      == LET RECURSIVE F(_)
                        F(T) == IF T = {} THEN << >> ELSE LET m == CHOOSE x \in T : \A y \in T : x <= y IN <<m>> \o F(T \ {m})
                    IN F(S)

\* old position whose CONTROLLER new position i keeps (0: built afresh): the identical rule, multiset-matched in order
EqMatch(old, new, i) == NthPos(old, new[i], OccIdx(new, i))
\* old positions not kept by an identical rule
Unclaimed(old, new)  == {j \in DOMAIN old : \A i \in DOMAIN new : EqMatch(old, new, i) # j}
\* old position whose STATISTICS new position i takes over (0: fresh statistics)
StatMatch(sc, old, new, i) ==
    IF EqMatch(old, new, i) # 0 THEN EqMatch(old, new, i)
    ELSE IF sc[new[i]] = "none" THEN 0
    ELSE LET c    == sc[new[i]]
             m    == Cardinality({x \in 1..i : EqMatch(old, new, x) = 0 /\ sc[new[x]] = c})
             cand == SetToSeq({j \in Unclaimed(old, new) : sc[old[j]] = c})
         IN  IF m <= Len(cand) THEN cand[m] ELSE 0
\* the reuse relation of the statement: per new position [c |-> controller source, s |-> statistics source]
ReuseStatement(sc, old, new) == [i \in DOMAIN new |-> [c |-> EqMatch(old, new, i), s |-> StatMatch(sc, old, new, i)]]

\* is the watched rule w unchanged by the reload old -> new (the reload must be invisible for it)
Unchanged(old, new, w)  == Count(old, w) > 0 /\ Count(new, w) > 0
\* the reload adds copies of the watched rule (a fresh copy may refuse more, never less)
Duplicated(old, new, w) == Count(new, w) > Count(old, w)

\* no statistics are thrown away while a new rule of the same statistic parameters starts from scratch
NoStatWasted(sc, old, new, m) ==
    \A c \in {sc[old[j]] : j \in DOMAIN old} \ {"none"} :
        (\E i \in DOMAIN new : sc[new[i]] = c /\ m[i].s = 0)
            => \A j \in DOMAIN old : sc[old[j]] = c => \E i \in DOMAIN new : m[i].s = j
\* an identical rule keeps its controller, k-th occurrence with k-th occurrence
EqualKeepsController(old, new, m) == \A i \in DOMAIN new : EqMatch(old, new, i) # 0 => m[i].c = EqMatch(old, new, i) /\ m[i].s = m[i].c

---------------------------------------------------------------------------
(* DESIGN LEVEL                                                            *)

CONSTANTS
    Toks,        \* rule tokens
    StatClass,   \* [Toks -> statistic-parameter class or "none"]
    Watched,     \* the rule whose state is watched
    MaxLen,      \* bound on list length
    MaxTraffic,  \* bound on the number of traffic events
    Reuse,       \* "statement" | "greedy" | "byPosition" | "none" | "closedOnly"
    TripAge,     \* a controller that has absorbed TripAge traffic events is tripped (breaker Open / HalfOpen)
    Paths,       \* load entry points explored: subset of AllPaths
    Norm,        \* [Toks -> Toks]: the tuple with the defaults of its unset optional fields spelled out
    Defaulting   \* entry points ("whole", "res") that store / compare the defaulted copy; {} in the design under test

AllPaths == {"whole", "wholeOther", "res"}
\* the entry point behind a load path
Entry(path) == IF path = "res" THEN "res" ELSE "whole"
\* unchanged-detection of the entry points: the caller's lists are compared as they were sent (before defaulting)
Skipped(path, old, new) == new = old /\ path # "wholeOther"

VARIABLES
    P,      \* primary instance: sequence of [tok (caller-visible tuple), key (identity kept by the store),
            \*                                ca (controller age), sa (statistics age)]
    Sh,     \* shadow instance (skips the reloads that leave the watched rule unchanged)
    n,      \* traffic events so far
    ok,     \* the last reload of the primary respected NoStatWasted / EqualKeepsController
    kept,   \* number of copies of the watched rule present without interruption since the shadow was synchronised
    h       \* history (scenario shapes for the conformance driver; hidden by VIEW)

vars == <<P, Sh, n, ok, kept, h>>
view == <<P, Sh, n, ok, kept>>

ToksOf(inst) == [i \in DOMAIN inst |-> inst[i].tok]
RECURSIVE SeqsUpTo(_, _)
SeqsUpTo(S, k) == IF k = 0 THEN {<< >>}
                  ELSE LET Q == SeqsUpTo(S, k - 1) IN Q \cup {Append(s, x) : s \in {q \in Q : Len(q) = k - 1}, x \in S}
Lists == SeqsUpTo(Toks, MaxLen)

\* the algorithm of the pinned code: new rules are served in order from the list of remaining old controllers
RECURSIVE GreedyFrom(_, _, _, _, _)
GreedyFrom(sc, old, rem, new, i) ==      \* rem: remaining old positions, in order
    IF i > Len(new) THEN << >>
    ELSE LET eq   == SelectSeq(rem, LAMBDA j : old[j] = new[i])
             st   == SelectSeq(rem, LAMBDA j : sc[old[j]] # "none" /\ sc[old[j]] = sc[new[i]])
             pick == IF eq # << >> THEN [c |-> eq[1], s |-> eq[1]]
                     ELSE IF st # << >> THEN [c |-> 0, s |-> st[1]]
                     ELSE [c |-> 0, s |-> 0]
             rest == SelectSeq(rem, LAMBDA j : j # pick.s)
         IN  <<pick>> \o GreedyFrom(sc, old, rest, new, i + 1)

\* what reuse algorithm `alg' does with the reload old -> new (sc: statistic-parameter classes of the tokens)
MatchSC(alg, sc, old, new) ==
    CASE alg = "statement"  -> ReuseStatement(sc, old, new)
      [] alg = "greedy"     -> GreedyFrom(sc, old, [j \in DOMAIN old |-> j], new, 1)
      [] alg = "byPosition" -> [i \in DOMAIN new |-> IF i \in DOMAIN old /\ old[i] = new[i] THEN [c |-> i, s |-> i]
                                                     ELSE IF i \in DOMAIN old /\ sc[old[i]] # "none" /\ sc[old[i]] = sc[new[i]]
                                                          THEN [c |-> 0, s |-> i] ELSE [c |-> 0, s |-> 0]]
      [] alg = "none"       -> [i \in DOMAIN new |-> [c |-> 0, s |-> 0]]
\* the same with the set trp of old positions whose controller is tripped at the moment of the reload: the relation of
\* the statement (and the other variants) does not look at it; "closedOnly" refuses the statistics of a tripped controller
MatchT(alg, sc, old, new, trp) ==
    IF alg = "closedOnly"
    THEN LET m == ReuseStatement(sc, old, new)
         IN  [i \in DOMAIN new |-> IF m[i].c = 0 /\ m[i].s \in trp THEN [c |-> 0, s |-> 0] ELSE m[i]]
    ELSE MatchSC(alg, sc, old, new)
TrippedOf(inst) == {j \in DOMAIN inst : inst[j].ca >= TripAge}
Match(alg, old, new) == MatchSC(alg, StatClass, old, new)

\* identity under which a rule sent through `path' is stored and compared
Key(path, t)      == IF Entry(path) \in Defaulting THEN Norm[t] ELSE t
KeysOf(inst)      == [i \in DOMAIN inst |-> inst[i].key]
KeyList(path, s)  == [i \in DOMAIN s |-> Key(path, s[i])]
\* what the reuse algorithm does with list `new' sent through `path' (it sees the stored keys)
MatchVia(alg, inst, path, new) == MatchT(alg, StatClass, KeysOf(inst), KeyList(path, new), TrippedOf(inst))

Apply(inst, path, new, m) ==
    [i \in DOMAIN new |-> [tok |-> new[i],
                           key |-> Key(path, new[i]),
                           ca  |-> IF m[i].c # 0 THEN inst[m[i].c].ca ELSE 0,
                           sa  |-> IF m[i].s # 0 THEN inst[m[i].s].sa ELSE 0]]
\* one load of list `new' through `path' on instance `inst' (sc: statistic-parameter classes)
LoadSC(alg, sc, inst, path, new) ==
    IF Skipped(path, ToksOf(inst), new) THEN inst ELSE Apply(inst, path, new, MatchT(alg, sc, KeysOf(inst), KeyList(path, new), TrippedOf(inst)))
Load(alg, inst, path, new) == LoadSC(alg, StatClass, inst, path, new)
\* one traffic event: every controller and every statistic absorbs it
Aged(sc, inst) == [i \in DOMAIN inst |-> [inst[i] EXCEPT !.ca = @ + 1, !.sa = IF sc[inst[i].tok] = "none" THEN 0 ELSE @ + 1]]

Init == P = << >> /\ Sh = << >> /\ n = 0 /\ ok = TRUE /\ kept = 0 /\ h = << >>

\* the clauses of the statement speak about the caller-visible tuples
Respected(old, new, m) == NoStatWasted(StatClass, old, new, m) /\ EqualKeepsController(old, new, m)

\* a load of list `new' through `path'; m = what the reuse algorithm does with it, resp = Respected(old, new, m)
ReloadWith(path, new, m, resp) ==
    LET old  == ToksOf(P)
        un   == Unchanged(old, new, Watched)
        skip == Skipped(path, old, new)
    IN  /\ P' = IF skip THEN P ELSE Apply(P, path, new, m)
        \* the shadow skips the reload if the watched rule is unchanged by it; a reload that introduces or removes the
        \* watched rule is no "reload of an unchanged rule": the comparison restarts from the primary's new state
        /\ Sh' = IF un THEN Sh ELSE P'
        /\ kept' = IF un THEN Min2(kept, Count(new, Watched)) ELSE Count(new, Watched)
        /\ ok' = (skip \/ resp)
        /\ h' = Append(h, [op |-> "reload", path |-> path, old |-> old, new |-> new])
        /\ UNCHANGED n

Reload(path, new) ==
    LET m == MatchVia(Reuse, P, path, new) IN ReloadWith(path, new, m, Respected(ToksOf(P), new, m))

\* \E path \in Paths : Reload(path, new), with the reuse relation evaluated once per distinct key list: the key list
\* depends on the entry point only, and only where Defaulting is not empty.  (TLC re-evaluates an action-level LET
\* definition at every use; a bound variable of a singleton set is evaluated once.)
ReloadAny(new) ==
    LET old == ToksOf(P)
        kW  == KeyList("whole", new)
        kR  == KeyList("res", new)
    IN  \E mW \in {MatchT(Reuse, StatClass, KeysOf(P), kW, TrippedOf(P))} :
        \E mR \in {IF kR = kW THEN mW ELSE MatchT(Reuse, StatClass, KeysOf(P), kR, TrippedOf(P))} :
        \E rW \in {Respected(old, new, mW)} :
        \E rR \in {IF kR = kW THEN rW ELSE Respected(old, new, mR)} :
        \E path \in Paths : IF Entry(path) = "res" THEN ReloadWith(path, new, mR, rR) ELSE ReloadWith(path, new, mW, rW)

Traffic ==
    /\ n < MaxTraffic
    /\ n' = n + 1
    /\ P'  = Aged(StatClass, P)
    /\ Sh' = Aged(StatClass, Sh)
    /\ h' = Append(h, [op |-> "traffic"])
    /\ UNCHANGED <<ok, kept>>

Next == Traffic \/ \E new \in Lists : ReloadAny(new)
Spec == Init /\ [][Next]_vars

---------------------------------------------------------------------------
(* The property (C14)                                                      *)

WatchedStates(inst) == LET s == SelectSeq(inst, LAMBDA e : e.tok = Watched) IN [i \in DOMAIN s |-> <<s[i].ca, s[i].sa>>]
\* reloading is behaviourally invisible for the unchanged rule: same state as if the reloads had not happened
InvisibleOn(p, sh, kp) ==
    LET a == WatchedStates(p)  b == WatchedStates(sh) IN
    /\ kp <= Len(a) /\ kp <= Len(b)
    /\ \A k \in 1..kp : a[k] = b[k]
ReloadInvisible == InvisibleOn(P, Sh, kept)
\* the watched rule is present in the shadow exactly when it is present in the primary
SamePresence == (Count(ToksOf(P), Watched) > 0) = (Count(ToksOf(Sh), Watched) > 0)
\* a modified rule with unchanged statistic parameters keeps its statistics; identical rules keep their controller
ReuseRespected == ok
\* the entry point is irrelevant: whatever list is sent next, every entry point that does not ignore the load hands
\* out the old controllers / statistics in the same way - also for positions loaded through the OTHER entry point
EntryPointAgnostic ==
    \A new \in Lists : \A p1, p2 \in Paths :
        (~Skipped(p1, ToksOf(P), new) /\ ~Skipped(p2, ToksOf(P), new) /\ KeyList(p1, new) # KeyList(p2, new))   \* (equal key lists: trivially alike)
            => MatchVia(Reuse, P, p1, new) = MatchVia(Reuse, P, p2, new)
\* in the design under test the store recognises a rule by the tuple the caller sent
IdentityIsCallerTuple == \A i \in DOMAIN P : P[i].key = P[i].tok
=============================================================================
