SPECIFICATION TSpec
CONSTANTS
  Toks = {}
  StatClass = "-"
  Watched = "X"
  MaxLen = 0
  MaxTraffic = 0
  Reuse = "statement"
  TripAge = 1
  Paths = {"whole", "wholeOther", "res"}
  Norm = "-"
  Defaulting = {}
CHECK_DEADLOCK FALSE
