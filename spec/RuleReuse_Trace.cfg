SPECIFICATION TSpec
CONSTANTS
  Toks = {}
  StatClass = "-"
  Watched = "X"
  MaxLen = 0
  MaxTraffic = 0
  Reuse = "statement"
CHECK_DEADLOCK FALSE
