\* WindowConc => Window, N = 2 slots: no constraint beyond the stall assumption of WindowConc
\* (checks/REFINE.py generates this and the other instances, the mutant runs and the runs with one restriction dropped)
SPECIFICATION RSpec
CONSTANTS
  N = 2
  BL = 1
  Writers = {1, 2}
  Readers = {3}
  Amt <- MCAmt
  WKind <- MCWKind
  RKind <- MCRKind
  K1 = "pass"
  K2 = "pass"
  K3 = "pass"
  K4 = "pass"
  CKinds = {"pass"}
  MaxRt = 60000
  IdleKinds = {}
  T0 = 1
  MaxT = 3
  ResetFirst = TRUE
  Recheck = TRUE
VIEW rview
INVARIANTS SeqArrayOK TypeOK
PROPERTIES RefInit RefinesAll ReadExact
CHECK_DEADLOCK FALSE
