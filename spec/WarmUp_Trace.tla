---------------------------- MODULE WarmUp_Trace ----------------------------
(***************************************************************************)
(* Validation of executions of a real warm-up flow rule (api.Entry under   *)
(* the virtual clock, one rule on a fresh resource) against property C11.  *)
(*                                                                         *)
(* Events (one ndjson line each; many traces are concatenated):            *)
(*   new   tr, t, tn, td, p, c     rule: Threshold tn/td, WarmUpPeriodSec p, *)
(*                                 WarmUpColdFactor c (as written)         *)
(*   tick  t                       the clock moved to t (ms)               *)
(*   req   b, ok                   one api.Entry(WithBatchCount(b)); an    *)
(*                                 admitted entry is exited at once        *)
(*                                                                         *)
(* VERDICT = the ENVELOPE of the statement (a relation, not a function):   *)
(*   E1 an admitted request never takes the aligned window above T         *)
(*   E2 in a second that follows IdleEnough idle seconds (or the load of   *)
(*      the rule) the window never exceeds ColdCap = ceil(T/cold) + 1      *)
(*   E3 (requests at the start of seconds only) after WarmEnough seconds   *)
(*      that each rejected something, nothing is rejected while the window *)
(*      has room under T                                                   *)
(*   E4 T >= 1: single-token demand is not left unserved for StarveBound   *)
(*      consecutive seconds                                                *)
(* CONFORMANCE (reported as a DRIFT line, never a verdict): every decision *)
(* equals the decision of the rational transcription WarmUpOps, either     *)
(* decision being accepted when cur + b equals the rational threshold.     *)
(* The abstract state follows the OBSERVED outcome.                        *)
(***************************************************************************)
EXTENDS WarmUpOps, TLC, Json

Trace == ndJsonDeserialize("trace.ndjson")
PK  == {"pass"}
BL  == 500
IV  == 1000

VARIABLES
    l, now, cfg,
    ref,        \* admitted tokens (WindowRef reference, 500 ms buckets)
    secs,       \* aligned second -> [req1, blk, adm]: single-token requests, rejections, admitted tokens
    sos,        \* every request so far arrived in the first half of its second
    stored, lastSync,    \* transcription state
    g, failed, drifted

tvars == <<l, now, cfg, ref, secs, sos, stored, lastSync, g, failed, drifted>>

Ev == Trace[l]
Has(r, f) == f \in DOMAIN r
IsEvent(op) == l <= Len(Trace) /\ Ev.op = op /\ l' = l + 1

Judge(ok, expected) ==
    IF failed \/ ok THEN failed' = failed
    ELSE /\ failed' = TRUE
         /\ PrintT("MISMATCH " \o ToString(g.tr) \o " " \o ToString(l) \o " " \o ToJson(expected))
Drift(ok, expected) ==
    IF drifted \/ failed \/ ok THEN drifted' = drifted
    ELSE /\ drifted' = TRUE
         /\ PrintT("DRIFT " \o ToString(g.tr) \o " " \o ToString(l) \o " " \o ToJson(expected))

NoSec == [req1 |-> 0, blk |-> 0, adm |-> 0]
SecAt(s) == IF s \in DOMAIN secs THEN secs[s] ELSE NoSec
\* number of consecutive seconds s, s - 1000, ... that satisfy P (at most lim)
Is(x, kind) == CASE kind = "idle"   -> x.req1 = 0 /\ x.blk = 0 /\ x.adm = 0
                  [] kind = "sat"    -> x.blk > 0
                  [] kind = "starve" -> x.req1 > 0 /\ x.adm = 0
RECURSIVE RunBack(_, _, _)
RunBack(s, lim, kind) == IF lim = 0 \/ s < 0 \/ ~Is(SecAt(s), kind) THEN 0 ELSE 1 + RunBack(s - 1000, lim - 1, kind)

TNew ==
    /\ IsEvent("new")
    /\ now' = Ev.t /\ Ev.t > 0
    /\ cfg' = [tn |-> Ev.tn, td |-> Ev.td, p |-> Ev.p, c |-> Ev.c]
    /\ ref' = << >> /\ secs' = << >> /\ sos' = TRUE
    /\ stored' = 0 /\ lastSync' = -1
    /\ g' = [tr |-> Ev.tr]
    /\ failed' = FALSE /\ drifted' = FALSE

TTick ==
    /\ IsEvent("tick")
    /\ Ev.t >= now
    /\ now' = Ev.t
    /\ ref' = Prune(ref, BL, 2 * IV, Ev.t)
    /\ secs' = [s \in { x \in DOMAIN secs : x >= Align(Ev.t, 1000) - 1000 * (4 * cfg.p + 12) } |-> secs[s]]
    /\ UNCHANGED <<cfg, sos, stored, lastSync, g, failed, drifted>>

TReq ==
    /\ IsEvent("req")
    /\ LET S    == Align(now, 1000)
           b    == Ev.b
           cur  == RefSum(ref, BL, now, IV, "pass")             \* tokens in the aligned window right now
           \* --- transcription ---
           sync == S > lastSync
           prev == RefPrevSum(ref, BL, now, BL, IV, "pass")
           gap  == IF lastSync < 0 THEN -1 ELSE (S - lastSync) \div 1000
           st   == IF sync THEN Sync(cfg, stored, gap, prev) ELSE stored
           al   == Allowed(cfg, st)
           \* --- envelope inputs ---
           sos2 == sos /\ (now % 1000 < 500)
           idleRun == RunBack(S - 1000, IdleEnough(cfg), "idle")
           cold == idleRun >= IdleEnough(cfg) \/ (\A s \in DOMAIN secs : s >= S)      \* long idle, or nothing before this second
           satRun == RunBack(S - 1000, WarmEnough(cfg), "sat")
           me   == SecAt(S)
           starveRun == IF me.adm = 0 THEN 1 + RunBack(S - 1000, StarveBound(cfg), "starve") ELSE 0
           E1 == (cur + b) * cfg.td <= cfg.tn
           E2 == cold => (cur + b) <= ColdCap(cfg)
           E3 == ~(sos2 /\ satRun >= WarmEnough(cfg) /\ (cur + b) * cfg.td <= cfg.tn)
           E4 == ~(b = 1 /\ cfg.tn >= cfg.td /\ starveRun >= StarveBound(cfg))
           why == IF Ev.ok THEN (IF ~E1 THEN "E1-above-threshold" ELSE "E2-not-cold-after-idle")
                           ELSE (IF ~E3 THEN "E3-not-warm-after-sustained-demand" ELSE "E4-starved")
           mine == [req1 |-> me.req1 + (IF b = 1 THEN 1 ELSE 0),
                    blk  |-> me.blk + (IF Ev.ok THEN 0 ELSE 1),
                    adm  |-> me.adm + (IF Ev.ok THEN b ELSE 0)]
       IN
       /\ Judge(IF Ev.ok THEN E1 /\ E2 ELSE E3 /\ E4,
                [why |-> why, window |-> cur, b |-> b, T |-> <<cfg.tn, cfg.td>>, coldcap |-> ColdCap(cfg), cold |-> cold,
                 satRun |-> satRun, starveRun |-> starveRun, model_allowed |-> <<al.n, al.d>>, model_tokens |-> st])
       /\ Drift(IF ~Defined(al) THEN Ev.ok
                ELSE IF OnEdge(al, cur, b) THEN TRUE
                ELSE Ev.ok = ~Blocks(al, cur, b),
                [window |-> cur, b |-> b, model_allowed |-> <<al.n, al.d>>, model_tokens |-> st, prev |-> prev, gap |-> gap])
       /\ stored' = st
       /\ lastSync' = IF sync THEN S ELSE lastSync
       /\ ref' = IF Ev.ok THEN RefAdd(ref, PK, BL, now, "pass", b) ELSE ref
       /\ secs' = [s \in DOMAIN secs \cup {S} |-> IF s = S THEN mine ELSE secs[s]]
       /\ sos' = sos2
    /\ UNCHANGED <<now, cfg, g>>

TInit == /\ l = 1 /\ now = 0 /\ cfg = [tn |-> 1, td |-> 1, p |-> 1, c |-> 3] /\ ref = << >> /\ secs = << >> /\ sos = TRUE
         /\ stored = 0 /\ lastSync = -1 /\ g = [tr |-> 0] /\ failed = FALSE /\ drifted = FALSE
TNext == TNew \/ TTick \/ TReq
TSpec == TInit /\ [][TNext]_tvars
=============================================================================
