---------------------------- MODULE WarmUp_Trace ----------------------------
(***************************************************************************)
(* Validation of executions of a real warm-up flow rule (api.Entry under   *)
(* the virtual clock, one rule on a fresh resource) against property C11.  *)
(*                                                                         *)
(* Events (one ndjson line each; many traces are concatenated):            *)
(*   new   tr, t, tn, td, p, c     rule: Threshold tn/td, WarmUpPeriodSec p, *)
(*                                 WarmUpColdFactor c (as written)         *)
(*   tick  t                       the clock moved to t (ms)               *)
(*   req   b, ok                   one api.Entry(WithBatchCount(b)); an    *)
(*                                 admitted entry is exited at once        *)
(*                                                                         *)
(* VERDICT = the ENVELOPE of the statement (a relation, not a function):   *)
(*   E1 an admitted request never takes the aligned window above T         *)
(*   E2 in a second that follows IdleEnough idle seconds (or the load of   *)
(*      the rule) the window never exceeds ColdCap = ceil(T/cold) + 1      *)
(*   E3 (requests at the start of seconds only) after WarmEnough seconds   *)
(*      that each rejected something, nothing is rejected while the window *)
(*      has room under T                                                   *)
(*   E4 T >= 1: single-token demand is not left unserved for StarveBound   *)
(*      consecutive seconds                                                *)
(*                                                                         *)
(* THROTTLING rules (new.cb = 1, MaxQueueingTimeMs new.q): the same rule   *)
(* parameters, the threshold now SPACES the admissions.  Single-token      *)
(* requests only; times in microseconds since the start of the trace:      *)
(*   preq  t, ok, w      one api.Entry at t; admitted after waiting w (the *)
(*                       sleep requested from the virtual clock), or not   *)
(*   prej  n, t0, t1     n consecutive requests at t0 .. t1 (one aligned   *)
(*                       second, evenly spread), every one rejected        *)
(* The same envelope, with the admitted rate read as pacing (tokens are    *)
(* counted in the aligned second of their ADMISSION time t + w):           *)
(*   E1 RateOK: an aligned second never holds more than ceil(T) admissions *)
(*   E2 in a cold second (as above) never more than ColdCap                *)
(*   E3 after WarmEnough whole seconds of SATURATING demand the full       *)
(*      threshold is in force: a request is rejected only within 1/T of    *)
(*      the last admission, and is never made to wait beyond that.         *)
(*      Saturating = a run of requests that each found the rule busy       *)
(*      (rejected, or admitted only after a wait) and are never further    *)
(*      apart than the time a request may queue: then every admission is   *)
(*      taken at the very instant it is due, the admissions of such a      *)
(*      second are exactly the spacing 1/allowed (WarmUpOps!Paced, the     *)
(*      assumption under which TLC proves WarmAfterSat for throttling      *)
(*      rules).  An admission without any wait ends the run, unless it     *)
(*      comes less than half a spacing 1/T after a request of the run that *)
(*      found the rule busy (the threshold rose at the second boundary and *)
(*      the admission was taken less than one spacing late: the second     *)
(*      still holds floor(allowed) admissions or more).                    *)
(*   E4 as above                                                           *)
(* The transcription state is advanced the same way (previous QPS = tokens *)
(* admitted in the shifted 1 s view) and reported with a mismatch.         *)
(*                                                                         *)
(* STATISTIC INTERVAL (new.si = StatIntervalInMs, absent / 0 = 1000): the  *)
(* threshold counts per statistic window of si ms.  "The window" in E1, E2 *)
(* E3 is the window the rule's statistic reads (buckets of                 *)
(* WarmUpOps!BucketLen, span si); E2 still speaks of the first SECOND      *)
(* after IdleEnough idle seconds (the calculator synchronises per second;  *)
(* IdleEnough covers a window longer than a second); in E3 a second is     *)
(* saturated when every statistic window that begins in it refused        *)
(* something (si < 1000 divides 1000; no "first half" condition: a single  *)
(* bucket does not slide).  Transcription: previous-window QPS = tokens *  *)
(* 1000 / si; none for the single-bucket private statistic (si < 500).     *)
(*                                                                         *)
(* RELOADS (flow.LoadRules / LoadRulesOfResource in the middle of the      *)
(* history):                                                               *)
(*   reload t, tn, td, p, c, cb, q   the rule is replaced at t (ms)        *)
(* An identical rule changes nothing (its state is kept: C14).  A changed  *)
(* rule opens a new EPOCH; the clauses are restated for the rule in force  *)
(* (WarmUpOps, "a rule REPLACED under traffic"):                           *)
(*   E1 / E2 count the tokens admitted since the reload, against the NEW   *)
(*      threshold / cold cap (idle seconds are a fact about the demand and *)
(*      are counted across the reload)                                     *)
(*   E3 / E4 count saturated / starved seconds from the reload             *)
(*   E5 (epochs after a reload only) the window never exceeds ProgCap:     *)
(*      what the history of the resource justifies - progress ju / LC =    *)
(*      the fraction the old rule was justified to have reached, plus      *)
(*      1/period for every second with an admission since (the second      *)
(*      before the reload included), or the absolute rate the old rule was *)
(*      justified to serve; 0 again after IdleEnough idle seconds.  A      *)
(*      fresh (cold) start and a proportional carry-over both pass; the    *)
(*      full new threshold at once after cold traffic only does not.       *)
(* Transcription: the changed rule gets a fresh calculator (no tokens,     *)
(* never synchronised) and keeps the statistic.                            *)
(*                                                                         *)
(* CONFORMANCE (reported as a DRIFT line, never a verdict): every decision *)
(* equals the decision of the rational transcription WarmUpOps, either     *)
(* decision being accepted when cur + b equals the rational threshold.     *)
(* The abstract state follows the OBSERVED outcome.                        *)
(***************************************************************************)
EXTENDS WarmUpOps, TLC, Json

Trace == ndJsonDeserialize("trace.ndjson")
PK  == {"pass"}
BL  == 500
IV  == 1000

VARIABLES
    l, now, cfg,
    ref,        \* admitted tokens (WindowRef reference, 500 ms buckets)
    secs,       \* aligned second -> [req1, blk, adm]: single-token requests, rejections, admitted tokens
    sos,        \* every request so far arrived in the first half of its second
    stored, lastSync,    \* transcription state
    la,         \* throttling: time of the last admission (microseconds; -1: none)
    dfrom, dlast,        \* throttling: the current run of saturating demand began at dfrom and reaches dlast (-1: none)
    eref,       \* admitted tokens since the last changing reload (= ref before any reload)
    ep,         \* epoch of the rule in force: [n reloads so far, s aligned second of the reload, lo first second that counts
                \* for E3 / E4, base tokens admitted in second s before the reload, ju / LC justified progress at the start of
                \* second js, ra justified absolute rate carried over]
    g, failed, drifted

tvars == <<l, now, cfg, ref, secs, sos, stored, lastSync, la, dfrom, dlast, eref, ep, g, failed, drifted>>

BLc == BucketLen(cfg)        \* the statistic of the rule in force: bucket length and window
IVc == Si(cfg)
WPS == IF IVc < 1000 THEN 1000 \div IVc ELSE 1        \* statistic windows that begin in a second
Ev == Trace[l]
Has(r, f) == f \in DOMAIN r
IsEvent(op) == l <= Len(Trace) /\ Ev.op = op /\ l' = l + 1

Judge(ok, expected) ==
    IF failed \/ ok THEN failed' = failed
    ELSE /\ failed' = TRUE
         /\ PrintT("MISMATCH " \o ToString(g.tr) \o " " \o ToString(l) \o " " \o ToJson(expected))
Drift(ok, expected) ==
    IF drifted \/ failed \/ ok THEN drifted' = drifted
    ELSE /\ drifted' = TRUE
         /\ PrintT("DRIFT " \o ToString(g.tr) \o " " \o ToString(l) \o " " \o ToJson(expected))

NoSec == [req1 |-> 0, blk |-> 0, adm |-> 0, bw |-> {}]        \* (bw: the windows of the second that refused something)
SecAt(s) == IF s \in DOMAIN secs THEN secs[s] ELSE NoSec
\* number of consecutive seconds s, s - 1000, ... that satisfy P (at most lim)
Is(x, kind) == CASE kind = "idle"   -> x.req1 = 0 /\ x.blk = 0 /\ x.adm = 0
                  [] kind = "sat"    -> x.blk > 0 /\ (IVc >= 1000 \/ Cardinality(x.bw) >= WPS)
                  [] kind = "starve" -> x.req1 > 0 /\ x.adm = 0
RECURSIVE RunBackLo(_, _, _, _)
RunBackLo(s, lim, kind, lo) == IF lim = 0 \/ s < lo \/ ~Is(SecAt(s), kind) THEN 0 ELSE 1 + RunBackLo(s - 1000, lim - 1, kind, lo)
RunBack(s, lim, kind) == RunBackLo(s, lim, kind, IF kind = "idle" THEN 0 ELSE ep.lo)    \* (sat / starve: since the reload)

\* ---- justified warm-up progress (WarmUpOps!ProgCap), in units of 1/LC ----
LC == 60                                  \* every period of a trace with reloads divides LC
NoEpoch == [n |-> 0, s |-> 0, lo |-> 0, base |-> 0, ju |-> 0, js |-> 0, ra |-> RZero]
Credit(c) == IF LC % c.p = 0 THEN LC \div c.p ELSE LC            \* (a period that does not divide LC: everything is justified)
\* progress justified at the start of aligned second S: fold the seconds js <= s < S that admitted something
BusySecs(a, b) == Cardinality({ s \in DOMAIN secs : s >= a /\ s < b /\ secs[s].adm > 0 })
JuAt(S) == IF RunBackLo(S - 1000, IdleEnough(cfg), "idle", 0) >= IdleEnough(cfg) THEN 0
           ELSE Min2(LC, ep.ju + BusySecs(ep.js, S) * Credit(cfg))
RaAt(S) == IF RunBackLo(S - 1000, IdleEnough(cfg), "idle", 0) >= IdleEnough(cfg) THEN RZero ELSE ep.ra
\* tokens admitted in aligned second S before the reload (throttling traces count per aligned second)
BaseAt(S) == IF ep.n > 0 /\ S = ep.s THEN ep.base ELSE 0

TNew ==
    /\ IsEvent("new")
    /\ now' = Ev.t /\ Ev.t > 0
    /\ cfg' = [tn |-> Ev.tn, td |-> Ev.td, p |-> Ev.p, c |-> Ev.c,
               cb |-> IF Has(Ev, "cb") THEN Ev.cb ELSE 0, q |-> IF Has(Ev, "q") THEN Ev.q ELSE 0,
               si |-> IF Has(Ev, "si") /\ Ev.si > 0 THEN Ev.si ELSE 1000]
    /\ ref' = << >> /\ secs' = << >> /\ sos' = TRUE
    /\ stored' = 0 /\ lastSync' = -1
    /\ la' = -1 /\ dfrom' = -1 /\ dlast' = -1
    /\ eref' = << >> /\ ep' = NoEpoch
    /\ g' = [tr |-> Ev.tr]
    /\ failed' = FALSE /\ drifted' = FALSE

TTick ==
    /\ IsEvent("tick")
    /\ Ev.t >= now
    /\ now' = Ev.t
    /\ ref' = Prune(ref, BLc, 2 * IVc, Ev.t)
    /\ eref' = Prune(eref, BLc, 2 * IVc, Ev.t)
    \* (fold the progress before old seconds are forgotten)
    /\ ep' = [ep EXCEPT !.ju = JuAt(Align(Ev.t, 1000)), !.js = Align(Ev.t, 1000), !.ra = RaAt(Align(Ev.t, 1000))]
    /\ secs' = [s \in { x \in DOMAIN secs : x >= Align(Ev.t, 1000) - 1000 * (4 * cfg.p + 12 + WinSecs(cfg)) } |-> secs[s]]
    /\ UNCHANGED <<cfg, sos, stored, lastSync, la, dfrom, dlast, g, failed, drifted>>

\* the rule is replaced (LoadRules / LoadRulesOfResource)
TReload ==
    /\ IsEvent("reload")
    /\ Ev.t >= now /\ now' = Ev.t
    /\ LET c2 == [tn |-> Ev.tn, td |-> Ev.td, p |-> Ev.p, c |-> Ev.c, cb |-> Ev.cb, q |-> Ev.q,
                  si |-> IF Has(Ev, "si") /\ Ev.si > 0 THEN Ev.si ELSE 1000]
           S  == Align(Ev.t, 1000)
           ju == JuAt(S)
           \* the demand of the second before the reload counts for the new rule as well
           recent == SecAt(S).adm > 0 \/ SecAt(S - 1000).adm > 0
       IN  IF c2 = cfg
           THEN UNCHANGED <<cfg, ref, secs, sos, stored, lastSync, la, dfrom, dlast, eref, ep>>      \* identical: state kept
           ELSE /\ cfg' = c2
                /\ ep' = [n |-> ep.n + 1, s |-> S, lo |-> IF S \in DOMAIN secs THEN S + 1000 ELSE S, base |-> SecAt(S).adm,
                          ju |-> Min2(LC, ju + (IF recent THEN Credit(c2) ELSE 0)), js |-> S,
                          ra |-> ProgRate(cfg, ju, LC, RaAt(S))]
                /\ eref' = << >>
                /\ stored' = 0 /\ lastSync' = -1                 \* fresh calculator
                /\ la' = -1 /\ dfrom' = -1 /\ dlast' = -1         \* fresh checker
                /\ UNCHANGED <<ref, secs, sos>>
    /\ UNCHANGED <<g, failed, drifted>>

TReq ==
    /\ IsEvent("req")
    /\ ~Throttled(cfg)
    /\ LET S    == Align(now, 1000)
           b    == Ev.b
           cur  == RefSum(eref, BLc, now, IVc, "pass")            \* tokens in the aligned window right now (admitted under the rule in force)
           curAll == RefSum(ref, BLc, now, IVc, "pass")           \* ... all of them: what the statistic of the rule holds
           \* --- transcription ---
           sync == S > lastSync
           prev == RefPrevSum(ref, BLc, now, BLc, IVc, "pass")
           gap  == IF lastSync < 0 THEN -1 ELSE (S - lastSync) \div 1000
           st   == IF sync THEN SyncQ(cfg, stored, gap, Qps(cfg, prev)) ELSE stored
           al   == Allowed(cfg, st)
           \* --- envelope inputs ---
           sos2 == sos /\ (IVc < 1000 \/ now % 1000 < 500)
           idleRun == RunBack(S - 1000, IdleEnough(cfg), "idle")
           cold == idleRun >= IdleEnough(cfg) \/ (\A s \in DOMAIN secs : s >= S)      \* long idle, or nothing before this second
           satRun == RunBack(S - 1000, WarmEnough(cfg), "sat")
           me   == SecAt(S)
           starveRun == IF me.adm = 0 THEN 1 + RunBack(S - 1000, StarveBound(cfg), "starve") ELSE 0
           E1 == (cur + b) * cfg.td <= cfg.tn
           E2 == cold => (cur + b) <= ColdCap(cfg)
           E3 == ~(sos2 /\ satRun >= WarmEnough(cfg) /\ (cur + b) * cfg.td <= cfg.tn)
           E4 == ~(b = 1 /\ cfg.tn >= cfg.td /\ starveRun >= StarveBound(cfg))
           cap == ProgCap(cfg, JuAt(S), LC, RaAt(S))
           E5 == (ep.n > 0 /\ IVc = 1000) => (cur + b) <= cap
           why == IF Ev.ok THEN (IF ~E1 THEN "E1-above-threshold" ELSE IF ~E2 THEN "E2-not-cold-after-idle"
                                 ELSE "E5-warmer-than-the-history-justifies")
                           ELSE (IF ~E3 THEN "E3-not-warm-after-sustained-demand" ELSE "E4-starved")
           mine == [req1 |-> me.req1 + (IF b = 1 THEN 1 ELSE 0),
                    blk  |-> me.blk + (IF Ev.ok THEN 0 ELSE 1),
                    adm  |-> me.adm + (IF Ev.ok THEN b ELSE 0),
                    bw   |-> IF Ev.ok THEN me.bw ELSE me.bw \cup {(now % 1000) \div IVc}]
       IN
       /\ Judge(IF Ev.ok THEN E1 /\ E2 /\ E5 ELSE E3 /\ E4,
                [why |-> why, window |-> cur, b |-> b, T |-> <<cfg.tn, cfg.td>>, coldcap |-> ColdCap(cfg), cold |-> cold,
                 satRun |-> satRun, starveRun |-> starveRun, model_allowed |-> <<al.n, al.d>>, model_tokens |-> st]
                @@ (IF ep.n > 0 THEN [epoch |-> ep.n, rule |-> <<cfg.tn, cfg.td, cfg.p, cfg.c, cfg.cb>>, progcap |-> cap,
                                      progress |-> <<JuAt(S), LC>>, carried_rate |-> <<RaAt(S).n, RaAt(S).d>>] ELSE << >>))
       /\ Drift(IF IVc < 500 THEN TRUE            \* (private single-bucket statistic: no transcription)
                ELSE IF ~Defined(al) THEN Ev.ok
                ELSE IF OnEdge(al, curAll, b) THEN TRUE
                ELSE Ev.ok = ~Blocks(al, curAll, b),
                [window |-> curAll, b |-> b, model_allowed |-> <<al.n, al.d>>, model_tokens |-> st, prev |-> prev, gap |-> gap])
       /\ stored' = st
       /\ lastSync' = IF sync THEN S ELSE lastSync
       /\ ref' = IF Ev.ok THEN RefAdd(ref, PK, BLc, now, "pass", b) ELSE ref
       /\ eref' = IF Ev.ok THEN RefAdd(eref, PK, BLc, now, "pass", b) ELSE eref
       /\ secs' = [s \in DOMAIN secs \cup {S} |-> IF s = S THEN mine ELSE secs[s]]
       /\ sos' = sos2
    /\ UNCHANGED <<now, cfg, la, dfrom, dlast, ep, g>>

---------------------------------------------------------------------------
(* throttling rules *)
US == 1000000
DenseGap == cfg.q * 1000                 \* microseconds a request may queue
SecUs(t) == (t \div US) * US
UpUs(t)  == ((t + US - 1) \div US) * US
\* whole aligned seconds of saturating demand that precede the second of t, for a run that began at df
SatRunT(df, t) == IF df >= 0 /\ SecUs(t) >= UpUs(df) THEN (SecUs(t) - UpUs(df)) \div US ELSE 0
\* a request at t that finds the rule busy continues the run of saturating demand
Cont(t) == cfg.q > 0 /\ dlast >= 0 /\ t - dlast <= DenseGap
\* transcription: stored tokens after the sync executed by a request at tms (milliseconds)
PSync(tms) == LET S == Align(tms, 1000)
                  prev == RefPrevSum(ref, BLc, tms, BLc, IVc, "pass")
                  gap  == IF lastSync < 0 THEN -1 ELSE (S - lastSync) \div 1000
              IN  IF S > lastSync THEN Sync(cfg, stored, gap, prev) ELSE stored
ColdAt(S) == RunBack(S - 1000, IdleEnough(cfg), "idle") >= IdleEnough(cfg) \/ (\A s \in DOMAIN secs : s >= S)
StarveAt(S) == IF SecAt(S).adm = 0 THEN 1 + RunBack(S - 1000, StarveBound(cfg), "starve") ELSE 0

TPReq ==
    /\ IsEvent("preq")
    /\ Throttled(cfg)
    /\ LET t    == Ev.t
           tms  == t \div 1000
           S    == Align(tms, 1000)
           ta   == t + Ev.w                              \* admission time
           tams == ta \div 1000
           SA   == Align(tams, 1000)
           cur  == SecAt(SA).adm - BaseAt(SA)            \* admitted so far (under the rule in force) in the aligned second of the admission
           st   == PSync(tms)
           al   == Allowed(cfg, st)
           waited == ~Ev.ok \/ Ev.w > 0                  \* the request found the rule busy
           onTime == Cont(t) /\ (t - dlast) * cfg.tn * 2 <= US * cfg.td     \* unwaited, yet (almost) at the instant it was due
           df   == IF waited THEN (IF Cont(t) THEN dfrom ELSE t) ELSE (IF onTime THEN dfrom ELSE -1)
           satRun == SatRunT(df, t)
           warm == satRun >= WarmEnough(cfg)
           cold == SA = S /\ ColdAt(S)
           starveRun == StarveAt(S)
           E1 == RateOK(cfg, cur + 1)
           E2 == cold => (cur + 1) <= ColdCap(cfg)
           E3a == (warm /\ Ev.w > 0) => (la >= 0 /\ NotAfter(cfg, ta - la))
           E3r == warm => (cfg.tn < cfg.td \/ (la >= 0 /\ Within(cfg, t - la)))
           E4 == ~(cfg.tn >= cfg.td /\ starveRun >= StarveBound(cfg))
           cap == ProgCap(cfg, JuAt(SA), LC, RaAt(SA))
           E5 == ep.n > 0 => (cur + 1) <= cap
           why == IF Ev.ok THEN (IF ~E1 THEN "E1-above-threshold" ELSE IF ~E2 THEN "E2-not-cold-after-idle"
                                 ELSE IF ~E5 THEN "E5-warmer-than-the-history-justifies"
                                 ELSE "E3-not-warm-after-sustained-demand")
                           ELSE (IF ~E3r THEN "E3-not-warm-after-sustained-demand" ELSE "E4-starved")
           upd(s) == [req1 |-> SecAt(s).req1 + (IF s = S THEN 1 ELSE 0),
                      blk  |-> SecAt(s).blk + (IF s = S /\ waited THEN 1 ELSE 0),
                      adm  |-> SecAt(s).adm + (IF s = SA /\ Ev.ok THEN 1 ELSE 0), bw |-> SecAt(s).bw]
       IN
       /\ Ev.w >= 0 /\ tms >= now
       /\ Judge(IF Ev.ok THEN E1 /\ E2 /\ E5 /\ E3a ELSE E3r /\ E4,
                [why |-> why, window |-> cur, b |-> 1, T |-> <<cfg.tn, cfg.td>>, coldcap |-> ColdCap(cfg), cold |-> cold,
                 satRun |-> satRun, starveRun |-> starveRun, model_allowed |-> <<al.n, al.d>>, model_tokens |-> st,
                 t |-> t, w |-> Ev.w, last_admission |-> la, q |-> cfg.q]
                @@ (IF ep.n > 0 THEN [epoch |-> ep.n, rule |-> <<cfg.tn, cfg.td, cfg.p, cfg.c, cfg.cb>>, progcap |-> cap,
                                      progress |-> <<JuAt(SA), LC>>] ELSE << >>))
       /\ stored' = st
       /\ lastSync' = Max2(lastSync, S)
       /\ ref' = IF Ev.ok THEN RefAdd(ref, PK, BLc, tams, "pass", 1) ELSE ref
       /\ secs' = [s \in DOMAIN secs \cup {S} \cup (IF Ev.ok THEN {SA} ELSE {}) |-> IF s \in {S, SA} THEN upd(s) ELSE secs[s]]
       /\ la' = IF Ev.ok THEN ta ELSE la
       /\ dfrom' = df
       /\ dlast' = IF waited THEN (IF Ev.ok THEN ta ELSE t) ELSE (IF onTime THEN t ELSE -1)
       /\ eref' = IF Ev.ok THEN RefAdd(eref, PK, BLc, tams, "pass", 1) ELSE eref
    /\ UNCHANGED <<now, cfg, sos, ep, g, drifted>>

TPRej ==
    /\ IsEvent("prej")
    /\ Throttled(cfg)
    /\ LET t0   == Ev.t0
           t1   == Ev.t1
           tms  == t0 \div 1000
           S    == Align(tms, 1000)
           st   == PSync(tms)
           al   == Allowed(cfg, st)
           inner == cfg.q > 0 /\ (t1 - t0) <= (Ev.n - 1) * DenseGap       \* the n requests themselves are dense
           cont == Cont(t0) /\ inner
           df   == IF cont THEN dfrom ELSE IF inner THEN t0 ELSE t1
           satRun == SatRunT(df, t1)
           warm == satRun >= WarmEnough(cfg)
           starveRun == StarveAt(S)
           E3r == warm => (cfg.tn < cfg.td \/ (la >= 0 /\ Within(cfg, t1 - la)))
           E4 == ~(cfg.tn >= cfg.td /\ starveRun >= StarveBound(cfg))
           mine == [req1 |-> SecAt(S).req1 + Ev.n, blk |-> SecAt(S).blk + Ev.n, adm |-> SecAt(S).adm, bw |-> SecAt(S).bw]
       IN
       /\ Ev.n >= 1 /\ t1 >= t0 /\ tms >= now /\ Align(t1 \div 1000, 1000) = S
       /\ Judge(E3r /\ E4,
                [why |-> IF ~E3r THEN "E3-not-warm-after-sustained-demand" ELSE "E4-starved", window |-> SecAt(S).adm, b |-> 1,
                 T |-> <<cfg.tn, cfg.td>>, coldcap |-> ColdCap(cfg), cold |-> FALSE, satRun |-> satRun, starveRun |-> starveRun,
                 model_allowed |-> <<al.n, al.d>>, model_tokens |-> st, t |-> t1, rejected |-> Ev.n, last_admission |-> la,
                 q |-> cfg.q])
       /\ stored' = st
       /\ lastSync' = Max2(lastSync, S)
       /\ secs' = [s \in DOMAIN secs \cup {S} |-> IF s = S THEN mine ELSE secs[s]]
       /\ dfrom' = df
       /\ dlast' = t1
    /\ UNCHANGED <<now, cfg, ref, sos, la, eref, ep, g, drifted>>

TInit == /\ l = 1 /\ now = 0 /\ cfg = [tn |-> 1, td |-> 1, p |-> 1, c |-> 3, cb |-> 0, q |-> 0, si |-> 1000] /\ ref = << >> /\ secs = << >> /\ sos = TRUE
         /\ stored = 0 /\ lastSync = -1 /\ la = -1 /\ dfrom = -1 /\ dlast = -1 /\ eref = << >> /\ ep = NoEpoch
         /\ g = [tr |-> 0] /\ failed = FALSE /\ drifted = FALSE
TNext == TNew \/ TTick \/ TReload \/ TReq \/ TPReq \/ TPRej
TSpec == TInit /\ [][TNext]_tvars
=============================================================================
