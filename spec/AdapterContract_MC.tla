------------------------- MODULE AdapterContract_MC -------------------------
(* Bounded instance of AdapterContract: K concurrent requests over every class of entry point. *)
EXTENDS AdapterContract
MCClasses == { [wraps |-> w, errsig |-> s, fb |-> f, side |-> d] : w \in BOOLEAN, s \in BOOLEAN, f \in {"custom", "default"}, d \in Sides }
\* -1: no system rule; 0: always violated; limit = K can never be violated when an entry is asked (it needs K requests
\* in flight and one more asking)
MCLimits == (-1)..(K - 1)
\* Requests are interchangeable (Next treats every r alike, no invariant names a particular request): it is enough to
\* explore the class assignments that are sorted by Rank - every other initial state is a permutation of one of them.
Rank(c) == (IF c.wraps THEN 1 ELSE 0) + (IF c.errsig THEN 2 ELSE 0) + (IF c.fb = "custom" THEN 4 ELSE 0) + (IF c.side = "server" THEN 8 ELSE 0)
           + (CASE c.outcome = "ok" -> 0 [] c.outcome = "err" -> 16 [] OTHER -> 32)
           + (CASE c.layer = "node" -> 0 [] c.layer = "pre" -> 64 [] OTHER -> 128)
MCInit == Init /\ \A r \in 1..(K - 1) : Rank(cls[r]) <= Rank(cls[r + 1])
MCSpec == MCInit /\ [][Next]_vars
=============================================================================
