------------------------- MODULE AdapterContract_MC -------------------------
(* Bounded instance of AdapterContract: K concurrent requests over every class of entry point. *)
EXTENDS AdapterContract
MCClasses == { [wraps |-> w, errsig |-> s, fb |-> f] : w \in BOOLEAN, s \in BOOLEAN, f \in {"custom", "default"} }
=============================================================================
