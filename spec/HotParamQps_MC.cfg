SPECIFICATION Spec
CONSTANTS
  Values = {"a", "b"}
  Cf <- MCCf
  MCMode = "reject"
  MCT = 2
  MCB = 1
  MCD = 1000
  MCMQ = 0
  MCItemsSel = 2
  PCap = 2
  CapBase = 1
  CapMax = 2
  Floods = {}
  Mutant = ""
  Batches = {1, 3}
  Steps = {500, 1001}
  MaxT = 2502
  MaxOps = 4
VIEW view
INVARIANTS TypeOK E1OK E2OK E3OK P1OK P2OK NoArgOK IndepOK KeepOK FloodFreshOK NoHang CachesAgree CapOK
CHECK_DEADLOCK FALSE
