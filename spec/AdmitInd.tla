------------------------------- MODULE AdmitInd -------------------------------
(***************************************************************************)
(* k-callers clause of C04 (and, with Batch > 1, of C02) as an INDUCTIVE   *)
(* invariant discharged by Apalache for an unbounded threshold N and an    *)
(* unbounded batch size (growth item 3 of DESIGN section 4): callers check *)
(* "in-flight + b <= N", yield, then record.  With k callers the recorded  *)
(* amount never exceeds N + (k-1) * B.  The callers set is fixed (k = 4);  *)
(* N and B are symbolic naturals.                                          *)
(***************************************************************************)
EXTENDS Integers, FiniteSets

CONSTANTS
    \* @type: Int;
    N,
    \* @type: Int;
    B,
    \* @type: Set(Int);
    Callers

VARIABLES
    \* @type: Int;
    used,
    \* @type: Int -> Str;
    pc

K == Cardinality(Callers)
Rec == { c \in Callers : pc[c] = "rec" }
In  == { c \in Callers : pc[c] = "in" }

CInit == N \in Nat /\ B \in Nat /\ B >= 1 /\ Callers = {1, 2, 3, 4}

TypeOK == used \in Int /\ pc \in [Callers -> {"idle", "rec", "in", "done"}]

Init == used = 0 /\ pc = [c \in Callers |-> "idle"]

Chk(c) == /\ pc[c] = "idle"
          /\ pc' = [pc EXCEPT ![c] = IF used + B <= N THEN "rec" ELSE "done"]
          /\ UNCHANGED used
Record(c) == pc[c] = "rec" /\ used' = used + B /\ pc' = [pc EXCEPT ![c] = "in"]
Exit(c) == pc[c] = "in" /\ used' = used - B /\ pc' = [pc EXCEPT ![c] = "idle"]
Retry(c) == pc[c] = "done" /\ pc' = [pc EXCEPT ![c] = "idle"] /\ UNCHANGED used
Next == \E c \in Callers : Chk(c) \/ Record(c) \/ Exit(c) \/ Retry(c)

\* the property: the excess over N is at most (k-1) times the batch
Bound == used <= N + (K - 1) * B

\* inductive strengthening: what is recorded plus what is about to be recorded stays below N + (k-1)*B,
\* and the recorded amount is exactly B per caller that is "in"
IndInv == /\ TypeOK
          /\ used = Cardinality(In) * B
          /\ used + Cardinality(Rec) * B <= N + (K - 1) * B
IndInit == IndInv
\* vacuity guard: a bound that is one batch too tight does NOT follow (Apalache must report a counterexample)
TooTight == used <= N + (K - 2) * B
=============================================================================
