--------------------------- MODULE WindowConcProp ---------------------------
(***************************************************************************)
(* Property C09 over the operation-level observables of a concurrent       *)
(* execution of the sliding window: a set `ops' of records                 *)
(*   [kind : "add"|"read", ev, ts, n, inv, ret, retNow, val, over]         *)
(* ev = the statistic the operation records into / reads (see below), ts = *)
(* time stamp of the operation (the clock when it was invoked), n =        *)
(* amount of an add, inv / ret = positions of invocation and return in the *)
(* total order of the execution (ret = 0: still pending), retNow = clock   *)
(* at return, val = value returned by a read, over = the add overlapped a  *)
(* roll-over of its own slot performed by another goroutine (for a read:   *)
(* it overlapped a roll-over of any slot by another goroutine).            *)
(*                                                                         *)
(* Every clause of the property is PER STATISTIC of the bucket:            *)
(*   counters   add.ev = read.ev \in {"pass","block","complete","error",   *)
(*              "rt"}: the read returns the SUM over its window;           *)
(*   "minrt"    read of the smallest amount recorded by the "rt" adds of   *)
(*              its window (AddRt keeps a per-bucket minimum), maxrt when  *)
(*              there is none;                                             *)
(*   "maxconc"  read of the largest amount recorded by the "conc" adds     *)
(*              (UpdateConcurrency) of its window, 0 when there is none.   *)
(* A roll-over expires the bucket as a whole: whatever statistic a recorder *)
(* fed, its amount must be invisible to every later window.                *)
(* Used by WindowConc (model level) and WindowConc_Trace (real executions).*)
(***************************************************************************)
EXTENDS Integers, FiniteSets

Align(t, bl) == t - (t % bl)

RECURSIVE SumN(_)
SumN(S) == IF S = {} THEN 0 ELSE LET a == CHOOSE x \in S : TRUE IN a.n + SumN(S \ {a})

\* lowest bucket start of the window of a whole-array read stamped ts (n buckets of length bl)
Lo(ts, n, bl) == Align(ts, bl) - n * bl + bl

\* an add that was still running (or returned) when the clock had entered a later bucket
Straddles(a, r, bl) ==
    LET endClock == IF a.ret # 0 /\ a.ret < r.ret THEN a.retNow ELSE r.retNow IN endClock >= Align(a.ts, bl) + bl

\* may the amount of add a legitimately be part of what read r returns?
Countable(a, r, n, bl) ==
    /\ a.inv < r.ret                                   \* recorded (at least invoked) before the read returned
    /\ \/ Align(a.ts, bl) >= Lo(r.ts, n, bl)           \* not expired for this read (N > 1: credited to its own bucket only)
       \/ n = 1 /\ Straddles(a, r, bl)                 \* single bucket: a recorder straddling the boundary may land in the new bucket

Adds(ops)  == { o \in ops : o.kind = "add" }
Reads(ops) == { o \in ops : o.kind = "read" /\ o.ret # 0 }

\* ---- statistics -----------------------------------------------------------------------------------------
ExtKinds == {"minrt", "maxconc"}
IsExt(r) == r.ev \in ExtKinds
\* does add a feed the statistic that read r reports?
Feeds(a, r) == IF r.ev = "minrt" THEN a.ev = "rt"
               ELSE IF r.ev = "maxconc" THEN a.ev = "conc"
               ELSE a.ev = r.ev
Neutral(r, maxrt) == IF r.ev = "minrt" THEN maxrt ELSE 0
\* the extremum a read of kind r.ev reports for the feeding adds W
Ext(r, W, maxrt) ==
    IF r.ev = "minrt"
    THEN IF \E a \in W : a.n < maxrt THEN CHOOSE v \in { a.n : a \in W } : \A a \in W : v <= a.n ELSE maxrt
    ELSE IF \E a \in W : a.n > 0 THEN CHOOSE v \in { a.n : a \in W } : \A a \in W : v >= a.n ELSE 0
\* the min / max trackers are "load, compare, store": exact only for recorders of one bucket that do not overlap each other
Serial(W, bl) == \A a, b \in W : (a # b /\ Align(a.ts, bl) = Align(b.ts, bl)) => (a.ret < b.inv \/ b.ret < a.inv)
InWindow(a, r, n, bl) == Align(a.ts, bl) >= Lo(r.ts, n, bl) /\ Align(a.ts, bl) <= Align(r.ts, bl)

\* no update is duplicated or invented, nothing expired is visible - for every statistic:
\* a sum never exceeds the countable amounts, an extremum is the neutral value or the amount of ONE countable add
NoInventionOf(r, ops, n, bl, maxrt) ==
    LET C == { a \in Adds(ops) : Feeds(a, r) /\ Countable(a, r, n, bl) } IN
    IF IsExt(r) THEN r.val = Neutral(r, maxrt) \/ \E a \in C : a.n = r.val
    ELSE r.val <= SumN(C)
NoInvention(ops, n, bl, maxrt) == \A r \in Reads(ops) : NoInventionOf(r, ops, n, bl, maxrt)

\* when no recorder overlapped a foreign roll-over of its own slot, a read that started after every add had
\* returned (and that did not itself run across a roll-over) reports exactly the recorded totals of its window
\* (an extremum read takes the clock twice - refresh, then scan - so it is exact only when the clock stood still)
Clean(ops) == \A a \in Adds(ops) : ~a.over
ExactOf(r, ops, n, bl, maxrt) ==
    LET W == { a \in Adds(ops) : Feeds(a, r) /\ InWindow(a, r, n, bl) } IN
    IF IsExt(r) THEN (r.retNow = r.ts /\ Serial(W, bl)) => r.val = Ext(r, W, maxrt)
    ELSE r.val = SumN(W)
ExactWhenNoOverlap(ops, n, bl, maxrt) ==
    Clean(ops) =>
        \A r \in Reads(ops) :
            (~r.over /\ \A a \in Adds(ops) : a.ret # 0 /\ a.ret < r.inv) => ExactOf(r, ops, n, bl, maxrt)

\* the offending reads (for the report of a rejected execution)
Invented(ops, n, bl, maxrt) == { r \in Reads(ops) : ~NoInventionOf(r, ops, n, bl, maxrt) }
Inexact(ops, n, bl, maxrt) ==
    IF ~Clean(ops) THEN {}
    ELSE { r \in Reads(ops) : (~r.over /\ \A a \in Adds(ops) : a.ret # 0 /\ a.ret < r.inv) /\ ~ExactOf(r, ops, n, bl, maxrt) }
=============================================================================
