--------------------------- MODULE WindowConcProp ---------------------------
(***************************************************************************)
(* Property C09 over the operation-level observables of a concurrent       *)
(* execution of the sliding window: a set `ops' of records                 *)
(*   [kind : "add"|"read", ts, n, inv, ret, retNow, val, over]             *)
(* ts = time stamp of the operation (the clock when it was invoked), n =   *)
(* amount of an add, inv / ret = positions of invocation and return in the *)
(* total order of the execution (ret = 0: still pending), retNow = clock   *)
(* at return, val = value returned by a read, over = the add overlapped a  *)
(* roll-over of its own slot performed by another goroutine (for a read:   *)
(* it overlapped a roll-over of any slot by another goroutine).            *)
(* Used by WindowConc (model level) and WindowConc_Trace (real executions).*)
(***************************************************************************)
EXTENDS Integers, FiniteSets

Align(t, bl) == t - (t % bl)

RECURSIVE SumN(_)
SumN(S) == IF S = {} THEN 0 ELSE LET a == CHOOSE x \in S : TRUE IN a.n + SumN(S \ {a})

\* lowest bucket start of the window of a whole-array read stamped ts (n buckets of length bl)
Lo(ts, n, bl) == Align(ts, bl) - n * bl + bl

\* an add that was still running (or returned) when the clock had entered a later bucket
Straddles(a, r, bl) ==
    LET endClock == IF a.ret # 0 /\ a.ret < r.ret THEN a.retNow ELSE r.retNow IN endClock >= Align(a.ts, bl) + bl

\* may the amount of add a legitimately be part of what read r returns?
Countable(a, r, n, bl) ==
    /\ a.inv < r.ret                                   \* recorded (at least invoked) before the read returned
    /\ \/ Align(a.ts, bl) >= Lo(r.ts, n, bl)           \* not expired for this read (N > 1: credited to its own bucket only)
       \/ n = 1 /\ Straddles(a, r, bl)                 \* single bucket: a recorder straddling the boundary may land in the new bucket

Adds(ops)  == { o \in ops : o.kind = "add" }
Reads(ops) == { o \in ops : o.kind = "read" /\ o.ret # 0 }

\* no update is duplicated or invented, nothing expired is visible
NoInvention(ops, n, bl) ==
    \A r \in Reads(ops) : r.val <= SumN({ a \in Adds(ops) : Countable(a, r, n, bl) })

\* when no recorder overlapped a foreign roll-over of its own slot, a read that started after every add had
\* returned (and that did not itself run across a roll-over) reports exactly the recorded totals of its window
Clean(ops) == \A a \in Adds(ops) : ~a.over
ExactWhenNoOverlap(ops, n, bl) ==
    Clean(ops) =>
        \A r \in Reads(ops) :
            (~r.over /\ \A a \in Adds(ops) : a.ret # 0 /\ a.ret < r.inv)
            => r.val = SumN({ a \in Adds(ops) : Align(a.ts, bl) >= Lo(r.ts, n, bl) /\ Align(a.ts, bl) <= Align(r.ts, bl) })
=============================================================================
