SPECIFICATION Spec
CONSTANTS
  Descs <- MCDescs
  Resources = {"r1", "r2"}
  Tokens = {"R1", "R2", "I1"}
  MaxLen = 2
  Mutant = "none"
VIEW view
INVARIANTS TypeOK EnforcedIsLatestValid NothingElseEnforced OnlyValidEnforced ReportedIsEnforced NoStaleVariant IdenticalReloadUnchanged
PROPERTIES ErrorMeansRejected
CHECK_DEADLOCK FALSE
