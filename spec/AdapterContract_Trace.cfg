SPECIFICATION TSpec
CONSTANTS
  K = 1
  Classes = {}
  Limits = {}
  Mut = "none"
CHECK_DEADLOCK FALSE
