SPECIFICATION TSpec
CONSTANTS
  K = 1
  Classes = {}
  Mut = "none"
CHECK_DEADLOCK FALSE
