SPECIFICATION Spec
CONSTANTS
  Res = {1}
  RuleCfgs <- MCSingleB1
  B = 1
  GN = 20
  Batches = {0, 1, 2, 3}
  Steps <- MCSteps
  MaxT = 9
  MaxOps = 4
  Mut = "none"
VIEW view
INVARIANTS TypeOK Iff FirstRuleReported Cap
PROPERTIES NoQuotaForRejected AdmittedRecorded
CHECK_DEADLOCK FALSE
