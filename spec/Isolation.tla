------------------------------ MODULE Isolation ------------------------------
(***************************************************************************)
(* Concurrency isolation rules of sentinel-golang (core/isolation),        *)
(* property C04.                                                           *)
(*                                                                         *)
(* PROPERTY LEVEL.  inflight[res] is the set of admitted-but-not-yet-      *)
(* exited entries of res.  A request of batch b is admitted iff for EVERY  *)
(* rule of its resource                                                    *)
(*        |inflight[res]| + b <= N        (mathematical integers)          *)
(* and the first failing rule (list order) is reported together with       *)
(* |inflight[res]|.  Entries exit in any order; a rejected request never   *)
(* enters inflight.                                                        *)
(*                                                                         *)
(* N and b range over the full uint32 range.  TLC integers are 32-bit, so  *)
(* both are carried as two 16-bit limbs <<h, l>> (AdmitOps: UAdd, ULeq);   *)
(* the sum |inflight| + b may exceed 2^32 and is never wrapped.            *)
(*                                                                         *)
(* DESIGN MODEL.  Request decides with ImplOver: for Wrap = FALSE the      *)
(* mathematical compare, for Wrap = TRUE the compare as uint32 arithmetic  *)
(* performs it (the sum wraps).  TLC checks Iff / FirstRuleReported / Cap /*)
(* RejectedNeverInflight / Reusable; Wrap = TRUE must violate Iff (it is   *)
(* the design of the pinned tree: `curCount+batchCount > threshold`).      *)
(*                                                                         *)
(* RELOADS.  Action Reload replaces / clears rule lists in the middle of a *)
(* history through the four entry points of the rule manager, with raw     *)
(* lists that contain invalid rules; entries in flight survive.  It is not *)
(* part of Next (Refine_Admit instantiates this module): Isolation_MC adds *)
(* it with a bound, the rules the property demands (force) and the         *)
(* invariants IffR / InForce.                                              *)
(***************************************************************************)
EXTENDS AdmitOps, TLC

CONSTANTS
    Res,        \* resources: small integers
    RuleCfgs,   \* set of rule lists; rule = [res, N] with N = <<h, l>>, N > 0
    Batches,    \* batch counts <<h, l>>
    MaxReq,     \* bound on the number of requests (ids are request ordinals)
    Wrap        \* BOOLEAN: uint32 wrap-around in the compare (broken design)

VARIABLES
    rules,      \* rule list in force
    inflight,   \* [Res -> set of ids]
    nreq,       \* requests so far (the next request has id nreq + 1)
    last,       \* last decision and what the property demands
    h           \* history = scenario for the driver (hidden by VIEW)

vars == <<rules, inflight, nreq, last, h>>
view == <<rules, inflight, nreq, last>>

---------------------------------------------------------------------------
(* property-level operators (shared with Isolation_Trace)                  *)
RulesOf(rs, res) == { i \in 1..Len(rs) : rs[i].res = res }
Blocking(rs, cnt, res, b) == { i \in RulesOf(rs, res) : UOver(cnt, b, rs[i].N) }
Decision(rs, cnt, res, b) ==
    LET S == Blocking(rs, cnt, res, b) IN
    IF S = {} THEN [ok |-> TRUE, rule |-> 0] ELSE [ok |-> FALSE, rule |-> MinOf(S)]

---------------------------------------------------------------------------
ImplOver(cnt, b, N) == IF Wrap THEN UOverWrap(cnt, b, N) ELSE UOver(cnt, b, N)
ImplDecision(rs, cnt, res, b) ==
    LET S == { i \in RulesOf(rs, res) : ImplOver(cnt, b, rs[i].N) } IN
    IF S = {} THEN [ok |-> TRUE, rule |-> 0] ELSE [ok |-> FALSE, rule |-> MinOf(S)]

NoLast == [res |-> 0, ok |-> TRUE, rule |-> 0, want |-> [ok |-> TRUE, rule |-> 0]]

Init ==
    /\ rules \in RuleCfgs
    /\ inflight = [r \in Res |-> {}]
    /\ nreq = 0
    /\ last = NoLast
    /\ h = << [op |-> "new", rules |-> rules] >>

Request(res, b) ==
    /\ nreq < MaxReq
    /\ LET cnt == Cardinality(inflight[res])
           d   == ImplDecision(rules, cnt, res, b) IN
       /\ last' = [res |-> res, ok |-> d.ok, rule |-> d.rule, want |-> Decision(rules, cnt, res, b)]
       /\ inflight' = IF d.ok THEN [inflight EXCEPT ![res] = @ \cup {nreq + 1}] ELSE inflight
    /\ nreq' = nreq + 1
    /\ h' = Append(h, [op |-> "req", res |-> res, b |-> b, id |-> nreq + 1])
    /\ UNCHANGED rules

Exit(res, id) ==
    /\ id \in inflight[res]
    /\ inflight' = [inflight EXCEPT ![res] = @ \ {id}]
    /\ last' = NoLast
    /\ h' = Append(h, [op |-> "exit", id |-> id])
    /\ UNCHANGED <<rules, nreq>>

Next ==
    \/ \E res \in Res, b \in Batches : Request(res, b)
    \/ \E res \in Res : \E id \in inflight[res] : Exit(res, id)

Spec == Init /\ [][Next]_vars

---------------------------------------------------------------------------
(* RULE LISTS REPLACED / CLEARED IN THE MIDDLE OF A HISTORY.               *)
(* A push carries RAW rules [res, N, mt]: res = 0 stands for a rule without*)
(* a resource name, N may be zero, mt # 0 is a metric type other than      *)
(* Concurrency.  The module's validity predicate, transcribed:             *)
(*        Threshold > 0, MetricType Concurrency, non-empty resource.       *)
(* Four entry points (via):                                                *)
(*   "all"      LoadRules(raw): the valid rules of raw replace everything  *)
(*   "res"      LoadRulesOfResource(r, raw): the valid rules of raw that   *)
(*              name r replace the rules of r; an empty raw clears r       *)
(*   "clear"    ClearRulesOfResource(r)                                    *)
(*   "clearall" ClearRules()                                               *)
(* After every push the rules of EVERY resource are the valid rules of its *)
(* latest push, in list order (rules of untouched resources stay in        *)
(* force); entries in flight are not touched: they keep occupying capacity.*)
(* Operators shared with Isolation_Trace.                                  *)
Valid(x) == x.res # 0 /\ x.mt = 0 /\ ~UIsZero(x.N)
Strip(s) == [i \in 1..Len(s) |-> [res |-> s[i].res, N |-> s[i].N]]
OfRes(s, r)  == SelectSeq(s, LAMBDA x : x.res = r)
NotRes(s, r) == SelectSeq(s, LAMBDA x : x.res # r)
\* canonical order: by resource, list order inside a resource
RECURSIVE ByRes(_, _)
ByRes(s, n) == IF n = 0 THEN << >> ELSE ByRes(s, n - 1) \o OfRes(s, n)
InForceAfter(rs, via, r, raw, n) ==
    LET v == Strip(SelectSeq(raw, Valid)) IN
    CASE via = "all"      -> ByRes(v, n)
      [] via = "res"      -> ByRes(NotRes(rs, r) \o OfRes(v, r), n)
      [] via = "clear"    -> ByRes(NotRes(rs, r), n)
      [] via = "clearall" -> << >>

\* bug = TRUE is a broken design (spec-level mutant): clearing a resource that has no valid rule uncaps all the others
Reload(via, r, raw, bug) ==
    /\ rules' = IF bug /\ (via = "clear" \/ (via = "res" /\ raw = << >>)) /\ RulesOf(rules, r) = {}
                  THEN << >>
                  ELSE InForceAfter(rules, via, r, raw, MaxOf(Res))
    /\ last' = NoLast
    /\ h' = Append(h, [op |-> "reload", via |-> via, r |-> r, rules |-> raw])
    /\ UNCHANGED <<inflight, nreq>>

Reloads(RL, bug) ==
    \/ \E raw \in RL : Reload("all", 0, raw, bug)
    \/ \E r \in Res, raw \in RL : Reload("res", r, raw, bug)
    \/ \E r \in Res : Reload("clear", r, << >>, bug)
    \/ Reload("clearall", 0, << >>, bug)

---------------------------------------------------------------------------
(* the property                                                            *)
Iff               == last.ok = last.want.ok
FirstRuleReported == (~last.ok /\ ~last.want.ok) => last.rule = last.want.rule

\* in-flight entries never exceed N.  "in-flight + b <= N" admits a request of batch 0 at in-flight = N,
\* so the cap is N for batches >= 1 and N + 1 when zero batches occur (a remark on the statement, see notes/C04.md)
ZeroSlack == IF \E b \in Batches : UIsZero(b) THEN 1 ELSE 0
Cap == \A i \in 1..Len(rules) :
          ULeq(USmall(Cardinality(inflight[rules[i].res])), UAdd(rules[i].N, USmall(ZeroSlack)))

\* with reloads an entry admitted under an earlier rule list may exceed a later, smaller N; what remains true at every
\* step: no admission takes the in-flight count of a resource above the N of a rule in force
CapStep == [][\A res \in Res :
                Cardinality(inflight'[res]) > Cardinality(inflight[res]) =>
                  \A i \in RulesOf(rules, res) :
                     ULeq(USmall(Cardinality(inflight'[res])), UAdd(rules[i].N, USmall(ZeroSlack)))]_vars

\* rejected requests never occupy capacity
RejectedNeverInflight == [][(nreq' = nreq + 1 /\ ~last'.ok) => inflight' = inflight]_vars
\* capacity freed by an Exit is immediately reusable: whenever in-flight + 1 <= N for every rule, a request of
\* batch 1 is admitted (in particular in the state right after any Exit)
Reusable == \A res \in Res :
               (\A i \in RulesOf(rules, res) : ~UOver(Cardinality(inflight[res]), USmall(1), rules[i].N))
                   => ImplDecision(rules, Cardinality(inflight[res]), res, USmall(1)).ok

TypeOK == nreq \in 0..MaxReq /\ \A r \in Res : inflight[r] \subseteq 1..MaxReq
=============================================================================
