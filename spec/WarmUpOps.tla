----------------------------- MODULE WarmUpOps -----------------------------
(***************************************************************************)
(* Exact RATIONAL transcription of the warm-up token calculator            *)
(* (core/flow/tc_warm_up.go, as of fixes 704a566 and 7ba6ba0) and the      *)
(* envelope of property C11.                                               *)
(* Constant-free: used by WarmUp (model checking) and WarmUp_Trace         *)
(* (validation of executions of the real code).                            *)
(*                                                                         *)
(* A configuration is cfg = [tn, td, p, c, cb]: threshold T = tn/td        *)
(* (td > 0), warm-up period p seconds, cold factor c as written in the     *)
(* rule (values <= 1 mean the default 3), control behaviour cb (0 = Reject:*)
(* the effective threshold caps the tokens of the statistic window; 1 =    *)
(* Throttling: it spaces the admissions by 1/threshold).  The calculator   *)
(* is the same for both: the envelope is about the effective THRESHOLD,    *)
(* whatever enforces it.  Rationals are [n, d] pairs, compared by          *)
(* cross-multiplication; \div appears exactly where Go truncates a float   *)
(* to an integer.  d = 0 stands for "not a number" (the float code divides *)
(* by zero and multiplies 0 by +Inf there).                                *)
(*                                                                         *)
(* This is a transcription with the float arithmetic replaced by exact     *)
(* arithmetic - valid for thresholds that are dyadic rationals of moderate *)
(* size, where every intermediate float is exact or cannot cross an integer*)
(* boundary.  It is NOT a proof about float arithmetic.                    *)
(***************************************************************************)
EXTENDS WindowRef      \* (Integers, Min2, Max2; the trace spec needs the aligned window as well)

Cold(cfg)  == IF cfg.c <= 1 THEN 3 ELSE cfg.c             \* config.DefaultWarmUpColdFactor
\* ---- the statistic interval of the rule (cfg.si ms; StatIntervalInMs 0 = the default statistic, 1000 ms) ----
\* The threshold of a flow rule is a count per STATISTIC WINDOW of si ms (rule.go: "Threshold means the threshold during
\* StatIntervalInMs"): the reject checker compares the tokens of that window with the effective threshold, the throttling
\* checker spaces by si / threshold.  The warm-up calculator however keeps working in seconds: it synchronises once per
\* aligned second, refills threshold tokens per elapsed second and drains the previous-window QPS (tokens of the previous
\* window * 1000 / si, a rate per SECOND).  The envelope of C11 for such a rule, clause by clause: E1 the tokens of a
\* statistic window never exceed the threshold; E2 in the first second after a long idle period (or the load) a window
\* holds no more than about threshold/coldFactor; E3 after sustained demand (every statistic window refuses something) for
\* the warm-up period a window is filled up to the threshold; E4 / finite as before.  "Long idle" covers the window itself
\* (the previous-window QPS must have gone to zero before the bucket is refilled above the warning line).
Si(cfg)  == IF cfg.si > 0 THEN cfg.si ELSE 1000
WinSecs(cfg) == IF Si(cfg) > 1000 THEN (Si(cfg) + 999) \div 1000 ELSE 1        \* seconds a window spans
\* rule_manager.generateStatFor: 500 ms buckets where the window is a whole number of them (up to the 10 s of the global
\* statistic), otherwise a single bucket as long as the window
BucketLen(cfg) == IF Si(cfg) % 500 = 0 /\ Si(cfg) <= 10000 THEN 500 ELSE Si(cfg)
\* previous-window QPS as a rational (per second)
Qps(cfg, tokens) == [n |-> tokens * 1000, d |-> Si(cfg)]
\* NewWarmUpTrafficShapingCalculator
Warn(cfg)  == (cfg.p * cfg.tn) \div (cfg.td * (Cold(cfg) - 1))                  \* uint64(period * T / (cold - 1))
MaxTok(cfg) == Warn(cfg) + (2 * cfg.p * cfg.tn) \div (cfg.td * (Cold(cfg) + 1)) \* + uint64(2 * period * T / (1 + cold))
Diff(cfg)  == MaxTok(cfg) - Warn(cfg)
\* slope = (cold - 1) / T / (maxToken - warningToken) = (cold-1) * td / (tn * Diff): undefined when tn * Diff = 0
SlopeDefined(cfg) == cfg.tn * Diff(cfg) # 0

\* uint32(T) / coldFactor (integer division): refill above the warning line only below this previous QPS
ColdLimit(cfg) == (cfg.tn \div cfg.td) \div Cold(cfg)

\* coolDownTokens: `gap' = whole seconds since the last sync (< 0: never synced - lastFilledTime is 0 and the
\* elapsed time is the absolute clock, which refills to the cap whenever T > 0)
Refill(cfg, gap) == IF gap < 0 THEN (IF cfg.tn > 0 THEN MaxTok(cfg) + 1 ELSE 0) ELSE (gap * cfg.tn) \div cfg.td
\* (q = previous-window QPS, a rational: the code compares the float and subtracts int64(q))
CoolDownQ(cfg, old, gap, q) ==
    LET new == IF old < Warn(cfg) THEN old + Refill(cfg, gap)
               \* at or above the warning line (the line itself included since fix 704a566): only while the previous QPS
               \* is below the cold limit
               ELSE IF q.n < ColdLimit(cfg) * q.d THEN old + Refill(cfg, gap)
               ELSE old
    IN  Min2(new, MaxTok(cfg))
\* syncToken, executed by the first request of an aligned second: new stored tokens
SyncQ(cfg, old, gap, q) == Max2(0, CoolDownQ(cfg, old, gap, q) - (q.n \div q.d))
\* (the default window: QPS = tokens of the previous second)
CoolDown(cfg, old, gap, prev) == CoolDownQ(cfg, old, gap, [n |-> prev, d |-> 1])
Sync(cfg, old, gap, prev) == SyncQ(cfg, old, gap, [n |-> prev, d |-> 1])

\* CalculateAllowedTokens after the sync: the effective threshold as a rational
WarnZone(cfg, stored) ==
    \* 1 / (above * slope + 1/T)  =  tn * Diff / (td * (above * (cold-1) + Diff))
    [n |-> cfg.tn * Diff(cfg), d |-> cfg.td * ((stored - Warn(cfg)) * (Cold(cfg) - 1) + Diff(cfg))]
Allowed(cfg, stored) ==
    IF stored >= Warn(cfg)
      THEN LET a == WarnZone(cfg, stored) IN
           \* since fix 7ba6ba0: with T >= 1 the warning-zone rate is never below one token per window
           \* (a float that rounds an exact 1 to 0.999.. is lifted to 1.0 as well; "not a number" is not below 1)
           IF a.d > 0 /\ a.n < a.d /\ cfg.tn >= cfg.td THEN [n |-> 1, d |-> 1] ELSE a
      ELSE [n |-> cfg.tn, d |-> cfg.td]
Defined(a) == a.d # 0
\* reject checker: curCount + batch > allowed
Blocks(a, cur, b) == (cur + b) * a.d > a.n
OnEdge(a, cur, b) == (cur + b) * a.d = a.n          \* float rounding may decide either way exactly here

\* ---- control behaviour ----
Throttled(cfg) == cfg.cb = 1
FloorR(a) == a.n \div a.d
CeilR(a)  == (a.n + a.d - 1) \div a.d
\* throttling checker, single-token requests under SATURATING demand during one aligned second: a token alone above the
\* threshold is rejected; otherwise the admissions are spaced by 1/a, so the second holds floor(a) or ceil(a) of them
\* depending on the phase carried over from the previous second.  A relation, not a function: the machine takes both.
\* (Saturating = at every instant an admission is due a request is there to take it: requests that may queue for at least
\* the time to the next request - see Dense in WarmUp_Trace.  A demand that polls without queueing can miss an admission;
\* with floor(a) - 1 in this set TLC shows the warm-up can then stall: T 5, period 2, cold 2 stays at 30/11.)
Paced(a) == IF a.n < a.d THEN {0} ELSE {FloorR(a), CeilR(a)}

---------------------------------------------------------------------------
(* The ENVELOPE of the property (what any conforming implementation must   *)
(* respect), as predicates over observable quantities.                     *)

CeilTOverCold(cfg) == (cfg.tn + cfg.td * Cold(cfg) - 1) \div (cfg.td * Cold(cfg))
ColdCap(cfg)  == CeilTOverCold(cfg) + 1          \* "no higher than about threshold/coldFactor"
FloorT(cfg)   == cfg.tn \div cfg.td
CeilT(cfg)    == (cfg.tn + cfg.td - 1) \div cfg.td
\* "the admitted rate never exceeds the threshold", for k tokens admitted in one aligned second: the reject checker counts
\* them in the window (k <= T); the throttling checker spaces them by at least 1/T, so a second holds at most ceil(T)
RateOK(cfg, k) == IF Throttled(cfg) THEN k <= CeilT(cfg) ELSE k * cfg.td <= cfg.tn
\* throttling: a single-token request at time t (microseconds) is OWED an admission no later than 1/T after the previous
\* admission (at time la), i.e. once the full threshold is in force a request may be refused, or made to wait until ta,
\* only inside that spacing.  R = rounding slack of the recorded times (microseconds).
PaceSlack == 2
GapCap    == 5000000                       \* (32-bit integers: gaps are capped before they are multiplied; 1/T <= 4 s)
Within(cfg, gap) == (Min2(gap, GapCap) - PaceSlack) * cfg.tn < 1000000 * cfg.td      \* gap < 1/T (+ slack)
NotAfter(cfg, gap) == (Min2(gap, GapCap) - PaceSlack) * cfg.tn <= 1000000 * cfg.td   \* gap <= 1/T (+ slack)
\* idle seconds after which the resource counts as cold again (a window longer than a second must have emptied first)
IdleEnough(cfg) == 2 * cfg.p + 2 + (IF Si(cfg) > 1000 THEN WinSecs(cfg) ELSE 0)
WarmEnough(cfg) == 2 * cfg.p + 2                 \* saturated seconds after which the full threshold must be reached (see notes: integer tokens)
\* consecutive seconds of unserved single-token demand that count as "forever" (a window longer than a second that holds its
\* threshold legitimately refuses until it has moved on: threshold 1 per 10 s serves one request in ten seconds)
StarveBound(cfg) == 2 * cfg.p + 5 + (IF Si(cfg) > 1000 THEN WinSecs(cfg) ELSE 0)

\* ---- a rule REPLACED under traffic (flow.LoadRules with a changed threshold / period / cold factor) ----
\* The statement speaks of "the configured threshold" and of the resource having been idle; a reload changes the
\* configuration in the middle of a history.  What the envelope demands of the rule NOW in force:
\*   * the admitted rate never exceeds the NEW threshold (tokens admitted since the reload);
\*   * "reaches the full threshold after sustained demand for the warm-up period" counts sustained demand from the reload
\*     (a new rule may start cold; an implementation that carries progress over only gets there earlier);
\*   * "starts no higher than about threshold/coldFactor": a new rule may start cold (a fresh calculator: what the code
\*     does) or carry over warm-up PROGRESS, but no more than the history of the resource justifies.  Progress is the
\*     fraction U of the way from cold (T/cold) to warm (T); sustained demand for the whole period justifies U = 1, so every
\*     second in which the resource admitted something justifies 1/period (the warm-up curve of the calculator is convex:
\*     it stays below this chord), U = 0 after IdleEnough idle seconds or a first load.  At a reload the fraction is kept
\*     (proportional carry-over is acceptable) and the demand of the second before the reload counts for the new rule as
\*     well (its first synchronisation reads that second from the statistic the modified rule keeps - C14).  Alternatively
\*     the new rule may serve the ABSOLUTE rate the old rule was justified to serve (a resource served at 66/s is warm for
\*     a new threshold of 10).  What is NOT justified: the full threshold at once after cold traffic only.
\* U is kept as ju / L (L = a common multiple of the periods in play).
RLe(a, b)  == a.n * b.d <= b.n * a.d
RMax(a, b) == IF RLe(a, b) THEN b ELSE a
RMin(a, b) == IF RLe(a, b) THEN a ELSE b
RZero      == [n |-> 0, d |-> 1]
ProgFrac(cfg, ju, L) == [n |-> cfg.tn * (L + ju * (Cold(cfg) - 1)), d |-> cfg.td * Cold(cfg) * L]    \* T/cold * (1 + U*(cold-1))
ProgRate(cfg, ju, L, ra) == RMax(ProgFrac(cfg, ju, L), RMin([n |-> cfg.tn, d |-> cfg.td], ra))
\* admissions per aligned second the history justifies ("about": the slack of ColdCap; ju = 0, ra = 0 gives ColdCap)
ProgCap(cfg, ju, L, ra)  == CeilR(ProgRate(cfg, ju, L, ra)) + 1

\* configuration classes in which the implementation is known to leave the envelope (see notes/C11.md).
\* ColdBelowOne: before fix 7ba6ba0 every request was rejected forever; since then requests are served, which exposes that
\* ColdLimit = uint32(T)/cold = 0 there: at or above the warning line the bucket is never refilled, so after an idle
\* period the rule is not cold again (ColdAfterIdle).
Degenerate(cfg)   == ~SlopeDefined(cfg)                                          \* maxToken = warningToken (or T = 0)
ColdBelowOne(cfg) == /\ SlopeDefined(cfg) /\ Warn(cfg) > 0
                     /\ cfg.tn >= cfg.td /\ cfg.tn < cfg.td * Cold(cfg)           \* 1 <= T but cold rate T/cold < 1 token
NeverCold(cfg)    == SlopeDefined(cfg) /\ Warn(cfg) = 0                          \* warningToken = 0 < maxToken
\* LongWindow: a statistic window longer than a second.  The cold rate (T/cold per window) is a previous QPS of
\* (T/cold) * 1000/si < uint32(T)/cold per second, so above the warning line the bucket is refilled (T tokens per second)
\* faster than it is drained: the rule never warms up (WarmAfterSat).  Found by the lead run.
LongWindow(cfg)   == SlopeDefined(cfg) /\ Si(cfg) > 1000
Healthy(cfg)      == ~Degenerate(cfg) /\ ~ColdBelowOne(cfg) /\ ~NeverCold(cfg) /\ ~LongWindow(cfg)
=============================================================================
