----------------------------- MODULE OutlierOps -----------------------------
(***************************************************************************)
(* Pure operators of outlier ejection (core/outlier), property C20.        *)
(* Shared by Outlier (design model, TLC) and Outlier_Trace (validation of  *)
(* executions of the real code).                                           *)
(*                                                                         *)
(* Every callee address ("node") that ever completed a request of the      *)
(* resource owns one circuit breaker built from the rule of the resource   *)
(* (compact copy of the machine of Breaker.tla: Closed / HalfOpen / Open,  *)
(* aligned statistic window of WindowRef, retry deadline, probe counter).  *)
(* A request consults ALL breakers of the known nodes:                     *)
(*   rejecting  = nodes whose breaker does not admit the request now       *)
(*   probed     = nodes whose breaker admits it as a half-open probe       *)
(*   filter     = any subset of `rejecting' of size <= floor(pct * known)  *)
(*   half       = probed   (passive detection; {} when active recovery on) *)
(* pct = <<num, den>> is a rational, the cap is integer arithmetic.        *)
(***************************************************************************)
EXTENDS WindowRef, TLC

Closed   == "C"
HalfOpen == "H"
Open     == "O"
CKinds   == {"tot", "bad"}

(* rule = [strategy, thr = <<num,den>>, minAmt, timeout, I, nb, maxRt, probeNum]  (as in Breaker.tla) *)
IsRatio(r) == r.strategy \in {"slow", "eratio"}
EffNb(r)   == IF r.nb = 0 \/ r.I % r.nb # 0 THEN 1 ELSE r.nb
BL(r)      == r.I \div EffNb(r)
IsBad(r, rt, err) == IF r.strategy = "slow" THEN rt > r.maxRt ELSE err
Reached(r, T, D)  == IF IsRatio(r) THEN D * r.thr[2] >= r.thr[1] * T ELSE D * r.thr[2] >= r.thr[1]

NewBreaker == [st |-> Closed, retryAt |-> 0, probes |-> 0, ref |-> << >>]

\* consulting one breaker at time t: does it admit, the breaker afterwards
Consult(b, r, t) ==
    CASE b.st = Closed                  -> [ok |-> TRUE,  b |-> b]
      [] b.st = Open /\ t >= b.retryAt  -> [ok |-> TRUE,  b |-> [b EXCEPT !.st = HalfOpen]]
      [] b.st = Open /\ t < b.retryAt   -> [ok |-> FALSE, b |-> b]
      [] b.st = HalfOpen                -> [ok |-> r.probeNum > 0, b |-> b]

\* one breaker sees a completion (rt, err) at time t
OnComplete(b, r, t, rt, err) ==
    LET bad  == IsBad(r, rt, err)
        ref1 == RefAdd(RefAdd(Prune(b.ref, BL(r), r.I, t), CKinds, BL(r), t, "tot", 1),
                       CKinds, BL(r), t, "bad", IF bad THEN 1 ELSE 0)
        T    == RefSum(ref1, BL(r), t, r.I, "tot")
        D    == RefSum(ref1, BL(r), t, r.I, "bad")
    IN  CASE b.st = Open -> [b EXCEPT !.ref = ref1]
          [] b.st = HalfOpen ->
               IF bad THEN [st |-> Open, retryAt |-> t + r.timeout, probes |-> 0, ref |-> ref1]
               ELSE IF r.probeNum = 0 \/ b.probes + 1 >= r.probeNum THEN NewBreaker
                    ELSE [b EXCEPT !.probes = @ + 1, !.ref = ref1]
          [] b.st = Closed ->
               IF T >= r.minAmt /\ Reached(r, T, D)
                    THEN [st |-> Open, retryAt |-> t + r.timeout, probes |-> 0, ref |-> ref1]
                    ELSE [b EXCEPT !.ref = ref1]

---------------------------------------------------------------------------
(* The resource level: nbk = node -> breaker (DOMAIN nbk = the known nodes) *)

Cap(k, pct)    == (k * pct[1]) \div pct[2]                 \* floor(pct * k)
View(nbk, r, t) == [n \in DOMAIN nbk |-> Consult(nbk[n], r, t)]
After(v)       == [n \in DOMAIN v |-> v[n].b]
Rejecting(v)   == { n \in DOMAIN v : ~v[n].ok }
Probed(v)      == { n \in DOMAIN v : v[n].ok /\ v[n].b.st = HalfOpen }
ExpHalf(v, active) == IF active THEN {} ELSE Probed(v)

\* the two clauses of the property about one request (F = reported filter set, H = reported half-open set)
FilterOK(F, v, pct) == /\ F \subseteq Rejecting(v)
                       /\ Cardinality(F) <= Cap(Cardinality(DOMAIN v), pct)
HalfOK(H, v, active) == H = ExpHalf(v, active)
\* not demanded by the statement, reported as conformance drift only: the cap is used up
FilterTight(F, v, pct) == Cardinality(F) = Min2(Cardinality(Rejecting(v)), Cap(Cardinality(DOMAIN v), pct))

\* "nothing to report": no breaker rejects and no node is passively probed - the answer must be two EMPTY lists
\* (implied by FilterOK /\ HalfOK; named because it is the case a "nothing to do" shortcut gets wrong)
Quiet(v, active) == Rejecting(v) = {} /\ ExpHalf(v, active) = {}
QuietOK(F, H, v, active) == Quiet(v, active) => F = {} /\ H = {}

\* The answer lists live in the rule-check result of a POOLED entry context: a context that goes back to the pool
\* keeps whatever lists its last entry left in it (resetting the result to "pass" does not clear them), and the next
\* entry - of ANY resource - that draws it starts with that residue.  A correct slot overwrites both lists on
\* every request, so the residue never shows.
FreshCtx == [filter |-> {}, half |-> {}]
Answer(F, H) == [filter |-> F, half |-> H]

\* nodes a user can see in a request's answer
Visible(v, active) == Rejecting(v) \cup ExpHalf(v, active)

\* recycler bookkeeping: rec = node -> "sched" | "rec"; a request that saw rejecting nodes schedules the new ones
Sched(rec, R) == [n \in DOMAIN rec \cup R |-> IF n \in DOMAIN rec THEN rec[n] ELSE "sched"]
Recover(rec, n) == IF n \in DOMAIN rec THEN [rec EXCEPT ![n] = "rec"] ELSE rec
Without(f, S) == [n \in DOMAIN f \ S |-> f[n]]
With(f, n, x) == [m \in DOMAIN f \cup {n} |-> IF m = n THEN x ELSE f[m]]

\* a completion for callee n (unknown callees become known with a fresh breaker)
CompleteAt(nbk, r, n, t, rt, err) ==
    With(nbk, n, OnComplete(IF n \in DOMAIN nbk THEN nbk[n] ELSE NewBreaker, r, t, rt, err))
=============================================================================
