SPECIFICATION Spec
CONSTANTS
  MaxFiles = 2
  MaxSize = 2
  DayLen = 4
  CreateSecs = {1, 3}
  MaxSec = 5
  Batches <- MCBatches1
  MaxWrites = 4
  MaxQueries = 2
  Fixes <- AllFixes
  WithCut = TRUE
  CreateSecWrites = TRUE
VIEW view
INVARIANTS TypeOK BoundOK RetainedOK FreshOK CachedOK
CHECK_DEADLOCK FALSE
