--------------------------- MODULE MemAdaptive_MC ---------------------------
EXTENDS MemAdaptive
CONSTANTS MaxThr, MaxMem
MCRules == [low : 1..MaxThr, high : 1..MaxThr, lw : 1..MaxMem, hw : 1..MaxMem, cb : {0, 1}]
MCMems  == (-1)..(MaxMem + 1)
=============================================================================
