---------------------------- MODULE RuleReuse_MC ----------------------------
(* Bounded instance of RuleReuse for exhaustive TLC (property C14) and the reload shapes handed to the driver. *)
EXTENDS RuleReuse, Json
\* X: the watched rule; Xm: X modified with unchanged statistic parameters; S1, S2: other rules whose statistic
\* parameters equal X's; N1, N2: other rules with different statistic parameters
MCToks  == {"X", "Xm", "S1", "N1"}
MCToks3 == {"X", "S1", "N1"}
\* Xe: X with the defaults of its unset optional fields spelled out (a different rule for the statement)
MCToksD == {"X", "Xe", "S1", "N1"}
MCAll   == {"X", "Xe", "Xm", "S1", "S2", "N1", "N2"}
MCNorm  == [t \in MCAll |-> IF t = "X" THEN "Xe" ELSE t]
MCToks6 == {"X", "Xm", "S1", "S2", "N1", "N2"}
MCStat  == [t \in MCAll |-> CASE t \in {"X", "Xe", "Xm", "S1", "S2"} -> "sx" [] t = "N1" -> "n1" [] t = "N2" -> "n2"]
\* a watched rule that keeps no statistics (pacing): nothing is stat-compatible with it
MCStatNone == [t \in MCAll |-> CASE t \in {"X", "Xe", "Xm"} -> "none" [] t \in {"S1", "S2"} -> "s" [] t = "N1" -> "n1" [] t = "N2" -> "n2"]
\* one line per reload transition: the shape (old list, new list)
EmitShape == (Len(h') > 0 /\ h'[Len(h')].op = "reload") => PrintT(ToJson(<<h'[Len(h')].path, h'[Len(h')].old, h'[Len(h')].new>>))
=============================================================================
