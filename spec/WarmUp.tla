------------------------------- MODULE WarmUp -------------------------------
(***************************************************************************)
(* Design-level model of a warm-up flow rule (property C11) built on the   *)
(* rational transcription of WarmUpOps, at the grain of one aligned second *)
(* per action.  Demand arrives at the start of a second (so the sliding    *)
(* 2 x 500 ms view holds exactly the tokens admitted in this second and    *)
(* the "previous QPS" read by the first request of a second is the number  *)
(* admitted in the previous second):                                       *)
(*   Second(0)    nobody asks (nothing is called: no token sync either)    *)
(*   Second(1)    one single-token request                                 *)
(*   Second(SAT)  floor(T) + 2 single-token requests (saturating demand)   *)
(*                                                                         *)
(* All counters saturate at a configuration-dependent cap, so the state    *)
(* space is finite WITHOUT a bound on time: the invariants below are       *)
(* checked for histories of any length.                                    *)
(*                                                                         *)
(* The configuration is chosen in Init out of Configs.  The envelope       *)
(* invariants are stated for the class `InScope' of configurations; the    *)
(* MC module instantiates it with Healthy (must hold) and with each defect *)
(* class (TLC must produce the counterexample, which is then forced on the *)
(* real code).                                                             *)
(***************************************************************************)
EXTENDS WarmUpOps, Sequences, TLC

CONSTANTS Configs,      \* set of [tn, td, p, c]
          SAT,          \* marker for saturating demand
          InScope(_),   \* class of configurations the envelope invariants are stated for
          ExcuseStuck   \* TRUE: histories in which the token count rests exactly on the warning line are excused
                        \* from ColdAfterIdle.  Needed before fix 704a566 (the line itself was never refilled); every
                        \* run now uses FALSE, and the lead run would show a return of that defect as a Healthy lead.

VARIABLES
    cfg,
    stored,     \* stored tokens after the last sync
    gap,        \* whole seconds since the second of the last sync (-1: never synced), saturating
    prev,       \* tokens admitted in the previous second
    idle,       \* consecutive seconds without any request before this one (saturating); fresh rule = IdleEnough
    sat,        \* consecutive preceding seconds in which some request was blocked (saturating)
    starve,     \* consecutive seconds with demand and no admission, including the last one (saturating)
    stuck,      \* the idle period in progress began with stored = Warn (history-dependent defect)
    last,       \* what the last Second(d) with d # 0 did: [al, n, adm, cold, warm]
    h           \* demand history (scenario for the conformance driver; hidden by VIEW)

vars == <<cfg, stored, gap, prev, idle, sat, starve, stuck, last, h>>
view == <<cfg, stored, gap, prev, idle, sat, starve, stuck, last>>

Cap(c) == 2 * c.p + 6
Sat1(x, c) == Min2(x + 1, Cap(c))
NoLast == [al |-> [n |-> 0, d |-> 1], n |-> 0, adm |-> 0, cold |-> FALSE, warm |-> FALSE, stuck |-> FALSE]

Init ==
    /\ cfg \in Configs
    /\ stored = 0 /\ gap = -1 /\ prev = 0
    /\ idle = IdleEnough(cfg) /\ sat = 0 /\ starve = 0 /\ stuck = FALSE
    /\ last = NoLast
    /\ h = << [op |-> "new", tn |-> cfg.tn, td |-> cfg.td, p |-> cfg.p, c |-> cfg.c] >>

Quiet ==
    /\ gap' = IF gap < 0 THEN -1 ELSE Sat1(gap, cfg)
    /\ prev' = 0
    /\ stuck' = IF idle = 0 THEN (stored = Warn(cfg)) ELSE stuck
    /\ idle' = Sat1(idle, cfg)
    /\ sat' = 0 /\ starve' = 0
    /\ last' = NoLast
    /\ h' = Append(h, [op |-> "sec", n |-> 0])
    /\ UNCHANGED <<cfg, stored>>

Busy(d) ==
    LET st  == Sync(cfg, stored, gap, prev)
        al  == Allowed(cfg, st)
        n   == IF d = SAT THEN FloorT(cfg) + 2 ELSE 1
        \* single-token requests at one instant: admitted while (k + 1) <= allowed; "not a number" compares false
        \* with everything, so nothing is ever blocked
        adm == IF ~Defined(al) THEN n ELSE Min2(n, al.n \div al.d)
    IN  /\ stored' = st /\ gap' = 1 /\ prev' = adm
        /\ idle' = 0 /\ stuck' = FALSE
        /\ sat' = IF adm < n THEN Sat1(sat, cfg) ELSE 0
        /\ starve' = IF adm = 0 THEN Sat1(starve, cfg) ELSE 0
        /\ last' = [al |-> al, n |-> n, adm |-> adm, cold |-> idle >= IdleEnough(cfg), warm |-> sat >= WarmEnough(cfg),
                    stuck |-> stuck]
        /\ h' = Append(h, [op |-> "sec", n |-> n])
        /\ UNCHANGED cfg

Next == Quiet \/ Busy(1) \/ Busy(SAT)
Spec == Init /\ [][Next]_vars

---------------------------------------------------------------------------
TypeOK == /\ stored \in 0..MaxTok(cfg) /\ prev >= 0 /\ gap >= -1

\* the effective threshold is always a finite non-negative number ...
AllowedDefined == InScope(cfg) => Defined(last.al)
\* ... between 0 and the configured threshold
AllowedInRange == (InScope(cfg) /\ Defined(last.al)) =>
                     /\ last.al.n >= 0 /\ last.al.d > 0
                     /\ last.al.n * cfg.td <= cfg.tn * last.al.d
\* the admitted rate never exceeds the configured threshold
AdmittedLeT == InScope(cfg) => last.adm * cfg.td <= cfg.tn
\* after the resource has been idle the rate starts no higher than about threshold / coldFactor
ColdAfterIdle == (InScope(cfg) /\ last.cold /\ Defined(last.al) /\ ~(ExcuseStuck /\ last.stuck)) =>
                     last.al.n <= ColdCap(cfg) * last.al.d
\* the same in observable form: the number admitted in such a second
ColdAfterIdleObs == (InScope(cfg) /\ last.cold /\ ~(ExcuseStuck /\ last.stuck)) => last.adm <= ColdCap(cfg)
\* after sustained (saturating) demand for the warm-up period the full threshold is reached
WarmAfterSat == (InScope(cfg) /\ last.warm /\ last.n > 1) => last.adm = FloorT(cfg)
\* a steady single-token demand is never starved forever when the threshold is at least one
NoStarvation == (InScope(cfg) /\ cfg.tn >= cfg.td) => starve < StarveBound(cfg)
=============================================================================
