------------------------------- MODULE WarmUp -------------------------------
(***************************************************************************)
(* Design-level model of a warm-up flow rule (property C11) built on the   *)
(* rational transcription of WarmUpOps, at the grain of one aligned second *)
(* per action.  Demand arrives at the start of a second (so the sliding    *)
(* 2 x 500 ms view holds exactly the tokens admitted in this second and    *)
(* the "previous QPS" read by the first request of a second is the number  *)
(* admitted in the previous second):                                       *)
(*   Second(0)    nobody asks (nothing is called: no token sync either)    *)
(*   Second(1)    one single-token request                                 *)
(*   Second(SAT)  floor(T) + 2 single-token requests (saturating demand)   *)
(*                                                                         *)
(* The control behaviour is a parameter of the rule (cfg.cb).  Reject: the *)
(* admissions of a second are counted in the window, Second(SAT) admits    *)
(* min(n, floor(allowed)).  Throttling: the admissions are SPACED by       *)
(* 1/allowed, so Second(SAT) admits any member of Paced(allowed) (phase    *)
(* carried over the second boundary, polling demand) and a single request  *)
(* that follows a saturated second may still be inside the spacing owed to *)
(* the last admission (refused or delayed into the second).  The statistic *)
(* the calculator reads is the same in both modes (admitted tokens of the  *)
(* previous second).                                                       *)
(* Mut = "nopstat" is a spec-level MUTANT: a throttling rule reads an      *)
(* empty statistic (previous QPS always 0) - WarmAfterSat must fail.       *)
(*                                                                         *)
(* The statistic interval is a parameter of the rule (cfg.si, reject rules;*)
(* it divides 1000 or is a multiple of it).  Sub-second: the demand of a   *)
(* second arrives at the start of each of its 1000/si windows, `prev' and  *)
(* the admission count are per WINDOW.  Several seconds: `rec' holds the   *)
(* admissions of the seconds before the previous one that the window still *)
(* covers; the reject checker sees them.  The calculator reads the previous*)
(* window as a rate per second (WarmUpOps!Qps).  The envelope invariants   *)
(* speak about the tokens of a statistic window (last.win).                *)
(*                                                                         *)
(* The rule parameters are STATE: Reload(c2) replaces the rule in force by *)
(* a changed one (c2 \in Targets(cfg), at most MaxReload times) at a       *)
(* second boundary.  As in the code the modified rule gets a fresh         *)
(* calculator (no tokens, never synchronised) and keeps the statistic (the *)
(* admissions of the previous second).  ju / LCMP is the warm-up progress  *)
(* the history of the resource justifies, ra the absolute rate it was      *)
(* justified to serve before the last reload (WarmUpOps, "a rule REPLACED  *)
(* under traffic"); ProgressOK bounds every busy second by ProgCap, with   *)
(* or without reloads.  Sustained demand and starvation are counted from   *)
(* the reload.  Mut = "rawcarry" is the mutant "the new calculator         *)
(* inherits the raw token count (clipped to its capacity) and the last     *)
(* fill time of the old one" - ProgressOK must fail.                       *)
(*                                                                         *)
(* All counters saturate at a configuration-dependent cap, so the state    *)
(* space is finite WITHOUT a bound on time: the invariants below are       *)
(* checked for histories of any length.                                    *)
(*                                                                         *)
(* The configuration is chosen in Init out of Configs.  The envelope       *)
(* invariants are stated for the class `InScope' of configurations; the    *)
(* MC module instantiates it with Healthy (must hold) and with each defect *)
(* class (TLC must produce the counterexample, which is then forced on the *)
(* real code).                                                             *)
(***************************************************************************)
EXTENDS WarmUpOps, Sequences, TLC

CONSTANTS Configs,      \* set of [tn, td, p, c, cb]
          Mut,          \* "none" | "nopstat" | "rawcarry" (spec-level mutants, see above)
          Targets(_),   \* the configurations a rule may be replaced by
          MaxReload,    \* reloads per history
          LCMP,         \* a common multiple of every period in play (progress is counted in units of 1/LCMP)
          SAT,          \* marker for saturating demand
          InScope(_),   \* class of configurations the envelope invariants are stated for
          ExcuseStuck   \* TRUE: histories in which the token count rests exactly on the warning line are excused
                        \* from ColdAfterIdle.  Needed before fix 704a566 (the line itself was never refilled); every
                        \* run now uses FALSE, and the lead run would show a return of that defect as a Healthy lead.

VARIABLES
    cfg,
    stored,     \* stored tokens after the last sync
    gap,        \* whole seconds since the second of the last sync (-1: never synced), saturating
    prev,       \* tokens admitted in the previous second
    idle,       \* consecutive seconds without any request before this one (saturating); fresh rule = IdleEnough
    sat,        \* consecutive preceding seconds in which some request was blocked (saturating)
    starve,     \* consecutive seconds with demand and no admission, including the last one (saturating)
    stuck,      \* the idle period in progress began with stored = Warn (history-dependent defect)
    last,       \* what the last Second(d) with d # 0 did: [al, n, adm, win, cold, warm, cap]
    rec,        \* admissions of the WinSecs - 1 seconds before the previous one (window longer than a second), oldest first
    ju, ra,     \* justified warm-up progress (ju / LCMP) and justified absolute rate carried over the last reload
    nre,        \* reloads so far
    h           \* demand history (scenario for the conformance driver; hidden by VIEW)

vars == <<cfg, stored, gap, prev, idle, sat, starve, stuck, last, rec, ju, ra, nre, h>>
view == <<cfg, stored, gap, prev, idle, sat, starve, stuck, last, rec, ju, ra, nre>>

Cap(c) == 2 * c.p + 6 + WinSecs(c)
RECURSIVE SeqSum(_)
SeqSum(s) == IF s = << >> THEN 0 ELSE Head(s) + SeqSum(Tail(s))
Zeros(k) == [i \in 1..k |-> 0]
\* the window slides on by one second
Shift(r, x) == IF r = << >> THEN << >> ELSE Append(Tail(r), x)
Sat1(x, c) == Min2(x + 1, Cap(c))
NoLast == [al |-> [n |-> 0, d |-> 1], n |-> 0, adm |-> 0, win |-> 0, cold |-> FALSE, warm |-> FALSE, stuck |-> FALSE, cap |-> 0]

Init ==
    /\ cfg \in Configs
    /\ stored = 0 /\ gap = -1 /\ prev = 0
    /\ idle = IdleEnough(cfg) /\ sat = 0 /\ starve = 0 /\ stuck = FALSE
    /\ last = NoLast
    /\ ju = 0 /\ ra = RZero /\ nre = 0
    /\ rec = Zeros(WinSecs(cfg) - 1)
    /\ h = << [op |-> "new", tn |-> cfg.tn, td |-> cfg.td, p |-> cfg.p, c |-> cfg.c, cb |-> cfg.cb, si |-> cfg.si] >>

Quiet ==
    /\ gap' = IF gap < 0 THEN -1 ELSE Sat1(gap, cfg)
    /\ prev' = 0
    /\ stuck' = IF idle = 0 THEN (stored = Warn(cfg)) ELSE stuck
    /\ idle' = Sat1(idle, cfg)
    /\ sat' = 0 /\ starve' = 0
    /\ last' = NoLast
    /\ rec' = Shift(rec, prev)
    /\ h' = Append(h, [op |-> "sec", n |-> 0])
    /\ UNCHANGED <<cfg, stored, ju, ra, nre>>

\* the previous QPS the calculator reads from the statistic of the rule
PrevSeen == IF Mut = "nopstat" /\ Throttled(cfg) THEN 0 ELSE prev + SeqSum(rec)       \* tokens of the previous statistic window
\* tokens the window of the present second already holds (a window longer than a second)
InWin == IF rec = << >> THEN 0 ELSE prev + SeqSum(Tail(rec))
\* tokens admitted out of n single-token requests of one second at effective threshold al (a set: throttling is a relation)
Admitted(al, n) ==
    IF ~Defined(al) THEN {n}                              \* "not a number" compares false with everything: nothing is blocked
    ELSE IF ~Throttled(cfg) THEN {Min2(n, Max2(0, FloorR(al) - InWin))}    \* at one instant: admitted while window + 1 <= allowed
    ELSE IF n > 1 THEN Paced(al)                          \* saturating demand over the whole second, spaced by 1/allowed
    ELSE IF al.n < al.d THEN {0}                          \* one token alone exceeds the threshold
    ELSE IF last.n > 1 /\ last.adm > 0 THEN {0, 1}        \* may still be inside the spacing owed to the previous second
    ELSE {1}

Busy(d) ==
    LET st  == SyncQ(cfg, stored, gap, Qps(cfg, PrevSeen))
        al  == Allowed(cfg, st)
        n   == IF d = SAT THEN FloorT(cfg) + 2 ELSE 1
        cold == idle >= IdleEnough(cfg)
        ju0 == IF cold THEN 0 ELSE ju                     \* after an idle period nothing is justified any more
        ra0 == IF cold THEN RZero ELSE ra
    IN  \E adm \in Admitted(al, n) :
        /\ stored' = st /\ gap' = 1 /\ prev' = adm
        /\ idle' = 0 /\ stuck' = FALSE
        \* sustained demand: the second refused something; under throttling only a demand that is present throughout the
        \* second counts (one request refused because it falls inside the spacing owed to the last admission is not
        \* sustained demand: nothing is admitted, so nothing is drained)
        /\ sat' = IF adm < n /\ (~Throttled(cfg) \/ n > 1) THEN Sat1(sat, cfg) ELSE 0
        /\ starve' = IF adm = 0 THEN Sat1(starve, cfg) ELSE 0
        /\ rec' = Shift(rec, prev)
        /\ last' = [al |-> al, n |-> n, adm |-> adm, win |-> adm + InWin, cold |-> cold, warm |-> sat >= WarmEnough(cfg),
                    stuck |-> stuck, cap |-> ProgCap(cfg, ju0, LCMP, ra0)]
        \* a second in which the resource admitted something justifies 1/period of progress
        /\ ju' = Min2(LCMP, ju0 + (IF adm > 0 THEN LCMP \div cfg.p ELSE 0))
        /\ ra' = ra0
        /\ h' = Append(h, [op |-> "sec", n |-> n])
        /\ UNCHANGED <<cfg, nre>>

\* the rule is replaced by a changed one (between two seconds)
Reload(c2) ==
    /\ nre < MaxReload /\ c2 # cfg
    /\ cfg' = c2
    /\ IF Mut = "rawcarry"
         THEN stored' = Min2(stored, MaxTok(c2)) /\ gap' = gap             \* (a never synchronised calculator has nothing to give)
         ELSE stored' = 0 /\ gap' = -1                                     \* fresh calculator
    /\ sat' = 0 /\ starve' = 0 /\ stuck' = FALSE /\ last' = NoLast
    /\ ju' = Min2(LCMP, ju + (IF prev > 0 THEN LCMP \div c2.p ELSE 0))
    /\ ra' = ProgRate(cfg, ju, LCMP, ra)
    /\ nre' = nre + 1
    /\ h' = Append(h, [op |-> "reload", tn |-> c2.tn, td |-> c2.td, p |-> c2.p, c |-> c2.c, cb |-> c2.cb, si |-> c2.si])
    /\ c2.si = cfg.si                   \* (the statistic is kept only when the window is unchanged)
    /\ UNCHANGED <<prev, idle, rec>>

Next == Quiet \/ Busy(1) \/ Busy(SAT) \/ (\E c2 \in Targets(cfg) : Reload(c2))
Spec == Init /\ [][Next]_vars

---------------------------------------------------------------------------
TypeOK == /\ stored \in 0..MaxTok(cfg) /\ prev >= 0 /\ gap >= -1

\* the effective threshold is always a finite non-negative number ...
AllowedDefined == InScope(cfg) => Defined(last.al)
\* ... between 0 and the configured threshold
AllowedInRange == (InScope(cfg) /\ Defined(last.al)) =>
                     /\ last.al.n >= 0 /\ last.al.d > 0
                     /\ last.al.n * cfg.td <= cfg.tn * last.al.d
\* the admitted rate never exceeds the configured threshold (reject: tokens per window; throttling: spacing)
AdmittedLeT == InScope(cfg) => RateOK(cfg, last.win)
\* after the resource has been idle the rate starts no higher than about threshold / coldFactor
ColdAfterIdle == (InScope(cfg) /\ last.cold /\ Defined(last.al) /\ ~(ExcuseStuck /\ last.stuck)) =>
                     last.al.n <= ColdCap(cfg) * last.al.d
\* the same in observable form: the number admitted in such a second
ColdAfterIdleObs == (InScope(cfg) /\ last.cold /\ ~(ExcuseStuck /\ last.stuck)) => last.win <= ColdCap(cfg)
\* after sustained (saturating) demand for the warm-up period the full threshold is reached
\* (observable form: reject admits exactly floor(T) of the saturating demand, throttling paces it at T)
WarmAfterSat == (InScope(cfg) /\ last.warm /\ last.n > 1) =>
                    IF Throttled(cfg) THEN last.adm \in Paced([n |-> cfg.tn, d |-> cfg.td]) ELSE last.win = FloorT(cfg)
\* the same about the effective threshold itself, whatever the control behaviour (T >= 1: below that no token is ever
\* admitted, so nothing is drained and the observable form holds trivially)
WarmAfterSatThr == (InScope(cfg) /\ last.warm /\ last.n > 1 /\ Defined(last.al) /\ cfg.tn >= cfg.td) =>
                       last.al.n * cfg.td = cfg.tn * last.al.d
\* no busy second admits more than the history of the resource justifies (cold after idle is the case ju = 0; after a
\* reload: no warmer than the old rule was, as a fraction or as an absolute rate)
\* (stated for the default window: the progress credit is counted in seconds)
ProgressOK == (InScope(cfg) /\ last.n > 0 /\ Defined(last.al) /\ Si(cfg) = 1000) => last.adm <= last.cap
\* a steady single-token demand is never starved forever when the threshold is at least one
NoStarvation == (InScope(cfg) /\ cfg.tn >= cfg.td) => starve < StarveBound(cfg)
=============================================================================
