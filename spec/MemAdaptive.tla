---------------------------- MODULE MemAdaptive ----------------------------
(***************************************************************************)
(* Model-checked part of the memory-adaptive threshold (property C11): the *)
(* envelope invariants hold for the rational function of MemAdaptiveOps on *)
(* every valid rule / memory reading of a bounded grid (constants Rules,   *)
(* Mems); the machine walks through memory readings so that monotonicity   *)
(* is checked between consecutive probes as well.  The control behaviour  *)
(* is a field of the rule: ObservableOK states the envelope for the        *)
(* admission count of either checker (MemAdaptiveOps!Admits).              *)
(***************************************************************************)
EXTENDS MemAdaptiveOps

CONSTANTS Rules, Mems
VARIABLES rule, mem, pmem    \* current rule, current and previous memory reading

mvars == <<rule, mem, pmem>>
Init == rule \in { r \in Rules : Valid(r) } /\ mem \in Mems /\ pmem = mem
Next == \E m \in Mems : mem' = m /\ pmem' = mem /\ UNCHANGED rule
Spec == Init /\ [][Next]_mvars

E == Eff(rule, mem)
Finite      == E.d > 0 /\ E.n >= 0                                   \* a finite non-negative number
EndPoints   == /\ mem <= rule.lw => (E.n = rule.low * E.d)
               /\ mem >= rule.hw => (E.n = rule.high * E.d)
InRange     == E.n >= rule.high * E.d /\ E.n <= rule.low * E.d
Monotone    == LET P == Eff(rule, pmem) IN
               /\ pmem <= mem => P.n * E.d >= E.n * P.d
               /\ mem <= pmem => E.n * P.d >= P.n * E.d
\* the observable form used by the trace spec is implied by the rational one
ObservableOK == EnvOK(rule, mem, Admits(rule, mem)) /\ MonoOK(pmem, Admits(rule, pmem), mem, Admits(rule, mem))
=============================================================================
