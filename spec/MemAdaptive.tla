---------------------------- MODULE MemAdaptive ----------------------------
(***************************************************************************)
(* Model-checked part of the memory-adaptive threshold (property C11): the *)
(* envelope invariants hold for the rational function of MemAdaptiveOps on *)
(* every valid rule / memory reading of a bounded grid (constants Rules,   *)
(* Mems); the machine walks through memory readings so that monotonicity   *)
(* is checked between consecutive probes as well.  The control behaviour  *)
(* is a field of the rule: ObservableOK states the envelope for the        *)
(* admission count of either checker (MemAdaptiveOps!Admits).              *)
(***************************************************************************)
EXTENDS MemAdaptiveOps

CONSTANTS Rules, Mems
VARIABLES rule, mem, pmem    \* current rule, current and previous memory reading

mvars == <<rule, mem, pmem>>
Init == rule \in { r \in Rules : Valid(r) } /\ mem \in Mems /\ pmem = mem
Probe  == \E m \in Mems : mem' = m /\ pmem' = mem /\ UNCHANGED rule
\* the rule is replaced under traffic (flow.LoadRules): the calculator has no state, the envelope is that of the NEW rule
\* from the next probe on; "monotone between consecutive probes" compares probes of one rule only
\* (one field at a time: the state after a reload is an initial state of the new rule, so nothing else is reachable)
LowVals == { r.low : r \in Rules }   HighVals == { r.high : r \in Rules }
LwVals  == { r.lw : r \in Rules }    HwVals   == { r.hw : r \in Rules }
Changed == { [rule EXCEPT !.low = v] : v \in LowVals } \cup { [rule EXCEPT !.high = v] : v \in HighVals }
           \cup { [rule EXCEPT !.lw = v] : v \in LwVals } \cup { [rule EXCEPT !.hw = v] : v \in HwVals }
Reload == \E r2 \in Changed : Valid(r2) /\ r2 # rule /\ rule' = r2 /\ pmem' = mem /\ UNCHANGED mem
Next == Probe \/ Reload
Spec == Init /\ [][Next]_mvars

E == Eff(rule, mem)
Finite      == E.d > 0 /\ E.n >= 0                                   \* a finite non-negative number
EndPoints   == /\ mem <= rule.lw => (E.n = rule.low * E.d)
               /\ mem >= rule.hw => (E.n = rule.high * E.d)
InRange     == E.n >= rule.high * E.d /\ E.n <= rule.low * E.d
Monotone    == LET P == Eff(rule, pmem) IN
               /\ pmem <= mem => P.n * E.d >= E.n * P.d
               /\ mem <= pmem => E.n * P.d >= P.n * E.d
\* the observable form used by the trace spec is implied by the rational one
ObservableOK == EnvOK(rule, mem, Admits(rule, mem)) /\ MonoOK(pmem, Admits(rule, pmem), mem, Admits(rule, mem))
=============================================================================
