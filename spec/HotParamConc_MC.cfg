SPECIFICATION Spec
CONSTANTS
  Res <- MCRes
  Oth <- MCOth
  Values <- MCValues
  Rules <- MCRules1
  MaxLive = 4
  MaxOps = 5
  Alias = FALSE
  K = 0
  DropZero = FALSE
  Fresh = FALSE
  BothInstall = FALSE
  Alt <- MCRules1
  MaxReloads = 0
  CountOld = FALSE
  ExitCurrent = FALSE
  Remap <- MCRemap3
  Points <- MCPoints0
  SkipAll = FALSE
  CompAbort = FALSE
VIEW view
INVARIANTS TypeOK Conserved CounterOK Capped PendCapped ZeroAfterDrain DecisionOK OneObject FigureInRange
CHECK_DEADLOCK FALSE
