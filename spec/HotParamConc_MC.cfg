SPECIFICATION Spec
CONSTANTS
  Res <- MCRes
  Oth <- MCOth
  Values <- MCValues
  Rules <- MCRules1
  MaxLive = 4
  MaxOps = 5
  Alias = FALSE
VIEW view
INVARIANTS TypeOK Conserved CounterOK Capped ZeroAfterDrain DecisionOK
CHECK_DEADLOCK FALSE
