"""Helpers shared by checks/C01.py and checks/C16.py (both bind spec/EntryChain*.tla to the real code
through harness/ecx).  Scenario = list of op dicts, first is {'op': 'new', 'tr': n, 'mode': ...}."""
import json, os
from vlib import write_ndjson, read_ndjson, MachineryError

TRACE_SPEC = 'EntryChain_Trace'

CHAIN_DEFAULTS = dict(
    Resources={'r1'}, Batches={1}, Orders={1, 2}, PreBehs={'pass', 'panic'}, RuleBehs={'pass', 'nil', 'block', 'panic'},
    StatBehs={'pass', 'panic'}, MaxPre=1, MaxRule=3, MaxStat=1, InitChain='<-MCEmptyChain', InitSlots=0,
    Scripts={'chain'}, XHs={''}, Inbs='<-MCOutbound', ErrToks='<-MCNone', Steps='<-MCNone', MaxEntries=2, MaxLive=2,
    MaxOps=12, MaxT=10, PBL=2, VInt=4, PInt=8)

ACCT_DEFAULTS = dict(
    Resources={'r1', 'r2'}, Batches={1, 2}, Orders='<-MCNone', PreBehs='<-MCNone', RuleBehs='<-MCNone', StatBehs='<-MCNone',
    MaxPre=0, MaxRule=0, MaxStat=0, InitChain='<-MCAcctChain', InitSlots=5,
    Scripts={'pass', 'block', 'panicPre', 'panicRule'}, XHs={''}, Inbs='<-MCBool', ErrToks={'x'}, Steps='<-MCSteps',
    MaxEntries=2, MaxLive=2, MaxOps=5, MaxT='<-MCMaxT', PBL=2, VInt=4, PInt=8)

INVARIANTS = ('TypeOK ChainSorted OrderOK StatToldOnce BlockErrOK CompletionTold Conservation Gauge Quiescent '
              'CompletionOnce CompletedTokens')
PROPERTIES = 'BlockErrStable LateCallsInert'


def tla(v):
    if isinstance(v, bool):
        return 'TRUE' if v else 'FALSE'
    if isinstance(v, int):
        return str(v)
    if isinstance(v, str):
        return '"%s"' % v
    if isinstance(v, (set, frozenset, list, tuple)):
        return '{' + ', '.join(tla(x) for x in sorted(v, key=lambda x: (str(type(x)), x))) + '}'
    raise ValueError(v)


def mc_cfg(defaults, check=True, constraint=None, **over):
    p = dict(defaults)
    p.update(over)
    lines = ['SPECIFICATION Spec', 'CONSTANTS']
    for k, v in p.items():
        if isinstance(v, str) and v.startswith('<-'):
            lines.append('  %s <- %s' % (k, v[2:]))
        else:
            lines.append('  %s = %s' % (k, tla(v)))
    lines.append('VIEW view')
    if constraint:
        lines.append('ACTION_CONSTRAINT ' + constraint)
    if check:
        lines.append('INVARIANTS ' + INVARIANTS)
        lines.append('PROPERTIES ' + PROPERTIES)
    lines.append('CHECK_DEADLOCK FALSE')
    return '\n'.join(lines) + '\n'


def maximal(hs):
    """drop histories that are proper prefixes of another history"""
    keys = sorted(json.dumps(x, sort_keys=True)[:-1] for x in hs if x)
    out = []
    for i, k in enumerate(keys):
        if i + 1 < len(keys) and keys[i + 1].startswith(k) and (keys[i + 1] == k or keys[i + 1][len(k)] == ','):
            continue
        out.append(json.loads(k + ']'))
    return out


def split_traces(lines):
    out, cur = {}, None
    for l in lines:
        if l.get('op') == 'new':
            cur = l['tr']
            out[cur] = []
        out[cur].append(l)
    return out


def run_and_validate(c, drv, scns, tag, timeout=600):
    """replay scenarios on the real code, validate the recorded trace with TLC.
    returns ([(tr, line_no, expected_json_text, observed_event_dict)], trace_path)"""
    sp = os.path.join(c.scratch, tag + '.scn.ndjson')
    tp = os.path.join(c.scratch, tag + '.trace.ndjson')
    write_ndjson(sp, [o for s in scns for o in s])
    c.run([drv, sp, tp], timeout=timeout)
    lines = open(tp).read().splitlines()
    nlines = len(lines)
    mism, consumed, r = c.validate(TRACE_SPEC, tp, nlines)
    if consumed != nlines:
        raise MachineryError('%s: trace validation consumed %d of %d lines (malformed trace?)\n%s' % (tag, consumed, nlines, r.out[-2500:]))
    c.cov['traces_validated_against_impl'] += len(scns)
    c.cov['evaluations'] += nlines
    c.log('S3/S4 %s: %d scenarios, %d events validated in %.0fs, %d mismatching traces' % (tag, len(scns), nlines, r.wall, len(mism)))
    out = []
    for tr, ln, exp in mism:
        out.append((tr, ln, exp, json.loads(lines[ln - 1])))
    return out, tp


def confirm_behind_predecessors(c, drv, ordered, tr, k=30):
    """A mismatch that does not reproduce from its scenario alone may depend on what earlier scenarios of the same driver
    process left behind in POOLED objects (a damaged recycled context is library state, not harness state).  Replay the
    scenario behind its k predecessors, twice, in fresh processes: returns (replay_lines, mismatch) when trace `tr` itself
    mismatches both times at the same line, else None."""
    idx = [i for i, s in enumerate(ordered) if s[0]['tr'] == tr]
    if not idx:
        return None
    part = ordered[max(0, idx[0] - k):idx[0] + 1]
    seen = []
    for i in range(2):
        m2, _ = run_and_validate(c, drv, part, 'confirm-pred%d' % i)
        hit = [m for m in m2 if m[0] == tr]
        seen.append(hit[0] if hit else None)
    if seen[0] and seen[1] and seen[0][1] == seen[1][1]:
        return [o for sc in part for o in sc], seen[1]
    return None


def validate_lines(c, recs, tag):
    """validate already recorded (possibly corrupted) trace records; returns set of mismatching trace numbers"""
    cp = os.path.join(c.scratch, tag + '.ndjson')
    write_ndjson(cp, recs)
    mism, consumed, r = c.validate(TRACE_SPEC, cp, len(recs))
    if consumed != len(recs):
        raise MachineryError('%s: validation consumed %d of %d lines\n%s' % (tag, consumed, len(recs), r.out[-2000:]))
    return {m[0] for m in mism}


def diff_components(obs, exp_text):
    """names of the observable components in which a recorded event differs from what the spec expected
    (used only to classify confirmed mismatches into known-finding keys; never to decide a verdict)"""
    try:
        exp = json.loads(exp_text)
    except Exception:
        return {'?'}
    d = set()
    st, est = obs.get('st', {}), exp.get('state', {})
    for n, en in (est.get('nodes') or {}).items():
        on = (st.get('nodes') or {}).get(n)
        if on is None:
            d.add('nodes.missing')
            continue
        if on['conc'] != en['conc']:
            d.add('nodes.conc')
        for view in ('sum', 'all'):
            for k, v in en[view].items():
                if on[view].get(k) != v:
                    d.add('nodes.' + k)
    elive = {e['id']: e for e in (est.get('live') or [])}
    olive = {e['id']: e for e in st.get('live', [])}
    if set(elive) != set(olive):
        d.add('live.ids')
    for i, e in elive.items():
        o = olive.get(i)
        if not o:
            continue
        if o.get('args') != e['args']:
            d.add('live.args')
        if o.get('res') != e['res'] or o.get('b') != e['b'] or o.get('start') != e['start']:
            d.add('live.ctx')
        errs = set(e['errs'])
        ok = (o.get('err') in errs) or (o.get('err') == '' and not errs) or (o.get('err') == 'internal' and e['out'] == 'panic')
        if not ok:
            d.add('live.err')
    eb = {e['id']: e for e in (est.get('berrs') or [])}
    ob = {e['id']: e for e in st.get('berrs', [])}
    if eb != ob:
        d.add('berrs')
    if 'calls' in exp:
        oc = [[x['k'], x['id'], x['m']] for x in obs.get('calls', [])]
        ec = [[x['k'], x['id'], x['m']] for x in exp['calls']]
        if oc != ec:
            d.add('calls')
    if 'compl' in exp:
        oc = [[x['k'], x['id'], x['m']] for x in obs.get('calls', []) if x['k'] != 'xh']
        ec = [[x['k'], x['id'], x['m']] for x in exp['compl']]
        if oc != ec:
            d.add('compl')
        for x in obs.get('calls', []):
            if x['k'] != 'xh' and x.get('args') is not None:
                pass
    if obs.get('esc'):
        d.add('escaped')
    if 'out' in exp and obs.get('op') == 'entry':
        if obs.get('blocked') != (exp['out'] == 'block'):
            d.add('outcome')
    return d
