"""Extra stages: whole-API checks that are not properties of their own (checks/COMPOSE.py, checks/PIPELINE.py) run inside the
thorough tier of the property checks they back.  A violation found by a stage is a violation of the calling check (with the
stage's replay file); a stage that does not complete makes the calling check inconclusive."""
import json, os, subprocess


def run_stage(c, name, key):
    root = os.path.dirname(os.path.dirname(os.path.abspath(__file__)))
    evd = os.path.join(c.scratch, name.lower() + '-ev')
    env = dict(os.environ, VERIF_EVIDENCE_DIR=evd, VERIF_SEED=str(c.seed))
    p = subprocess.run([os.path.join(root, 'bin', 'check'), name, 'quick'], env=env, stdout=subprocess.PIPE, stderr=subprocess.STDOUT, text=True, timeout=3600)
    lines = p.stdout.splitlines()
    if p.returncode == 1:
        for i, l in enumerate(lines):
            if l.startswith('VIOLATION'):
                c.violation('%s stage: %s' % (name, lines[i + 1].strip() if i + 1 < len(lines) else ''), l.split('replay=')[-1])
    elif p.returncode != 0:
        c.inconclusive.append('%s stage did not complete: %s' % (name, p.stdout[-600:]))
    try:
        ev = json.load(open(os.path.join(evd, name + '.json')))['coverage']
        c.cov[key] = {k: ev[k] for k in ('states', 'transitions', 'traces_validated_against_impl', 'evaluations', 'distinct_nontrivial') if k in ev}
        c.log('%s stage: %s' % (name, c.cov[key]))
    except Exception:
        pass
