"""Shared machinery of the verification checks (see DESIGN.md sections 2 and 6).

Every check is:  S1 model-check the TLA+ spec with TLC  ->  S2 obtain scenarios (TLC-generated and/or
seeded random)  ->  S3 drive the real code (Go harness built from /repo's working tree with -tags verif)
->  S4 validate the recorded traces against the <Sub>_Trace spec with TLC  ->  S5 verdict + evidence.

Exit codes: 0 property held on everything explored, 1 + "VIOLATION property=<id> replay=<path>", 2 machinery
failure / inconclusive (never prints VIOLATION).
"""
import json, os, re, shutil, subprocess, sys, tempfile, time, random

VERIF = os.path.dirname(os.path.dirname(os.path.abspath(__file__)))
REPO = os.environ.get('VERIF_REPO', '/repo')
SPEC = os.path.join(VERIF, 'spec')
HARNESS = os.path.join(VERIF, 'harness')
TLA_CP = '/opt/veriftools/tla/tla2tools.jar:/opt/veriftools/tla/CommunityModules-deps.jar'
NCPU = os.cpu_count() or 8


class MachineryError(Exception):
    pass


def goenv():
    e = dict(os.environ)
    e.update(GOFLAGS='-mod=mod', GOPROXY='off', GOSUMDB='off', GOTOOLCHAIN='local')
    return e


class TLCResult:
    def __init__(self, out, rc, wall):
        self.out, self.rc, self.wall = out, rc, wall
        m = re.search(r'(\d[\d,]*) states generated, (\d[\d,]*) distinct states found', out)
        self.generated = int(m.group(1).replace(',', '')) if m else 0
        self.distinct = int(m.group(2).replace(',', '')) if m else 0
        m = re.search(r'The depth of the complete state graph search is (\d+)', out)
        self.depth = int(m.group(1)) if m else 0
        self.completed = 'Model checking completed. No error has been found.' in out
        m = re.search(r'Error: Invariant (\S+) is violated', out)
        self.violated = m.group(1) if m else None
        if not self.violated:
            m = re.search(r'Error: Action property (\S+) is violated', out)
            self.violated = m.group(1) if m else None
        if not self.violated and 'Temporal properties were violated' in out:
            self.violated = 'temporal'
        self.deadlock = 'Error: Deadlock reached' in out
        self.error = None
        if not self.completed and not self.violated and not self.deadlock:
            m = re.search(r'(?m)^Error: (.*)$', out)
            self.error = m.group(1) if m else ('rc=%d' % rc if rc not in (0,) else None)

    def prints(self, tag):
        """lines printed by PrintT(<<tag, ...>>) (TLC value syntax, returned raw)"""
        return [l for l in self.out.splitlines() if l.startswith('<<"%s"' % tag)]

    def json_prints(self):
        """lines printed by PrintT(ToJson(x)): a TLA+ string literal holding JSON"""
        res = []
        for l in self.out.splitlines():
            if l.startswith('"[') or l.startswith('"{'):
                try:
                    res.append(json.loads(json.loads(l)))
                except Exception:
                    pass
        return res


class LibraryDied(MachineryError):
    """the driver process died with a Go runtime fatal error inside library code, reproducibly, on ONE scenario"""
    def __init__(self, scenario, what):
        MachineryError.__init__(self, what)
        self.scenario, self.what = scenario, what


FATAL_PAT = re.compile(r'fatal error: (runtime: out of memory|runtime: cannot allocate memory|out of memory|stack overflow|'
                       r'concurrent map [\w ]+|all goroutines are asleep - deadlock!|sync: [Uu]nlock of unlocked \w+|sync: RUnlock of unlocked RWMutex)|'
                       r'runtime: goroutine stack exceeds')
LIB_FRAME = 'github.com/alibaba/sentinel-golang/'


class Check:
    def __init__(self, pid, level='model_checking'):
        self.pid = pid
        self.level = level
        self.tier = 'quick'
        self.seed = int(os.environ.get('VERIF_SEED', '1') or 1)
        self.t0 = time.time()
        self.scratch = tempfile.mkdtemp(prefix='verif-%s-' % pid)
        self.cov = dict(states=0, transitions=0, traces_validated_against_impl=0, samples=[], evaluations=0,
                        distinct_nontrivial=0, rule='', tlc_runs=[], conformance_mismatches=0,
                        known_findings_seen=[], exhaustive=False)
        self.assumptions = []
        self.violations = []      # (what, replay_path)
        self.known_seen = {}      # key -> description
        self.inconclusive = []
        self._tlc_n = 0
        self.rng = random.Random(self.seed)
        self.kf = load_known_findings(pid)

    # ------------------------------------------------------------------ infrastructure
    def cleanup(self):
        shutil.rmtree(self.scratch, ignore_errors=True)

    def log(self, *a):
        print('[%s %6.1fs]' % (self.pid, time.time() - self.t0), *a, flush=True)

    def build(self, cmd, race=False):
        """build harness/cmd/<cmd> against /repo's current working tree with the hooks on"""
        out = os.path.join(self.scratch, cmd + ('-race' if race else ''))
        hdir = HARNESS
        if os.path.realpath(REPO) != '/repo':
            # checks normally run against /repo; VERIF_REPO=<worktree> retargets the harness module (used to try seeded changes)
            hdir = os.path.join(self.scratch, 'harness')
            if not os.path.exists(hdir):
                shutil.copytree(HARNESS, hdir)
                subprocess.run(['go', 'mod', 'edit', '-replace', 'github.com/alibaba/sentinel-golang=' + os.path.realpath(REPO)],
                               cwd=hdir, env=goenv(), check=True)
                shutil.copy(os.path.join(REPO, 'go.sum'), os.path.join(hdir, 'go.sum'))
        args = ['go', 'build', '-tags', 'verif', '-o', out]
        if race:
            args.append('-race')
        args.append('./cmd/' + cmd)
        p = subprocess.run(args, cwd=hdir, env=goenv(), stdout=subprocess.PIPE, stderr=subprocess.STDOUT, text=True)
        if p.returncode != 0:
            raise MachineryError('harness build failed:\n' + p.stdout[-4000:])
        return out

    def run(self, args, timeout=600, cwd=None, env=None, ok_codes=(0,)):
        def cap():
            # a harness binary must never take the sandbox down with it (a change to the library may allocate without bound):
            # 16 GB of address space for non-race drivers (the race detector needs terabytes of shadow address space)
            import resource
            resource.setrlimit(resource.RLIMIT_AS, (16 << 30, 16 << 30))
        capped = str(args[0]).startswith(self.scratch) and not str(args[0]).endswith('-race')
        try:
            p = subprocess.run(args, cwd=cwd or self.scratch, env=env or goenv(), stdout=subprocess.PIPE,
                               stderr=subprocess.PIPE, text=True, timeout=timeout, preexec_fn=cap if capped else None)
        except subprocess.TimeoutExpired:
            raise MachineryError('timeout: ' + ' '.join(args[:4]))
        if p.returncode not in ok_codes:
            if capped and len(args) >= 3 and str(args[1]).endswith('.ndjson') and not getattr(self, '_attributing', False):
                self.attribute_death(args, p, timeout, cwd, env)
            raise MachineryError('command failed rc=%d: %s\n%s' % (p.returncode, ' '.join(args[:6]), (p.stderr or p.stdout)[-3000:]))
        return p

    def attribute_death(self, args, p, timeout, cwd, env):
        """A driver died.  If it is a Go runtime fatal error (memory exhausted under the address-space cap, stack overflow,
        concurrent map access, deadlock) with library frames on the stack, find ONE scenario that kills a fresh driver process
        on its own, twice: then the real code does not complete the calls of that scenario - raised as LibraryDied (vlib.main
        reports it as a violation with the scenario as replay file).  Anything else stays a machinery failure (exit 2)."""
        err = p.stderr or ''
        if not (FATAL_PAT.search(err) and LIB_FRAME in err):
            return
        try:
            ops = read_ndjson(args[1])
        except Exception:
            return
        scns = []
        for o in ops:
            if o.get('op') == 'new' or not scns:
                scns.append([])
            scns[-1].append(o)
        if not scns or scns[0][0].get('op') != 'new':
            return
        self._attributing = True
        try:
            def dies(part, k):
                sp = os.path.join(self.scratch, 'death%d.scn.ndjson' % k)
                write_ndjson(sp, [o for sc in part for o in sc])
                try:
                    q = subprocess.run([args[0], sp, os.path.join(self.scratch, 'death%d.trace.ndjson' % k)] + list(args[3:]),
                                       cwd=cwd or self.scratch, env=env or goenv(), stdout=subprocess.PIPE, stderr=subprocess.PIPE,
                                       text=True, timeout=min(timeout, 300),
                                       preexec_fn=lambda: __import__('resource').setrlimit(__import__('resource').RLIMIT_AS, (16 << 30, 16 << 30)))
                except subprocess.TimeoutExpired:
                    return None
                return q.stderr if (q.returncode != 0 and FATAL_PAT.search(q.stderr or '') and LIB_FRAME in (q.stderr or '')) else None
            part, k = scns, 0
            while len(part) > 1:
                k += 1
                half = part[:len(part) // 2]
                part = half if dies(half, k) else part[len(part) // 2:]
            e1, e2 = dies(part, k + 1), dies(part, k + 2)
            if e1 and e2:
                m = FATAL_PAT.search(e2)
                frames = [l.strip() for l in e2.splitlines() if LIB_FRAME in l][:4]
                raise LibraryDied(part[0], 'the driver process dies with "%s" inside the library on this scenario alone (twice): %s' % (
                    m.group(0), ' <- '.join(frames)))
        finally:
            self._attributing = False

    def tlc(self, module, cfg=None, workers=None, timeout=900, args=(), files=None, props=None, heap='6g', count=True,
            cfg_text=None):
        """run TLC on spec/<module>.tla with spec/<cfg>.cfg in a private scratch directory"""
        self._tlc_n += 1
        d = os.path.join(self.scratch, 'tlc%d' % self._tlc_n)
        os.makedirs(d)
        for f in os.listdir(SPEC):
            if f.endswith('.tla'):
                shutil.copy(os.path.join(SPEC, f), d)
        cfg = cfg or module
        if cfg_text is not None:
            open(os.path.join(d, module + '.cfg'), 'w').write(cfg_text)
        else:
            shutil.copy(os.path.join(SPEC, cfg + '.cfg'), os.path.join(d, module + '.cfg'))
        for name, src in (files or {}).items():
            if os.path.exists(os.path.join(d, name)):
                os.remove(os.path.join(d, name))
            os.symlink(src, os.path.join(d, name))
        cmd = ['java', '-XX:+UseParallelGC', '-Xmx' + heap, '-Xss64m']
        for k, v in (props or {}).items():
            cmd.append('-D%s=%s' % (k, v))
        cmd += ['-cp', TLA_CP, 'tlc2.TLC', '-workers', str(workers or min(8, NCPU)), '-metadir', os.path.join(d, 'md'),
                '-noGenerateSpecTE'] + list(args) + [module]
        t = time.time()
        try:
            p = subprocess.run(cmd, cwd=d, stdout=subprocess.PIPE, stderr=subprocess.STDOUT, text=True, timeout=timeout)
            out, rc = p.stdout, p.returncode
        except subprocess.TimeoutExpired as e:
            out = (e.stdout.decode() if isinstance(e.stdout, bytes) else (e.stdout or ''))
            rc = 124
            subprocess.run(['pkill', '-f', d], stdout=subprocess.DEVNULL, stderr=subprocess.DEVNULL)
        r = TLCResult(out, rc, time.time() - t)
        r.dir = d
        if rc == 124:
            r.error = 'timeout'
        if count:
            self.cov['tlc_runs'].append(dict(module=module, cfg=cfg, generated=r.generated, distinct=r.distinct,
                                             depth=r.depth, wall_s=round(r.wall, 1), args=' '.join(args),
                                             result='ok' if r.completed else (r.violated or ('deadlock' if r.deadlock else r.error))))
        shutil.rmtree(os.path.join(d, 'md'), ignore_errors=True)
        return r

    def model_check(self, module, cfg=None, **kw):
        """S1: exhaustive check of the bounded design model; counts go into the evidence"""
        r = self.tlc(module, cfg, **kw)
        if r.error:
            raise MachineryError('TLC failed on %s/%s: %s\n%s' % (module, cfg or module, r.error, r.out[-3000:]))
        self.cov['states'] += r.distinct
        self.cov['transitions'] += r.generated
        self.log('S1 %s/%s: %d distinct states, %d transitions, depth %d, %.0fs -> %s' % (
            module, cfg or module, r.distinct, r.generated, r.depth, r.wall,
            'no error' if r.completed else ('VIOLATED ' + str(r.violated) if r.violated else 'deadlock')))
        return r

    def validate(self, module, trace_path, nlines, cfg=None, timeout=1800, workers=1, dfs=False, heap='8g'):
        """S4: run the <Sub>_Trace spec over a (concatenated) ndjson trace.
        Returns (mismatches, consumed): mismatches = [(trace_no, line, raw_expected)], consumed = lines consumed."""
        props = {'tlc2.tool.queue.IStateQueue': 'StateDeque'} if dfs else None
        r = self.tlc(module, cfg, workers=workers, timeout=timeout, files={'trace.ndjson': trace_path}, props=props,
                     heap=heap, count=False)
        if r.error or not (r.completed or r.deadlock):
            raise MachineryError('trace validation failed to run (%s): %s\n%s' % (module, r.error or r.violated, r.out[-3000:]))
        mism = []
        for l in r.out.splitlines():
            if l.startswith('"MISMATCH '):
                try:
                    txt = json.loads(l)
                except Exception:
                    raise MachineryError('unparsable MISMATCH line: ' + l[:300])
                _, a, b, rest = txt.split(' ', 3)
                mism.append((int(a), int(b), rest))
            elif 'MISMATCH' in l:
                raise MachineryError('unexpected MISMATCH output format: ' + l[:300])
        consumed = r.depth - 1
        return mism, consumed, r

    # ------------------------------------------------------------------ verdicts
    def violation(self, what, replay_path):
        self.violations.append((what, replay_path))

    def known(self, key, what):
        """a reproduced deviation that is listed as an open known finding"""
        self.known_seen.setdefault(key, what)

    def is_known(self, key):
        return key in self.kf

    def save_replay(self, name, lines):
        d = os.path.join(os.environ.get('VERIF_REPLAY_DIR') or os.path.join(VERIF, 'replays'), self.pid)
        os.makedirs(d, exist_ok=True)
        p = os.path.join(d, name)
        with open(p, 'w') as f:
            for l in lines:
                f.write(l if isinstance(l, str) else json.dumps(l))
                if not (isinstance(l, str) and l.endswith('\n')):
                    f.write('\n')
        return p

    def sample(self, x, limit=3):
        if len(self.cov['samples']) < limit:
            self.cov['samples'].append(x)

    def finish(self):
        cov = self.cov
        cov['known_findings_seen'] = sorted(self.known_seen)
        ev = dict(property_id=self.pid, tier=self.tier, seed=self.seed, level=self.level, coverage=cov,
                  assumptions=self.assumptions, wall_s=round(time.time() - self.t0, 1), violations=len(self.violations))
        evdir = os.environ.get('VERIF_EVIDENCE_DIR') or os.path.join(VERIF, 'evidence')
        os.makedirs(evdir, exist_ok=True)
        with open(os.path.join(evdir, self.pid + '.json'), 'w') as f:
            json.dump(ev, f, indent=1, default=str)
        for key, what in sorted(self.known_seen.items()):
            print('KNOWN-FINDING: property=%s %s [%s]' % (self.pid, what, key))
        for what, rp in self.violations:
            print('VIOLATION property=%s replay=%s' % (self.pid, rp))
            print('  ' + what)
        self.cleanup()
        if self.violations:
            sys.exit(1)
        if self.inconclusive:
            for x in self.inconclusive:
                print('INCONCLUSIVE: ' + x)
            sys.exit(2)
        self.log('OK: property held on everything explored (%s tier, seed %d)' % (self.tier, self.seed))
        sys.exit(0)


def load_known_findings(pid):
    p = os.path.join(VERIF, 'known_findings.json')
    if not os.path.exists(p):
        return {}
    data = json.load(open(p))
    return {e['key']: e for e in data.get('findings', []) if e.get('property') == pid and e.get('status', 'open') == 'open'}


def write_ndjson(path, recs):
    with open(path, 'w') as f:
        for r in recs:
            f.write(json.dumps(r, separators=(',', ':')))
            f.write('\n')


def read_ndjson(path):
    return [json.loads(l) for l in open(path) if l.strip()]


def main(pid, fn, level='model_checking'):
    """entry point used by checks/<id>.py:  fn(check, tier, replay_path_or_None)"""
    import argparse
    ap = argparse.ArgumentParser()
    ap.add_argument('tier', nargs='?', default='quick')
    ap.add_argument('--replay')
    a = ap.parse_args(sys.argv[2:] if len(sys.argv) > 1 and sys.argv[1] == pid else sys.argv[1:])
    c = Check(pid, level)
    c.tier = 'thorough' if a.tier == 'thorough' else 'quick'
    try:
        fn(c, c.tier, a.replay)
    except LibraryDied as e:
        rp = c.save_replay('died-tr%s.ndjson' % e.scenario[0].get('tr', 0), e.scenario)
        c.violation('the real code does not complete the calls of the scenario: ' + e.what, rp)
        c.finish()
    except MachineryError as e:
        print('MACHINERY-ERROR (%s): %s' % (pid, e))
        c.cleanup()
        sys.exit(2)
    except SystemExit:
        raise
    except Exception:
        import traceback
        traceback.print_exc()
        c.cleanup()
        sys.exit(2)
    c.finish()
