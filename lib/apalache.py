"""Apalache stage (growth item 3): discharge the inductive invariant of spec/AdmitInd.tla for a symbolic threshold N and batch B
(k = 4 callers).  Extra evidence for the k-callers clauses of C02 / C04 in the thorough tier; never the only basis of a claim:
a failure to RUN is recorded, a refuted obligation makes the check inconclusive (the TLC-checked AdmitPath model is the verdict)."""
import os, shutil, subprocess, tempfile

SPEC = os.path.join(os.path.dirname(os.path.dirname(os.path.abspath(__file__))), 'spec')
OBLIGATIONS = [('Init => IndInv', ['--init=Init', '--inv=IndInv', '--length=0'], True),
               ('IndInv /\\ Next => IndInv\'', ['--init=IndInit', '--inv=IndInv', '--length=1'], True),
               ('IndInv => Bound', ['--init=IndInit', '--inv=Bound', '--length=0'], True),
               ('vacuity: IndInv does NOT imply the bound that is one batch tighter', ['--init=IndInit', '--inv=TooTight', '--length=0'], False)]


def run(c):
    if not shutil.which('apalache-mc'):
        c.cov['apalache'] = 'apalache-mc not installed: stage skipped'
        return
    d = tempfile.mkdtemp(prefix='verif-apalache-')
    res = []
    try:
        shutil.copy(os.path.join(SPEC, 'AdmitInd.tla'), d)
        for name, args, must_hold in OBLIGATIONS:
            try:
                p = subprocess.run(['apalache-mc', 'check', '--cinit=CInit'] + args + ['AdmitInd.tla'], cwd=d, stdout=subprocess.PIPE,
                                   stderr=subprocess.STDOUT, text=True, timeout=600)
                ok = 'EXITCODE: OK' in p.stdout
                viol = 'invariant 0 violated' in p.stdout or 'EXITCODE: ERROR (12)' in p.stdout
            except subprocess.TimeoutExpired:
                ok = viol = False
            status = 'discharged' if (ok and must_hold) else 'refuted as required' if (viol and not must_hold) else 'NOT AS EXPECTED'
            res.append('%s: %s' % (name, status))
            if status == 'NOT AS EXPECTED':
                c.inconclusive.append('Apalache obligation "%s" not as expected' % name)
    finally:
        shutil.rmtree(d, ignore_errors=True)
    c.cov['apalache'] = dict(spec='spec/AdmitInd.tla', claim='used <= N + (k-1)*B for symbolic naturals N, B >= 1 and k = 4 callers (inductive invariant)',
                             obligations=res)
    c.log('Apalache: %s' % '; '.join(res))
