// Package ecx is the conformance engine shared by the C16 and C01 drivers (entry / slot chain).
//
// It replays scenarios of slot-chain assembly, Entry, TraceError, Exit (first, repeated, late),
// clock ticks and a free-running stress phase on the REAL library through its public API
// (api.Entry, api.TraceError, SentinelEntry.Exit, base.SlotChain.Add*Slot, stat.GetResourceNode ...)
// and records one ndjson line per operation with everything a user can observe afterwards.
// The recorded trace is judged by spec/EntryChain_Trace.tla.
//
// Modes of a trace ("new" record):
//
//	chain  : custom base.SlotChain of recording slots only                       (C16)
//	stat   : custom chain of recording slots + the real stat prepare / stat slot  (C01 i)
//	global : the default global chain + isolation / hot-parameter rules           (C01 ii)
//	multi  : SEVERAL chains alive at once, each obtained from one of the library's constructors
//	         (op "mchain": base.NewSlotChain / api.BuildDefaultSlotChain / api.GlobalSlotChain) and
//	         extended afterwards in any interleaving; slot / entry ops name their chain (field c) (C16)
package ecx

import (
	"errors"
	"fmt"
	"math/rand"
	"runtime"
	"sync"
	"sync/atomic"

	"github.com/alibaba/sentinel-golang/api"
	"github.com/alibaba/sentinel-golang/core/base"
	"github.com/alibaba/sentinel-golang/core/hotspot"
	"github.com/alibaba/sentinel-golang/core/isolation"
	"github.com/alibaba/sentinel-golang/core/stat"

	"verifharness/hx"
)

const (
	pbl  = 500   // bucket length of every resource node (global statistic: 20 x 500 ms)
	vint = 1000  // default read view of a resource node: 2 x 500 ms
	pint = 10000 // whole array
	// every trace starts this far after the previous one so that no window of a global node
	// (stat.InboundNode) still holds events of an earlier trace
	traceGap = 100000
)

var kinds = []struct {
	n string
	e base.MetricEvent
}{{"pass", base.MetricEventPass}, {"block", base.MetricEventBlock}, {"complete", base.MetricEventComplete},
	{"error", base.MetricEventError}, {"rt", base.MetricEventRt}}

// scripted outcome codes carried in the entry flag (flag = eid*8 + code)
var soCode = map[string]int32{"chain": 0, "pass": 1, "block": 2, "panicPre": 3, "panicRule": 4}

type fakeRule struct{ id int }

func (r *fakeRule) String() string       { return fmt.Sprintf("S%d", r.id) }
func (r *fakeRule) ResourceName() string { return "" }

type ent struct {
	id     int64
	e      *base.SentinelEntry
	exited bool
}

type held struct {
	id int64
	be *base.BlockError
}

// Engine replays scenarios.
type Engine struct {
	Clk   *hx.VClock
	Tr    *hx.Trace
	Modes map[string]bool // modes this driver accepts

	base0   int64 // absolute ms of the start of the running trace
	ntrace  int64
	origin  int64
	mode    string
	trn     int64
	chain   *base.SlotChain
	nslot   int
	mu      sync.Mutex
	log     []hx.M
	ents    map[int64]*ent
	order   []int64
	byPtr   sync.Map // *base.SentinelEntry -> id
	neid    int64
	resName map[string]string
	tokOf   map[string]string
	nodes   []string
	allView map[string]base.ReadStat
	inBase  int32
	errTok  map[error]string
	berrs   []held
	hot     map[string]bool
	emptyTok string // resource token that stands for the empty resource name in the running trace
	// stress bookkeeping
	stress   bool
	sPassed  sync.Map // *SentinelEntry -> *int32 (told passed)
	sCompl   sync.Map // *SentinelEntry -> *int32 (told completed)
	sBlocked int64

	globalRec *slot

	// mode "multi": the chains of the running trace by scenario id, and how each was obtained
	chains    map[int64]*base.SlotChain
	chainKind map[int64]string
}

func NewEngine(clk *hx.VClock, tr *hx.Trace, modes ...string) *Engine {
	g := &Engine{Clk: clk, Tr: tr, Modes: map[string]bool{}}
	for _, m := range modes {
		g.Modes[m] = true
	}
	g.origin = hx.BaseMs(pint)
	return g
}

// ------------------------------------------------------------------ recording slots

type slot struct {
	g    *Engine
	kind string
	id   int
	ord  uint32
	beh  string
	bm   string // how a rule slot blocks: fresh | ctx | own
	own  *base.TokenResult
	rp   base.StatPrepareSlot
	rs   base.StatSlot
	// a recording slot added to api.GlobalSlotChain() (mode "multi") cannot be removed again: outside the trace that
	// added it, it lets everything pass and records nothing
	trn    int64
	global bool
}

func (s *slot) dormant() bool { return s.global && s.trn != s.g.trn }

func (s *slot) Order() uint32 { return s.ord }

func flagOf(ctx *base.EntryContext) (eid int64, code int32) {
	f := ctx.Input.Flag
	return int64(f / 8), f % 8
}

func (s *slot) rec(m hx.M) {
	s.g.mu.Lock()
	s.g.log = append(s.g.log, m)
	s.g.mu.Unlock()
}

func (s *slot) Prepare(ctx *base.EntryContext) {
	if s.dormant() {
		return
	}
	_, code := flagOf(ctx)
	if !s.g.stress {
		s.rec(hx.M{"k": "pre", "id": s.id, "m": "prepare"})
	}
	switch s.beh {
	case "real":
		s.rp.Prepare(ctx)
	case "panic":
		panic("scripted panic in prepare slot")
	case "script":
		if code == soCode["panicPre"] {
			panic("scripted panic in prepare slot")
		}
	}
}

func (s *slot) Check(ctx *base.EntryContext) *base.TokenResult {
	if s.dormant() {
		return nil
	}
	eid, code := flagOf(ctx)
	if !s.g.stress {
		s.rec(hx.M{"k": "rule", "id": s.id, "m": "check"})
	}
	beh := s.beh
	if beh == "script" {
		switch code {
		case soCode["block"]:
			beh = "block"
		case soCode["panicRule"]:
			beh = "panic"
		default:
			beh = "ctx"
		}
	}
	switch beh {
	case "nil":
		return nil
	case "pass":
		return base.NewTokenResultPass()
	case "ctx":
		return ctx.RuleCheckResult
	case "wait":
		return base.NewTokenResultShouldWait(0)
	case "panic":
		panic("scripted panic in rule check slot")
	case "block":
		bt := base.BlockType(100 + s.id)
		rule := &fakeRule{id: s.id}
		switch s.bm {
		case "ctx":
			r := ctx.RuleCheckResult
			if r == nil {
				return base.NewTokenResultBlockedWithCause(bt, "m", rule, int(eid))
			}
			r.ResetToBlockedWithCause(bt, "m", rule, int(eid))
			return r
		case "partial":
			// blocks through the helper that names only the block type: no rule, no snapshot
			r := ctx.RuleCheckResult
			if r == nil {
				return base.NewTokenResultBlocked(bt)
			}
			r.ResetToBlocked(bt)
			return r
		case "const":
			// a slot that built its "blocked" answer once and hands out the same object every time
			if s.own == nil {
				s.own = base.NewTokenResultBlockedWithCause(bt, "m", rule, -3)
			}
			return s.own
		case "own":
			if s.own == nil {
				s.own = base.NewTokenResultBlockedWithCause(bt, "m", rule, int(eid))
			} else {
				s.own.ResetToBlockedWithCause(bt, "m", rule, int(eid))
			}
			return s.own
		default:
			return base.NewTokenResultBlockedWithCause(bt, "m", rule, int(eid))
		}
	}
	return nil
}

func (s *slot) OnEntryPassed(ctx *base.EntryContext) {
	if s.dormant() {
		return
	}
	eid, _ := flagOf(ctx)
	if s.g.stress {
		if s.beh != "real" {
			cnt(&s.g.sPassed, ctx.Entry())
		}
	} else {
		s.rec(hx.M{"k": "stat", "id": s.id, "m": "passed", "eid": eid})
	}
	if s.beh == "real" {
		s.rs.OnEntryPassed(ctx)
	}
	if s.beh == "panic" {
		panic("scripted panic in stat slot")
	}
}

func (s *slot) OnEntryBlocked(ctx *base.EntryContext, be *base.BlockError) {
	if s.dormant() {
		return
	}
	if s.g.stress {
		if s.beh != "real" {
			atomic.AddInt64(&s.g.sBlocked, 1)
		}
	} else {
		m := hx.M{"k": "stat", "id": s.id, "m": "blocked"}
		readBE(m, be)
		s.rec(m)
	}
	if s.beh == "real" {
		s.rs.OnEntryBlocked(ctx, be)
	}
	if s.beh == "panic" {
		panic("scripted panic in stat slot")
	}
}

func (s *slot) OnCompleted(ctx *base.EntryContext) {
	if s.dormant() {
		return
	}
	eid, _ := flagOf(ctx)
	if s.g.mode == "global" {
		// the flag is not ours to use on the global chain: identify the entry by its pointer
		if v, ok := s.g.byPtr.Load(ctx.Entry()); ok {
			eid = v.(int64)
		} else {
			eid = -1
		}
	}
	if s.g.stress {
		if s.beh != "real" {
			cnt(&s.g.sCompl, ctx.Entry())
		}
	} else {
		m := hx.M{"k": "stat", "id": s.id, "m": "completed", "eid": eid, "err": s.g.errName(ctx.Err()),
			"rt": int64(ctx.Rt()), "b": int64(ctx.Input.BatchCount), "res": s.g.tok(ctx.Resource.Name()),
			"args": argToks(ctx.Input.Args)}
		s.rec(m)
	}
	if s.beh == "real" {
		s.rs.OnCompleted(ctx)
	}
	if s.beh == "panicC" {
		panic("scripted panic in stat slot completion")
	}
}

func cnt(m *sync.Map, key *base.SentinelEntry) {
	v, _ := m.LoadOrStore(key, new(int32))
	atomic.AddInt32(v.(*int32), 1)
}

func readBE(m hx.M, be *base.BlockError) {
	if be == nil {
		m["bt"], m["rule"], m["val"] = -1, -1, -1
		return
	}
	m["bt"] = int(be.BlockType()) - 100
	switch r := be.TriggeredRule().(type) {
	case *fakeRule:
		m["rule"] = r.id
	case *isolation.Rule:
		m["rule"] = int(r.Threshold)
	case nil:
		m["rule"] = -1
	default:
		m["rule"] = -2
	}
	switch v := be.TriggeredValue().(type) {
	case int:
		m["val"] = v
	case uint32:
		m["val"] = int(v)
	case nil:
		m["val"] = -1
	default:
		m["val"] = -2
	}
}

func argToks(a []interface{}) []string {
	out := make([]string, 0, len(a))
	for _, x := range a {
		switch v := x.(type) {
		case string:
			out = append(out, v)
		case []int:
			out = append(out, "UNH")
		default:
			out = append(out, "?")
		}
	}
	return out
}

func (g *Engine) errName(e error) string {
	if e == nil {
		return ""
	}
	if t, ok := g.errTok[e]; ok {
		return t
	}
	return "internal"
}

func (g *Engine) mkErr(tok string) error {
	if tok == "" {
		return nil
	}
	e := errors.New(tok)
	g.errTok[e] = tok
	return e
}

func (g *Engine) tok(name string) string {
	if t, ok := g.tokOf[name]; ok {
		return t
	}
	return "?" + name
}

func (g *Engine) name(tok string) string {
	if n, ok := g.resName[tok]; ok {
		return n
	}
	n := fmt.Sprintf("ec_%d_%d_%s", g.origin, g.trn, tok)
	if tok == g.emptyTok {
		n = "" // the empty resource name is a resource like any other (traces are a whole gap apart, so its node has forgotten the previous one)
	}
	g.resName[tok] = n
	g.tokOf[n] = tok
	return n
}

func (g *Engine) rel() int64 { return g.Clk.NowMs() - g.base0 }

func (g *Engine) takeLog() []hx.M {
	g.mu.Lock()
	defer g.mu.Unlock()
	l := g.log
	g.log = nil
	if l == nil {
		l = []hx.M{}
	}
	return l
}

// ------------------------------------------------------------------ observation

func (g *Engine) node(tok string) *stat.ResourceNode {
	if tok == "_in" {
		return stat.InboundNode()
	}
	return stat.GetResourceNode(g.name(tok))
}

func (g *Engine) st() hx.M {
	st := hx.M{}
	if len(g.nodes) > 0 {
		nodes := hx.M{}
		for _, t := range g.nodes {
			n := g.node(t)
			sum, all := hx.M{}, hx.M{}
			o := hx.M{"conc": 0, "sum": sum, "all": all}
			for _, k := range kinds {
				sum[k.n], all[k.n] = 0, 0
			}
			if n != nil {
				c := n.CurrentConcurrency()
				if t == "_in" {
					c -= g.inBase
				}
				o["conc"] = c
				av := g.allView[t]
				if av == nil {
					av, _ = n.GenerateReadStat(20, pint)
					g.allView[t] = av
				}
				for _, k := range kinds {
					sum[k.n] = n.GetSum(k.e)
					if av != nil {
						all[k.n] = av.GetSum(k.e)
					}
				}
			}
			nodes[t] = o
		}
		st["nodes"] = nodes
	}
	live := []hx.M{}
	for _, id := range g.order {
		e := g.ents[id]
		if e.e == nil || e.exited {
			continue
		}
		c := e.e.Context()
		if c == nil {
			live = append(live, hx.M{"id": id, "nilctx": true})
			continue
		}
		resTok := "?"
		if c.Resource != nil {
			resTok = g.tok(c.Resource.Name())
		}
		live = append(live, hx.M{"id": id, "err": g.errName(c.Err()), "args": argToks(c.Input.Args),
			"b": int64(c.Input.BatchCount), "res": resTok, "start": int64(c.StartTime()) - g.base0})
	}
	st["live"] = live
	bes := []hx.M{}
	for _, h := range g.berrs {
		m := hx.M{"id": h.id}
		readBE(m, h.be)
		bes = append(bes, m)
	}
	st["berrs"] = bes
	return st
}

// ------------------------------------------------------------------ operations

func (g *Engine) closeTrace() {
	// leave nothing in flight behind: global nodes keep their gauge
	for _, id := range g.order {
		e := g.ents[id]
		if e.e != nil && !e.exited {
			func() {
				defer func() { recover() }()
				e.e.Exit()
			}()
			e.exited = true
		}
	}
	g.log = nil
}

// cleanse makes traces independent of each other: a pooled EntryContext that an earlier trace left behind in a
// damaged state (e.g. an error written after it was recycled) would otherwise be handed to an entry of this
// trace.  Drawing more contexts than any trace keeps in flight and exiting them resets every pooled context
// (sequential scenarios run on one P, so the pool has no hidden per-P slots).
func (g *Engine) cleanse() {
	sc := base.NewSlotChain()
	var es []*base.SentinelEntry
	seen := map[*base.EntryContext]bool{}
	seenRes := map[*base.TokenResult]bool{}
	for i := 0; i < 48; i++ {
		e, _ := api.Entry("ec_cleanse", api.WithSlotChain(sc))
		if e == nil {
			continue
		}
		c := e.Context()
		if seen[c] {
			// the same context was sitting in the pool twice (an earlier trace recycled it twice): hand it back once only
			continue
		}
		seen[c] = true
		if c.RuleCheckResult != nil && seenRes[c.RuleCheckResult] {
			// two pooled contexts share one TokenResult (an earlier trace had a rule slot that hands out an object it owns,
			// which the chain stores into the context): keep only one of them in circulation
			continue
		}
		seenRes[c.RuleCheckResult] = true
		es = append(es, e)
	}
	for _, e := range es {
		e.Exit()
	}
}

func (g *Engine) opNew(s hx.M) {
	if g.ents != nil {
		g.closeTrace()
	}
	g.cleanse()
	g.mode = hx.Str(s, "mode")
	if !g.Modes[g.mode] {
		hx.Fatal("mode %q not supported by this driver", g.mode)
	}
	g.trn = hx.Int(s, "tr")
	g.ntrace++
	// every trace starts a whole gap after the instant the previous one reached (a trace may hold entries for minutes):
	// the inbound node is shared by all traces and must have forgotten the previous trace
	if now := g.Clk.NowMs(); now > g.origin+g.ntrace*traceGap-traceGap {
		g.ntrace = (now-g.origin)/traceGap + 2
	}
	g.base0 = g.origin + g.ntrace*traceGap
	g.Clk.SetMs(g.base0 + hx.Int(s, "t"))
	g.ents, g.order, g.neid = map[int64]*ent{}, nil, 0
	g.resName, g.tokOf = map[string]string{}, map[string]string{}
	g.allView = map[string]base.ReadStat{}
	g.errTok = map[error]string{}
	g.berrs, g.log, g.nslot = nil, nil, 0
	g.byPtr = sync.Map{}
	g.hot = map[string]bool{}
	g.stress = false
	g.nodes = nil
	g.chain = nil
	g.chains, g.chainKind = map[int64]*base.SlotChain{}, map[int64]string{}
	g.emptyTok = hx.Str(s, "empty")
	_ = isolation.ClearRules()
	_ = hotspot.ClearRules()
	if l, ok := s["nodes"].([]interface{}); ok {
		for _, x := range l {
			g.nodes = append(g.nodes, x.(string))
		}
	}
	g.inBase = stat.InboundNode().CurrentConcurrency()
	out := hx.M{"op": "new", "tr": g.trn, "mode": g.mode, "t": g.rel(), "nodes": g.nodes, "pbl": pbl, "vint": vint, "pint": pint}
	if g.nodes == nil {
		out["nodes"] = []string{}
	}
	g.Tr.Emit(out)
	switch g.mode {
	case "global":
		if g.globalRec == nil {
			// one recording statistic slot on the default chain (public API), added once per process
			g.globalRec = &slot{g: g, kind: "stat", id: 1, ord: 500, beh: "pass"}
			api.GlobalSlotChain().AddStatSlot(g.globalRec)
		}
		g.nslot = 1
		g.Tr.Emit(hx.M{"op": "slot", "k": "stat", "ord": 500, "id": 1, "beh": "pass", "bm": ""})
		var iso []*isolation.Rule
		if m, ok := s["iso"].(map[string]interface{}); ok {
			for r, th := range m {
				iso = append(iso, &isolation.Rule{Resource: g.name(r), MetricType: isolation.Concurrency, Threshold: uint32(th.(float64))})
			}
		}
		if _, err := isolation.LoadRules(iso); err != nil {
			hx.Fatal("isolation.LoadRules: %v", err)
		}
		var hot []*hotspot.Rule
		if l, ok := s["hot"].([]interface{}); ok {
			for _, r := range l {
				g.hot[r.(string)] = true
				hot = append(hot, &hotspot.Rule{Resource: g.name(r.(string)), MetricType: hotspot.QPS, ControlBehavior: hotspot.Reject,
					ParamIndex: 0, Threshold: 1000000, DurationInSec: 1, BurstCount: 0})
			}
		}
		if _, err := hotspot.LoadRules(hot); err != nil {
			hx.Fatal("hotspot.LoadRules: %v", err)
		}
	case "multi":
		// chains are made by "mchain" ops
	default:
		g.chain = base.NewSlotChain()
	}
}

// opMChain obtains a chain from one of the library's own constructors; it is extended by later slot ops that name it.
func (g *Engine) opMChain(s hx.M) {
	if g.mode != "multi" {
		hx.Fatal("mchain op outside mode multi")
	}
	c, kind := hx.Int(s, "c"), hx.Str(s, "kind")
	if g.chains[c] != nil {
		hx.Fatal("chain %d made twice", c)
	}
	switch kind {
	case "new":
		g.chains[c] = base.NewSlotChain()
	case "default":
		g.chains[c] = api.BuildDefaultSlotChain()
	case "global":
		for _, k := range g.chainKind {
			if k == "global" {
				hx.Fatal("the global chain is one chain: name it once per trace")
			}
		}
		g.chains[c] = api.GlobalSlotChain()
	default:
		hx.Fatal("bad constructor kind %q", kind)
	}
	g.chainKind[c] = kind
	g.Tr.Emit(hx.M{"op": "mchain", "c": c, "kind": kind})
}

// chainOf: the chain an op refers to (mode multi: field c; otherwise the one chain of the trace, nil in mode global)
func (g *Engine) chainOf(s hx.M) *base.SlotChain {
	if g.mode == "multi" {
		ch := g.chains[hx.Int(s, "c")]
		if ch == nil {
			hx.Fatal("op names unknown chain %d", hx.Int(s, "c"))
		}
		return ch
	}
	return g.chain
}

func (g *Engine) opSlot(s hx.M) {
	chain := g.chainOf(s)
	if chain == nil {
		hx.Fatal("slot op without custom chain")
	}
	g.nslot++
	sl := &slot{g: g, kind: hx.Str(s, "k"), id: g.nslot, ord: uint32(hx.Int(s, "ord")), beh: hx.Str(s, "beh"), bm: hx.Str(s, "bm"),
		trn: g.trn, global: g.mode == "multi" && g.chainKind[hx.Int(s, "c")] == "global"}
	switch sl.kind {
	case "pre":
		if sl.beh == "real" {
			sl.rp = stat.DefaultResourceNodePrepareSlot
		}
		chain.AddStatPrepareSlot(sl)
	case "rule":
		chain.AddRuleCheckSlot(sl)
	case "stat":
		if sl.beh == "real" {
			sl.rs = stat.DefaultSlot
		}
		chain.AddStatSlot(sl)
	default:
		hx.Fatal("bad slot kind %q", sl.kind)
	}
	out := hx.M{"op": "slot", "k": sl.kind, "ord": int64(sl.ord), "id": sl.id, "beh": sl.beh, "bm": sl.bm}
	if g.mode == "multi" {
		out["c"] = hx.Int(s, "c")
	}
	g.Tr.Emit(out)
}

func mkArgs(toks []string) []interface{} {
	var a []interface{}
	for _, t := range toks {
		if t == "UNH" {
			a = append(a, []int{1, 2})
		} else {
			a = append(a, t)
		}
	}
	return a
}

func strList(v interface{}) []string {
	out := []string{}
	if l, ok := v.([]interface{}); ok {
		for _, x := range l {
			out = append(out, x.(string))
		}
	}
	return out
}

func (g *Engine) entryOpts(eid int64, s hx.M) []api.EntryOption {
	opts := []api.EntryOption{}
	if chain := g.chainOf(s); chain != nil {
		opts = append(opts, api.WithSlotChain(chain), api.WithFlag(int32(eid)*8+soCode[hx.Str(s, "so")]))
	}
	if _, ok := s["b"]; ok {
		opts = append(opts, api.WithBatchCount(uint32(hx.Int(s, "b"))))
	}
	if s["inb"] == true {
		opts = append(opts, api.WithTrafficType(base.Inbound))
	}
	if _, ok := s["rt"]; ok {
		opts = append(opts, api.WithResourceType(base.ResourceType(hx.Int(s, "rt"))))
	}
	if a := mkArgs(strList(s["args"])); len(a) > 0 {
		opts = append(opts, api.WithArgs(a...))
	}
	return opts
}

func (g *Engine) opEntry(s hx.M) {
	g.neid++
	eid := g.neid
	so := hx.Str(s, "so")
	if _, ok := soCode[so]; !ok && g.mode != "global" {
		hx.Fatal("bad scripted outcome %q", so)
	}
	res := hx.Str(s, "res")
	args := strList(s["args"])
	opts := g.entryOpts(eid, s)
	var e *base.SentinelEntry
	var be *base.BlockError
	esc := false
	func() {
		defer func() {
			if r := recover(); r != nil {
				esc = true
			}
		}()
		e, be = api.Entry(g.name(res), opts...)
	}()
	en := &ent{id: eid, e: e}
	g.ents[eid] = en
	g.order = append(g.order, eid)
	xh := hx.Str(s, "xh")
	if e != nil {
		g.byPtr.Store(e, eid)
		if xh != "" {
			e.WhenExit(func(_ *base.SentinelEntry, _ *base.EntryContext) error {
				g.mu.Lock()
				g.log = append(g.log, hx.M{"k": "xh", "id": eid, "m": "handler"})
				g.mu.Unlock()
				switch xh {
				case "panic":
					panic("scripted panic in exit handler")
				case "err":
					return errors.New("handler error")
				}
				return nil
			})
		}
	}
	unh := len(args) > 0 && args[0] == "UNH"
	out := hx.M{"op": "entry", "id": eid, "res": res, "b": int64(1), "inb": s["inb"] == true, "so": so, "xh": xh, "args": args,
		"unh": unh, "hot": g.hot[res], "blocked": be != nil, "admitted": e != nil, "esc": esc, "calls": g.takeLog()}
	if _, ok := s["b"]; ok {
		out["b"] = hx.Int(s, "b")
	}
	if g.mode == "multi" {
		out["c"] = hx.Int(s, "c")
	}
	if be != nil {
		g.berrs = append(g.berrs, held{eid, be})
		m := hx.M{}
		readBE(m, be)
		out["berr"] = m
	}
	out["st"] = g.st()
	g.Tr.Emit(out)
}

func (g *Engine) opTerr(s hx.M) {
	id := hx.Int(s, "id")
	en := g.ents[id]
	if en == nil || en.e == nil {
		g.Tr.Emit(hx.M{"op": "noop"})
		return
	}
	esc := false
	func() {
		defer func() {
			if r := recover(); r != nil {
				esc = true
			}
		}()
		api.TraceError(en.e, g.mkErr(hx.Str(s, "e")))
	}()
	g.Tr.Emit(hx.M{"op": "terr", "id": id, "e": hx.Str(s, "e"), "esc": esc, "calls": g.takeLog(), "st": g.st()})
}

func (g *Engine) opExit(s hx.M) {
	id := hx.Int(s, "id")
	en := g.ents[id]
	if en == nil || en.e == nil {
		g.Tr.Emit(hx.M{"op": "noop"})
		return
	}
	esc := false
	func() {
		defer func() {
			if r := recover(); r != nil {
				esc = true
			}
		}()
		if e := hx.Str(s, "e"); e != "" {
			en.e.Exit(base.WithError(g.mkErr(e)))
		} else {
			en.e.Exit()
		}
	}()
	en.exited = true
	g.Tr.Emit(hx.M{"op": "exit", "id": id, "e": hx.Str(s, "e"), "esc": esc, "calls": g.takeLog(), "st": g.st()})
}

func (g *Engine) opTick(s hx.M) {
	g.Clk.AdvanceMs(hx.Int(s, "d"))
	g.Tr.Emit(hx.M{"op": "tick", "t": g.rel(), "st": g.st()})
}

// opStress: free-running goroutines (no gate) hammer Entry / TraceError / Exit / repeated Exit on the
// chain of the running trace with the clock frozen (everything stays inside one statistic bucket);
// only order-insensitive totals are recorded once everything has quiesced.
func (g *Engine) opStress(s hx.M) {
	workers, iters := int(hx.Int(s, "workers")), int(hx.Int(s, "iters"))
	seed := hx.Int(s, "seed")
	panicPct := int(hx.Int(s, "panic_pct"))
	toks := strList(s["res"])
	type tally struct{ req, reqPanic, nEntries int64 }
	var tmu sync.Mutex
	tal := map[string]*tally{}
	for _, t := range g.nodes {
		tal[t] = &tally{}
	}
	var escaped, admittedCnt, blockedCnt int64
	// the recorder identifies entries by pointer: keep every entry of the phase reachable until the totals are taken,
	// so that no address is reused for a later entry
	keep := make([][]*base.SentinelEntry, workers)
	g.stress = true
	runtime.GOMAXPROCS(maxInt(4, runtime.NumCPU()))
	defer runtime.GOMAXPROCS(1)
	base0 := g.neid
	var wg sync.WaitGroup
	for w := 0; w < workers; w++ {
		wg.Add(1)
		go func(w int) {
			defer wg.Done()
			defer func() {
				if r := recover(); r != nil {
					atomic.AddInt64(&escaped, 1)
				}
			}()
			rng := rand.New(rand.NewSource(seed*1000 + int64(w)))
			type liveE struct {
				e *base.SentinelEntry
			}
			var mine []liveE
			exitOne := func(i int) {
				le := mine[i]
				mine = append(mine[:i], mine[i+1:]...)
				if rng.Intn(3) == 0 {
					api.TraceError(le.e, errors.New("x"))
				}
				if rng.Intn(5) == 0 {
					// two goroutines exit the SAME entry at the same instant: it is completed exactly once all the same
					var both sync.WaitGroup
					var go2, ready int32
					both.Add(1)
					go func() {
						defer both.Done()
						defer func() { recover() }()
						atomic.StoreInt32(&ready, 1)
						for atomic.LoadInt32(&go2) == 0 {
						}
						le.e.Exit()
					}()
					for atomic.LoadInt32(&ready) == 0 { // the helper is running and spinning before either Exit starts
						runtime.Gosched()
					}
					atomic.StoreInt32(&go2, 1)
					le.e.Exit()
					both.Wait()
				} else if rng.Intn(3) == 0 {
					le.e.Exit(base.WithError(errors.New("y")))
				} else {
					le.e.Exit()
				}
				if rng.Intn(4) == 0 {
					le.e.Exit() // repeated plain Exit: must change nothing
				}
			}
			for i := 0; i < iters; i++ {
				if len(mine) > 0 && (len(mine) >= 4 || rng.Intn(2) == 0) {
					exitOne(rng.Intn(len(mine)))
					continue
				}
				eid := base0 + int64(w*iters+i) + 1
				tok := toks[rng.Intn(len(toks))]
				b := int64(rng.Intn(3) + 1)
				inb := rng.Intn(2) == 0
				so := "pass"
				x := rng.Intn(100)
				switch {
				case x < panicPct:
					so, b = []string{"panicPre", "panicRule"}[rng.Intn(2)], 1
				case x < panicPct+30:
					so = "block"
				}
				sc := hx.M{"so": so, "b": float64(b), "inb": inb}
				if rng.Intn(3) == 0 {
					sc["args"] = []interface{}{"a", "b"}
				}
				if g.chain == nil {
					// global chain: outcomes come from the rules; an unhashable first argument makes the
					// built-in hot-parameter check panic
					so = "obs"
					if x < panicPct {
						sc["args"] = []interface{}{"UNH"}
						so = "panicRule"
					}
				}
				opts := g.entryOpts(eid, sc)
				e, be := api.Entry(g.name2(tok), opts...)
				tmu.Lock()
				for _, n := range []string{tok, "_in"} {
					if n == "_in" && !inb {
						continue
					}
					if t := tal[n]; t != nil {
						t.nEntries++
						if so == "panicPre" || so == "panicRule" {
							t.reqPanic += b
						} else {
							t.req += b
						}
					}
				}
				tmu.Unlock()
				if be != nil {
					atomic.AddInt64(&blockedCnt, 1)
				}
				if e != nil {
					atomic.AddInt64(&admittedCnt, 1)
					mine = append(mine, liveE{e})
					keep[w] = append(keep[w], e)
				}
			}
			for len(mine) > 0 {
				exitOne(0)
			}
		}(w)
	}
	wg.Wait()
	g.stress = false
	g.neid = base0 + int64(workers*iters)
	// recorder totals
	var nPassed, nCompl, dup, miss, orphan int64
	g.sPassed.Range(func(k, v interface{}) bool {
		nPassed++
		if *(v.(*int32)) != 1 {
			dup++
		}
		c, ok := g.sCompl.Load(k)
		if !ok {
			miss++
		} else if *(c.(*int32)) != 1 {
			dup++
		}
		return true
	})
	g.sCompl.Range(func(k, v interface{}) bool {
		nCompl++
		if _, ok := g.sPassed.Load(k); !ok {
			orphan++
		}
		return true
	})
	out := hx.M{"op": "stress", "workers": workers, "iters": iters, "panic_pct": panicPct, "escaped": escaped,
		"admitted": admittedCnt, "blocked": blockedCnt,
		"rec": hx.M{"passed": nPassed, "completed": nCompl, "dup": dup, "miss": miss, "orphan": orphan, "blocked": atomic.LoadInt64(&g.sBlocked)}}
	req := hx.M{}
	for n, t := range tal {
		req[n] = hx.M{"req": t.req, "reqp": t.reqPanic, "n": t.nEntries}
	}
	out["req"] = req
	g.sPassed, g.sCompl, g.sBlocked = sync.Map{}, sync.Map{}, 0
	runtime.KeepAlive(keep)
	out["st"] = g.st()
	g.Tr.Emit(out)
}

// opFirstRace: the statistic node of a resource is created by the first Entry that names it.  In every round a
// NEVER-SEEN resource is entered by several goroutines released at the same instant (spin barrier, real
// parallelism, clock frozen); with all of them in flight, and again after all have exited, the node's gauge and
// window sums are read.  Only totals over the rounds are recorded; spec: every admitted entry is accounted on THE node
// of the resource it entered (EntryChain_Trace!TFirstRace).
func (g *Engine) opFirstRace(s hx.M) {
	rounds, workers := int(hx.Int(s, "rounds")), int(hx.Int(s, "workers"))
	if workers > runtime.NumCPU()-1 {
		workers = maxInt(2, runtime.NumCPU()-1)
	}
	g.stress = true
	runtime.GOMAXPROCS(maxInt(4, runtime.NumCPU()))
	defer runtime.GOMAXPROCS(1)
	base0 := g.neid
	var entries, tokens, concIn, passSum, concAfter, complSum, missing, escaped, blocked int64
	var keep [][]*base.SentinelEntry
	for r := 0; r < rounds; r++ {
		name := fmt.Sprintf("%s_f%d", g.name2("r1"), r)
		ents := make([]*base.SentinelEntry, workers)
		var start int32
		var ready, done sync.WaitGroup
		for w := 0; w < workers; w++ {
			ready.Add(1)
			done.Add(1)
			go func(w int) {
				defer done.Done()
				defer func() {
					if rec := recover(); rec != nil {
						atomic.AddInt64(&escaped, 1)
					}
				}()
				b := int64(w%3 + 1)
				opts := g.entryOpts(base0+int64(r*workers+w)+1, hx.M{"so": "pass", "b": float64(b), "inb": w%2 == 0})
				ready.Done()
				for atomic.LoadInt32(&start) == 0 {
				}
				e, be := api.Entry(name, opts...)
				if be != nil {
					atomic.AddInt64(&blocked, 1)
				}
				if e != nil {
					ents[w] = e
					atomic.AddInt64(&entries, 1)
					atomic.AddInt64(&tokens, b)
				}
			}(w)
		}
		ready.Wait()
		atomic.StoreInt32(&start, 1)
		done.Wait()
		node := stat.GetResourceNode(name)
		if node == nil {
			missing++
		} else {
			concIn += int64(node.CurrentConcurrency())
			passSum += node.GetSum(base.MetricEventPass)
		}
		for _, e := range ents {
			if e != nil {
				e.Exit()
			}
		}
		if node = stat.GetResourceNode(name); node != nil {
			concAfter += int64(node.CurrentConcurrency())
			complSum += node.GetSum(base.MetricEventComplete)
		}
		keep = append(keep, ents)
	}
	g.stress = false
	g.neid = base0 + int64(rounds*workers)
	g.sPassed, g.sCompl, g.sBlocked = sync.Map{}, sync.Map{}, 0
	runtime.KeepAlive(keep)
	g.Tr.Emit(hx.M{"op": "firstrace", "rounds": rounds, "workers": workers, "entries": entries, "tokens": tokens, "blocked": blocked,
		"escaped": escaped, "missing": missing, "conc_in": concIn, "pass": passSum, "conc_after": concAfter, "complete": complSum, "st": g.st()})
}

// opManyRes: more distinct resources than any internal bound of the library (base.DefaultMaxResourceAmount = 10000): every one
// of n never-seen resources is entered once (inbound, batch b) and exited at a frozen clock.  Recorded: what the inbound total
// gained, and how many of the resources have no statistic node or one that did not record the pass.  Terminal op (like stress).
func (g *Engine) opManyRes(s hx.M) {
	n, b := int(hx.Int(s, "n")), hx.Int(s, "b")
	in := stat.InboundNode()
	all, _ := in.GenerateReadStat(1, pint)
	sum := func(ev base.MetricEvent) int64 {
		if all != nil {
			return all.GetSum(ev)
		}
		return in.GetSum(ev)
	}
	p0, c0, conc0 := sum(base.MetricEventPass), sum(base.MetricEventComplete), int64(in.CurrentConcurrency())
	g.stress = true
	base0 := g.neid
	var missing, escaped, blocked int64
	for i := 0; i < n; i++ {
		name := fmt.Sprintf("%s_m%d", g.name2("r1"), i)
		func() {
			defer func() {
				if r := recover(); r != nil {
					escaped++
				}
			}()
			e, be := api.Entry(name, g.entryOpts(base0+int64(i)+1, hx.M{"so": "pass", "b": float64(b), "inb": true})...)
			if be != nil {
				blocked++
			}
			if e != nil {
				e.Exit()
			}
		}()
		if node := stat.GetResourceNode(name); node == nil || node.GetSum(base.MetricEventPass) != b {
			missing++
		}
	}
	g.stress = false
	g.neid = base0 + int64(n)
	g.sPassed, g.sCompl, g.sBlocked = sync.Map{}, sync.Map{}, 0
	g.Tr.Emit(hx.M{"op": "manyres", "n": n, "b": b, "escaped": escaped, "blocked": blocked, "missing": missing,
		"in_pass": sum(base.MetricEventPass) - p0, "in_complete": sum(base.MetricEventComplete) - c0,
		"in_conc": int64(in.CurrentConcurrency()) - conc0})
}

var nameMu sync.Mutex

func (g *Engine) name2(tok string) string {
	nameMu.Lock()
	defer nameMu.Unlock()
	return g.name(tok)
}

func maxInt(a, b int) int {
	if a > b {
		return a
	}
	return b
}

// Run replays every scenario of the file.
func (g *Engine) Run(scn []hx.M) {
	// sequential scenarios run on a single P: sync.Pool behaviour (which recycled object the next Entry gets)
	// is then deterministic, so a replay reproduces exactly; the stress phase raises it again.
	runtime.GOMAXPROCS(1)
	for _, s := range scn {
		switch op := hx.Str(s, "op"); op {
		case "new":
			g.opNew(s)
		case "mchain":
			g.opMChain(s)
		case "slot":
			g.opSlot(s)
		case "entry":
			g.opEntry(s)
		case "terr":
			g.opTerr(s)
		case "exit":
			g.opExit(s)
		case "tick":
			g.opTick(s)
		case "stress":
			g.opStress(s)
		case "firstrace":
			g.opFirstRace(s)
		case "manyres":
			g.opManyRes(s)
		default:
			hx.Fatal("unknown op %q", op)
		}
	}
	if g.ents != nil {
		g.closeTrace()
	}
}
