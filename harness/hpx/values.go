// Package hpx is shared by the hot-parameter drivers (c05, c06): the table that turns the
// abstract parameter values of a scenario ("a", "b", "c", fillers "x", "y", ...) into concrete
// Go values of the argument type under test and back.
package hpx

import "fmt"

// P is a comparable struct used as a hot parameter.
type P struct {
	N int
	S string
}

var names = []string{"a", "b", "c", "d", "e", "x", "y", "z"}

func index(name string) int {
	for i, n := range names {
		if n == name {
			return i
		}
	}
	// unknown names still get a stable slot
	h := 0
	for _, c := range name {
		h = h*31 + int(c)
	}
	return 100 + h%1000
}

// Table maps abstract names to concrete values of one argument type ("int", "string", "bool",
// "float", "struct", "mix") and back.
type Table struct {
	Ty  string
	fwd map[string]interface{}
	rev map[interface{}]string
}

func NewTable(ty string) *Table {
	return &Table{Ty: ty, fwd: map[string]interface{}{}, rev: map[interface{}]string{}}
}

func conc(ty string, i int, name string) interface{} {
	switch ty {
	case "int":
		return 1000 + i
	case "int64":
		return int64(7000 + i)
	case "string":
		return "v_" + name
	case "bool":
		if i == 0 {
			return true
		}
		if i == 1 {
			return false
		}
		return uint32(40 + i)
	case "float":
		return float64(i) + 0.5
	case "struct":
		return P{N: i, S: name}
	}
	kinds := []string{"int", "string", "bool", "float", "struct", "int64"}
	return conc(kinds[i%len(kinds)], i, name)
}

// V returns the concrete value of an abstract name.
func (t *Table) V(name string) interface{} {
	if v, ok := t.fwd[name]; ok {
		return v
	}
	v := conc(t.Ty, index(name), name)
	t.fwd[name] = v
	t.rev[v] = name
	return v
}

// Name returns the abstract name of a concrete value ("?<value>" if it is not one of ours).
func (t *Table) Name(v interface{}) (s string) {
	defer func() {
		if recover() != nil {
			s = "?unhashable"
		}
	}()
	if n, ok := t.rev[v]; ok {
		return n
	}
	return fmt.Sprintf("?%v", v)
}

// Args maps a JSON list of abstract names to concrete arguments.
func (t *Table) Args(x interface{}) []interface{} {
	l, _ := x.([]interface{})
	out := make([]interface{}, 0, len(l))
	for _, e := range l {
		out = append(out, t.V(e.(string)))
	}
	return out
}

// Atts maps a JSON object {key: abstract name} to an attachment table (nil if empty/absent).
func (t *Table) Atts(x interface{}) map[interface{}]interface{} {
	m, _ := x.(map[string]interface{})
	if len(m) == 0 {
		return nil
	}
	out := make(map[interface{}]interface{}, len(m))
	for k, e := range m {
		out[k] = t.V(e.(string))
	}
	return out
}

// Names maps concrete arguments back to abstract names (always a non-nil list).
func (t *Table) Names(args []interface{}) []string {
	out := make([]string, 0, len(args))
	for _, a := range args {
		out = append(out, t.Name(a))
	}
	return out
}

// Items maps a JSON object {abstract name: threshold} to a SpecificItems table.
func (t *Table) Items(x interface{}) map[interface{}]int64 {
	m, _ := x.(map[string]interface{})
	out := make(map[interface{}]int64, len(m))
	for k, e := range m {
		out[t.V(k)] = int64(e.(float64))
	}
	return out
}
