// Package hx holds what every conformance driver shares: the virtual clock, the
// silent Sentinel initialisation, scenario / trace I/O and the goroutine gate.
package hx

import (
	"sync"
	"sync/atomic"
	"time"

	"github.com/alibaba/sentinel-golang/util"
)

// VClock is a fully controllable implementation of util.Clock.  Time only moves
// when the driver says so (Set/Advance) or when the code under test calls Sleep
// (recorded, and the clock advances by the requested duration unless NoAdvance).
type VClock struct {
	ns        int64 // absolute virtual time in nanoseconds
	mu        sync.Mutex
	sleeps    []int64
	NoAdvance bool
}

func NewVClock(startNs int64) *VClock { return &VClock{ns: startNs} }

func (c *VClock) Now() time.Time            { return time.Unix(0, atomic.LoadInt64(&c.ns)) }
func (c *VClock) CurrentTimeMillis() uint64 { return uint64(atomic.LoadInt64(&c.ns) / 1e6) }
func (c *VClock) CurrentTimeNano() uint64   { return uint64(atomic.LoadInt64(&c.ns)) }
func (c *VClock) Sleep(d time.Duration) {
	c.mu.Lock()
	c.sleeps = append(c.sleeps, int64(d))
	c.mu.Unlock()
	if !c.NoAdvance && d > 0 {
		atomic.AddInt64(&c.ns, int64(d))
	}
}
func (c *VClock) SetNs(ns int64)     { atomic.StoreInt64(&c.ns, ns) }
func (c *VClock) SetMs(ms int64)     { atomic.StoreInt64(&c.ns, ms*1e6) }
func (c *VClock) AdvanceNs(d int64)  { atomic.AddInt64(&c.ns, d) }
func (c *VClock) AdvanceMs(d int64)  { atomic.AddInt64(&c.ns, d*1e6) }
func (c *VClock) NowNs() int64       { return atomic.LoadInt64(&c.ns) }
func (c *VClock) NowMs() int64       { return atomic.LoadInt64(&c.ns) / 1e6 }

// TakeSleeps returns and clears the sleeps requested since the last call.
func (c *VClock) TakeSleeps() []int64 {
	c.mu.Lock()
	defer c.mu.Unlock()
	s := c.sleeps
	c.sleeps = nil
	return s
}

// Install makes c the process-wide Sentinel clock.
func (c *VClock) Install() { util.SetClock(c) }

// BaseMs returns the real time now rounded UP to a multiple of align (ms) plus one
// extra align: package-level statistic nodes of the library are created with the real
// clock at process start and silently drop events stamped earlier than that, so
// scenarios that touch them run at BaseMs()+t.  align must be a common multiple of all
// bucket lengths of the scenario so that alignment of relative and absolute times agree.
func BaseMs(align int64) int64 {
	now := time.Now().UnixNano() / 1e6
	return (now/align + 2) * align
}
