package hx

import (
	"fmt"
	"os"

	"github.com/alibaba/sentinel-golang/api"
	"github.com/alibaba/sentinel-golang/core/config"
	"github.com/alibaba/sentinel-golang/logging"
)

// NopLogger swallows everything the library logs.
type NopLogger struct{}

func (NopLogger) Debug(string, ...interface{})        {}
func (NopLogger) DebugEnabled() bool                  { return false }
func (NopLogger) Info(string, ...interface{})         {}
func (NopLogger) InfoEnabled() bool                   { return false }
func (NopLogger) Warn(string, ...interface{})         {}
func (NopLogger) WarnEnabled() bool                   { return false }
func (NopLogger) Error(error, string, ...interface{}) {}
func (NopLogger) ErrorEnabled() bool                  { return false }

// InitSentinel initialises the library with every background task switched off
// (no metric log flushing, no system collectors, no cached time ticker) and a silent logger.
func InitSentinel() {
	_ = logging.ResetGlobalLogger(NopLogger{})
	e := config.NewDefaultConfig()
	e.Sentinel.App.Name = "verif"
	e.Sentinel.Log.Logger = NopLogger{}
	e.Sentinel.Log.Metric.FlushIntervalSec = 0
	e.Sentinel.Stat.System.CollectIntervalMs = 0
	e.Sentinel.Stat.System.CollectLoadIntervalMs = 0
	e.Sentinel.Stat.System.CollectCpuIntervalMs = 0
	e.Sentinel.Stat.System.CollectMemoryIntervalMs = 0
	e.Sentinel.UseCacheTime = false
	// VERIF_STAT_CFG="sampleCount,intervalMs,globalSampleCount,globalIntervalMs": a non-default geometry of the per-resource
	// statistic (default view over the global array); chosen by the check, never by the scenario
	if v := os.Getenv("VERIF_STAT_CFG"); v != "" {
		var a, b, c, d uint32
		if n, _ := fmt.Sscanf(v, "%d,%d,%d,%d", &a, &b, &c, &d); n != 4 {
			panic("bad VERIF_STAT_CFG " + v)
		}
		e.Sentinel.Stat.MetricStatisticSampleCount, e.Sentinel.Stat.MetricStatisticIntervalMs = a, b
		e.Sentinel.Stat.GlobalStatisticSampleCountTotal, e.Sentinel.Stat.GlobalStatisticIntervalMsTotal = c, d
	}
	if err := api.InitWithConfig(e); err != nil {
		panic(err)
	}
}
