//go:build verif

package hx

import (
	"fmt"
	"os"
	"time"

	"github.com/alibaba/sentinel-golang/util/vhook"
)

// Sched is a cooperative scheduler for goroutines of the code under test.  Exactly one
// spawned goroutine is runnable at any time; it runs until its next vhook.Yield (or until
// it finishes) and then hands control back.  Because nobody else is runnable, the
// scheduler always knows which goroutine is parked at which yield point.
type Sched struct {
	procs []*Proc
	cur   *Proc
	// Filter, when non-nil, decides which yield points park the goroutine (others fall through).
	Filter func(point string) bool
}

type Proc struct {
	ID      int
	Point   string // yield point the goroutine is parked at ("start" before the first step)
	Done    bool
	resume  chan struct{}
	arrived chan string
}

const doneMark = "\x00done"

func NewSched() *Sched {
	s := &Sched{}
	vhook.Gate = s.gate
	return s
}

func (s *Sched) Close() { vhook.Gate = nil }

func (s *Sched) gate(point string) {
	p := s.cur
	if p == nil { // called from the scheduler's own goroutine, or nothing is being gated
		return
	}
	if s.Filter != nil && !s.Filter(point) {
		return
	}
	p.arrived <- point
	<-p.resume
}

// Spawn registers f as a new gated goroutine, parked before its first instruction.
func (s *Sched) Spawn(f func()) *Proc {
	p := &Proc{ID: len(s.procs), Point: "start", resume: make(chan struct{}), arrived: make(chan string)}
	s.procs = append(s.procs, p)
	go func() {
		<-p.resume
		f()
		p.arrived <- doneMark
	}()
	return p
}

// Step lets p run to its next yield point (or to completion).  Returns the point reached.
func (s *Sched) Step(p *Proc) string {
	if p.Done {
		return ""
	}
	s.cur = p
	p.resume <- struct{}{}
	var pt string
	select {
	case pt = <-p.arrived:
	case <-time.After(20 * time.Second):
		fmt.Fprintln(os.Stderr, "HARNESS-STUCK: goroutine did not reach a yield point within 20s (last point "+p.Point+")")
		os.Exit(2)
	}
	s.cur = nil
	if pt == doneMark {
		p.Done = true
		p.Point = "done"
		return "done"
	}
	p.Point = pt
	return pt
}

// Finish runs p to completion.
func (s *Sched) Finish(p *Proc) {
	for !p.Done {
		s.Step(p)
	}
}

func (s *Sched) Procs() []*Proc { return s.procs }
func (s *Sched) AllDone() bool {
	for _, p := range s.procs {
		if !p.Done {
			return false
		}
	}
	return true
}
