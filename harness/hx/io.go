package hx

import (
	"bufio"
	"encoding/json"
	"fmt"
	"os"
)

// M is one ndjson record.
type M = map[string]interface{}

// ReadNDJSON reads every line of path as a JSON value of type T.
func ReadNDJSON[T any](path string) ([]T, error) {
	f, err := os.Open(path)
	if err != nil {
		return nil, err
	}
	defer f.Close()
	var out []T
	sc := bufio.NewScanner(f)
	sc.Buffer(make([]byte, 1<<20), 1<<28)
	for sc.Scan() {
		b := sc.Bytes()
		if len(b) == 0 {
			continue
		}
		var v T
		if err := json.Unmarshal(b, &v); err != nil {
			return nil, fmt.Errorf("%s: %v: %.200s", path, err, string(b))
		}
		out = append(out, v)
	}
	return out, sc.Err()
}

// Trace is an ndjson writer.
type Trace struct {
	f *os.File
	w *bufio.Writer
	N int
}

func NewTrace(path string) *Trace {
	f, err := os.Create(path)
	if err != nil {
		Fatal("cannot create trace: %v", err)
	}
	return &Trace{f: f, w: bufio.NewWriterSize(f, 1<<20)}
}

func (t *Trace) Emit(rec interface{}) {
	b, err := json.Marshal(rec)
	if err != nil {
		Fatal("marshal: %v", err)
	}
	t.w.Write(b)
	t.w.WriteByte('\n')
	t.N++
}

func (t *Trace) Close() {
	t.w.Flush()
	t.f.Close()
}

// Fatal reports a harness (machinery) failure: exit code 2, never a violation.
func Fatal(format string, a ...interface{}) {
	fmt.Fprintf(os.Stderr, "HARNESS-ERROR: "+format+"\n", a...)
	os.Exit(2)
}

// Int reads a JSON number field as int64.
func Int(m M, k string) int64 {
	switch v := m[k].(type) {
	case float64:
		return int64(v)
	case json.Number:
		n, _ := v.Int64()
		return n
	case nil:
		return 0
	}
	Fatal("field %s is not a number: %v", k, m[k])
	return 0
}

func Str(m M, k string) string {
	s, _ := m[k].(string)
	return s
}
