//go:build verif

// c02 drives reject-mode QPS flow rules of the real code through the public API (flow.LoadRules,
// api.Entry / Exit) under the virtual clock and records what every call returned.  The recorded trace is
// validated against spec/FlowQps_Trace.tla (property C02).
//
// scenario ops (times in ticks of `unit` ms, resources and rules are small integers):
//
//	new  {tr, t, unit, nres, rules:[{res, num, den, I, ref, bl}]}   I = 0: default interval; ref = 0: own resource;
//	                                                                  bl = predicted bucket length (copied to the trace)
//	req  {res, b}          one api.Entry(WithBatchCount(b)); an admitted entry is exited at once
//	tick {d}               clock += d
//	conc {res, bs, sched}  len(bs) goroutines call api.Entry concurrently; the goroutine gate releases them one
//	                       at a time in the order `sched` (1-based caller ids), parking only at the yield point
//	                       "chain.checked" (between the rule-check phase and the statistic phase of the chain)
//
// usage: c02 <scenarios.ndjson> <trace.ndjson>
package main

import (
	"fmt"
	"math"
	"os"
	"strconv"

	"github.com/alibaba/sentinel-golang/api"
	"github.com/alibaba/sentinel-golang/core/base"
	"github.com/alibaba/sentinel-golang/core/config"
	"github.com/alibaba/sentinel-golang/core/flow"

	"verifharness/hx"
)

type run struct {
	tr        int64
	unit      int64
	base      int64
	clk       *hx.VClock
	cur       []*flow.Rule // the rule list last loaded (in order)
	reloaded  bool
	lastAdmit int64 // absolute ms of the last admitted token
}

// buildRules turns the rule descriptions of a scenario into flow rules and into their trace form.
func (r *run) buildRules(l []interface{}, defIv int64) (rules []*flow.Rule, out []hx.M) {
	for i, x := range l {
		m := x.(map[string]interface{})
		res, ref := hx.Int(m, "res"), hx.Int(m, "ref")
		num, den := hx.Int(m, "num"), hx.Int(m, "den")
		iv := hx.Int(m, "I") * r.unit
		fr := &flow.Rule{
			ID:                     strconv.Itoa(i + 1),
			Resource:               r.name(res),
			TokenCalculateStrategy: flow.Direct,
			ControlBehavior:        flow.Reject,
			Threshold:              float64(num) / float64(den),
			StatIntervalInMs:       uint32(iv),
		}
		if m["pace"] == true {
			// a throttling rule with an unbounded queue next to the reject rules: it never rejects, it only makes requests wait
			// (the virtual clock advances by the wait), so the rules behind it are reached later
			fr.ControlBehavior, fr.Threshold, fr.StatIntervalInMs, fr.MaxQueueingTimeMs = flow.Throttling, 1000, 1000, 600000
		}
		if ref != 0 {
			fr.RelationStrategy = flow.AssociatedResource
			fr.RefResource = r.name(ref)
		} else if left := hx.Int(m, "leftref"); left != 0 {
			// a rule that limits its OWN resource (RelationStrategy CurrentResource) but carries a left-over RefResource:
			// the field is meaningless for this strategy and must not influence anything
			fr.RefResource = r.name(left)
		}
		rules = append(rules, fr)
		eff := iv
		if eff == 0 {
			eff = defIv
		}
		o := hx.M{"res": res, "num": num, "den": den, "I": eff, "ref": ref, "bl": hx.Int(m, "bl") * r.unit}
		if m["pace"] == true {
			o["pace"] = true
		}
		out = append(out, o)
	}
	return
}

// ruleIndex identifies the triggered rule in the list in force.  Rule equality in the library ignores the ID, so after a
// reload a kept controller reports the ID its rule had in an EARLIER list: match by the semantic fields then.
func (r *run) ruleIndex(fr *flow.Rule) int64 {
	if !r.reloaded {
		if n, err := strconv.ParseInt(fr.ID, 10, 64); err == nil {
			return n
		}
		return 0
	}
	for i, c := range r.cur {
		if c.Resource == fr.Resource && c.Threshold == fr.Threshold && c.StatIntervalInMs == fr.StatIntervalInMs &&
			c.RelationStrategy == fr.RelationStrategy && c.RefResource == fr.RefResource {
			return int64(i + 1)
		}
	}
	return 0
}

func (r *run) name(res int64) string { return fmt.Sprintf("c02_%d_r%d", r.tr, res) }
func (r *run) rel() int64            { return r.clk.NowMs() - r.base }

func gcd(a, b int64) int64 {
	for b != 0 {
		a, b = b, a%b
	}
	return a
}
func lcm(a, b int64) int64 { return a / gcd(a, b) * b }

func list(m hx.M, k string) []interface{} {
	l, _ := m[k].([]interface{})
	return l
}

func ints(m hx.M, k string) []int64 {
	var out []int64
	for _, x := range list(m, k) {
		out = append(out, int64(x.(float64)))
	}
	return out
}

type outcome struct {
	ok    bool
	bt    string
	rule  int64
	val   int64
	panic bool
	entry *base.SentinelEntry
}

// entry performs one api.Entry and decodes the observables of a rejection.
// flowRulesNotInForce: the module reports fewer rules than were loaded.  That is a scenario error only if the module's own
// validity predicate refuses one of them; VALID rules that are not in force are the library's doing - the scenario runs on
// and the decisions are judged against the rules that were loaded.
func flowRulesNotInForce(tr int64, rules []*flow.Rule, got int) {
	for _, fr := range rules {
		if err := flow.IsValidRule(fr); err != nil {
			hx.Fatal("trace %d: %d of %d rules in force: the scenario holds an invalid rule (%v)", tr, got, len(rules), err)
		}
	}
}

var curRun *run

// reqOpts: options the api.Entry calls of the running request carry besides the batch count (resource type): they
// must not influence the flow decision
var reqOpts []api.EntryOption

func entry(name string, b uint32) (o outcome) {
	defer func() {
		if e := recover(); e != nil {
			o = outcome{ok: false, bt: "panic", panic: true}
		}
	}()
	e, berr := api.Entry(name, append([]api.EntryOption{api.WithBatchCount(b)}, reqOpts...)...)
	if berr == nil {
		return outcome{ok: true, entry: e}
	}
	o.bt = "other:" + berr.BlockType().String()
	switch berr.BlockType() {
	case base.BlockTypeFlow:
		o.bt = "flow"
	case base.BlockTypeIsolation:
		o.bt = "isolation"
	}
	if fr, ok := berr.TriggeredRule().(*flow.Rule); ok && fr != nil {
		o.rule = curRun.ruleIndex(fr)
	}
	o.val = -1
	switch v := berr.TriggeredValue().(type) {
	case float64:
		if v == math.Trunc(v) && math.Abs(v) < 1e9 {
			o.val = int64(v)
		}
	case uint32:
		o.val = int64(v)
	case int64:
		o.val = v
	}
	return o
}

func (o outcome) rec(m hx.M) hx.M {
	m["ok"] = o.ok
	if !o.ok {
		m["bt"], m["rule"], m["val"] = o.bt, o.rule, o.val
	}
	return m
}

func main() {
	if len(os.Args) < 3 {
		hx.Fatal("usage: c02 scenarios.ndjson trace.ndjson")
	}
	scn, err := hx.ReadNDJSON[hx.M](os.Args[1])
	if err != nil {
		hx.Fatal("%v", err)
	}
	clk := hx.NewVClock(hx.BaseMs(1000) * 1e6)
	clk.Install()
	hx.InitSentinel()
	tr := hx.NewTrace(os.Args[2])
	defer tr.Close()
	defIv := int64(config.MetricStatisticIntervalMs())
	var r *run
	for si, s := range scn {
		op := hx.Str(s, "op")
		if op != "new" && r == nil {
			hx.Fatal("scenario does not start with new")
		}
		switch op {
		case "new":
			if cfg := hx.Str(s, "cfg"); cfg != os.Getenv("VERIF_STAT_CFG") {
				hx.Fatal("trace %d wants statistic configuration %q, the process runs with %q", hx.Int(s, "tr"), cfg, os.Getenv("VERIF_STAT_CFG"))
			}
			r = &run{tr: hx.Int(s, "tr"), unit: hx.Int(s, "unit"), clk: clk}
			curRun = r
			if r.unit == 0 {
				r.unit = 1
			}
			// align the base with every interval in play: whatever bucket length (a divisor of the interval) the
			// library picks, alignment of relative and absolute times then agree
			align := lcm(1000, defIv)
			maxI := defIv
			all := append([]interface{}{}, list(s, "rules")...)
			for _, later := range scn[si+1:] { // rule lists loaded later in this trace
				if hx.Str(later, "op") == "new" {
					break
				}
				if hx.Str(later, "op") == "reload" {
					all = append(all, list(later, "rules")...)
				}
			}
			for _, x := range all {
				if iv := hx.Int(x.(map[string]interface{}), "I") * r.unit; iv > 0 {
					align = lcm(align, iv)
					if iv > maxI {
						maxI = iv
					}
				}
			}
			r.base = hx.BaseMs(align)
			t0 := hx.Int(s, "t") * r.unit
			clk.SetMs(r.base + t0)
			if err := flow.ClearRules(); err != nil {
				hx.Fatal("ClearRules: %v", err)
			}
			rules, out := r.buildRules(list(s, "rules"), defIv)
			if _, err := flow.LoadRules(rules); err != nil {
				hx.Fatal("LoadRules: %v", err)
			}
			if got := len(flow.GetRules()); got != len(rules) {
				flowRulesNotInForce(r.tr, rules, got) // scenario error iff some rule is invalid; else the decisions are judged
			}
			r.cur = rules
			tr.Emit(hx.M{"op": "new", "tr": r.tr, "t": t0, "nres": hx.Int(s, "nres"), "rules": out, "maxI": maxI})
		case "reload":
			// the rule list is replaced while the statistics hold traffic: whole set, or only the rules of one resource
			// (a scenario never reloads in a millisecond in which the PROPERTY admits a token; if the real code admitted one
			// there, the trace has already failed at that request - the reload is executed and recorded all the same)
			rules, out := r.buildRules(list(s, "rules"), defIv)
			if per := hx.Int(s, "per"); per > 0 {
				var sub []*flow.Rule
				for _, fr := range rules {
					if fr.Resource == r.name(per) {
						sub = append(sub, fr)
					}
				}
				if _, err := flow.LoadRulesOfResource(r.name(per), sub); err != nil {
					hx.Fatal("LoadRulesOfResource: %v", err)
				}
			} else if _, err := flow.LoadRules(rules); err != nil {
				hx.Fatal("LoadRules: %v", err)
			}
			if got := len(flow.GetRules()); got != len(rules) {
				flowRulesNotInForce(r.tr, rules, got)
			}
			r.cur, r.reloaded = rules, true
			tr.Emit(hx.M{"op": "reload", "t": r.rel(), "rules": out})
		case "req":
			res, b := hx.Int(s, "res"), hx.Int(s, "b")
			reqOpts = nil
			if _, ok := s["rt"]; ok {
				reqOpts = append(reqOpts, api.WithResourceType(base.ResourceType(hx.Int(s, "rt"))))
			}
			o := entry(r.name(res), uint32(b))
			reqOpts = nil
			if o.entry != nil {
				o.entry.Exit()
				if b > 0 {
					r.lastAdmit = r.clk.NowMs()
				}
			}
			tr.Emit(o.rec(hx.M{"op": "req", "res": res, "b": b, "t": r.rel()}))
		case "tick":
			clk.AdvanceMs(hx.Int(s, "d") * r.unit)
			tr.Emit(hx.M{"op": "tick", "t": r.rel()})
		case "conc":
			res, bs, sched := hx.Int(s, "res"), ints(s, "bs"), ints(s, "sched")
			k := len(bs)
			outs := make([]outcome, k)
			sc := hx.NewSched()
			sc.Filter = func(p string) bool { return p == "chain.checked" }
			procs := make([]*hx.Proc, k)
			for i := 0; i < k; i++ {
				i := i
				procs[i] = sc.Spawn(func() { outs[i] = entry(r.name(res), uint32(bs[i])) })
			}
			var points []string
			for _, who := range sched {
				if who < 1 || int(who) > k {
					hx.Fatal("bad caller id %d in schedule", who)
				}
				points = append(points, sc.Step(procs[who-1]))
			}
			for _, p := range procs {
				sc.Finish(p)
			}
			sc.Close()
			oks := make([]bool, k)
			for i, o := range outs {
				oks[i] = o.ok
				if o.entry != nil {
					o.entry.Exit()
					r.lastAdmit = r.clk.NowMs()
				}
			}
			tr.Emit(hx.M{"op": "conc", "res": res, "bs": bs, "sched": sched, "oks": oks, "points": points})
		default:
			hx.Fatal("unknown op %q", op)
		}
	}
}
