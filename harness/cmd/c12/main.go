//go:build verif

// c12 forces goroutine schedules (emitted by TLC from spec/BreakerConc.tla, or seeded random) on the
// real circuit breaker through api.Entry / Exit, parking goroutines at the cb.* yield points, and records
// a hook-level trace (steps, clock ticks, listener callbacks, call results) that spec/BreakerConc_Trace.tla
// judges against property C12.
//
// Rule reloads racing with requests (spec/BreakerConcReload.tla): a schedule entry -1 is the loader: it calls
// circuitbreaker.LoadRules / LoadRulesOfResource ("via") with the rule of the scenario whose threshold is replaced by
// the next entry of "reloads" (same threshold = identical rule, the breaker object is kept; another threshold = a
// statistic-reusable rule, a new breaker object) between two steps of the callers, i.e. while goroutines are parked
// inside the breaker code of the list they fetched.  LoadRules has no yield point of its own, so it is one atomic
// step run by the scheduler.  The listener records the threshold of the rule it is handed: that is how the reports of
// the replaced and of the new breaker are told apart.
//
// usage: c12 <scenarios.ndjson> <trace.ndjson>
package main

import (
	"errors"
	"fmt"
	"os"
	"strings"

	"github.com/alibaba/sentinel-golang/api"
	"github.com/alibaba/sentinel-golang/core/base"
	cb "github.com/alibaba/sentinel-golang/core/circuitbreaker"
	"github.com/alibaba/sentinel-golang/util/vhook"

	"verifharness/hx"
)

type listener struct {
	tr  *hx.Trace
	cur func() int
	clk *hx.VClock
	b   int64
	on  bool
	thr int64 // threshold of the rule handed to the callback that is being recorded
}

func name(s cb.State) string {
	switch s {
	case cb.Closed:
		return "C"
	case cb.HalfOpen:
		return "H"
	case cb.Open:
		return "O"
	}
	return "?"
}
func (l *listener) emit(from, to cb.State) {
	if l.on {
		l.tr.Emit(hx.M{"op": "listen", "p": l.cur(), "from": name(from), "to": name(to), "now": l.clk.NowMs() - l.b, "thr": l.thr})
	}
}
func (l *listener) OnTransformToClosed(prev cb.State, rule cb.Rule) {
	l.thr = int64(rule.Threshold)
	l.emit(prev, cb.Closed)
}
func (l *listener) OnTransformToOpen(prev cb.State, rule cb.Rule, _ interface{}) {
	l.thr = int64(rule.Threshold)
	l.emit(prev, cb.Open)
}
func (l *listener) OnTransformToHalfOpen(prev cb.State, rule cb.Rule) {
	l.thr = int64(rule.Threshold)
	l.emit(prev, cb.HalfOpen)
}

func main() {
	if len(os.Args) < 3 {
		hx.Fatal("usage: c12 scenarios.ndjson trace.ndjson")
	}
	scn, err := hx.ReadNDJSON[hx.M](os.Args[1])
	if err != nil {
		hx.Fatal("%v", err)
	}
	hx.InitSentinel()
	tr := hx.NewTrace(os.Args[2])
	defer tr.Close()
	clk := hx.NewVClock(1e6)
	clk.Install()
	curProc := 0
	lis := &listener{tr: tr, clk: clk, cur: func() int { return curProc }}
	cb.ClearStateChangeListeners()
	cb.RegisterStateChangeListeners(lis)

	for _, s := range scn {
		trn := hx.Int(s, "tr")
		unit := hx.Int(s, "unit")
		if unit == 0 {
			unit = 1000
		}
		timeout, probenum := hx.Int(s, "timeout"), hx.Int(s, "probenum")
		thr, minamt := hx.Int(s, "thr"), hx.Int(s, "minamt")
		initopen := s["initopen"] == true
		var errs []bool
		for _, x := range s["errs"].([]interface{}) {
			errs = append(errs, x == true)
		}
		var sched []int
		for _, x := range s["sched"].([]interface{}) {
			sched = append(sched, int(x.(float64)))
		}
		var reloads []hx.M
		if rl, ok := s["reloads"].([]interface{}); ok {
			for _, x := range rl {
				reloads = append(reloads, hx.M(x.(map[string]interface{})))
			}
		}
		res := fmt.Sprintf("c12_%d", trn)
		base0 := hx.BaseMs(100000)
		lis.b = base0
		clk.SetMs(base0 + 1*unit)
		mkRule := func(th int64) *cb.Rule {
			return &cb.Rule{Resource: res, Strategy: cb.ErrorCount, RetryTimeoutMs: uint32(timeout * unit),
				MinRequestAmount: uint64(minamt), StatIntervalMs: 100000, StatSlidingWindowBucketCount: 1, Threshold: float64(th), ProbeNum: uint64(probenum)}
		}
		_, err := cb.LoadRules([]*cb.Rule{mkRule(thr)})
		if err != nil {
			hx.Fatal("load: %v", err)
		}
		lis.on = false
		if initopen { // open the breaker sequentially at relative time 1: minamt requests, thr of them failing
			for i := int64(0); i < minamt || i < thr; i++ {
				e, b := api.Entry(res)
				if b != nil {
					hx.Fatal("setup request blocked")
				}
				if i < thr {
					api.TraceError(e, errors.New("x"))
				}
				e.Exit()
			}
		}
		lis.on = true
		tr.Emit(hx.M{"op": "new", "tr": trn, "timeout": timeout * unit, "probenum": probenum, "initopen": initopen, "nc": len(errs), "now": 1 * unit, "thr": thr})

		sc := hx.NewSched()
		sc.Filter = func(pt string) bool { return strings.HasPrefix(pt, "cb.") || strings.HasPrefix(pt, "drv.") }
		var procs []*hx.Proc
		for i := range errs {
			i := i
			procs = append(procs, sc.Spawn(func() {
				var e *base.SentinelEntry
				var b *base.BlockError
				func() {
					defer func() {
						if r := recover(); r != nil {
							tr.Emit(hx.M{"op": "panic", "p": i + 1})
						}
					}()
					e, b = api.Entry(res)
				}()
				tr.Emit(hx.M{"op": "ret", "p": i + 1, "kind": "entry", "pass": b == nil, "now": clk.NowMs() - base0})
				if b != nil {
					return
				}
				vhook.Yield("drv.exit")
				if errs[i] {
					api.TraceError(e, errors.New("x"))
				}
				e.Exit()
				tr.Emit(hx.M{"op": "ret", "p": i + 1, "kind": "exit", "now": clk.NowMs() - base0})
			}))
		}
		step := func(i int) {
			p := procs[i]
			if p.Done {
				return
			}
			curProc = i + 1
			tr.Emit(hx.M{"op": "step", "p": i + 1, "at": p.Point, "now": clk.NowMs() - base0})
			sc.Step(p)
			curProc = 0
		}
		nrl := 0
		reload := func() {
			if nrl >= len(reloads) {
				return
			}
			th := hx.Int(reloads[nrl], "thr")
			var err error
			if hx.Str(reloads[nrl], "via") == "res" {
				_, err = cb.LoadRulesOfResource(res, []*cb.Rule{mkRule(th)})
			} else {
				_, err = cb.LoadRules([]*cb.Rule{mkRule(th)})
			}
			if err != nil {
				hx.Fatal("reload: %v", err)
			}
			nrl++
			tr.Emit(hx.M{"op": "reload", "thr": th, "now": clk.NowMs() - base0})
		}
		for _, x := range sched {
			if x < 0 {
				reload()
			} else if x == 0 {
				clk.AdvanceMs(unit)
				tr.Emit(hx.M{"op": "tick", "now": clk.NowMs() - base0})
			} else if x-1 < len(procs) {
				step(x - 1)
			}
		}
		for !sc.AllDone() {
			for i := range procs {
				step(i)
			}
		}
		sc.Close()
		tr.Emit(hx.M{"op": "end"})
		_ = cb.ClearRulesOfResource(res)
	}
}
