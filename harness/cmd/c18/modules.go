package main

// The five rule modules as the datasource check sees them.
//
// For every module the driver owns a MIRROR of the JSON wire format (field names and Go types transcribed
// from the struct tags of core/<module>/rule.go, and for hot-spot rules the specificItems encoding of
// ext/datasource/hotspot_rule_converter.go).  The mirror is the driver's REFERENCE of "what a payload
// describes": payloads are produced by marshalling mirrors and every delivered payload is decoded into
// mirrors with encoding/json, independently of the library's parsers.  A rule's identity is the CANONICAL
// STRING of its semantic fields (the optional id is ignored by the rule managers' equality, so it is only
// part of the canon in single-delivery wire-format scenarios).
//
// Fields the modules normalise (the canon applies the same normalisation to both sides):
//   flow     warmUpColdFactor <= 1 on a warm-up rule is the documented "use the default" (3); the pinned
//            tree even writes the default back into the loaded rule
//   hotspot  specificItems: list of {valKind, valStr, threshold} -> map keyed by the parsed value (int via
//            Atoi, bool via ParseBool, float64 rounded to 5 decimals); a later duplicate wins
// Fields that are not part of a rule's identity for the rule managers (a reload that changes only such a field keeps
// the old rule object, exactly as for the id), left out of the canon except in single-delivery wire-format scenarios:
//   hotspot  maxQueueingTimeMs of a reject rule, burstCount of a throttling rule
//   cb       maxAllowedRtMs of an error-ratio / error-count rule
// Everything else must come back exactly as written.

import (
	"encoding/json"
	"fmt"
	"sort"
	"strconv"
	"strings"

	cb "github.com/alibaba/sentinel-golang/core/circuitbreaker"
	"github.com/alibaba/sentinel-golang/core/flow"
	"github.com/alibaba/sentinel-golang/core/hotspot"
	"github.com/alibaba/sentinel-golang/core/isolation"
	"github.com/alibaba/sentinel-golang/core/system"
	"github.com/alibaba/sentinel-golang/ext/datasource"
)

// elem is one element of the list a payload describes
type elem struct {
	null  bool
	canon string // canonical token without id
	idc   string // canonical token with id
	valid bool   // passes the module's validity check
	dom   bool   // in the domain where "valid => in force and reported as written" is decidable here
}

type modDef struct {
	name    string
	stock   func() datasource.PropertyHandler
	custom  func(wrap func(datasource.PropertyUpdater) datasource.PropertyUpdater) datasource.PropertyHandler
	get     func(withID bool) []string
	clear   func()
	ref     func(src []byte) ([]elem, error)
	alt     func(src []byte) ([]elem, error) // optional second reading of the wire format, used only to NAME a known deviation
	valid   []interface{} // pool of valid mirrors
	invalid []interface{} // pool of invalid mirrors (each a different field-wise invalidity)
	random  func(r *rng) interface{}
	fields  []fieldInfo // wire fields: name + kind, for type-directed mutations
}

type fieldInfo struct {
	name string
	kind string // "str", "int", "uint", "float", "list"
}

func ff(v float64) string {
	if v == 0 {
		v = 0 // -0 and 0 are the same threshold
	}
	return strconv.FormatFloat(v, 'g', -1, 64)
}

func withID(id, canon string) string { return "id=" + id + "|" + canon }

func sortedUnique(in []string) []string {
	m := map[string]bool{}
	out := []string{}
	for _, s := range in {
		if !m[s] {
			m[s] = true
			out = append(out, s)
		}
	}
	sort.Strings(out)
	return out
}

// refDecode decodes src exactly the way a JSON array parser must: into a slice of pointers to W.
func refDecode[W any](src []byte, conv func(*W) elem) ([]elem, error) {
	ws := make([]*W, 0, 8)
	if err := json.Unmarshal(src, &ws); err != nil {
		return nil, err
	}
	out := make([]elem, 0, len(ws))
	for _, w := range ws {
		if w == nil {
			out = append(out, elem{null: true})
			continue
		}
		out = append(out, conv(w))
	}
	return out, nil
}

// ------------------------------------------------------------------------------------------------ flow

type flowW struct {
	ID                     string  `json:"id,omitempty"`
	Resource               string  `json:"resource"`
	TokenCalculateStrategy int32   `json:"tokenCalculateStrategy"`
	ControlBehavior        int32   `json:"controlBehavior"`
	Threshold              float64 `json:"threshold"`
	RelationStrategy       int32   `json:"relationStrategy"`
	RefResource            string  `json:"refResource"`
	MaxQueueingTimeMs      uint32  `json:"maxQueueingTimeMs"`
	WarmUpPeriodSec        uint32  `json:"warmUpPeriodSec"`
	WarmUpColdFactor       uint32  `json:"warmUpColdFactor"`
	StatIntervalInMs       uint32  `json:"statIntervalInMs"`
	LowMemUsageThreshold   int64   `json:"lowMemUsageThreshold"`
	HighMemUsageThreshold  int64   `json:"highMemUsageThreshold"`
	MemLowWaterMarkBytes   int64   `json:"memLowWaterMarkBytes"`
	MemHighWaterMarkBytes  int64   `json:"memHighWaterMarkBytes"`
}

func (w *flowW) rule() *flow.Rule {
	return &flow.Rule{ID: w.ID, Resource: w.Resource, TokenCalculateStrategy: flow.TokenCalculateStrategy(w.TokenCalculateStrategy),
		ControlBehavior: flow.ControlBehavior(w.ControlBehavior), Threshold: w.Threshold,
		RelationStrategy: flow.RelationStrategy(w.RelationStrategy), RefResource: w.RefResource,
		MaxQueueingTimeMs: w.MaxQueueingTimeMs, WarmUpPeriodSec: w.WarmUpPeriodSec, WarmUpColdFactor: w.WarmUpColdFactor,
		StatIntervalInMs: w.StatIntervalInMs, LowMemUsageThreshold: w.LowMemUsageThreshold,
		HighMemUsageThreshold: w.HighMemUsageThreshold, MemLowWaterMarkBytes: w.MemLowWaterMarkBytes,
		MemHighWaterMarkBytes: w.MemHighWaterMarkBytes}
}

func canonFlow(r *flow.Rule) string {
	cf := r.WarmUpColdFactor
	if r.TokenCalculateStrategy == flow.WarmUp && cf <= 1 {
		cf = 3
	}
	return fmt.Sprintf("res=%q|tcs=%d|cb=%d|thr=%s|rel=%d|ref=%q|mq=%d|wup=%d|wcf=%d|si=%d|lmu=%d|hmu=%d|mlw=%d|mhw=%d",
		r.Resource, r.TokenCalculateStrategy, r.ControlBehavior, ff(r.Threshold), r.RelationStrategy, r.RefResource,
		r.MaxQueueingTimeMs, r.WarmUpPeriodSec, cf, r.StatIntervalInMs, r.LowMemUsageThreshold, r.HighMemUsageThreshold,
		r.MemLowWaterMarkBytes, r.MemHighWaterMarkBytes)
}

func flowMod() *modDef {
	m := &modDef{name: "flow"}
	m.stock = func() datasource.PropertyHandler { return datasource.NewFlowRulesHandler(datasource.FlowRuleJsonArrayParser) }
	m.custom = func(wrap func(datasource.PropertyUpdater) datasource.PropertyUpdater) datasource.PropertyHandler {
		return datasource.NewDefaultPropertyHandler(datasource.FlowRuleJsonArrayParser, wrap(datasource.FlowRulesUpdater))
	}
	m.get = func(id bool) []string {
		var out []string
		for _, r := range flow.GetRules() {
			r := r
			c := canonFlow(&r)
			if id {
				c = withID(r.ID, c)
			}
			out = append(out, c)
		}
		return sortedUnique(out)
	}
	m.clear = func() { _ = flow.ClearRules() }
	m.ref = func(src []byte) ([]elem, error) {
		return refDecode(src, func(w *flowW) elem {
			r := w.rule()
			c := canonFlow(r)
			e := elem{canon: c, idc: withID(r.ID, c), valid: flow.IsValidRule(r) == nil}
			e.dom = r.TokenCalculateStrategy <= flow.MemoryAdaptive && r.ControlBehavior <= flow.Throttling && r.StatIntervalInMs <= 3600000
			return e
		})
	}
	m.valid = []interface{}{
		&flowW{Resource: "fa", Threshold: 5, StatIntervalInMs: 1000},
		&flowW{Resource: "fa", TokenCalculateStrategy: 1, Threshold: 20, RelationStrategy: 1, RefResource: "fref", WarmUpPeriodSec: 10, WarmUpColdFactor: 4},
		&flowW{Resource: "fb", ControlBehavior: 1, Threshold: 10, MaxQueueingTimeMs: 500, StatIntervalInMs: 2000},
		&flowW{Resource: "fb", TokenCalculateStrategy: 2, LowMemUsageThreshold: 100, HighMemUsageThreshold: 10, MemLowWaterMarkBytes: 1024, MemHighWaterMarkBytes: 4096},
		&flowW{Resource: "fc", TokenCalculateStrategy: 1, ControlBehavior: 1, Threshold: 2.5, WarmUpPeriodSec: 3, WarmUpColdFactor: 0, MaxQueueingTimeMs: 7},
		&flowW{Resource: "fc", Threshold: 0, StatIntervalInMs: 30000},
	}
	m.invalid = []interface{}{
		&flowW{Resource: "", Threshold: 5},
		&flowW{Resource: "fa", Threshold: -1},
		&flowW{Resource: "fa", TokenCalculateStrategy: -1, Threshold: 5},
		&flowW{Resource: "fb", ControlBehavior: -2, Threshold: 5},
		&flowW{Resource: "fb", RelationStrategy: 2, Threshold: 5},
		&flowW{Resource: "fb", RelationStrategy: 1, RefResource: "", Threshold: 5},
		&flowW{Resource: "fc", TokenCalculateStrategy: 1, WarmUpPeriodSec: 0, Threshold: 5},
		&flowW{Resource: "fc", TokenCalculateStrategy: 1, WarmUpPeriodSec: 5, WarmUpColdFactor: 1, Threshold: 5},
		&flowW{Resource: "fc", TokenCalculateStrategy: 2, LowMemUsageThreshold: 10, HighMemUsageThreshold: 100, MemLowWaterMarkBytes: 1024, MemHighWaterMarkBytes: 4096},
	}
	m.random = func(r *rng) interface{} {
		w := &flowW{ID: r.str(), Resource: r.res("f"), Threshold: r.float(), StatIntervalInMs: uint32(r.pick(0, 0, 500, 1000, 2000, 1500, 10000, 30000, 7))}
		switch r.n(4) {
		case 1:
			w.TokenCalculateStrategy, w.WarmUpPeriodSec, w.WarmUpColdFactor = 1, uint32(1+r.n(100)), uint32(r.pick(0, 2, 3, 4, 10))
		case 2:
			w.TokenCalculateStrategy = 2
			w.HighMemUsageThreshold = int64(1 + r.n(1000))
			w.LowMemUsageThreshold = w.HighMemUsageThreshold + int64(1+r.n(1000))
			w.MemLowWaterMarkBytes = int64(1 + r.n(1<<30))
			w.MemHighWaterMarkBytes = w.MemLowWaterMarkBytes + int64(1+r.n(1<<30))
		}
		if r.n(2) == 0 {
			w.ControlBehavior, w.MaxQueueingTimeMs = 1, uint32(r.n(5000))
		}
		if r.n(3) == 0 {
			w.RelationStrategy, w.RefResource = 1, r.res("fr")
		}
		if r.n(6) == 0 { // make it invalid
			switch r.n(3) {
			case 0:
				w.Resource = ""
			case 1:
				w.Threshold = -w.Threshold - 1
			case 2:
				w.RelationStrategy, w.RefResource = 1, ""
			}
		}
		return w
	}
	m.fields = []fieldInfo{{"id", "str"}, {"resource", "str"}, {"tokenCalculateStrategy", "int"}, {"controlBehavior", "int"}, {"threshold", "float"},
		{"relationStrategy", "int"}, {"refResource", "str"}, {"maxQueueingTimeMs", "uint"}, {"warmUpPeriodSec", "uint"}, {"warmUpColdFactor", "uint"},
		{"statIntervalInMs", "uint"}, {"lowMemUsageThreshold", "int"}, {"highMemUsageThreshold", "int"}, {"memLowWaterMarkBytes", "int"}, {"memHighWaterMarkBytes", "int"}}
	return m
}

// ------------------------------------------------------------------------------------------------ system

type systemW struct {
	ID           string  `json:"id,omitempty"`
	MetricType   uint32  `json:"metricType"`
	TriggerCount float64 `json:"triggerCount"`
	Strategy     int32   `json:"strategy"`
}

func (w *systemW) rule() *system.Rule {
	return &system.Rule{ID: w.ID, MetricType: system.MetricType(w.MetricType), TriggerCount: w.TriggerCount, Strategy: system.AdaptiveStrategy(w.Strategy)}
}
func canonSystem(r *system.Rule) string {
	return fmt.Sprintf("mt=%d|trig=%s|st=%d", r.MetricType, ff(r.TriggerCount), r.Strategy)
}

func systemMod() *modDef {
	m := &modDef{name: "system"}
	m.stock = func() datasource.PropertyHandler { return datasource.NewSystemRulesHandler(datasource.SystemRuleJsonArrayParser) }
	m.custom = func(wrap func(datasource.PropertyUpdater) datasource.PropertyUpdater) datasource.PropertyHandler {
		return datasource.NewDefaultPropertyHandler(datasource.SystemRuleJsonArrayParser, wrap(datasource.SystemRulesUpdater))
	}
	m.get = func(id bool) []string {
		var out []string
		for _, r := range system.GetRules() {
			r := r
			c := canonSystem(&r)
			if id {
				c = withID(r.ID, c)
			}
			out = append(out, c)
		}
		return sortedUnique(out)
	}
	m.clear = func() { _ = system.ClearRules() }
	m.ref = func(src []byte) ([]elem, error) {
		return refDecode(src, func(w *systemW) elem {
			r := w.rule()
			c := canonSystem(r)
			return elem{canon: c, idc: withID(r.ID, c), valid: system.IsValidSystemRule(r) == nil, dom: true}
		})
	}
	m.valid = []interface{}{
		&systemW{MetricType: 2, TriggerCount: 3},
		&systemW{MetricType: 1, TriggerCount: 120.5, Strategy: 1},
		&systemW{MetricType: 3, TriggerCount: 2, Strategy: -1},
		&systemW{MetricType: 0, TriggerCount: 5, Strategy: 1},
		&systemW{MetricType: 4, TriggerCount: 0.75},
		&systemW{MetricType: 2, TriggerCount: 0},
	}
	m.invalid = []interface{}{
		&systemW{MetricType: 2, TriggerCount: -1},
		&systemW{MetricType: 5, TriggerCount: 1},
		&systemW{MetricType: 99, TriggerCount: 1},
		&systemW{MetricType: 4, TriggerCount: 1.5},
	}
	m.random = func(r *rng) interface{} {
		w := &systemW{ID: r.str(), MetricType: uint32(r.n(5)), TriggerCount: r.float(), Strategy: int32(r.pick(-1, 0, 1))}
		if w.MetricType == 4 {
			w.TriggerCount = float64(r.n(101)) / 100
		}
		if r.n(6) == 0 {
			switch r.n(2) {
			case 0:
				w.TriggerCount = -1 - w.TriggerCount
			case 1:
				w.MetricType = uint32(5 + r.n(100))
			}
		}
		return w
	}
	m.fields = []fieldInfo{{"id", "str"}, {"metricType", "uint"}, {"triggerCount", "float"}, {"strategy", "int"}}
	return m
}

// ------------------------------------------------------------------------------------------------ circuit breaker

type cbW struct {
	ID                           string  `json:"id,omitempty"`
	Resource                     string  `json:"resource"`
	Strategy                     uint32  `json:"strategy"`
	RetryTimeoutMs               uint32  `json:"retryTimeoutMs"`
	MinRequestAmount             uint64  `json:"minRequestAmount"`
	StatIntervalMs               uint32  `json:"statIntervalMs"`
	StatSlidingWindowBucketCount uint32  `json:"statSlidingWindowBucketCount"`
	MaxAllowedRtMs               uint64  `json:"maxAllowedRtMs"`
	Threshold                    float64 `json:"threshold"`
	ProbeNum                     uint64  `json:"probeNum"`
}

func (w *cbW) rule() *cb.Rule {
	return &cb.Rule{Id: w.ID, Resource: w.Resource, Strategy: cb.Strategy(w.Strategy), RetryTimeoutMs: w.RetryTimeoutMs,
		MinRequestAmount: w.MinRequestAmount, StatIntervalMs: w.StatIntervalMs, StatSlidingWindowBucketCount: w.StatSlidingWindowBucketCount,
		MaxAllowedRtMs: w.MaxAllowedRtMs, Threshold: w.Threshold, ProbeNum: w.ProbeNum}
}
func canonCb(r *cb.Rule, full bool) string {
	maxrt := r.MaxAllowedRtMs
	if !full && r.Strategy != cb.SlowRequestRatio {
		maxrt = 0 // only part of a slow-request-ratio rule's identity
	}
	return fmt.Sprintf("res=%q|st=%d|retry=%d|min=%d|si=%d|bc=%d|maxrt=%d|thr=%s|probe=%d", r.Resource, r.Strategy, r.RetryTimeoutMs,
		r.MinRequestAmount, r.StatIntervalMs, r.StatSlidingWindowBucketCount, maxrt, ff(r.Threshold), r.ProbeNum)
}

func cbMod() *modDef {
	m := &modDef{name: "circuitbreaker"}
	m.stock = func() datasource.PropertyHandler {
		return datasource.NewCircuitBreakerRulesHandler(datasource.CircuitBreakerRuleJsonArrayParser)
	}
	m.custom = func(wrap func(datasource.PropertyUpdater) datasource.PropertyUpdater) datasource.PropertyHandler {
		return datasource.NewDefaultPropertyHandler(datasource.CircuitBreakerRuleJsonArrayParser, wrap(datasource.CircuitBreakerRulesUpdater))
	}
	m.get = func(id bool) []string {
		var out []string
		for _, r := range cb.GetRules() {
			r := r
			c := canonCb(&r, id)
			if id {
				c = withID(r.Id, c)
			}
			out = append(out, c)
		}
		return sortedUnique(out)
	}
	m.clear = func() { _ = cb.ClearRules() }
	m.ref = func(src []byte) ([]elem, error) {
		return refDecode(src, func(w *cbW) elem {
			r := w.rule()
			e := elem{canon: canonCb(r, false), idc: withID(r.Id, canonCb(r, true)), valid: cb.IsValidRule(r) == nil}
			e.dom = r.Strategy <= cb.ErrorCount && r.StatIntervalMs <= 3600000 && r.StatSlidingWindowBucketCount <= 10000
			return e
		})
	}
	m.valid = []interface{}{
		&cbW{Resource: "ca", Strategy: 0, RetryTimeoutMs: 3000, MinRequestAmount: 10, StatIntervalMs: 10000, MaxAllowedRtMs: 50, Threshold: 0.5},
		&cbW{Resource: "ca", Strategy: 2, RetryTimeoutMs: 1000, MinRequestAmount: 1, StatIntervalMs: 1000, Threshold: 3, ProbeNum: 2},
		&cbW{Resource: "cb", Strategy: 1, RetryTimeoutMs: 500, MinRequestAmount: 2, StatIntervalMs: 2000, StatSlidingWindowBucketCount: 4, Threshold: 0.25},
		&cbW{Resource: "cb", Strategy: 0, RetryTimeoutMs: 1, MinRequestAmount: 0, StatIntervalMs: 1, MaxAllowedRtMs: 1, Threshold: 1},
		&cbW{Resource: "cc", Strategy: 2, RetryTimeoutMs: 60000, MinRequestAmount: 100, StatIntervalMs: 5000, StatSlidingWindowBucketCount: 3, Threshold: 1.5, ProbeNum: 1},
		&cbW{Resource: "cc", Strategy: 1, RetryTimeoutMs: 10, MinRequestAmount: 5, StatIntervalMs: 100, StatSlidingWindowBucketCount: 10, Threshold: 0},
	}
	m.invalid = []interface{}{
		&cbW{Resource: "", Strategy: 2, RetryTimeoutMs: 1000, StatIntervalMs: 1000, Threshold: 3},
		&cbW{Resource: "ca", Strategy: 2, RetryTimeoutMs: 1000, StatIntervalMs: 0, Threshold: 3},
		&cbW{Resource: "ca", Strategy: 2, RetryTimeoutMs: 0, StatIntervalMs: 1000, Threshold: 3},
		&cbW{Resource: "cb", Strategy: 2, RetryTimeoutMs: 1000, StatIntervalMs: 1000, Threshold: -1},
		&cbW{Resource: "cb", Strategy: 0, RetryTimeoutMs: 1000, StatIntervalMs: 1000, Threshold: 1.5},
		&cbW{Resource: "cc", Strategy: 1, RetryTimeoutMs: 1000, StatIntervalMs: 1000, Threshold: 1.5},
	}
	m.random = func(r *rng) interface{} {
		w := &cbW{ID: r.str(), Resource: r.res("c"), Strategy: uint32(r.n(3)), RetryTimeoutMs: uint32(1 + r.n(100000)), MinRequestAmount: uint64(r.n(1000)),
			StatIntervalMs: uint32(r.pick(1, 100, 1000, 2000, 10000, 60000)), StatSlidingWindowBucketCount: uint32(r.pick(0, 0, 1, 2, 3, 10)),
			MaxAllowedRtMs: uint64(r.n(10000)), ProbeNum: uint64(r.n(5))}
		if w.Strategy == 2 {
			w.Threshold = r.float()
		} else {
			w.Threshold = float64(r.n(101)) / 100
		}
		if r.n(6) == 0 {
			switch r.n(3) {
			case 0:
				w.Resource = ""
			case 1:
				w.RetryTimeoutMs = 0
			case 2:
				w.StatIntervalMs = 0
			}
		}
		return w
	}
	m.fields = []fieldInfo{{"id", "str"}, {"resource", "str"}, {"strategy", "uint"}, {"retryTimeoutMs", "uint"}, {"minRequestAmount", "uint"},
		{"statIntervalMs", "uint"}, {"statSlidingWindowBucketCount", "uint"}, {"maxAllowedRtMs", "uint"}, {"threshold", "float"}, {"probeNum", "uint"}}
	return m
}

// ------------------------------------------------------------------------------------------------ hotspot

type specW struct {
	ValKind   int    `json:"valKind"`
	ValStr    string `json:"valStr"`
	Threshold int64  `json:"threshold"`
}

// hotspot rules travel in the encoding of ext/datasource (specificItems as a list of typed strings); the other
// keys are the struct tags of core/hotspot/rule.go, paramKey included.
type hotspotW struct {
	ID                string  `json:"id,omitempty"`
	Resource          string  `json:"resource"`
	MetricType        int32   `json:"metricType"`
	ControlBehavior   int32   `json:"controlBehavior"`
	ParamIndex        int     `json:"paramIndex"`
	ParamKey          string  `json:"paramKey"`
	Threshold         int64   `json:"threshold"`
	MaxQueueingTimeMs int64   `json:"maxQueueingTimeMs"`
	BurstCount        int64   `json:"burstCount"`
	DurationInSec     int64   `json:"durationInSec"`
	ParamsMaxCapacity int64   `json:"paramsMaxCapacity"`
	SpecificItems     []specW `json:"specificItems"`
}

// refSpecific is the reference reading of the specificItems encoding; ok=false if an item cannot be read
func refSpecific(items []specW) (map[interface{}]int64, bool) {
	out := map[interface{}]int64{}
	ok := true
	for _, it := range items {
		switch it.ValKind {
		case 0:
			v, err := strconv.Atoi(it.ValStr)
			if err != nil {
				ok = false
				continue
			}
			out[v] = it.Threshold
		case 1:
			out[it.ValStr] = it.Threshold
		case 2:
			v, err := strconv.ParseBool(it.ValStr)
			if err != nil {
				ok = false
				continue
			}
			out[v] = it.Threshold
		case 3:
			v, err := strconv.ParseFloat(it.ValStr, 64)
			if err != nil {
				ok = false
				continue
			}
			v2, err := strconv.ParseFloat(fmt.Sprintf("%.5f", v), 64)
			if err != nil {
				ok = false
				continue
			}
			out[v2] = it.Threshold
		default:
			ok = false
		}
	}
	return out, ok
}

func (w *hotspotW) rule() (*hotspot.Rule, bool) {
	si, ok := refSpecific(w.SpecificItems)
	return &hotspot.Rule{ID: w.ID, Resource: w.Resource, MetricType: hotspot.MetricType(w.MetricType), ControlBehavior: hotspot.ControlBehavior(w.ControlBehavior),
		ParamIndex: w.ParamIndex, ParamKey: w.ParamKey, Threshold: w.Threshold, MaxQueueingTimeMs: w.MaxQueueingTimeMs, BurstCount: w.BurstCount,
		DurationInSec: w.DurationInSec, ParamsMaxCapacity: w.ParamsMaxCapacity, SpecificItems: si}, ok
}

// hotspotNoKeyW is the wire format as the pinned ext/datasource reads it: no paramKey.  Only used to label a
// mismatch ("the observed rules are those of the payload with paramKey ignored"), never for the verdict.
type hotspotNoKeyW struct {
	ID                string  `json:"id,omitempty"`
	Resource          string  `json:"resource"`
	MetricType        int32   `json:"metricType"`
	ControlBehavior   int32   `json:"controlBehavior"`
	ParamIndex        int     `json:"paramIndex"`
	Threshold         int64   `json:"threshold"`
	MaxQueueingTimeMs int64   `json:"maxQueueingTimeMs"`
	BurstCount        int64   `json:"burstCount"`
	DurationInSec     int64   `json:"durationInSec"`
	ParamsMaxCapacity int64   `json:"paramsMaxCapacity"`
	SpecificItems     []specW `json:"specificItems"`
}

func canonHotspot(r *hotspot.Rule, full bool) string {
	mq, burst := r.MaxQueueingTimeMs, r.BurstCount
	if !full && r.ControlBehavior == hotspot.Reject {
		mq = 0 // only part of a throttling rule's identity
	}
	if !full && r.ControlBehavior == hotspot.Throttling {
		burst = 0 // only part of a reject rule's identity
	}
	var items []string
	for k, v := range r.SpecificItems {
		items = append(items, fmt.Sprintf("%T:%v=%d", k, k, v))
	}
	sort.Strings(items)
	return fmt.Sprintf("res=%q|mt=%d|cb=%d|idx=%d|key=%q|thr=%d|mq=%d|burst=%d|dur=%d|cap=%d|items=[%s]", r.Resource, r.MetricType, r.ControlBehavior,
		r.ParamIndex, r.ParamKey, r.Threshold, mq, burst, r.DurationInSec, r.ParamsMaxCapacity, strings.Join(items, ","))
}

func hotspotMod() *modDef {
	m := &modDef{name: "hotspot"}
	m.stock = func() datasource.PropertyHandler {
		return datasource.NewHotSpotParamRulesHandler(datasource.HotSpotParamRuleJsonArrayParser)
	}
	m.custom = func(wrap func(datasource.PropertyUpdater) datasource.PropertyUpdater) datasource.PropertyHandler {
		return datasource.NewDefaultPropertyHandler(datasource.HotSpotParamRuleJsonArrayParser, wrap(datasource.HotSpotParamRulesUpdater))
	}
	m.get = func(id bool) []string {
		var out []string
		for _, r := range hotspot.GetRules() {
			r := r
			c := canonHotspot(&r, id)
			if id {
				c = withID(r.ID, c)
			}
			out = append(out, c)
		}
		return sortedUnique(out)
	}
	m.clear = func() { _ = hotspot.ClearRules() }
	m.ref = func(src []byte) ([]elem, error) {
		return refDecode(src, func(w *hotspotW) elem {
			r, ok := w.rule()
			e := elem{canon: canonHotspot(r, false), idc: withID(r.ID, canonHotspot(r, true)), valid: hotspot.IsValidRule(r) == nil}
			e.dom = ok && r.MetricType <= hotspot.QPS && r.ControlBehavior <= hotspot.Throttling
			return e
		})
	}
	m.alt = func(src []byte) ([]elem, error) {
		return refDecode(src, func(n *hotspotNoKeyW) elem {
			w := &hotspotW{ID: n.ID, Resource: n.Resource, MetricType: n.MetricType, ControlBehavior: n.ControlBehavior, ParamIndex: n.ParamIndex,
				Threshold: n.Threshold, MaxQueueingTimeMs: n.MaxQueueingTimeMs, BurstCount: n.BurstCount, DurationInSec: n.DurationInSec,
				ParamsMaxCapacity: n.ParamsMaxCapacity, SpecificItems: n.SpecificItems}
			r, ok := w.rule()
			return elem{canon: canonHotspot(r, false), idc: withID(r.ID, canonHotspot(r, true)), valid: hotspot.IsValidRule(r) == nil, dom: ok}
		})
	}
	m.valid = []interface{}{
		&hotspotW{Resource: "ha", MetricType: 1, ParamIndex: 0, Threshold: 5, BurstCount: 2, DurationInSec: 1},
		&hotspotW{Resource: "ha", MetricType: 1, ControlBehavior: 1, ParamIndex: 1, Threshold: 10, MaxQueueingTimeMs: 20, DurationInSec: 2, ParamsMaxCapacity: 100},
		&hotspotW{Resource: "hb", MetricType: 0, ParamIndex: -1, Threshold: 3,
			SpecificItems: []specW{{0, "7", 1}, {1, "vip", 100}, {2, "true", 0}, {3, "1.25", 9}}},
		&hotspotW{Resource: "hb", MetricType: 1, ParamIndex: 2, Threshold: 0, DurationInSec: 10, ParamsMaxCapacity: 5, SpecificItems: []specW{{1, "x", 0}}},
		&hotspotW{Resource: "hc", MetricType: 1, ParamKey: "uid", Threshold: 7, DurationInSec: 1},
		&hotspotW{Resource: "hc", MetricType: 0, ParamIndex: 3, Threshold: 1},
		// a NEAR-EQUAL pair (pool neighbours, V2 / V3 of var 5): the same rule whose specificItems differ in entries of the
		// same count - the zero-threshold entries (a blocked string value, a blocked int value) are replaced by others.
		// After payload [first] then payload [second] GetRules must report the SECOND's specific items.
		&hotspotW{Resource: "hd", MetricType: 1, ParamIndex: 1, Threshold: 20, BurstCount: 1, DurationInSec: 1,
			SpecificItems: []specW{{1, "alice", 0}, {0, "7", 0}, {1, "x", 50}, {0, "42", 50}}},
		&hotspotW{Resource: "hd", MetricType: 1, ParamIndex: 1, Threshold: 20, BurstCount: 1, DurationInSec: 1,
			SpecificItems: []specW{{1, "bob", 3}, {0, "8", 3}, {1, "x", 50}, {0, "42", 50}}},
	}
	m.invalid = []interface{}{
		&hotspotW{Resource: "", MetricType: 1, Threshold: 5, DurationInSec: 1},
		&hotspotW{Resource: "ha", MetricType: 1, Threshold: -1, DurationInSec: 1},
		&hotspotW{Resource: "ha", MetricType: -1, Threshold: 5, DurationInSec: 1},
		&hotspotW{Resource: "hb", MetricType: 1, ControlBehavior: -1, Threshold: 5, DurationInSec: 1},
		&hotspotW{Resource: "hb", MetricType: 1, Threshold: 5, DurationInSec: 0},
		&hotspotW{Resource: "hc", MetricType: 1, Threshold: 5, DurationInSec: 1, BurstCount: -1},
		&hotspotW{Resource: "hc", MetricType: 1, ControlBehavior: 1, Threshold: 5, DurationInSec: 1, MaxQueueingTimeMs: -1},
	}
	m.random = func(r *rng) interface{} {
		w := &hotspotW{ID: r.str(), Resource: r.res("h"), MetricType: int32(r.n(2)), ControlBehavior: int32(r.n(2)), ParamIndex: r.pick(-2, -1, 0, 0, 1, 2, 5),
			Threshold: int64(r.n(1000)), MaxQueueingTimeMs: int64(r.n(1000)), BurstCount: int64(r.n(10)), DurationInSec: int64(1 + r.n(10)),
			ParamsMaxCapacity: int64(r.pick(0, 0, 1, 100, 20000))}
		if r.n(5) == 0 && w.ParamIndex <= 0 {
			w.ParamKey = r.pick2("uid", "k", "tenant")
		}
		for i := r.n(4); i > 0; i-- {
			switch r.n(4) {
			case 0:
				w.SpecificItems = append(w.SpecificItems, specW{0, strconv.Itoa(r.n(2000) - 1000), int64(r.n(100))})
			case 1:
				w.SpecificItems = append(w.SpecificItems, specW{1, r.str(), int64(r.n(100))})
			case 2:
				w.SpecificItems = append(w.SpecificItems, specW{2, r.pick2("true", "false", "1", "0", "T"), int64(r.n(100))})
			case 3:
				w.SpecificItems = append(w.SpecificItems, specW{3, r.pick2("1.5", "0.123456789", "-3", "1e3", "2.000004"), int64(r.n(100))})
			}
		}
		if r.n(6) == 0 {
			switch r.n(3) {
			case 0:
				w.Resource = ""
			case 1:
				w.Threshold = -1 - w.Threshold
			case 2:
				w.MetricType, w.DurationInSec = 1, 0
			}
		}
		return w
	}
	m.fields = []fieldInfo{{"id", "str"}, {"resource", "str"}, {"metricType", "int"}, {"controlBehavior", "int"}, {"paramIndex", "int"}, {"paramKey", "str"},
		{"threshold", "int"}, {"maxQueueingTimeMs", "int"}, {"burstCount", "int"}, {"durationInSec", "int"}, {"paramsMaxCapacity", "int"}, {"specificItems", "list"}}
	return m
}

// ------------------------------------------------------------------------------------------------ isolation

type isolationW struct {
	ID         string `json:"id,omitempty"`
	Resource   string `json:"resource"`
	MetricType int32  `json:"metricType"`
	Threshold  uint32 `json:"threshold"`
}

func (w *isolationW) rule() *isolation.Rule {
	return &isolation.Rule{ID: w.ID, Resource: w.Resource, MetricType: isolation.MetricType(w.MetricType), Threshold: w.Threshold}
}
func canonIsolation(r *isolation.Rule) string {
	return fmt.Sprintf("res=%q|mt=%d|thr=%d", r.Resource, r.MetricType, r.Threshold)
}

func isolationMod() *modDef {
	m := &modDef{name: "isolation"}
	m.stock = func() datasource.PropertyHandler {
		return datasource.NewIsolationRulesHandler(datasource.IsolationRuleJsonArrayParser)
	}
	m.custom = func(wrap func(datasource.PropertyUpdater) datasource.PropertyUpdater) datasource.PropertyHandler {
		return datasource.NewDefaultPropertyHandler(datasource.IsolationRuleJsonArrayParser, wrap(datasource.IsolationRulesUpdater))
	}
	m.get = func(id bool) []string {
		var out []string
		for _, r := range isolation.GetRules() {
			r := r
			c := canonIsolation(&r)
			if id {
				c = withID(r.ID, c)
			}
			out = append(out, c)
		}
		return sortedUnique(out)
	}
	m.clear = func() { _ = isolation.ClearRules() }
	m.ref = func(src []byte) ([]elem, error) {
		return refDecode(src, func(w *isolationW) elem {
			r := w.rule()
			c := canonIsolation(r)
			return elem{canon: c, idc: withID(r.ID, c), valid: isolation.IsValidRule(r) == nil, dom: true}
		})
	}
	m.valid = []interface{}{
		&isolationW{Resource: "ia", Threshold: 1},
		&isolationW{Resource: "ia", Threshold: 20},
		&isolationW{Resource: "ib", Threshold: 3},
		&isolationW{Resource: "ib", Threshold: 4294967295},
		&isolationW{Resource: "ic", Threshold: 7},
		&isolationW{Resource: "ic", Threshold: 2},
	}
	m.invalid = []interface{}{
		&isolationW{Resource: "", Threshold: 1},
		&isolationW{Resource: "ia", MetricType: 1, Threshold: 1},
		&isolationW{Resource: "ib", Threshold: 0},
		&isolationW{Resource: "ic", MetricType: -1, Threshold: 5},
	}
	m.random = func(r *rng) interface{} {
		w := &isolationW{ID: r.str(), Resource: r.res("i"), Threshold: uint32(1 + r.n(1<<31))}
		if r.n(6) == 0 {
			switch r.n(3) {
			case 0:
				w.Resource = ""
			case 1:
				w.Threshold = 0
			case 2:
				w.MetricType = int32(1 + r.n(3))
			}
		}
		return w
	}
	m.fields = []fieldInfo{{"id", "str"}, {"resource", "str"}, {"metricType", "int"}, {"threshold", "uint"}}
	return m
}

func allModules() map[string]*modDef {
	out := map[string]*modDef{}
	for _, m := range []*modDef{flowMod(), systemMod(), cbMod(), hotspotMod(), isolationMod()} {
		out[m.name] = m
	}
	return out
}
