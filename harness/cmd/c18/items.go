// WIRE FORMAT OF HOT-SPOT SPECIFIC ITEMS (op "items").  The scenario lists specific items as (kind, text, threshold)
// triples - the text is a spelling of a value the scenario ALSO states structurally for the spec (sign / digits / decimal
// exponent, the string, the bool spelling; the driver passes that description through untouched).  The driver writes ONE
// hot-spot rule carrying them in the JSON wire format (QPS / Reject on argument 0, general threshold 1000), delivers the
// bytes to the handler of the scenario, and reports
//   - every key of the decoded SpecificItems map of the rule in force in a canonical typed form: an int as sign + decimal
//     digits, a float64 as sign + the digits and decimal exponent of its shortest round-trip representation
//     (strconv.FormatFloat(v, 'e', -1, 64): value = 0.d1..dn x 10^e), a string as itself, a bool as itself;
//   - for the items marked "probe": how many of threshold + 1 requests at one instant are admitted when the request's
//     argument IS the value the text spells (strconv.Atoi / ParseFloat / ParseBool of the text, or the string).
//
// What the keys must be is decided by spec/DatasourceProp.tla (DescribedKeys / ItemsOK / ItemProbeOK), not here: the driver
// never calls the converter's own normalisation.
package main

import (
	"encoding/json"
	"fmt"
	"math"
	"sort"
	"strconv"
	"strings"

	"github.com/alibaba/sentinel-golang/api"
	"github.com/alibaba/sentinel-golang/core/base"
	"github.com/alibaba/sentinel-golang/core/hotspot"

	"verifharness/hx"
)

func digitsOf(s string) []int {
	out := []int{}
	for _, c := range s {
		if c >= '0' && c <= '9' {
			out = append(out, int(c-'0'))
		}
	}
	return out
}

func stripLeadingZeros(d []int) []int {
	for len(d) > 0 && d[0] == 0 {
		d = d[1:]
	}
	return d
}

// canonical typed form of a decoded key
func canonKey(k interface{}, thr int64) hx.M {
	rec := hx.M{"t": "", "neg": false, "dig": []int{}, "e": 0, "s": "", "b": false, "thr": thr}
	switch v := k.(type) {
	case int:
		rec["t"] = "int"
		rec["neg"] = v < 0
		rec["dig"] = stripLeadingZeros(digitsOf(strconv.Itoa(v)))
	case string:
		rec["t"], rec["s"] = "string", v
	case bool:
		rec["t"], rec["b"] = "bool", v
	case float64:
		rec["t"] = "float"
		if math.IsNaN(v) || math.IsInf(v, 0) {
			rec["t"] = "float-nonfinite"
		} else if v != 0 {
			s := strconv.FormatFloat(math.Abs(v), 'e', -1, 64) // d.ddde+XX
			i := strings.IndexByte(s, 'e')
			exp, _ := strconv.Atoi(s[i+1:])
			d := digitsOf(s[:i])
			for len(d) > 0 && d[len(d)-1] == 0 {
				d = d[:len(d)-1]
			}
			rec["neg"], rec["dig"], rec["e"] = v < 0, d, exp+1
		}
	default:
		rec["t"] = fmt.Sprintf("%T", k)
	}
	return rec
}

func (r *run) items(tr *hx.Trace, o hx.M) {
	res := fmt.Sprintf("c18_items_%d", r.s.tr)
	list, _ := o["items"].([]interface{})
	var ws []specW
	for _, x := range list {
		it := x.(map[string]interface{})
		ws = append(ws, specW{ValKind: int(hx.Int(it, "kind")), ValStr: hx.Str(it, "text"), Threshold: hx.Int(it, "thr")})
	}
	w := &hotspotW{Resource: res, MetricType: 1, ParamIndex: 0, Threshold: 1000, DurationInSec: 1, SpecificItems: ws}
	src, err := json.Marshal([]*hotspotW{w})
	if err != nil {
		hx.Fatal("%v", err)
	}
	var herr error
	panicked := false
	func() {
		defer func() {
			if e := recover(); e != nil {
				panicked = true
			}
		}()
		herr = r.h.Handle(src)
	}()
	got := []hx.M{}
	found := false
	for _, rule := range hotspot.GetRulesOfResource(res) {
		found = true
		for k, thr := range rule.SpecificItems {
			got = append(got, canonKey(k, thr))
		}
	}
	sort.Slice(got, func(i, j int) bool { return fmt.Sprint(got[i]) < fmt.Sprint(got[j]) })
	probes := []hx.M{}
	for i, x := range list {
		it := x.(map[string]interface{})
		if it["probe"] != true || panicked {
			continue
		}
		text := hx.Str(it, "text")
		var arg interface{}
		switch hx.Int(it, "kind") {
		case 0:
			v, e := strconv.Atoi(text)
			if e != nil {
				continue
			}
			arg = v
		case 1:
			arg = text
		case 2:
			v, e := strconv.ParseBool(text)
			if e != nil {
				continue
			}
			arg = v
		case 3:
			v, e := strconv.ParseFloat(text, 64)
			if e != nil {
				continue
			}
			arg = v
		}
		n := int(hx.Int(it, "thr")) + 1
		adm := 0
		var held []*base.SentinelEntry
		for k := 0; k < n; k++ {
			if e, b := api.Entry(res, api.WithArgs(arg)); b == nil {
				adm++
				held = append(held, e)
			}
		}
		for _, e := range held {
			e.Exit()
		}
		probes = append(probes, hx.M{"i": i + 1, "n": n, "adm": adm})
	}
	tr.Emit(hx.M{"op": "items", "items": list, "err": herr != nil, "panic": panicked, "found": found, "got": got, "probes": probes,
		"len": len(src), "b64": show(src)})
}
