// c18 drives the rule property handlers of ext/datasource (flow, system, circuit breaker, hot-spot, isolation) and
// the refreshable file datasource of the real code, and records what a user can observe: the error returned by
// Handle, whether a panic escaped, how often the downstream updater was invoked, and the rules the module reports
// as loaded afterwards (as canonical tokens).  The recorded trace is validated against spec/Datasource_Trace.tla
// (property C18).
//
// Handlers are built the way a user builds them: datasource.New<Module>RulesHandler(datasource.<Module>RuleJsonArrayParser)
// ("stock"), or datasource.NewDefaultPropertyHandler(parser, wrap(updater)) with a wrapper that only counts the
// invocations of the stock updater ("cnt": true) - both are public API.
//
// Scenario ops (ndjson):
//   {"op":"new","tr":N,"m":"flow","mode":"handler"|"file","cnt":bool,"var":k,"grace":ms,"ids":bool}
//   {"op":"deliver", <payload spec>}            handler mode: handler.Handle(bytes)
//   {"op":"truncall","l":[tokens],"stride":s}   handler mode: every s-th proper prefix of the list payload, each followed by nothing
//   {"op":"fevent","ev":"init|write|trunc|renameover|renameaway|remove", <payload spec>}   file mode
// Payload spec: "kind" = list (l = tokens V*/I*/Nil) | empty | nulldoc | wrongtype (k) | truncated (k, l) | notarray (k)
//   | mut (l, mut = flip|trunc|typeswap|null|nest|huge|dupkey|garbage, seed) | raw (b64) | wire (seed, n: random rules written in
//   the wire format).
// The driver itself decides the CLASS of the bytes it delivers and the rules they describe (see modules.go): generic
// decoding with encoding/json says whether the payload is a JSON document / an array / contains nulls, decoding into the
// mirror structs says whether every element is well typed.
//
// usage: c18 <scenarios.ndjson> <trace.ndjson>
package main

import (
	"bytes"
	"encoding/base64"
	"encoding/json"
	"fmt"
	"hash/fnv"
	"math/rand"
	"os"
	"path/filepath"
	"reflect"
	"strings"
	"time"

	"github.com/alibaba/sentinel-golang/ext/datasource"
	"github.com/alibaba/sentinel-golang/ext/datasource/file"

	"verifharness/hx"
)

// ------------------------------------------------------------------------------------------------ random helpers

type rng struct{ *rand.Rand }

func newRng(seed int64) *rng       { return &rng{rand.New(rand.NewSource(seed))} }
func (r *rng) n(k int) int         { return r.Intn(k) }
func (r *rng) pick(v ...int) int   { return v[r.Intn(len(v))] }
func (r *rng) pick2(v ...string) string { return v[r.Intn(len(v))] }
func (r *rng) res(p string) string {
	if r.n(8) == 0 {
		return p + "-" + r.str()
	}
	return p + "w" + string(rune('1'+r.n(4)))
}
func (r *rng) str() string {
	return r.pick2("", "a", "rule-1", "with space", "quo\"te", "back\\slash", "tab\there", "unié中", "<&>", "nul\u0000byte", "emoji\U0001F600", "x/y?z=1")
}
func (r *rng) float() float64 {
	switch r.n(6) {
	case 0:
		return float64(r.n(1000))
	case 1:
		return float64(r.n(100000)) / 100
	case 2:
		return 0
	case 3:
		return float64(r.n(1000)) * 1e6
	case 4:
		return 1.0 / float64(1+r.n(1000))
	}
	return r.Float64() * 1000
}

// ------------------------------------------------------------------------------------------------ payloads

type scen struct {
	m     *modDef
	tr    int64
	vr    int
	ids   bool
	names map[string]string // canon -> token name of this scenario
}

// concrete mirror of a token for this scenario: V<i> / I<i> rotate through the module's pools by "var"
func (s *scen) mirror(tok string) interface{} {
	var i int
	fmt.Sscanf(tok[1:], "%d", &i)
	switch tok[0] {
	case 'V':
		if i > len(s.m.valid) {
			hx.Fatal("token %s exceeds the pool", tok)
		}
		return s.m.valid[(s.vr+i-1)%len(s.m.valid)]
	case 'I':
		return s.m.invalid[(s.vr+i-1)%len(s.m.invalid)]
	}
	hx.Fatal("unknown token %s", tok)
	return nil
}

func toks(s hx.M, k string) []string {
	var out []string
	if l, ok := s[k].([]interface{}); ok {
		for _, x := range l {
			out = append(out, x.(string))
		}
	}
	return out
}

func (s *scen) listPayload(l []string) []byte {
	var b bytes.Buffer
	b.WriteByte('[')
	for i, t := range l {
		if i > 0 {
			b.WriteByte(',')
		}
		if t == "Nil" {
			b.WriteString("null")
			continue
		}
		j, err := json.Marshal(s.mirror(t))
		if err != nil {
			hx.Fatal("marshal: %v", err)
		}
		b.Write(j)
	}
	b.WriteByte(']')
	return b.Bytes()
}

// first wire field of the module that is a number / a string (for the fixed wrong-type variants)
func (m *modDef) field(kind ...string) string {
	for _, f := range m.fields {
		for _, k := range kind {
			if f.kind == k && f.name != "id" {
				return f.name
			}
		}
	}
	return "id"
}

func (s *scen) payload(o hx.M) []byte {
	kind := hx.Str(o, "kind")
	k := hx.Int(o, "k")
	switch kind {
	case "list":
		return s.listPayload(toks(o, "l"))
	case "empty":
		return []byte{}
	case "nulldoc":
		return []byte("null")
	case "wrongtype":
		switch k {
		case 1: // a number where a number is expected, as a string
			return []byte(fmt.Sprintf(`[{"%s":"5"}]`, s.m.field("int", "uint", "float")))
		case 2: // a non-object element after a good one
			return append(append([]byte("["), s.listPayload([]string{"V1"})[1:len(s.listPayload([]string{"V1"}))-1]...), []byte(`,17]`)...)
		}
		return []byte(`[[]]`)
	case "truncated":
		full := s.listPayload(append([]string{"V1", "V2"}, toks(o, "l")...))
		switch k {
		case 1:
			return full[:len(full)/2]
		case 2:
			return full[:len(full)-1]
		}
		return []byte("[{")
	case "notarray":
		switch k {
		case 1:
			j, _ := json.Marshal(s.mirror("V1"))
			return j
		case 2:
			return []byte(`"rules"`)
		}
		return []byte("17")
	case "raw":
		b, err := base64.StdEncoding.DecodeString(hx.Str(o, "b64"))
		if err != nil {
			hx.Fatal("b64: %v", err)
		}
		return b
	case "wire":
		r := newRng(hx.Int(o, "seed"))
		n := int(hx.Int(o, "n"))
		var ms []interface{}
		for i := 0; i < n; i++ {
			ms = append(ms, s.m.random(r))
		}
		j, err := json.Marshal(ms)
		if err != nil {
			hx.Fatal("marshal: %v", err)
		}
		if r.n(2) == 0 { // same document with the keys in another order and indentation
			var g interface{}
			_ = json.Unmarshal(j, &g)
			j, _ = json.MarshalIndent(g, "", "  ")
		}
		return j
	case "mut":
		return mutate(s, s.listPayload(toks(o, "l")), hx.Str(o, "mut"), hx.Int(o, "seed"))
	}
	hx.Fatal("unknown payload kind %q", kind)
	return nil
}

var hugeNumbers = []string{"1e400", "-1e400", "99999999999999999999", "4294967296", "4294967295", "2147483648", "-2147483649", "-1", "1e-400", "1.5",
	"9223372036854775808", "18446744073709551616", "1E2", "0.0", "-0", "1e3"}
var otherTypes = []string{`"x"`, `"5"`, `5`, `-3`, `2.5`, `true`, `false`, `null`, `{}`, `[]`, `[1]`, `{"a":1}`, `""`}

// mutate applies one seeded mutation to a valid payload
func mutate(s *scen, base []byte, kind string, seed int64) []byte {
	r := newRng(seed)
	switch kind {
	case "flip":
		b := append([]byte{}, base...)
		if len(b) == 0 {
			return b
		}
		const structural = `{}[]",:0123456789ntfe.-+ \`
		for i := 1 + r.n(3); i > 0; i-- {
			p := r.n(len(b))
			switch r.n(4) {
			case 0:
				b[p] ^= byte(1 << uint(r.n(8)))
			case 1:
				b[p] = structural[r.n(len(structural))]
			case 2:
				b[p] = byte(r.n(256))
			case 3:
				b = append(b[:p], b[p+1:]...)
				if len(b) == 0 {
					return b
				}
			}
		}
		return b
	case "trunc":
		return base[:r.n(len(base)+1)]
	case "garbage":
		switch r.n(4) {
		case 0:
			return append(append([]byte{}, base...), []byte(r.pick2("x", "]", " [", ",", "\x00", "null", "{}"))...)
		case 1:
			return append([]byte(r.pick2("\xef\xbb\xbf", " ", "\n\t", "x", "[", "//c\n")), base...)
		case 2:
			return bytes.ToUpper(base)
		}
		return append(append([]byte{}, base...), base...)
	case "nest":
		switch r.n(4) {
		case 0:
			return append(append([]byte("["), base...), ']')
		case 1:
			return append(append([]byte(`{"rules":`), base...), '}')
		case 2:
			return append(append([]byte(`{"0":`), base...), '}')
		}
		// wrap one element
		var g []json.RawMessage
		if json.Unmarshal(base, &g) != nil || len(g) == 0 {
			return append(append([]byte("["), base...), ']')
		}
		i := r.n(len(g))
		g[i] = json.RawMessage("[" + string(g[i]) + "]")
		j, _ := json.Marshal(g)
		return j
	}
	// element-level mutations work on the raw elements so that everything else stays byte-identical
	var g []json.RawMessage
	if json.Unmarshal(base, &g) != nil {
		return base
	}
	if len(g) == 0 {
		g = append(g, json.RawMessage("{}"))
	}
	i := r.n(len(g))
	f := s.m.fields[r.n(len(s.m.fields))]
	setField := func(val string, atEnd bool) {
		if string(g[i]) == "null" {
			g[i] = json.RawMessage("{}")
		}
		var obj map[string]json.RawMessage
		if json.Unmarshal(g[i], &obj) != nil {
			return
		}
		delete(obj, f.name)
		body := strings.TrimSuffix(strings.TrimPrefix(strings.TrimSpace(string(mustJSON(obj))), "{"), "}")
		kv := fmt.Sprintf("%q:%s", f.name, val)
		switch {
		case body == "":
			g[i] = json.RawMessage("{" + kv + "}")
		case atEnd:
			g[i] = json.RawMessage("{" + body + "," + kv + "}")
		default:
			g[i] = json.RawMessage("{" + kv + "," + body + "}")
		}
	}
	switch kind {
	case "typeswap":
		if r.n(5) == 0 {
			g[i] = json.RawMessage(otherTypes[r.n(len(otherTypes))])
		} else {
			setField(otherTypes[r.n(len(otherTypes))], r.n(2) == 0)
		}
	case "null":
		switch r.n(4) {
		case 0:
			g[i] = json.RawMessage("null")
		case 1:
			g = append(g[:i], append([]json.RawMessage{json.RawMessage("null")}, g[i:]...)...)
		case 2:
			g = append(g, json.RawMessage("null"))
		case 3:
			setField("null", false)
		}
	case "huge":
		for f.kind == "str" || f.kind == "list" {
			f = s.m.fields[r.n(len(s.m.fields))]
		}
		setField(hugeNumbers[r.n(len(hugeNumbers))], r.n(2) == 0)
	case "dupkey":
		// the same key twice in one object: the original pair stays, another one is put before or after it
		if string(g[i]) == "null" || !bytes.HasPrefix(g[i], []byte("{")) {
			break
		}
		var val string
		switch f.kind {
		case "str":
			val = fmt.Sprintf("%q", r.str())
		case "list":
			val = "[]"
		default:
			val = r.pick2("0", "1", "7", "250")
		}
		kv := fmt.Sprintf("%q:%s", f.name, val)
		body := strings.TrimSuffix(strings.TrimPrefix(string(g[i]), "{"), "}")
		if body == "" {
			g[i] = json.RawMessage("{" + kv + "," + kv + "}")
		} else if r.n(2) == 0 {
			g[i] = json.RawMessage("{" + kv + "," + body + "}")
		} else {
			g[i] = json.RawMessage("{" + body + "," + kv + "}")
		}
	default:
		hx.Fatal("unknown mutation %q", kind)
	}
	var b bytes.Buffer
	b.WriteByte('[')
	for k, e := range g {
		if k > 0 {
			b.WriteByte(',')
		}
		b.Write(e)
	}
	b.WriteByte(']')
	return b.Bytes()
}

func mustJSON(v interface{}) []byte {
	j, err := json.Marshal(v)
	if err != nil {
		hx.Fatal("marshal: %v", err)
	}
	return j
}

// ------------------------------------------------------------------------------------------------ classification

type described struct {
	cls  string
	desc []string
	dom  bool
}

// describe decides the class of a payload and the valid rules it describes, without the library's parsers
func (s *scen) describe(src []byte) described { return s.describeWith(src, s.m.ref) }

func (s *scen) describeWith(src []byte, ref func([]byte) ([]elem, error)) described {
	d := described{desc: []string{}, dom: true}
	if len(src) == 0 {
		d.cls = "Empty"
		return d
	}
	if !json.Valid(src) {
		d.cls = "Truncated"
		return d
	}
	var g interface{}
	dec := json.NewDecoder(bytes.NewReader(src))
	dec.UseNumber() // a number of any magnitude is still JSON; whether it fits its field is the mirror's business
	if err := dec.Decode(&g); err != nil {
		hx.Fatal("valid JSON does not decode: %v", err)
	}
	switch g.(type) {
	case nil:
		d.cls = "NullDoc"
		return d
	case []interface{}:
	default:
		d.cls = "NotAnArray"
		return d
	}
	els, err := ref(src)
	if err != nil {
		d.cls = "WrongType"
		return d
	}
	d.cls = "List"
	var out []string
	for _, e := range els {
		if e.null {
			d.cls = "ListWithNull"
			continue
		}
		if !e.valid {
			continue
		}
		if !e.dom {
			d.dom = false
		}
		if s.ids {
			out = append(out, e.idc)
		} else {
			out = append(out, e.canon)
		}
	}
	d.desc = s.name(sortedUnique(out))
	return d
}

// readable names: canonical strings of this scenario's tokens are replaced by the token
func (s *scen) name(cs []string) []string {
	out := make([]string, 0, len(cs))
	for _, c := range cs {
		if n, ok := s.names[c]; ok {
			out = append(out, n)
		} else {
			out = append(out, c)
		}
	}
	return out
}

// addAlt records how the payload reads under the module's alternative reading of the wire format, if it differs
func (s *scen) addAlt(rec hx.M, src []byte) {
	if s.m.alt == nil || src == nil {
		return
	}
	a, d := s.describeWith(src, s.m.alt), s.describe(src)
	if a.cls != d.cls || !eq(a.desc, d.desc) {
		rec["alt"] = hx.M{"cls": a.cls, "desc": a.desc}
	}
}

func (s *scen) observe() []string { return s.name(s.m.get(s.ids)) }

func pid(b []byte) string {
	h := fnv.New64a()
	h.Write(b)
	return fmt.Sprintf("%016x", h.Sum64())
}

func show(b []byte) string {
	if len(b) > 4000 {
		b = b[:4000]
	}
	return base64.StdEncoding.EncodeToString(b)
}

// ------------------------------------------------------------------------------------------------ handler mode

type run struct {
	s     *scen
	h     datasource.PropertyHandler
	cnt   bool
	upd   int
	mode  string
	grace time.Duration
	// file mode
	dir  string
	path string
	ds   *file.RefreshableFileDataSource
	gone bool
}

func (r *run) deliver(tr *hx.Trace, src []byte, extra hx.M) {
	d := r.s.describe(src)
	r.upd = 0
	var err error
	panicked := false
	func() {
		defer func() {
			if e := recover(); e != nil {
				panicked = true
			}
		}()
		err = r.h.Handle(src)
	}()
	upd := -1
	if r.cnt {
		upd = r.upd
	}
	rec := hx.M{"op": "deliver", "cls": d.cls, "pid": pid(src), "desc": d.desc, "dom": d.dom, "err": err != nil, "panic": panicked,
		"upd": upd, "after": r.s.observe(), "len": len(src), "b64": show(src)}
	for k, v := range extra {
		rec[k] = v
	}
	r.s.addAlt(rec, src)
	tr.Emit(rec)
}

// ------------------------------------------------------------------------------------------------ file mode

func eq(a, b []string) bool { return reflect.DeepEqual(a, b) }

// settle polls the module until its state has not changed for the grace period (and at least one grace period has
// passed since the event); returns every distinct state seen, in order.  The cap only bounds the run time.
func (r *run) settle(first []string) (seen [][]string, timeout bool) {
	seen = [][]string{first}
	start := time.Now()
	lastChange := start
	for {
		time.Sleep(2 * time.Millisecond)
		cur := r.s.observe()
		if !eq(cur, seen[len(seen)-1]) {
			seen = append(seen, cur)
			lastChange = time.Now()
		}
		if time.Since(lastChange) >= r.grace {
			return seen, false
		}
		if time.Since(start) > 20*time.Second {
			return seen, true
		}
	}
}

func (r *run) fevent(tr *hx.Trace, o hx.M) {
	ev := hx.Str(o, "ev")
	if r.gone || (r.ds == nil) != (ev == "init") {
		hx.Fatal("trace %d: file event %s out of order (init first, nothing after the file is gone)", r.s.tr, ev)
	}
	var src []byte
	if ev == "init" || ev == "write" || ev == "renameover" {
		src = r.s.payload(o)
	}
	before := r.s.observe()
	panicked := false
	var ferr error
	func() {
		defer func() {
			if e := recover(); e != nil {
				panicked = true
			}
		}()
		switch ev {
		case "init":
			ferr = os.WriteFile(r.path, src, 0644)
			if ferr == nil {
				r.ds = file.NewFileDataSource(r.path, r.h)
				if e := r.ds.Initialize(); e != nil {
					hx.Fatal("Initialize: %v", e)
				}
			}
		case "write":
			ferr = os.WriteFile(r.path, src, 0644)
		case "trunc":
			ferr = os.Truncate(r.path, 0)
		case "renameover":
			tmp := r.path + ".tmp"
			ferr = os.WriteFile(tmp, src, 0644)
			if ferr == nil {
				ferr = os.Rename(tmp, r.path)
			}
		case "renameaway":
			ferr = os.Rename(r.path, r.path+".gone")
			r.gone = true
		case "remove":
			ferr = os.Remove(r.path)
			r.gone = true
		default:
			hx.Fatal("unknown file event %q", ev)
		}
	}()
	if ferr != nil {
		hx.Fatal("file event %s: %v", ev, ferr)
	}
	var seen [][]string
	timeout := false
	if ev == "init" {
		seen = [][]string{r.s.observe()} // Initialize reads the file synchronously
	} else {
		seen, timeout = r.settle(before)
	}
	d := described{cls: "Empty", desc: []string{}, dom: true}
	if src != nil {
		d = r.s.describe(src)
	}
	rec := hx.M{"op": "fevent", "ev": ev, "cls": d.cls, "pid": pid(src), "desc": d.desc, "dom": d.dom, "panic": panicked, "seen": seen,
		"after": seen[len(seen)-1], "timeout": timeout, "len": len(src), "b64": show(src)}
	r.s.addAlt(rec, src)
	tr.Emit(rec)
}

func (r *run) close() {
	if r.ds != nil {
		done := make(chan struct{})
		go func() { _ = r.ds.Close(); close(done) }()
		select {
		case <-done:
		case <-time.After(2 * time.Second):
		}
		r.ds = nil
	}
	if r.dir != "" {
		os.RemoveAll(r.dir)
		r.dir = ""
	}
}

// ------------------------------------------------------------------------------------------------ main

func main() {
	if len(os.Args) < 3 {
		hx.Fatal("usage: c18 scenarios.ndjson trace.ndjson")
	}
	scn, err := hx.ReadNDJSON[hx.M](os.Args[1])
	if err != nil {
		hx.Fatal("%v", err)
	}
	clk := hx.NewVClock(hx.BaseMs(10000) * 1e6)
	clk.Install()
	hx.InitSentinel()
	mods := allModules()
	// the pools must be what they claim to be (machinery self-check, not a verdict)
	for _, m := range mods {
		s := &scen{m: m}
		for i, w := range m.valid {
			d := s.describe(append(append([]byte("["), mustJSON(w)...), ']'))
			if d.cls != "List" || len(d.desc) != 1 || !d.dom {
				hx.Fatal("%s: valid pool entry %d is not a valid in-domain rule (%+v)", m.name, i, d)
			}
		}
		for i, w := range m.invalid {
			d := s.describe(append(append([]byte("["), mustJSON(w)...), ']'))
			if d.cls != "List" || len(d.desc) != 0 {
				hx.Fatal("%s: invalid pool entry %d is not an invalid rule (%+v)", m.name, i, d)
			}
		}
	}
	tr := hx.NewTrace(os.Args[2])
	defer tr.Close()
	var r *run
	for _, o := range scn {
		switch op := hx.Str(o, "op"); op {
		case "new":
			if r != nil {
				r.close()
			}
			m := mods[hx.Str(o, "m")]
			if m == nil {
				hx.Fatal("unknown module %q", hx.Str(o, "m"))
			}
			for _, x := range mods {
				x.clear()
			}
			s := &scen{m: m, tr: hx.Int(o, "tr"), vr: int(hx.Int(o, "var")), ids: o["ids"] == true, names: map[string]string{}}
			if !s.ids {
				for i := 1; i <= 3; i++ {
					t := fmt.Sprintf("V%d", i)
					d := (&scen{m: m}).describe(append(append([]byte("["), mustJSON(s.mirror(t))...), ']'))
					s.names[d.desc[0]] = t
				}
			}
			r = &run{s: s, cnt: o["cnt"] == true, mode: hx.Str(o, "mode"), grace: time.Duration(hx.Int(o, "grace")) * time.Millisecond}
			if r.grace == 0 {
				r.grace = 150 * time.Millisecond
			}
			if r.cnt {
				r.h = m.custom(func(u datasource.PropertyUpdater) datasource.PropertyUpdater {
					return func(data interface{}) error {
						r.upd++
						return u(data)
					}
				})
			} else {
				r.h = m.stock()
			}
			if r.mode == "file" {
				dir, err := os.MkdirTemp("", "c18-file-")
				if err != nil {
					hx.Fatal("%v", err)
				}
				r.dir, r.path = dir, filepath.Join(dir, "rules.json")
			}
			tr.Emit(hx.M{"op": "new", "tr": s.tr, "m": m.name, "mode": r.mode, "cnt": r.cnt, "var": s.vr})
		case "deliver":
			r.deliver(tr, r.s.payload(o), nil)
		case "truncall":
			full := r.s.listPayload(toks(o, "l"))
			stride := int(hx.Int(o, "stride"))
			if stride <= 0 {
				stride = 1
			}
			off := int(hx.Int(o, "off"))
			for n := off % stride; n < len(full); n += stride {
				r.deliver(tr, full[:n], hx.M{"cut": n})
				if n == 0 { // the empty prefix cleared the rules: restore them so that later prefixes have something to destroy
					r.deliver(tr, full, nil)
				}
			}
		case "fevent":
			r.fevent(tr, o)
		case "items":
			r.items(tr, o)
		default:
			hx.Fatal("unknown op %q", op)
		}
	}
	if r != nil {
		r.close()
	}
}
