// c05 drives the hot-parameter QPS rules of the real code (core/hotspot: reject = lazy-refill token
// bucket, throttling = pacing cell, both over LRU caches) through the public API:
// hotspot.LoadRules + api.Entry(WithArgs / WithAttachments, WithBatchCount) under the virtual clock.
// Sleep requests captured by the clock are the throttling waits (the clock does NOT advance on Sleep:
// arrival times are the scenario's).  Every request that selects a value is also issued, at the same
// instant, on a "solo" resource carrying the same rule that only ever sees that value (Independence).
// Op "flood" {t, n, prefix, args, atts}: n requests (batch 1) with n FRESH distinct values of the trace's argument
// type - never used before or afterwards in the trace - each placed where the template (args / atts with the
// placeholder "*") puts the selected argument; ONE summary record: how many were admitted, total Sleep.
// Ops "mnew" {tr, ty, cf, rules} / "mreload" {t, rules} / "mreq" {t, args, atts, b}: SEVERAL reject-mode rules
// [idx, key, T] on one resource (statistic parameters from cf), replaced by hotspot.LoadRules under traffic; a refused
// request records which rule refused it (blk = 1-based position of BlockError.TriggeredRule in the list in force).
// The recorded trace is validated against spec/HotParamQps_Trace.tla.
//
// usage: c05 <scenarios.ndjson> <trace.ndjson>
package main

import (
	"fmt"
	"os"

	"github.com/alibaba/sentinel-golang/api"
	"github.com/alibaba/sentinel-golang/core/base"
	"github.com/alibaba/sentinel-golang/core/hotspot"
	"github.com/alibaba/sentinel-golang/core/stat"

	"verifharness/hpx"
	"verifharness/hx"
)

type run struct {
	tr    int64
	tab   *hpx.Table
	fresh int // fresh values handed out so far (flood)
}

// next fresh value: distinct from every value of the table (small numbers, "v_<name>") and from every earlier one
func (r *run) freshValue(prefix string) interface{} {
	r.fresh++
	i := 1000000 + r.fresh
	ty := r.tab.Ty
	if ty == "mix" {
		ty = []string{"int", "string", "bool", "float", "struct", "int64"}[r.fresh%6]
	}
	switch ty {
	case "int":
		return i
	case "int64":
		return int64(i)
	case "string":
		return fmt.Sprintf("%s_%d", prefix, i)
	case "bool":
		return uint32(i) // (the table also leaves the two booleans after two values)
	case "float":
		return float64(i) + 0.25
	}
	return hpx.P{N: i, S: prefix}
}

// the entry options of a flood request: the template with the placeholder "*" replaced by the fresh value
func (r *run) floodOpts(args []interface{}, atts map[string]interface{}, v interface{}) []api.EntryOption {
	var o []api.EntryOption
	if len(args) > 0 {
		a := make([]interface{}, len(args))
		for i, x := range args {
			if x.(string) == "*" {
				a[i] = v
			} else {
				a[i] = r.tab.V(x.(string))
			}
		}
		o = append(o, api.WithArgs(a...))
	}
	if len(atts) > 0 {
		m := make(map[interface{}]interface{}, len(atts))
		for k, x := range atts {
			if x.(string) == "*" {
				m[k] = v
			} else {
				m[k] = r.tab.V(x.(string))
			}
		}
		o = append(o, api.WithAttachments(m))
	}
	return append(o, api.WithBatchCount(1))
}

func (r *run) main() string         { return fmt.Sprintf("c05_%d_m", r.tr) }
func (r *run) solo(v string) string { return fmt.Sprintf("c05_%d_s_%s", r.tr, v) }

// one api.Entry at the current virtual time; returns decision, the wait asked for (ms) and whether it panicked
func request(clk *hx.VClock, res string, o []api.EntryOption) (ok bool, waitMs int64, panicked bool) {
	clk.TakeSleeps()
	defer func() {
		if x := recover(); x != nil {
			ok, panicked = false, true
		}
	}()
	e, b := api.Entry(res, o...)
	var ns int64
	for _, s := range clk.TakeSleeps() {
		ns += s
	}
	if ns%1e6 != 0 {
		hx.Fatal("sleep of %d ns is not a whole number of ms", ns)
	}
	if b != nil {
		if b.BlockType() != base.BlockTypeHotSpotParamFlow {
			hx.Fatal("blocked by an unexpected slot: %v", b.BlockType())
		}
		return false, ns / 1e6, false
	}
	e.Exit()
	return true, ns / 1e6, false
}

// the rule list of an "mnew" / "mreload" op
func multiRules(res string, cf map[string]interface{}, list []interface{}) []*hotspot.Rule {
	var out []*hotspot.Rule
	for _, x := range list {
		m := x.(map[string]interface{})
		out = append(out, &hotspot.Rule{Resource: res, MetricType: hotspot.QPS, ControlBehavior: hotspot.Reject,
			ParamIndex: int(hx.Int(m, "idx")), ParamKey: hx.Str(m, "key"), Threshold: hx.Int(m, "T"),
			BurstCount: hx.Int(cf, "B"), DurationInSec: hx.Int(cf, "D") / 1000})
	}
	return out
}

func main() {
	if len(os.Args) < 3 {
		hx.Fatal("usage: c05 scenarios.ndjson trace.ndjson")
	}
	scn, err := hx.ReadNDJSON[hx.M](os.Args[1])
	if err != nil {
		hx.Fatal("%v", err)
	}
	clk := hx.NewVClock(1e6)
	clk.NoAdvance = true
	clk.Install()
	hx.InitSentinel()
	base0 := hx.BaseMs(10000)
	tr := hx.NewTrace(os.Args[2])
	defer tr.Close()
	var r *run
	var mcf map[string]interface{}
	var mrules []*hotspot.Rule
	for _, s := range scn {
		switch op := hx.Str(s, "op"); op {
		case "new":
			_ = hotspot.ClearRules()
			stat.ResetResourceNodeMap()
			clk.SetMs(base0)
			r = &run{tr: hx.Int(s, "tr"), tab: hpx.NewTable(hx.Str(s, "ty"))}
			cf := s["cf"].(map[string]interface{})
			cb := hotspot.Reject
			if hx.Str(cf, "mode") == "throttle" {
				cb = hotspot.Throttling
			}
			pcap := hx.Int(cf, "cap")
			if _, ok := s["pcap"]; ok {
				pcap = hx.Int(s, "pcap")
			}
			mk := func(res string) *hotspot.Rule {
				return &hotspot.Rule{Resource: res, MetricType: hotspot.QPS, ControlBehavior: cb,
					ParamIndex: int(hx.Int(s, "idx")), ParamKey: hx.Str(s, "key"), Threshold: hx.Int(cf, "T"),
					BurstCount: hx.Int(cf, "B"), DurationInSec: hx.Int(cf, "D") / 1000, MaxQueueingTimeMs: hx.Int(cf, "MQ"),
					ParamsMaxCapacity: pcap, SpecificItems: r.tab.Items(cf["items"])}
			}
			rules := []*hotspot.Rule{mk(r.main())}
			vals, _ := s["vals"].([]interface{})
			for _, v := range vals {
				rules = append(rules, mk(r.solo(v.(string))))
			}
			if _, err := hotspot.LoadRules(rules); err != nil {
				hx.Fatal("LoadRules: %v", err)
			}
			if got := len(hotspot.GetRules()); got != len(rules) {
				// a scenario error only if the module's validity predicate refuses a rule (see c02)
				for _, hr := range rules {
					if err := hotspot.IsValidRule(hr); err != nil {
						hx.Fatal("trace %d: %d of %d rules accepted: the scenario holds an invalid rule (%v)", r.tr, got, len(rules), err)
					}
				}
			}
			tr.Emit(hx.M{"op": "new", "tr": r.tr, "ty": r.tab.Ty, "cf": cf, "idx": hx.Int(s, "idx"), "key": hx.Str(s, "key"), "pcap": pcap})
		case "req":
			t, b, v := hx.Int(s, "t"), hx.Int(s, "b"), hx.Str(s, "v")
			clk.SetMs(base0 + t)
			var o []api.EntryOption
			if a := r.tab.Args(s["args"]); len(a) > 0 {
				o = append(o, api.WithArgs(a...))
			}
			if m := r.tab.Atts(s["atts"]); m != nil {
				o = append(o, api.WithAttachments(m))
			}
			o = append(o, api.WithBatchCount(uint32(b)))
			args, atts := s["args"], s["atts"]
			if args == nil {
				args = []interface{}{}
			}
			if atts == nil {
				atts = hx.M{}
			}
			ok, wait, p := request(clk, r.main(), o)
			rec := hx.M{"op": "req", "t": t, "v": v, "args": args, "atts": atts, "b": b, "ok": ok, "wait": wait}
			if p {
				rec["panic"] = true
			}
			if v != "-" {
				// the same request on the resource that only ever sees this value
				sok, swait, sp := request(clk, r.solo(v), o)
				rec["solo"] = hx.M{"ok": sok, "wait": swait}
				if sp {
					rec["panic"] = true
				}
			}
			tr.Emit(rec)
		case "mnew", "mreload":
			if op == "mnew" {
				_ = hotspot.ClearRules()
				stat.ResetResourceNodeMap()
				clk.SetMs(base0)
				r = &run{tr: hx.Int(s, "tr"), tab: hpx.NewTable(hx.Str(s, "ty"))}
				mcf = s["cf"].(map[string]interface{})
			} else {
				clk.SetMs(base0 + hx.Int(s, "t"))
			}
			list, _ := s["rules"].([]interface{})
			mrules = multiRules(r.main(), mcf, list)
			if _, err := hotspot.LoadRules(mrules); err != nil {
				hx.Fatal("LoadRules: %v", err)
			}
			rec := hx.M{"op": op, "t": hx.Int(s, "t"), "rules": list, "loaded": len(hotspot.GetRulesOfResource(r.main()))}
			if op == "mnew" {
				rec["tr"], rec["ty"], rec["cf"] = r.tr, r.tab.Ty, mcf
			}
			tr.Emit(rec)
		case "mreq":
			t, b := hx.Int(s, "t"), hx.Int(s, "b")
			clk.SetMs(base0 + t)
			var o []api.EntryOption
			if a := r.tab.Args(s["args"]); len(a) > 0 {
				o = append(o, api.WithArgs(a...))
			}
			if m := r.tab.Atts(s["atts"]); m != nil {
				o = append(o, api.WithAttachments(m))
			}
			o = append(o, api.WithBatchCount(uint32(b)))
			args, atts := s["args"], s["atts"]
			if args == nil {
				args = []interface{}{}
			}
			if atts == nil {
				atts = hx.M{}
			}
			rec := hx.M{"op": "mreq", "t": t, "args": args, "atts": atts, "b": b, "blk": 0}
			func() {
				clk.TakeSleeps()
				defer func() {
					if x := recover(); x != nil {
						rec["ok"], rec["wait"], rec["panic"] = false, 0, true
					}
				}()
				e, blk := api.Entry(r.main(), o...)
				var ns int64
				for _, sl := range clk.TakeSleeps() {
					ns += sl
				}
				rec["wait"] = ns / 1e6
				rec["ok"] = blk == nil
				if blk != nil {
					rec["blk"] = -1
					if blk.BlockType() != base.BlockTypeHotSpotParamFlow {
						hx.Fatal("blocked by an unexpected slot: %v", blk.BlockType())
					}
					if tr, ok := blk.TriggeredRule().(*hotspot.Rule); ok && tr != nil {
						for i, x := range mrules {
							if x.ParamIndex == tr.ParamIndex && x.ParamKey == tr.ParamKey && x.Threshold == tr.Threshold {
								rec["blk"] = i + 1
								break
							}
						}
					}
				} else {
					e.Exit()
				}
			}()
			tr.Emit(rec)
		case "flood":
			t, n := hx.Int(s, "t"), hx.Int(s, "n")
			clk.SetMs(base0 + t)
			args, _ := s["args"].([]interface{})
			atts, _ := s["atts"].(map[string]interface{})
			if args == nil {
				args = []interface{}{}
			}
			if atts == nil {
				atts = map[string]interface{}{}
			}
			var adm, wait int64
			panicked := false
			for i := int64(0); i < n; i++ {
				ok, w, p := request(clk, r.main(), r.floodOpts(args, atts, r.freshValue(hx.Str(s, "prefix"))))
				if ok {
					adm++
				}
				wait += w
				panicked = panicked || p
			}
			rec := hx.M{"op": "flood", "t": t, "n": n, "args": args, "atts": atts, "adm": adm, "wait": wait}
			if panicked {
				rec["panic"] = true
			}
			tr.Emit(rec)
		default:
			hx.Fatal("unknown op %q", op)
		}
	}
}
