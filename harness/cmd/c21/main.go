// c21 drives the REAL library with a flow rule, an isolation rule, a hot-parameter concurrency rule and an error-count
// circuit breaker loaded on one resource at the same time, through the default global slot chain (api.Entry), under the
// virtual clock.  One tick = 500 ms.  The recorded decisions (admitted / block type) are judged by
// spec/Sentinel_Trace.tla against the composition of spec/SentinelOps.tla.
//
// usage: c21 <scenarios.ndjson> <trace.ndjson>
package main

import (
	"errors"
	"fmt"
	"os"

	"github.com/alibaba/sentinel-golang/api"
	"github.com/alibaba/sentinel-golang/core/base"
	cb "github.com/alibaba/sentinel-golang/core/circuitbreaker"
	"github.com/alibaba/sentinel-golang/core/flow"
	"github.com/alibaba/sentinel-golang/core/hotspot"
	"github.com/alibaba/sentinel-golang/core/isolation"

	"verifharness/hx"
)

const tick = int64(500)

func main() {
	if len(os.Args) < 3 {
		hx.Fatal("usage: c21 scenarios.ndjson trace.ndjson")
	}
	scn, err := hx.ReadNDJSON[hx.M](os.Args[1])
	if err != nil {
		hx.Fatal("%v", err)
	}
	hx.InitSentinel()
	tr := hx.NewTrace(os.Args[2])
	defer tr.Close()
	clk := hx.NewVClock(1e6)
	clk.Install()
	var res string
	live := map[int64]*base.SentinelEntry{}
	for _, s := range scn {
		switch hx.Str(s, "op") {
		case "new":
			for _, e := range live {
				e.Exit()
			}
			live = map[int64]*base.SentinelEntry{}
			trn := hx.Int(s, "tr")
			res = fmt.Sprintf("c21_%d", trn)
			r := s["rules"].(map[string]interface{})
			base0 := hx.BaseMs(600000) // the breaker's 10-minute statistic bucket must not roll within a scenario
			t0 := hx.Int(s, "t0")
			clk.SetMs(base0 + t0*tick)
			if f := hx.Int(r, "flow"); f >= 0 {
				if _, err := flow.LoadRulesOfResource(res, []*flow.Rule{{Resource: res, TokenCalculateStrategy: flow.Direct, ControlBehavior: flow.Reject, Threshold: float64(f)}}); err != nil {
					hx.Fatal("flow: %v", err)
				}
			}
			if n := hx.Int(r, "iso"); n >= 0 {
				if _, err := isolation.LoadRulesOfResource(res, []*isolation.Rule{{Resource: res, MetricType: isolation.Concurrency, Threshold: uint32(n)}}); err != nil {
					hx.Fatal("isolation: %v", err)
				}
			}
			if h := hx.Int(r, "hot"); h >= 0 {
				if _, err := hotspot.LoadRulesOfResource(res, []*hotspot.Rule{{Resource: res, MetricType: hotspot.Concurrency, ParamIndex: 0, Threshold: h}}); err != nil {
					hx.Fatal("hotspot: %v", err)
				}
			}
			if e := hx.Int(r, "cbE"); e >= 0 {
				if _, err := cb.LoadRulesOfResource(res, []*cb.Rule{{Resource: res, Strategy: cb.ErrorCount, RetryTimeoutMs: uint32(hx.Int(r, "cbTO") * tick),
					MinRequestAmount: 1, StatIntervalMs: 600000, StatSlidingWindowBucketCount: 1, Threshold: float64(e)}}); err != nil {
					hx.Fatal("breaker: %v", err)
				}
			}
			tr.Emit(hx.M{"op": "new", "tr": trn, "rules": r, "t0": t0})
		case "enter":
			id, b, arg := hx.Int(s, "id"), hx.Int(s, "b"), hx.Str(s, "arg")
			opts := []api.EntryOption{api.WithBatchCount(uint32(b))}
			if arg != "none" {
				opts = append(opts, api.WithArgs(arg))
			}
			e, be := api.Entry(res, opts...)
			bt := "none"
			if be != nil {
				switch be.BlockType() {
				case base.BlockTypeFlow:
					bt = "flow"
				case base.BlockTypeIsolation:
					bt = "isolation"
				case base.BlockTypeHotSpotParamFlow:
					bt = "hotspot"
				case base.BlockTypeCircuitBreaking:
					bt = "breaker"
				default:
					bt = "other"
				}
			} else {
				live[id] = e
			}
			tr.Emit(hx.M{"op": "enter", "id": id, "b": b, "arg": arg, "ok": be == nil, "bt": bt})
		case "exit":
			id := hx.Int(s, "id")
			e := live[id]
			if e == nil {
				continue // the request was rejected
			}
			delete(live, id)
			if s["err"] == true {
				api.TraceError(e, errors.New("x"))
			}
			e.Exit()
			tr.Emit(hx.M{"op": "exit", "id": id, "err": s["err"] == true})
		case "tick":
			d := hx.Int(s, "d")
			clk.AdvanceMs(d * tick)
			tr.Emit(hx.M{"op": "tick", "d": d})
		}
	}
}
