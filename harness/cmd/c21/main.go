// c21 drives the REAL library through the default global slot chain (api.Entry, public API only) with every rule
// kind loaded at once: per resource (one or two per scenario) a reject-mode flow rule, an isolation rule, a
// hot-parameter concurrency rule and a hot-parameter QPS rule (reject mode) on argument 0, an error-count circuit
// breaker; and the system rules of the process (system.Concurrency, system.InboundQPS) on the global inbound node.
// Rules are replaced in the middle of a scenario while entries are in flight.  One tick = 500 ms of the virtual
// clock.  The recorded decisions (admitted / block type) and in-flight gauges are judged by spec/Sentinel_Trace.tla
// against the composition of spec/SentinelOps.tla.
//
// scenario ops:
//
//	new    {tr, t0, rules:{sys:{conc,qps}, res:[{flow,iso,hot,hq,hqB,hqD,cbE,cbTO}, ...]}}   (-1 = no such rule)
//	enter  {r, id, b, arg, ty}     api.Entry("c21_<tr>_<r>", WithBatchCount(b), WithTrafficType(ty), WithArgs(arg))
//	exit   {id, err, via}          THE completion of an admitted entry: Exit(); with err: Exit(WithError(e)), or (via
//	                               "trace") api.TraceError(entry, e) followed by Exit().  On an entry that has
//	                               already completed it is a late call; ignored if the request was refused.
//	trace  {id}                    api.TraceError on the open entry (it stays open); late call on a completed one
//	late   {id, how}               on a completed entry: how = exit -> Exit(), exiterr -> Exit(WithError(e)),
//	                               trace -> api.TraceError(entry, e)
//	tick   {d}                     clock += d ticks
//	reload {r, mod, val, via}      mod flow|iso|hot|hq|cb: the rule(s) of that module for resource r become val
//	                               (via "res": X.LoadRulesOfResource, "all": X.LoadRules with the rules of every
//	                               resource of the scenario); mod sys (r = 0): system.LoadRules
//
// The global inbound node is a process-wide object built with the real clock: scenarios run at hx.BaseMs + t, every
// scenario starts more than 20 virtual seconds after the last instant of the previous one (inbound windows expired)
// and inside ONE 10-minute statistic bucket of the breakers; at the end of a scenario the driver exits every open
// entry and records the gauges ("end"); the inbound gauge is recorded as the difference to its value at the start
// of the scenario.  System rules (and all others) are cleared between scenarios.
//
// usage: c21 <scenarios.ndjson> <trace.ndjson>
package main

import (
	"errors"
	"fmt"
	"os"

	"github.com/alibaba/sentinel-golang/api"
	"github.com/alibaba/sentinel-golang/core/base"
	cb "github.com/alibaba/sentinel-golang/core/circuitbreaker"
	"github.com/alibaba/sentinel-golang/core/flow"
	"github.com/alibaba/sentinel-golang/core/hotspot"
	"github.com/alibaba/sentinel-golang/core/isolation"
	"github.com/alibaba/sentinel-golang/core/stat"
	"github.com/alibaba/sentinel-golang/core/system"

	"verifharness/hx"
)

const (
	tick     = int64(500)
	cbBucket = int64(600000) // the breaker's statistic bucket must not roll within a scenario
)

var errBiz = errors.New("x")

type rr struct{ flow, iso, hot, hq, hqB, hqD, cbE, cbTO int64 }

type run struct {
	tr              int64
	names           []string
	rules           []rr
	sysConc, sysQps int64
	open, done      map[int64]*base.SentinelEntry
	resOf           map[int64]int
	g0              int32
}

func readRR(m hx.M) rr {
	return rr{hx.Int(m, "flow"), hx.Int(m, "iso"), hx.Int(m, "hot"), hx.Int(m, "hq"), hx.Int(m, "hqB"), hx.Int(m, "hqD"), hx.Int(m, "cbE"), hx.Int(m, "cbTO")}
}

func (r *run) flowRules(i int) []*flow.Rule {
	if f := r.rules[i].flow; f >= 0 {
		return []*flow.Rule{{Resource: r.names[i], TokenCalculateStrategy: flow.Direct, ControlBehavior: flow.Reject, Threshold: float64(f)}}
	}
	return nil
}

func (r *run) isoRules(i int) []*isolation.Rule {
	if n := r.rules[i].iso; n >= 0 {
		return []*isolation.Rule{{Resource: r.names[i], MetricType: isolation.Concurrency, Threshold: uint32(n)}}
	}
	return nil
}

// the concurrency rule first, then the QPS rule: the order in which the hotspot slot consults them
func (r *run) hotRules(i int) []*hotspot.Rule {
	var out []*hotspot.Rule
	x := r.rules[i]
	if x.hot >= 0 {
		out = append(out, &hotspot.Rule{Resource: r.names[i], MetricType: hotspot.Concurrency, ParamIndex: 0, Threshold: x.hot})
	}
	if x.hq >= 0 {
		out = append(out, &hotspot.Rule{Resource: r.names[i], MetricType: hotspot.QPS, ControlBehavior: hotspot.Reject, ParamIndex: 0,
			Threshold: x.hq, BurstCount: x.hqB, DurationInSec: x.hqD})
	}
	return out
}

func (r *run) cbRules(i int) []*cb.Rule {
	if e := r.rules[i].cbE; e >= 0 {
		return []*cb.Rule{{Resource: r.names[i], Strategy: cb.ErrorCount, RetryTimeoutMs: uint32(r.rules[i].cbTO * tick),
			MinRequestAmount: 1, StatIntervalMs: uint32(cbBucket), StatSlidingWindowBucketCount: 1, Threshold: float64(e)}}
	}
	return nil
}

func must(what string, err error) {
	if err != nil {
		hx.Fatal("%s: %v", what, err)
	}
}

// load puts the current rules of one module in force: for resource i (via "res") or for all resources (via "all")
func (r *run) load(mod string, i int, via string) {
	all := via == "all"
	switch mod {
	case "flow":
		if all {
			var l []*flow.Rule
			for k := range r.names {
				l = append(l, r.flowRules(k)...)
			}
			_, err := flow.LoadRules(l)
			must("flow.LoadRules", err)
		} else {
			_, err := flow.LoadRulesOfResource(r.names[i], r.flowRules(i))
			must("flow.LoadRulesOfResource", err)
		}
	case "iso":
		if all {
			var l []*isolation.Rule
			for k := range r.names {
				l = append(l, r.isoRules(k)...)
			}
			_, err := isolation.LoadRules(l)
			must("isolation.LoadRules", err)
		} else {
			_, err := isolation.LoadRulesOfResource(r.names[i], r.isoRules(i))
			must("isolation.LoadRulesOfResource", err)
		}
	case "hot", "hq":
		if all {
			var l []*hotspot.Rule
			for k := range r.names {
				l = append(l, r.hotRules(k)...)
			}
			_, err := hotspot.LoadRules(l)
			must("hotspot.LoadRules", err)
		} else {
			_, err := hotspot.LoadRulesOfResource(r.names[i], r.hotRules(i))
			must("hotspot.LoadRulesOfResource", err)
		}
	case "cb":
		if all {
			var l []*cb.Rule
			for k := range r.names {
				l = append(l, r.cbRules(k)...)
			}
			_, err := cb.LoadRules(l)
			must("circuitbreaker.LoadRules", err)
		} else {
			_, err := cb.LoadRulesOfResource(r.names[i], r.cbRules(i))
			must("circuitbreaker.LoadRulesOfResource", err)
		}
	case "sys":
		var l []*system.Rule
		if r.sysConc >= 0 {
			l = append(l, &system.Rule{MetricType: system.Concurrency, TriggerCount: float64(r.sysConc), Strategy: system.NoAdaptive})
		}
		if r.sysQps >= 0 {
			l = append(l, &system.Rule{MetricType: system.InboundQPS, TriggerCount: float64(r.sysQps), Strategy: system.NoAdaptive})
		}
		_, err := system.LoadRules(l)
		must("system.LoadRules", err)
	default:
		hx.Fatal("unknown module %q", mod)
	}
}

func clearAll() {
	must("flow.ClearRules", flow.ClearRules())
	must("isolation.ClearRules", isolation.ClearRules())
	must("hotspot.ClearRules", hotspot.ClearRules())
	must("circuitbreaker.ClearRules", cb.ClearRules())
	must("system.ClearRules", system.ClearRules())
}

func (r *run) gi() int64 { return int64(stat.InboundNode().CurrentConcurrency() - r.g0) }
func (r *run) gr(i int) int64 {
	if n := stat.GetResourceNode(r.names[i]); n != nil {
		return int64(n.CurrentConcurrency())
	}
	return 0
}

// finish exits what is still open and records the gauges
func (r *run) finish(tr *hx.Trace) {
	if r == nil {
		return
	}
	for _, e := range r.open {
		e.Exit()
	}
	gr := make([]int64, len(r.names))
	for i := range r.names {
		gr[i] = r.gr(i)
	}
	tr.Emit(hx.M{"op": "end", "gi": r.gi(), "gr": gr})
	clearAll()
}

func late(e *base.SentinelEntry, how string) {
	switch how {
	case "exit":
		e.Exit()
	case "exiterr":
		e.Exit(base.WithError(errBiz))
	case "trace":
		api.TraceError(e, errBiz)
	default:
		hx.Fatal("unknown late call %q", how)
	}
}

func enter(name string, b int64, arg, ty string) (e *base.SentinelEntry, bt string) {
	defer func() {
		if p := recover(); p != nil {
			e, bt = nil, "panic"
		}
	}()
	tt := base.Outbound
	if ty == "in" {
		tt = base.Inbound
	}
	opts := []api.EntryOption{api.WithBatchCount(uint32(b)), api.WithTrafficType(tt)}
	if arg != "none" {
		opts = append(opts, api.WithArgs(arg))
	}
	e, be := api.Entry(name, opts...)
	if be == nil {
		return e, "none"
	}
	switch be.BlockType() {
	case base.BlockTypeSystemFlow:
		bt = "system"
	case base.BlockTypeFlow:
		bt = "flow"
	case base.BlockTypeIsolation:
		bt = "isolation"
	case base.BlockTypeHotSpotParamFlow:
		bt = "hotspot"
	case base.BlockTypeCircuitBreaking:
		bt = "breaker"
	default:
		bt = "other"
	}
	return nil, bt
}

func main() {
	if len(os.Args) < 3 {
		hx.Fatal("usage: c21 scenarios.ndjson trace.ndjson")
	}
	scn, err := hx.ReadNDJSON[hx.M](os.Args[1])
	if err != nil {
		hx.Fatal("%v", err)
	}
	clk := hx.NewVClock(hx.BaseMs(cbBucket) * 1e6)
	clk.Install()
	hx.InitSentinel()
	tr := hx.NewTrace(os.Args[2])
	defer tr.Close()
	var r *run
	for k, s := range scn {
		op := hx.Str(s, "op")
		if op != "new" && r == nil {
			hx.Fatal("scenario does not start with new")
		}
		switch op {
		case "new":
			r.finish(tr)
			t0 := hx.Int(s, "t0")
			span := t0
			for _, x := range scn[k+1:] {
				if hx.Str(x, "op") == "new" {
					break
				}
				if hx.Str(x, "op") == "tick" {
					span += hx.Int(x, "d")
				}
			}
			spanMs := span*tick + 1000
			if spanMs >= cbBucket {
				hx.Fatal("scenario %d spans %d ms: longer than the breaker's statistic bucket", hx.Int(s, "tr"), spanMs)
			}
			// a whole second, more than 20 s after everything that happened so far, the scenario inside one breaker bucket
			epoch := (clk.NowMs()/1000 + 22) * 1000
			if epoch/cbBucket != (epoch+spanMs)/cbBucket {
				epoch = (epoch/cbBucket + 1) * cbBucket
			}
			clk.SetMs(epoch + t0*tick)
			rules := s["rules"].(map[string]interface{})
			sys := rules["sys"].(map[string]interface{})
			resl := rules["res"].([]interface{})
			r = &run{tr: hx.Int(s, "tr"), sysConc: hx.Int(sys, "conc"), sysQps: hx.Int(sys, "qps"),
				open: map[int64]*base.SentinelEntry{}, done: map[int64]*base.SentinelEntry{}, resOf: map[int64]int{}}
			for i, x := range resl {
				r.names = append(r.names, fmt.Sprintf("c21_%d_%d", r.tr, i+1))
				r.rules = append(r.rules, readRR(x.(map[string]interface{})))
			}
			r.g0 = stat.InboundNode().CurrentConcurrency()
			for i := range r.names {
				for _, mod := range []string{"flow", "iso", "hot", "cb"} {
					r.load(mod, i, "res")
				}
			}
			r.load("sys", 0, "")
			tr.Emit(hx.M{"op": "new", "tr": r.tr, "rules": rules, "t0": t0})
		case "enter":
			i, id, b, arg, ty := int(hx.Int(s, "r"))-1, hx.Int(s, "id"), hx.Int(s, "b"), hx.Str(s, "arg"), hx.Str(s, "ty")
			if i < 0 || i >= len(r.names) {
				hx.Fatal("no resource %d", i+1)
			}
			e, bt := enter(r.names[i], b, arg, ty)
			if e != nil {
				r.open[id] = e
				r.resOf[id] = i
			}
			tr.Emit(hx.M{"op": "enter", "r": i + 1, "id": id, "b": b, "arg": arg, "ty": ty, "ok": e != nil, "bt": bt, "gi": r.gi(), "gr": r.gr(i)})
		case "exit":
			id, werr := hx.Int(s, "id"), s["err"] == true
			if e, ok := r.open[id]; ok {
				i := r.resOf[id]
				switch {
				case werr && hx.Str(s, "via") == "trace":
					api.TraceError(e, errBiz)
					e.Exit()
				case werr:
					e.Exit(base.WithError(errBiz))
				default:
					e.Exit()
				}
				delete(r.open, id)
				r.done[id] = e
				tr.Emit(hx.M{"op": "exit", "r": i + 1, "id": id, "err": werr, "gi": r.gi(), "gr": r.gr(i)})
			} else if e, ok := r.done[id]; ok {
				how := "exit"
				if werr {
					how = "exiterr"
				}
				late(e, how)
				i := r.resOf[id]
				tr.Emit(hx.M{"op": "late", "r": i + 1, "id": id, "how": how, "gi": r.gi(), "gr": r.gr(i)})
			}
		case "trace":
			id := hx.Int(s, "id")
			if e, ok := r.open[id]; ok {
				api.TraceError(e, errBiz)
				tr.Emit(hx.M{"op": "trace", "r": r.resOf[id] + 1, "id": id})
			} else if e, ok := r.done[id]; ok {
				late(e, "trace")
				i := r.resOf[id]
				tr.Emit(hx.M{"op": "late", "r": i + 1, "id": id, "how": "trace", "gi": r.gi(), "gr": r.gr(i)})
			}
		case "late":
			id, how := hx.Int(s, "id"), hx.Str(s, "how")
			if e, ok := r.done[id]; ok {
				late(e, how)
				i := r.resOf[id]
				tr.Emit(hx.M{"op": "late", "r": i + 1, "id": id, "how": how, "gi": r.gi(), "gr": r.gr(i)})
			}
		case "tick":
			d := hx.Int(s, "d")
			clk.AdvanceMs(d * tick)
			tr.Emit(hx.M{"op": "tick", "d": d})
		case "reload":
			i, mod, via := int(hx.Int(s, "r"))-1, hx.Str(s, "mod"), hx.Str(s, "via")
			val := s["val"].(map[string]interface{})
			if mod != "sys" && (i < 0 || i >= len(r.names)) {
				hx.Fatal("no resource %d", i+1)
			}
			switch mod {
			case "flow":
				r.rules[i].flow = hx.Int(val, "v")
			case "iso":
				r.rules[i].iso = hx.Int(val, "v")
			case "hot":
				r.rules[i].hot = hx.Int(val, "v")
			case "hq":
				r.rules[i].hq, r.rules[i].hqB, r.rules[i].hqD = hx.Int(val, "hq"), hx.Int(val, "hqB"), hx.Int(val, "hqD")
			case "cb":
				r.rules[i].cbE, r.rules[i].cbTO = hx.Int(val, "cbE"), hx.Int(val, "cbTO")
			case "sys":
				r.sysConc, r.sysQps = hx.Int(val, "conc"), hx.Int(val, "qps")
			}
			r.load(mod, i, via)
			tr.Emit(hx.M{"op": "reload", "r": hx.Int(s, "r"), "mod": mod, "val": val, "via": via})
		default:
			hx.Fatal("unknown op %q", op)
		}
	}
	r.finish(tr)
}
