// c22 drives the whole metric pipeline of the REAL library end to end: traffic through api.Entry / Exit under the
// virtual clock -> per-resource sliding-window statistics -> the metric aggregator task (its ticker is replaced by a manual
// one through util.SetTickerCreator) -> the metric log writer -> files -> the metric searcher.  What the searcher returns for
// the scenario's resources is recorded and judged by spec/MetricPipeline_Trace.tla against the per-second reference of
// spec/WindowRef.tla: every second with traffic that an aggregation covered is logged exactly once with the true totals.
//
// usage: c22 <scenarios.ndjson> <trace.ndjson> <logdir>
package main

import (
	"errors"
	"fmt"
	"os"
	"sort"
	"time"

	"github.com/alibaba/sentinel-golang/api"
	"github.com/alibaba/sentinel-golang/core/base"
	"github.com/alibaba/sentinel-golang/core/config"
	"github.com/alibaba/sentinel-golang/core/flow"
	"github.com/alibaba/sentinel-golang/core/log/metric"
	"github.com/alibaba/sentinel-golang/logging"
	"github.com/alibaba/sentinel-golang/util"

	"verifharness/hx"
)

// manual ticker: the driver decides when the aggregator runs
type manualTicker struct{ c chan time.Time }

func (t *manualTicker) C() <-chan time.Time { return t.c }
func (t *manualTicker) Stop()               {}

type manualCreator struct{ t *manualTicker }

func (m *manualCreator) NewTicker(time.Duration) util.Ticker { return m.t }

func main() {
	if len(os.Args) < 4 {
		hx.Fatal("usage: c22 scenarios.ndjson trace.ndjson logdir")
	}
	scn, err := hx.ReadNDJSON[hx.M](os.Args[1])
	if err != nil {
		hx.Fatal("%v", err)
	}
	logdir := os.Args[3]
	clk := hx.NewVClock(1e6)
	base0 := hx.BaseMs(10000)
	clk.SetMs(base0)
	clk.Install()
	mt := &manualTicker{c: make(chan time.Time)} // unbuffered: a send returns only when the aggregator loop took it
	util.SetTickerCreator(&manualCreator{t: mt})
	_ = logging.ResetGlobalLogger(hx.NopLogger{})
	e := config.NewDefaultConfig()
	e.Sentinel.App.Name = "verif"
	e.Sentinel.Log.Logger = hx.NopLogger{}
	e.Sentinel.Log.Dir = logdir
	e.Sentinel.Log.Metric.FlushIntervalSec = 1
	e.Sentinel.Log.Metric.SingleFileMaxSize = 1 << 30
	e.Sentinel.Log.Metric.MaxFileCount = 8
	e.Sentinel.Stat.System.CollectIntervalMs = 0
	e.Sentinel.Stat.System.CollectLoadIntervalMs = 0
	e.Sentinel.Stat.System.CollectCpuIntervalMs = 0
	e.Sentinel.Stat.System.CollectMemoryIntervalMs = 0
	if err := api.InitWithConfig(e); err != nil {
		hx.Fatal("init: %v", err)
	}
	tr := hx.NewTrace(os.Args[2])
	defer tr.Close()
	searcher, err := metric.NewDefaultMetricSearcher(logdir, metric.FormMetricFileName("verif", false))
	if err != nil {
		hx.Fatal("searcher: %v", err)
	}
	aggregate := func() {
		mt.c <- clk.Now() // taken by the aggregator loop ...
		mt.c <- clk.Now() // ... and this one is only taken after the first aggregation has finished (it is a no-op itself)
	}
	var trn, start int64
	var resA, resB string
	live := map[int64]*base.SentinelEntry{}
	rel := func() int64 { return clk.NowMs() - base0 }
	for _, s := range scn {
		switch hx.Str(s, "op") {
		case "new":
			// leave the previous scenario behind: exit, let a whole array length pass and aggregate once more
			for _, en := range live {
				en.Exit()
			}
			live = map[int64]*base.SentinelEntry{}
			clk.AdvanceMs(11000 + (1000 - clk.NowMs()%1000))
			aggregate()
			lf := rel() // the aggregator's lastFetchTime is now this (second-aligned) instant
			clk.AdvanceMs(hx.Int(s, "t0"))
			trn = hx.Int(s, "tr")
			resA, resB = fmt.Sprintf("p%d_a", trn), fmt.Sprintf("p%d_b", trn)
			// resB is always blocked
			if _, err := flow.LoadRulesOfResource(resB, []*flow.Rule{{Resource: resB, TokenCalculateStrategy: flow.Direct, ControlBehavior: flow.Reject, Threshold: 0}}); err != nil {
				hx.Fatal("rule: %v", err)
			}
			start = rel()
			tr.Emit(hx.M{"op": "new", "tr": trn, "t": start, "lf": lf})
		case "enter":
			id, b := hx.Int(s, "id"), hx.Int(s, "b")
			res, r := resA, "a"
			if hx.Str(s, "res") == "b" {
				res, r = resB, "b"
			}
			en, be := api.Entry(res, api.WithBatchCount(uint32(b)))
			if be == nil {
				live[id] = en
			}
			tr.Emit(hx.M{"op": "enter", "id": id, "res": r, "b": b, "ok": be == nil})
		case "exit":
			id := hx.Int(s, "id")
			en := live[id]
			if en == nil {
				continue
			}
			delete(live, id)
			if s["err"] == true {
				api.TraceError(en, errors.New("x"))
			}
			en.Exit()
			tr.Emit(hx.M{"op": "exit", "id": id, "err": s["err"] == true})
		case "tick":
			clk.AdvanceMs(hx.Int(s, "d"))
			tr.Emit(hx.M{"op": "tick", "t": rel()})
		case "agg":
			aggregate()
			tr.Emit(hx.M{"op": "agg"})
		case "final":
			// the writer task is asynchronous: poll until the answer has been stable for 60 ms (cap 5 s)
			var prev string
			var items []hx.M
			stable := time.Now()
			deadline := time.Now().Add(5 * time.Second)
			for {
				items = items[:0]
				for _, rr := range []struct{ res, r string }{{resA, "a"}, {resB, "b"}} {
					got, err := searcher.FindByTimeAndResource(uint64(base0+start-1000), uint64(clk.NowMs()+1000), rr.res)
					if err != nil {
						continue
					}
					for _, it := range got {
						items = append(items, hx.M{"res": rr.r, "ts": int64(it.Timestamp) - base0, "pass": it.PassQps, "block": it.BlockQps, "complete": it.CompleteQps,
							"error": it.ErrorQps, "avgrt": it.AvgRt, "conc": it.Concurrency})
					}
				}
				sort.Slice(items, func(i, j int) bool { return fmt.Sprint(items[i]["res"], items[i]["ts"]) < fmt.Sprint(items[j]["res"], items[j]["ts"]) })
				cur := fmt.Sprint(items)
				if cur != prev {
					prev, stable = cur, time.Now()
				}
				if time.Since(stable) > 60*time.Millisecond || time.Now().After(deadline) {
					break
				}
				time.Sleep(5 * time.Millisecond)
			}
			out := make([]hx.M, len(items))
			copy(out, items)
			tr.Emit(hx.M{"op": "final", "items": out})
		}
	}
}
