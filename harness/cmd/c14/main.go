// c14 is the metamorphic driver for property C14 (reloading rules does not disturb the runtime state of
// unchanged rules).  One scenario is a PAIR of runs on fresh module state under identical clocks:
//
//	run A: load(old list), traffic history with a reload(new list) inserted at position pos
//	run B: mode "erase":     load(old list), the same history, NO reload          (the reload erased)
//	       mode "fromstart": load(new list) from the start, the same history, no reload
//	       mode "kept":      no reference run - the watched breaker rule X is replaced by Xr (only RetryTimeoutMs
//	                         changed: the statistic parameters and the way the statistics are read stay) at ANY
//	                         position, also while the old breaker is Open / HalfOpen; every step records its time,
//	                         operation and outcome, and RuleReuse_Trace computes from the recorded history what a
//	                         breaker that starts Closed on the KEPT error count must decide after the reload
//	                         (a modified rule with unchanged statistic parameters keeps its statistics)
//
// Lists are sequences of rule TOKENS: X the watched stateful rule, Xm = X modified with unchanged statistic
// parameters, S1/S2 other rules whose statistic parameters equal X's (they never refuse anything), N1/N2 other
// rules with different statistic parameters (never refuse either).  The scenario's "kind" selects the concrete
// rules and the <= 8-step traffic history: an open breaker with a pending retry deadline, a half-full
// throttling queue, warm-up tokens, an accumulated standalone-window count, a partially consumed
// hot-parameter token bucket, hot-parameter pacing and concurrency counters.
// Both decision traces are recorded step by step; spec/RuleReuse_Trace.tla demands that they agree.
//
// The load entry point is chosen PER LOAD (as in RuleReuse.tla, where it is a parameter of each Reload action):
// "p0" is the entry point of the initial load ("whole" = LoadRules, "res" = LoadRulesOfResource), "path" that of
// the reload ("whole", "res", or "wholeOther" = LoadRules with a rule for ANOTHER resource added, so that the
// module's unchanged-detection lets the load through even when the watched resource's list is re-sent as it is).
// "opt" selects the SPELLING of the optional fields of every rule of the scenario: "set" = written out,
// "unset" = left at their zero value so that the module's defaulting applies (WarmUpColdFactor 0,
// StatIntervalInMs 0, StatSlidingWindowBucketCount 0 / ProbeNum 0, ParamsMaxCapacity 0), "part" = some of
// them, "nil" = hotspot SpecificItems nil.  All loads of a pair use the same spelling: the rules are
// field-for-field identical for the caller.
//
// usage: c14 <scenarios.ndjson> <trace.ndjson>
package main

import (
	"errors"
	"fmt"
	"os"

	"github.com/alibaba/sentinel-golang/api"
	"github.com/alibaba/sentinel-golang/core/base"
	cb "github.com/alibaba/sentinel-golang/core/circuitbreaker"
	"github.com/alibaba/sentinel-golang/core/flow"
	"github.com/alibaba/sentinel-golang/core/hotspot"

	"verifharness/hx"
)

var (
	clk    *hx.VClock
	t0     int64
	errBiz = errors.New("biz")
)

type step struct {
	t     int64  // ms since the start of the run
	op    string // "req" | "hold" | "release"
	batch uint32
	arg   string
	rt    int64
	fail  bool
}

type kind struct {
	mod   string
	steps []step
	stat  map[string]string                      // statistic-parameter class of each token ("none": no statistics)
	brk   map[string]int64                       // mode "kept": parameters of the watched breaker (thr, retry of Xr, win)
	opts  []string                               // spellings of the optional fields this kind knows; opts[0] if the scenario names none
	rule  func(tok, res, opt string) interface{} // fresh concrete rule of a token
}

func req(t int64) step            { return step{t: t, op: "req", batch: 1, arg: "a"} }
func reqB(t int64, b uint32) step { return step{t: t, op: "req", batch: b, arg: "a"} }
func reqE(t int64) step           { return step{t: t, op: "req", batch: 1, arg: "a", fail: true} }
func reqA(t int64, a string) step { return step{t: t, op: "req", batch: 1, arg: a} }

var sx = map[string]string{"X": "sx", "Xm": "sx", "Xr": "sx", "S1": "sx", "S2": "sx", "N1": "n1", "N2": "n2"}
var snone = map[string]string{"X": "none", "Xm": "none", "S1": "s", "S2": "s", "N1": "n1", "N2": "n2"}

// ---- flow -------------------------------------------------------------------------------------------
func flowOther(tok, res string, sInterval uint32) *flow.Rule {
	r := &flow.Rule{ID: tok, Resource: res, TokenCalculateStrategy: flow.Direct, ControlBehavior: flow.Reject, Threshold: 100000}
	switch tok {
	case "S1":
		r.StatIntervalInMs = sInterval
	case "S2":
		r.StatIntervalInMs, r.Threshold = sInterval, 100001
	case "N1":
		r.StatIntervalInMs = 2000
	case "N2":
		r.StatIntervalInMs = 5000
	}
	return r
}

var kinds = map[string]*kind{
	// half-full throttling queue: 2 requests per second, at most 1200 ms of queueing
	// (unset: StatIntervalInMs 0 = the default second)
	"flow-throttle": {mod: "flow", stat: snone, opts: []string{"set", "unset"},
		steps: []step{req(0), req(0), req(0), req(0), req(100), req(400), req(1600), req(3000)},
		rule: func(tok, res, opt string) interface{} {
			iv := uint32(1000)
			if opt == "unset" {
				iv = 0
			}
			if tok == "X" {
				return &flow.Rule{ID: tok, Resource: res, TokenCalculateStrategy: flow.Direct, ControlBehavior: flow.Throttling,
					Threshold: 2, StatIntervalInMs: iv, MaxQueueingTimeMs: 1200}
			}
			return flowOther(tok, res, iv)
		}},
	// warm-up tokens: cold rate 33/s, warms up to 99/s within ~3 s of sustained traffic
	// (unset: WarmUpColdFactor 0 = the default 3 and StatIntervalInMs 0 = the default second; part: only the cold factor unset)
	"flow-warmup": {mod: "flow", stat: sx, opts: []string{"set", "unset", "part"},
		steps: []step{reqB(0, 33), reqB(1000, 33), reqB(2000, 33), reqB(3000, 33), reqB(4000, 80), reqB(4100, 30), reqB(5000, 90), reqB(6000, 99)},
		rule: func(tok, res, opt string) interface{} {
			iv, cf := uint32(1000), uint32(3)
			switch opt {
			case "unset":
				iv, cf = 0, 0
			case "part":
				cf = 0
			}
			if tok == "X" {
				return &flow.Rule{ID: tok, Resource: res, TokenCalculateStrategy: flow.WarmUp, ControlBehavior: flow.Reject,
					Threshold: 99, StatIntervalInMs: iv, WarmUpPeriodSec: 2, WarmUpColdFactor: cf}
			}
			return flowOther(tok, res, iv)
		}},
	// accumulated count of a standalone statistic window (3000 ms cannot reuse the resource's 10 s array)
	"flow-standalone": {mod: "flow", stat: sx, opts: []string{"set"},
		steps: []step{req(0), req(100), req(200), req(300), req(1000), req(2900), req(3100), req(3200)},
		rule: func(tok, res, _ string) interface{} {
			if tok == "X" {
				return &flow.Rule{ID: tok, Resource: res, TokenCalculateStrategy: flow.Direct, ControlBehavior: flow.Reject, Threshold: 3, StatIntervalInMs: 3000}
			}
			return flowOther(tok, res, 3000)
		}},
	// the same rule modified (threshold 3 -> 5), statistic parameters unchanged: the count is kept
	"flow-standalone-mod": {mod: "flow", stat: sx, opts: []string{"set"},
		steps: []step{req(0), req(100), req(200), req(300), req(400), req(500), req(600), req(3100)},
		rule: func(tok, res, _ string) interface{} {
			switch tok {
			case "X":
				return &flow.Rule{ID: tok, Resource: res, TokenCalculateStrategy: flow.Direct, ControlBehavior: flow.Reject, Threshold: 3, StatIntervalInMs: 3000}
			case "Xm":
				return &flow.Rule{ID: tok, Resource: res, TokenCalculateStrategy: flow.Direct, ControlBehavior: flow.Reject, Threshold: 5, StatIntervalInMs: 3000}
			}
			return flowOther(tok, res, 3000)
		}},
	// ---- circuit breaker: opens on the 2nd error at t=100, retry deadline t=3100
	// (unset: StatSlidingWindowBucketCount 0 and ProbeNum 0 = one bucket, one probe; set: both written out)
	"cb-open": {mod: "circuitbreaker", stat: sx, opts: []string{"unset", "set"},
		steps: []step{reqE(0), reqE(100), req(200), req(1000), req(3050), req(3100), reqE(3200), req(3300)},
		rule:  func(tok, res, opt string) interface{} { return cbRule(tok, res, opt, 2, 2) }},
	// accumulated error count of a closed breaker; threshold 3 -> 2 with unchanged statistic parameters
	// tripped breaker (mode "kept"): 3 errors open it at t=200 (old retry deadline 3200, never reached before step 8);
	// Xr = X with RetryTimeoutMs 3000 -> 1000.  Everything happens inside one 10 s statistic bucket.
	"cb-trip-open": {mod: "circuitbreaker", stat: sx, opts: []string{"unset", "set"}, brk: map[string]int64{"thr": 3, "retry": 1000, "win": 10000},
		steps: []step{reqE(0), reqE(100), reqE(200), req(300), req(1000), reqE(2000), req(2100), req(3100)},
		rule:  func(tok, res, opt string) interface{} { return cbRule(tok, res, opt, 3, 2) }},
	// the same with the old breaker HalfOpen at the later reload positions: the probe admitted at t=3300 stays in flight
	"cb-trip-half": {mod: "circuitbreaker", stat: sx, opts: []string{"unset", "set"}, brk: map[string]int64{"thr": 3, "retry": 1000, "win": 10000},
		steps: []step{reqE(0), reqE(100), reqE(200), req(300), {t: 3300, op: "hold", batch: 1, arg: "a"}, req(3400), reqE(3500), req(4450)},
		rule:  func(tok, res, opt string) interface{} { return cbRule(tok, res, opt, 3, 2) }},
	"cb-mod": {mod: "circuitbreaker", stat: sx, opts: []string{"unset", "set"},
		steps: []step{reqE(0), reqE(100), req(200), req(300), req(3050), req(3150), reqE(3200), req(3300)},
		rule:  func(tok, res, opt string) interface{} { return cbRule(tok, res, opt, 3, 2) }},
	// ---- hotspot: token bucket of value "a": 3 tokens per 10 s
	// (unset: ParamsMaxCapacity 0 = the module's default cache size; set: that size written out; nil: SpecificItems nil)
	"hot-bucket": {mod: "hotspot", stat: sx, opts: []string{"unset", "set"},
		steps: []step{req(0), req(100), req(200), req(300), reqA(350, "b"), req(5000), req(10100), req(10200)},
		rule:  func(tok, res, opt string) interface{} { return hotRule(tok, res, opt, hotspot.Reject, false) }},
	"hot-bucket-nil": {mod: "hotspot", stat: sx, opts: []string{"unset", "set"}, // the same with SpecificItems left nil in every rule
		steps: []step{req(0), req(100), req(200), req(300), reqA(350, "b"), req(5000), req(10100), req(10200)},
		rule:  func(tok, res, opt string) interface{} { return hotRule(tok, res, opt, hotspot.Reject, true) }},
	// hot-parameter pacing: 2 per second per value, at most 1200 ms of queueing
	"hot-throttle": {mod: "hotspot", stat: sx, opts: []string{"unset", "set", "nil"},
		steps: []step{req(0), req(0), req(0), req(0), req(100), req(400), reqA(450, "b"), req(3000)},
		rule:  func(tok, res, opt string) interface{} { return hotRule(tok, res, opt, hotspot.Throttling, opt == "nil") }},
	// hot-parameter concurrency: at most 2 in flight per value
	"hot-conc": {mod: "hotspot", stat: sx, opts: []string{"unset", "set", "nil"},
		steps: []step{{t: 0, op: "hold", batch: 1, arg: "a"}, {t: 10, op: "hold", batch: 1, arg: "a"}, req(20), req(30),
			{t: 40, op: "release"}, req(50), {t: 60, op: "hold", batch: 1, arg: "a"}, req(70)},
		rule: func(tok, res, opt string) interface{} {
			r := &hotspot.Rule{ID: tok, Resource: res, MetricType: hotspot.Concurrency, ParamIndex: 0, Threshold: 100000,
				SpecificItems: map[interface{}]int64{}}
			if opt == "nil" {
				r.SpecificItems = nil
			}
			if opt == "set" {
				r.ParamsMaxCapacity = hotspot.ConcurrencyMaxCount // what 0 stands for
			}
			switch tok {
			case "X":
				r.Threshold = 2
			case "Xm":
				r.Threshold, r.SpecificItems = 2, map[interface{}]int64{"zzz": 1}
			case "S2":
				r.Threshold = 100001
			case "N1":
				r.ParamsMaxCapacity = 500
			case "N2":
				r.ParamsMaxCapacity = 700
			}
			return r
		}},
}

func cbRule(tok, res, opt string, thrX, thrXm float64) *cb.Rule {
	r := &cb.Rule{Id: tok, Resource: res, Strategy: cb.ErrorCount, RetryTimeoutMs: 3000, MinRequestAmount: 1, StatIntervalMs: 10000, Threshold: 1000}
	if opt == "set" {
		r.StatSlidingWindowBucketCount, r.ProbeNum = 1, 1 // what 0 stands for
	}
	switch tok {
	case "X":
		r.Threshold = thrX
	case "Xm":
		r.Threshold = thrXm
	case "Xr": // X with another retry timeout: neither the statistic parameters nor the reading of the statistics change
		r.Threshold, r.RetryTimeoutMs = thrX, 1000
	case "S2":
		r.Threshold = 1001
	case "N1":
		r.StatIntervalMs = 5000
	case "N2":
		r.Strategy, r.Threshold, r.MinRequestAmount = cb.ErrorRatio, 1.0, 1000
	}
	return r
}

func hotRule(tok, res, opt string, behaviour hotspot.ControlBehavior, nilItems bool) *hotspot.Rule {
	r := &hotspot.Rule{ID: tok, Resource: res, MetricType: hotspot.QPS, ControlBehavior: behaviour, ParamIndex: 0, Threshold: 100000, DurationInSec: 10}
	if behaviour == hotspot.Throttling {
		r.DurationInSec, r.MaxQueueingTimeMs = 1, 1200
	}
	if !nilItems {
		r.SpecificItems = map[interface{}]int64{}
	}
	switch tok {
	case "X":
		r.Threshold = 3
		if behaviour == hotspot.Throttling {
			r.Threshold = 2
		}
	case "Xm": // modified: a specific threshold for a value that never occurs
		r.Threshold, r.SpecificItems = 3, map[interface{}]int64{"zzz": 1}
		if behaviour == hotspot.Throttling {
			r.Threshold = 2
		}
	case "S2":
		r.Threshold = 100001
	case "N1":
		r.DurationInSec = 7
	case "N2":
		r.DurationInSec = 5
	}
	if opt == "set" { // the cache size that 0 stands for
		r.ParamsMaxCapacity = hotspot.ParamsCapacityBase * r.DurationInSec
		if r.ParamsMaxCapacity > hotspot.ParamsMaxCapacity {
			r.ParamsMaxCapacity = hotspot.ParamsMaxCapacity
		}
	}
	return r
}

// ---------------------------------------------------------------------------------------------------

// load sends the rules of toks through the entry point of path and returns the module's "really loaded" answer.
// "wholeOther": the whole-set load also carries a (harmless) rule for another resource, which is new to the module.
func load(k *kind, res string, toks []string, path, opt string) bool {
	var err error
	var ld bool
	perRes := path == "res"
	other := res + "_o"
	switch k.mod {
	case "flow":
		l := []*flow.Rule{}
		for _, t := range toks {
			l = append(l, k.rule(t, res, opt).(*flow.Rule))
		}
		if path == "wholeOther" {
			l = append(l, &flow.Rule{ID: "o", Resource: other, TokenCalculateStrategy: flow.Direct, ControlBehavior: flow.Reject, Threshold: 100000})
		}
		if perRes {
			ld, err = flow.LoadRulesOfResource(res, l)
		} else {
			ld, err = flow.LoadRules(l)
		}
	case "circuitbreaker":
		l := []*cb.Rule{}
		for _, t := range toks {
			l = append(l, k.rule(t, res, opt).(*cb.Rule))
		}
		if path == "wholeOther" {
			l = append(l, &cb.Rule{Id: "o", Resource: other, Strategy: cb.ErrorCount, RetryTimeoutMs: 3000, MinRequestAmount: 1, StatIntervalMs: 10000, Threshold: 1000})
		}
		if perRes {
			ld, err = cb.LoadRulesOfResource(res, l)
		} else {
			ld, err = cb.LoadRules(l)
		}
	case "hotspot":
		l := []*hotspot.Rule{}
		for _, t := range toks {
			l = append(l, k.rule(t, res, opt).(*hotspot.Rule))
		}
		if path == "wholeOther" {
			l = append(l, &hotspot.Rule{ID: "o", Resource: other, MetricType: hotspot.QPS, ControlBehavior: hotspot.Reject, ParamIndex: 0, Threshold: 100000,
				DurationInSec: 10, SpecificItems: map[interface{}]int64{}})
		}
		if perRes {
			ld, err = hotspot.LoadRulesOfResource(res, l)
		} else {
			ld, err = hotspot.LoadRules(l)
		}
	}
	if err != nil {
		hx.Fatal("load of %v failed: %v", toks, err)
	}
	return ld
}

func clearAll() {
	_ = flow.ClearRules()
	_ = cb.ClearRules()
	_ = hotspot.ClearRules()
}

// one run: the initial load goes through entry point p0, the reload (if any) through path; returns the decision
// of every step and whether the module said that the reload was really executed
func run(k *kind, res string, first []string, p0 string, reloadAt int, reload []string, path, opt string) ([]hx.M, bool) {
	clearAll()
	clk.SetMs(t0)
	clk.TakeSleeps()
	load(k, res, first, p0, opt)
	ld := false
	var held []*base.SentinelEntry
	out := make([]hx.M, 0, len(k.steps))
	for i, s := range k.steps {
		if t0+s.t > clk.NowMs() {
			clk.SetMs(t0 + s.t)
		}
		if i == reloadAt {
			ld = load(k, res, reload, path, opt)
		}
		d := hx.M{"d": "-", "w": 0}
		switch s.op {
		case "req", "hold":
			e, b := api.Entry(res, api.WithBatchCount(s.batch), api.WithArgs(s.arg))
			var w int64
			for _, ns := range clk.TakeSleeps() {
				w += ns / 1e6
			}
			if b != nil {
				d = hx.M{"d": "B", "w": 0}
			} else {
				d = hx.M{"d": "P", "w": w}
				if s.op == "hold" {
					held = append(held, e)
				} else {
					clk.AdvanceMs(s.rt)
					if s.fail {
						api.TraceError(e, errBiz)
					}
					e.Exit()
				}
			}
		case "release":
			if len(held) > 0 {
				held[0].Exit()
				held = held[1:]
				d = hx.M{"d": "R", "w": 0}
			}
		}
		out = append(out, d)
	}
	if reloadAt == len(k.steps) {
		ld = load(k, res, reload, path, opt)
	}
	for _, e := range held {
		e.Exit()
	}
	return out, ld
}

func strs(x interface{}) []string {
	out := []string{}
	l, _ := x.([]interface{})
	for _, v := range l {
		out = append(out, v.(string))
	}
	return out
}

func main() {
	if len(os.Args) < 3 {
		hx.Fatal("usage: c14 scenarios.ndjson trace.ndjson")
	}
	scn, err := hx.ReadNDJSON[hx.M](os.Args[1])
	if err != nil {
		hx.Fatal("%v", err)
	}
	clk = hx.NewVClock(1e6)
	clk.NoAdvance = true // a queued request's sleep is recorded, time moves only with the scenario
	clk.Install()
	hx.InitSentinel()
	t0 = hx.BaseMs(60000)
	out := hx.NewTrace(os.Args[2])
	defer out.Close()
	for _, s := range scn {
		if hx.Str(s, "op") != "pair" {
			hx.Fatal("unknown op %q", hx.Str(s, "op"))
		}
		tr := hx.Int(s, "tr")
		k, ok := kinds[hx.Str(s, "kind")]
		if !ok {
			hx.Fatal("unknown kind %q", hx.Str(s, "kind"))
		}
		old, nw := strs(s["old"]), strs(s["new"])
		pos := int(hx.Int(s, "pos"))
		path, mode := hx.Str(s, "path"), hx.Str(s, "mode")
		if path != "whole" && path != "wholeOther" && path != "res" {
			hx.Fatal("unknown load path %q", path)
		}
		// scenarios written before the entry point became a parameter of each load: one path for the whole history
		p0 := "whole"
		if path == "res" {
			p0 = "res"
		}
		if v, ok := s["p0"].(string); ok {
			p0 = v
		}
		if p0 != "whole" && p0 != "res" {
			hx.Fatal("unknown entry point of the initial load %q", p0)
		}
		opt := k.opts[0]
		if v, ok := s["opt"].(string); ok {
			opt = v
		}
		known := false
		for _, o := range k.opts {
			known = known || o == opt
		}
		if !known {
			hx.Fatal("kind %s has no spelling %q of its optional fields", hx.Str(s, "kind"), opt)
		}
		if pos < 0 || pos > len(k.steps) {
			hx.Fatal("bad reload position %d", pos)
		}
		a, ld := run(k, fmt.Sprintf("c14_%d_a", tr), old, p0, pos, nw, path, opt)
		var b []hx.M
		switch mode {
		case "erase":
			b, _ = run(k, fmt.Sprintf("c14_%d_b", tr), old, p0, -1, nil, "", opt)
		case "fromstart":
			b, _ = run(k, fmt.Sprintf("c14_%d_b", tr), nw, p0, -1, nil, "", opt)
		case "kept":
			if k.brk == nil {
				hx.Fatal("kind %s has no breaker parameters for mode kept", hx.Str(s, "kind"))
			}
			b = a // no reference run: the trace spec computes the expected decisions
		default:
			hx.Fatal("unknown mode %q", mode)
		}
		brk := k.brk
		if brk == nil {
			brk = map[string]int64{"thr": 0, "retry": 0, "win": 0}
		}
		out.Emit(hx.M{"op": "new", "tr": tr, "kind": hx.Str(s, "kind"), "mod": k.mod, "mode": mode, "old": old, "new": nw, "pos": pos,
			"p0": p0, "path": path, "opt": opt, "ld": ld, "stat": k.stat, "nsteps": len(k.steps), "brk": brk})
		for i := range a {
			out.Emit(hx.M{"op": "step", "i": i + 1, "a": a[i], "b": b[i], "t": k.steps[i].t, "o": k.steps[i].op, "f": k.steps[i].fail})
		}
	}
	clearAll()
}
