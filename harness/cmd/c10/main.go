//go:build verif

// c10 drives the throttling flow checker of the real code in two modes and records request-level traces
// (arrival, spacing entitlement, result, wait) that spec/Throttle_Trace.tla judges against property C10:
//
//	mode "gate": k goroutines call flow.ThrottlingChecker.DoCheck concurrently; the goroutine gate forces
//	             the schedule (sequence of "who moves next" / clock tick) at the th.* yield points
//	mode "seq":  a throttling flow rule is loaded and requests arrive sequentially through api.Entry under
//	             the virtual nanosecond clock; the wait is the Sleep the library asks for
//
// usage: c10 <scenarios.ndjson> <trace.ndjson>
package main

import (
	"fmt"
	"os"
	"strings"

	"github.com/alibaba/sentinel-golang/api"
	"github.com/alibaba/sentinel-golang/core/base"
	"github.com/alibaba/sentinel-golang/core/flow"

	"verifharness/hx"
)

func main() {
	if len(os.Args) < 3 {
		hx.Fatal("usage: c10 scenarios.ndjson trace.ndjson")
	}
	scn, err := hx.ReadNDJSON[hx.M](os.Args[1])
	if err != nil {
		hx.Fatal("%v", err)
	}
	hx.InitSentinel()
	tr := hx.NewTrace(os.Args[2])
	defer tr.Close()
	clk := hx.NewVClock(1e6)
	clk.Install()
	for _, s := range scn {
		if hx.Str(s, "mode") == "seq" {
			seq(s, tr, clk)
		} else {
			gate(s, tr, clk)
		}
	}
}

// gate mode: times in ticks of 1 ms.  The checker has threshold 4 per 4 ms, so a batch of b is entitled to b ms.
func gate(s hx.M, tr *hx.Trace, clk *hx.VClock) {
	const tick = int64(1e6)
	maxq, last0 := hx.Int(s, "maxq"), hx.Int(s, "last0")
	var iv []int64
	for _, x := range s["iv"].([]interface{}) {
		iv = append(iv, int64(x.(float64)))
	}
	var sched []int
	for _, x := range s["sched"].([]interface{}) {
		sched = append(sched, int(x.(float64)))
	}
	origin := int64(1000) * tick // relative time 0
	clk.SetNs(origin + 1*tick)
	chk := flow.NewThrottlingChecker(nil, uint32(maxq), 4)
	if last0 > 0 { // bring lastPassedTime to origin+last0: a request passing in the idle branch at that instant
		clk.SetNs(origin + last0*tick)
		if r := chk.DoCheck(nil, 1, 4); r != nil {
			hx.Fatal("setup request did not pass")
		}
		clk.SetNs(origin + 1*tick)
	}
	tr.Emit(hx.M{"op": "new", "tr": hx.Int(s, "tr"), "maxq": maxq, "tol": 0})
	if last0 > 0 { // the setup request is part of the history the property talks about
		tr.Emit(hx.M{"op": "inv", "p": 64, "arr": last0, "iv": 1, "big": false})
		tr.Emit(hx.M{"op": "ret", "p": 64, "res": "pass", "w": 0})
	}
	sc := hx.NewSched()
	sc.Filter = func(pt string) bool { return strings.HasPrefix(pt, "th.") }
	var procs []*hx.Proc
	for i := range iv {
		i := i
		procs = append(procs, sc.Spawn(func() {
			arr := (clk.NowNs() - origin) / tick
			tr.Emit(hx.M{"op": "inv", "p": i + 1, "arr": arr, "iv": iv[i], "big": false})
			r := chk.DoCheck(nil, uint32(iv[i]), 4)
			emitRet(tr, i+1, r, tick)
		}))
	}
	steps := 0
	step := func(i int) {
		if procs[i].Done {
			return
		}
		steps++
		tr.Emit(hx.M{"op": "step", "p": i + 1, "at": procs[i].Point})
		sc.Step(procs[i])
	}
	for _, x := range sched {
		if x == 0 {
			clk.AdvanceNs(tick)
			tr.Emit(hx.M{"op": "tick"})
		} else if x-1 < len(procs) {
			step(x - 1)
		}
	}
	for !sc.AllDone() {
		for i := range procs {
			step(i)
		}
		if steps > 20000 {
			hx.Fatal("scenario %d: callers did not terminate", hx.Int(s, "tr"))
		}
	}
	sc.Close()
	tr.Emit(hx.M{"op": "end"})
}

func emitRet(tr *hx.Trace, p int, r *base.TokenResult, unit int64) {
	switch {
	case r == nil || r.IsPass():
		tr.Emit(hx.M{"op": "ret", "p": p, "res": "pass", "w": 0})
	case r.IsBlocked():
		tr.Emit(hx.M{"op": "ret", "p": p, "res": "reject", "w": 0})
	default:
		w := int64(r.NanosToWait())
		if w%unit != 0 {
			hx.Fatal("wait %d is not a whole number of ticks", w)
		}
		tr.Emit(hx.M{"op": "ret", "p": p, "res": "pass", "w": w / unit})
	}
}

// seq mode: times in nanoseconds relative to the scenario origin (kept below 2^31).
func seq(s hx.M, tr *hx.Trace, clk *hx.VClock) {
	trn := hx.Int(s, "tr")
	res := fmt.Sprintf("c10_%d", trn)
	thrNum, thrDen := hx.Int(s, "thr_num"), hx.Int(s, "thr_den")
	intervalMs, maxqMs := hx.Int(s, "interval_ms"), hx.Int(s, "maxq_ms")
	origin := hx.BaseMs(10000) * 1e6
	clk.SetNs(origin)
	_, err := flow.LoadRulesOfResource(res, []*flow.Rule{{Resource: res, TokenCalculateStrategy: flow.Direct, ControlBehavior: flow.Throttling,
		Threshold: float64(thrNum) / float64(thrDen), StatIntervalInMs: uint32(intervalMs), MaxQueueingTimeMs: uint32(maxqMs)}})
	if err != nil {
		hx.Fatal("load rule: %v", err)
	}
	tr.Emit(hx.M{"op": "new", "tr": trn, "maxq": maxqMs * 1e6, "tol": 1})
	for i, x := range s["reqs"].([]interface{}) {
		q := x.(map[string]interface{})
		clk.AdvanceNs(hx.Int(q, "gap"))
		clk.TakeSleeps()
		arr := clk.NowNs() - origin
		tr.Emit(hx.M{"op": "inv", "p": i + 1, "arr": arr, "iv": hx.Int(q, "iv"), "big": q["big"] == true})
		e, b := api.Entry(res, api.WithBatchCount(uint32(hx.Int(q, "batch"))))
		var w int64
		for _, d := range clk.TakeSleeps() {
			w += d
		}
		if b != nil {
			tr.Emit(hx.M{"op": "ret", "p": i + 1, "res": "reject", "w": 0})
		} else {
			tr.Emit(hx.M{"op": "ret", "p": i + 1, "res": "pass", "w": w})
			e.Exit()
		}
	}
	tr.Emit(hx.M{"op": "end"})
	_, _ = flow.LoadRulesOfResource(res, nil)
}
