//go:build verif

// c10 drives the throttling flow checker of the real code in four modes and records request-level traces
// (arrival, batch, threshold in force for the request, result, wait) that spec/Throttle_Trace.tla judges against
// property C10:
//
//	mode "gate": k goroutines call flow.ThrottlingChecker.DoCheck concurrently, each with its own batch and its own
//	             threshold argument; the goroutine gate forces the schedule (sequence of "who moves next" / clock
//	             tick) at the th.* yield points
//	mode "seq":  a throttling flow rule is loaded and requests arrive sequentially through api.Entry under the
//	             virtual nanosecond clock; the wait is the Sleep the library asks for.  strategy "direct": constant
//	             threshold; strategy "mem": MemoryAdaptive rule, the memory usage published through
//	             system_metric.SetSystemMemoryUsage before each request moves the effective threshold
//	             An entry {"op": "reload", ...} of the history REPLACES THE RULE UNDER TRAFFIC (flow.LoadRules /
//	             flow.LoadRulesOfResource with a complete new rule) between two requests
//	mode "gapi": the gate of mode "gate" around api.Entry on a resource with a Direct + Throttling rule; the schedule
//	             also says when the rule is replaced (-1), possibly while requests are parked inside the checker
//	mode "list": SEVERAL throttling rules on one resource (loaded in list order); requests arrive sequentially through
//	             api.Entry under the virtual nanosecond clock, which every Sleep the flow slot asks for advances - a
//	             request reaches the next rule of the list that much later.  Recorded per request: arrival, batch,
//	             decision, the TOTAL it was made to sleep (sum of the Sleep calls of that api.Entry call) and the
//	             position in the list of the rule its rejection names
//	mode "chk":  sequential calls of DoCheck on one checker under the virtual nanosecond clock, every call with its
//	             own threshold argument (what WarmUp / MemoryAdaptive calculators do to the checker)
//
// usage: c10 <scenarios.ndjson> <trace.ndjson>
package main

import (
	"fmt"
	"os"
	"strings"

	"github.com/alibaba/sentinel-golang/api"
	"github.com/alibaba/sentinel-golang/core/base"
	"github.com/alibaba/sentinel-golang/core/flow"
	"github.com/alibaba/sentinel-golang/core/system_metric"

	"verifharness/hx"
)

func main() {
	if len(os.Args) < 3 {
		hx.Fatal("usage: c10 scenarios.ndjson trace.ndjson")
	}
	scn, err := hx.ReadNDJSON[hx.M](os.Args[1])
	if err != nil {
		hx.Fatal("%v", err)
	}
	hx.InitSentinel()
	tr := hx.NewTrace(os.Args[2])
	defer tr.Close()
	clk := hx.NewVClock(1e6)
	clk.Install()
	for _, s := range scn {
		switch hx.Str(s, "mode") {
		case "seq":
			seq(s, tr, clk)
		case "chk":
			chk(s, tr, clk)
		case "gapi":
			gapi(s, tr, clk)
		case "list":
			list(s, tr, clk)
		default:
			gate(s, tr, clk)
		}
	}
}

// gate mode: times in ticks of 1 ms.  The checker has a statistic interval of si ticks; caller i asks for bt[i] tokens
// at threshold th[i] = n/d (scenarios keep bt*si*d/n a whole number of ticks).  Scenarios written before the threshold
// became a per-request parameter carry "iv" only: threshold 4 per 4 ms, so a batch of b is entitled to b ms.
func gate(s hx.M, tr *hx.Trace, clk *hx.VClock) {
	const tick = int64(1e6)
	maxq, last0 := hx.Int(s, "maxq"), hx.Int(s, "last0")
	si := int64(4)
	var bt, tn, td []int64
	if _, ok := s["bt"]; ok {
		si = hx.Int(s, "si")
		for _, x := range s["bt"].([]interface{}) {
			bt = append(bt, int64(x.(float64)))
		}
		for _, x := range s["th"].([]interface{}) {
			f := x.([]interface{})
			tn = append(tn, int64(f[0].(float64)))
			td = append(td, int64(f[1].(float64)))
		}
	} else {
		for _, x := range s["iv"].([]interface{}) {
			bt = append(bt, int64(x.(float64)))
			tn = append(tn, 4)
			td = append(td, 1)
		}
	}
	if len(tn) != len(bt) || si <= 0 {
		hx.Fatal("scenario %d: malformed gate scenario", hx.Int(s, "tr"))
	}
	var sched []int
	for _, x := range s["sched"].([]interface{}) {
		sched = append(sched, int(x.(float64)))
	}
	origin := int64(1000) * tick // relative time 0
	clk.SetNs(origin + 1*tick)
	chk := flow.NewThrottlingChecker(nil, uint32(maxq), uint32(si))
	if last0 > 0 { // bring lastPassedTime to origin+last0: a request passing in the idle branch at that instant
		clk.SetNs(origin + last0*tick)
		if r := chk.DoCheck(nil, 1, float64(si)); r != nil {
			hx.Fatal("setup request did not pass")
		}
		clk.SetNs(origin + 1*tick)
	}
	tr.Emit(hx.M{"op": "new", "tr": hx.Int(s, "tr"), "maxq": maxq, "tol": 0, "si": si})
	if last0 > 0 { // the setup request is part of the history the property talks about (1 token at threshold si: 1 tick)
		tr.Emit(hx.M{"op": "inv", "p": 64, "arr": last0, "b": 1, "tn": si, "td": 1})
		tr.Emit(hx.M{"op": "ret", "p": 64, "res": "pass", "w": 0})
	}
	sc := hx.NewSched()
	sc.Filter = func(pt string) bool { return strings.HasPrefix(pt, "th.") }
	var procs []*hx.Proc
	for i := range bt {
		i := i
		procs = append(procs, sc.Spawn(func() {
			arr := (clk.NowNs() - origin) / tick
			tr.Emit(hx.M{"op": "inv", "p": i + 1, "arr": arr, "b": bt[i], "tn": tn[i], "td": td[i]})
			r := chk.DoCheck(nil, uint32(bt[i]), float64(tn[i])/float64(td[i]))
			emitRet(tr, i+1, r, tick)
		}))
	}
	steps := 0
	step := func(i int) {
		if procs[i].Done {
			return
		}
		steps++
		tr.Emit(hx.M{"op": "step", "p": i + 1, "at": procs[i].Point})
		sc.Step(procs[i])
	}
	for _, x := range sched {
		if x == 0 {
			clk.AdvanceNs(tick)
			tr.Emit(hx.M{"op": "tick"})
		} else if x-1 < len(procs) {
			step(x - 1)
		}
	}
	for !sc.AllDone() {
		for i := range procs {
			step(i)
		}
		if steps > 20000 {
			hx.Fatal("scenario %d: callers did not terminate", hx.Int(s, "tr"))
		}
	}
	sc.Close()
	tr.Emit(hx.M{"op": "end"})
}

func emitRet(tr *hx.Trace, p int, r *base.TokenResult, unit int64) {
	switch {
	case r == nil || r.IsPass():
		tr.Emit(hx.M{"op": "ret", "p": p, "res": "pass", "w": 0})
	case r.IsBlocked():
		tr.Emit(hx.M{"op": "ret", "p": p, "res": "reject", "w": 0})
	default:
		w := int64(r.NanosToWait())
		if w%unit != 0 {
			hx.Fatal("wait %d is not a whole number of ticks", w)
		}
		tr.Emit(hx.M{"op": "ret", "p": p, "res": "pass", "w": w / unit})
	}
}

// seqRule builds the throttling rule a "seq" scenario (or one of its reload entries) describes and the fields of
// the trace event (new / reload) that announce it to the trace spec.
func seqRule(res string, mem bool, m hx.M) (*flow.Rule, hx.M) {
	intervalMs, maxqMs := hx.Int(m, "interval_ms"), hx.Int(m, "maxq_ms")
	rule := &flow.Rule{Resource: res, ControlBehavior: flow.Throttling, StatIntervalInMs: uint32(intervalMs), MaxQueueingTimeMs: uint32(maxqMs)}
	ev := hx.M{"maxq": maxqMs * 1e6, "si": intervalMs * 1e6}
	if mem {
		rule.TokenCalculateStrategy = flow.MemoryAdaptive
		rule.LowMemUsageThreshold, rule.HighMemUsageThreshold = hx.Int(m, "low"), hx.Int(m, "high")
		rule.MemLowWaterMarkBytes, rule.MemHighWaterMarkBytes = hx.Int(m, "lwm"), hx.Int(m, "hwm")
		ev["rule"] = hx.M{"low": rule.LowMemUsageThreshold, "high": rule.HighMemUsageThreshold,
			"lwm": rule.MemLowWaterMarkBytes, "hwm": rule.MemHighWaterMarkBytes}
	} else {
		thrNum, thrDen := hx.Int(m, "thr_num"), hx.Int(m, "thr_den")
		rule.TokenCalculateStrategy = flow.Direct
		rule.Threshold = float64(thrNum) / float64(thrDen)
		ev["tn"], ev["td"] = thrNum, thrDen
	}
	return rule, ev
}

// loadSeqRule replaces the rule of the resource through one of the two public load paths.
func loadSeqRule(trn int64, res, via string, rule *flow.Rule) {
	var err error
	if via == "all" {
		_, err = flow.LoadRules([]*flow.Rule{rule})
	} else {
		_, err = flow.LoadRulesOfResource(res, []*flow.Rule{rule})
	}
	if err != nil {
		hx.Fatal("scenario %d: load rule: %v", trn, err)
	}
	if len(flow.GetRulesOfResource(res)) != 1 {
		if verr := flow.IsValidRule(rule); verr != nil { // a valid rule that is not in force is the library's doing: judged
			hx.Fatal("scenario %d: rule was not accepted: %v", trn, verr)
		}
	}
}

// seq mode: times in nanoseconds relative to the scenario origin (kept below 2^31).  An entry of "reqs" is a request
// or, with "op": "reload", a replacement of the rule under traffic: the entry carries the complete new rule and the
// load path ("via": "all" = flow.LoadRules, otherwise flow.LoadRulesOfResource).  The trace carries the rule
// parameters in its new / reload events only: the trace spec keeps the rule in force as state.
func seq(s hx.M, tr *hx.Trace, clk *hx.VClock) {
	trn := hx.Int(s, "tr")
	res := fmt.Sprintf("c10_%d", trn)
	mem := hx.Str(s, "strategy") == "mem"
	origin := hx.BaseMs(10000) * 1e6
	clk.SetNs(origin)
	rule, newEv := seqRule(res, mem, s)
	newEv["op"], newEv["tr"], newEv["tol"] = "new", trn, 1
	loadSeqRule(trn, res, "res", rule)
	tr.Emit(newEv)
	for i, x := range s["reqs"].([]interface{}) {
		q := x.(map[string]interface{})
		clk.AdvanceNs(hx.Int(q, "gap"))
		clk.TakeSleeps()
		if hx.Str(q, "op") == "reload" {
			r2, ev := seqRule(res, mem, q)
			loadSeqRule(trn, res, hx.Str(q, "via"), r2)
			ev["op"] = "reload"
			tr.Emit(ev)
			continue
		}
		arr := clk.NowNs() - origin
		batch := hx.Int(q, "batch")
		if mem {
			system_metric.SetSystemMemoryUsage(hx.Int(q, "mem"))
			tr.Emit(hx.M{"op": "inv", "p": i + 1, "arr": arr, "b": batch, "mem": hx.Int(q, "mem")})
		} else {
			tr.Emit(hx.M{"op": "inv", "p": i + 1, "arr": arr, "b": batch})
		}
		e, b := api.Entry(res, api.WithBatchCount(uint32(batch)))
		var w int64
		for _, d := range clk.TakeSleeps() {
			w += d
		}
		if b != nil {
			tr.Emit(hx.M{"op": "ret", "p": i + 1, "res": "reject", "w": 0})
		} else {
			tr.Emit(hx.M{"op": "ret", "p": i + 1, "res": "pass", "w": w})
			e.Exit()
		}
	}
	tr.Emit(hx.M{"op": "end"})
	_, _ = flow.LoadRulesOfResource(res, nil)
}

// gapi mode: the gate of mode "gate" around api.Entry - k goroutines enter a resource guarded by a Direct + Throttling
// flow rule (threshold th = n/d per statistic interval of si ms, queueing limit maxq ms; times in ticks of 1 ms), each
// with its own batch count; the schedule forces who moves next at the th.* yield points, 0 = clock tick, and -1 = THE
// RULE IS REPLACED (flow.LoadRulesOfResource / LoadRules with the next entry of "reloads") while requests may be in
// flight inside the checker.  The wait of a request is the Sleep the flow slot asks the (not advancing) clock for.
func gapi(s hx.M, tr *hx.Trace, clk *hx.VClock) {
	const tick = int64(1e6)
	trn := hx.Int(s, "tr")
	res := fmt.Sprintf("c10g_%d", trn)
	var bt []int64
	for _, x := range s["bt"].([]interface{}) {
		bt = append(bt, int64(x.(float64)))
	}
	var sched []int
	for _, x := range s["sched"].([]interface{}) {
		sched = append(sched, int(x.(float64)))
	}
	var reloads []hx.M
	if rl, ok := s["reloads"].([]interface{}); ok {
		for _, x := range rl {
			reloads = append(reloads, hx.M(x.(map[string]interface{})))
		}
	}
	mk := func(m hx.M) (*flow.Rule, hx.M) {
		th := m["th"].([]interface{})
		n, d := int64(th[0].(float64)), int64(th[1].(float64))
		return &flow.Rule{Resource: res, TokenCalculateStrategy: flow.Direct, ControlBehavior: flow.Throttling,
				Threshold: float64(n) / float64(d), StatIntervalInMs: uint32(hx.Int(m, "si")), MaxQueueingTimeMs: uint32(hx.Int(m, "maxq"))},
			hx.M{"si": hx.Int(m, "si"), "maxq": hx.Int(m, "maxq"), "tn": n, "td": d}
	}
	origin := hx.BaseMs(10000) * 1e6 // relative time 0
	clk.SetNs(origin + 1*tick)
	clk.NoAdvance = true
	defer func() { clk.NoAdvance = false }()
	rule, ev := mk(s)
	loadSeqRule(trn, res, "res", rule)
	ev["op"], ev["tr"], ev["tol"] = "new", trn, 0
	tr.Emit(ev)
	sc := hx.NewSched()
	sc.Filter = func(pt string) bool { return strings.HasPrefix(pt, "th.") }
	var procs []*hx.Proc
	for i := range bt {
		i := i
		procs = append(procs, sc.Spawn(func() {
			arr := (clk.NowNs() - origin) / tick
			tr.Emit(hx.M{"op": "inv", "p": i + 1, "arr": arr, "b": bt[i]})
			clk.TakeSleeps()
			e, b := api.Entry(res, api.WithBatchCount(uint32(bt[i])))
			// only one gated goroutine runs at a time and the sleep is requested in the same run segment in which
			// api.Entry returns: the sleeps recorded since the call are this request's
			var w int64
			for _, d := range clk.TakeSleeps() {
				w += d
			}
			if b != nil {
				tr.Emit(hx.M{"op": "ret", "p": i + 1, "res": "reject", "w": 0})
				return
			}
			if w%tick != 0 {
				hx.Fatal("scenario %d: wait %d is not a whole number of ticks", trn, w)
			}
			tr.Emit(hx.M{"op": "ret", "p": i + 1, "res": "pass", "w": w / tick})
			e.Exit()
		}))
	}
	steps, nrl := 0, 0
	step := func(i int) {
		if procs[i].Done {
			return
		}
		steps++
		tr.Emit(hx.M{"op": "step", "p": i + 1, "at": procs[i].Point})
		sc.Step(procs[i])
	}
	reload := func() {
		if nrl >= len(reloads) {
			return
		}
		r2, ev := mk(reloads[nrl])
		loadSeqRule(trn, res, hx.Str(reloads[nrl], "via"), r2)
		nrl++
		ev["op"] = "reload"
		tr.Emit(ev)
	}
	for _, x := range sched {
		if x == 0 {
			clk.AdvanceNs(tick)
			tr.Emit(hx.M{"op": "tick"})
		} else if x < 0 {
			reload()
		} else if x-1 < len(procs) {
			step(x - 1)
		}
	}
	for !sc.AllDone() {
		for i := range procs {
			step(i)
		}
		if steps > 20000 {
			hx.Fatal("scenario %d: callers did not terminate", trn)
		}
	}
	sc.Close()
	tr.Emit(hx.M{"op": "end"})
	clk.TakeSleeps()
	_, _ = flow.LoadRulesOfResource(res, nil)
}

// list mode: "rules" = the Direct + Throttling rules of the resource in list order (threshold thr_num/thr_den per
// interval_ms, queueing limit maxq_ms), loaded together through flow.LoadRules ("via": "all") or
// flow.LoadRulesOfResource; "reqs" = [{gap, batch}]: the next request arrives gap ns after the previous call returned
// (the clock has then advanced by every Sleep of that call).  Times in the trace are ns relative to the scenario
// origin; the scenario ends early rather than leave the 2^31 ns the trace spec can count.
func list(s hx.M, tr *hx.Trace, clk *hx.VClock) {
	trn := hx.Int(s, "tr")
	res := fmt.Sprintf("c10l_%d", trn)
	origin := hx.BaseMs(10000) * 1e6
	clk.SetNs(origin)
	var rules []*flow.Rule
	var evs []interface{}
	for j, x := range s["rules"].([]interface{}) {
		m := hx.M(x.(map[string]interface{}))
		n, d := hx.Int(m, "thr_num"), hx.Int(m, "thr_den")
		rules = append(rules, &flow.Rule{ID: fmt.Sprintf("c10l_%d_%d", trn, j+1), Resource: res, TokenCalculateStrategy: flow.Direct,
			ControlBehavior: flow.Throttling, Threshold: float64(n) / float64(d),
			StatIntervalInMs: uint32(hx.Int(m, "interval_ms")), MaxQueueingTimeMs: uint32(hx.Int(m, "maxq_ms"))})
		evs = append(evs, hx.M{"si": hx.Int(m, "interval_ms") * 1e6, "maxq": hx.Int(m, "maxq_ms") * 1e6, "tn": n, "td": d})
	}
	var err error
	if hx.Str(s, "via") == "all" {
		_, err = flow.LoadRules(rules)
	} else {
		_, err = flow.LoadRulesOfResource(res, rules)
	}
	if err != nil {
		hx.Fatal("scenario %d: load rules: %v", trn, err)
	}
	if len(flow.GetRulesOfResource(res)) != len(rules) {
		for _, fr := range rules { // valid rules that are not in force are the library's doing: judged
			if verr := flow.IsValidRule(fr); verr != nil {
				hx.Fatal("scenario %d: not every rule was accepted: %v", trn, verr)
			}
		}
	}
	tr.Emit(hx.M{"op": "newl", "tr": trn, "tol": 1, "list": evs})
	for i, x := range s["reqs"].([]interface{}) {
		q := x.(map[string]interface{})
		clk.AdvanceNs(hx.Int(q, "gap"))
		clk.TakeSleeps()
		arr := clk.NowNs() - origin
		if arr > 1_950_000_000 {
			break
		}
		batch := hx.Int(q, "batch")
		tr.Emit(hx.M{"op": "invl", "p": i + 1, "arr": arr, "b": batch})
		e, b := api.Entry(res, api.WithBatchCount(uint32(batch)))
		var w int64
		for _, d := range clk.TakeSleeps() {
			w += d
		}
		if b != nil {
			by := 0
			if r, ok := b.TriggeredRule().(*flow.Rule); ok && r != nil {
				for j, x := range rules {
					if x == r {
						by = j + 1
					}
				}
				if by == 0 { // names a rule that is not in the list: an observable, judged by the trace spec
					by = -1
				}
			}
			tr.Emit(hx.M{"op": "retl", "p": i + 1, "res": "reject", "w": w, "by": by})
		} else {
			tr.Emit(hx.M{"op": "retl", "p": i + 1, "res": "pass", "w": w, "by": 0})
			e.Exit()
		}
	}
	tr.Emit(hx.M{"op": "endl"})
	_, _ = flow.LoadRulesOfResource(res, nil)
}

// chk mode: sequential DoCheck calls on one checker, each with its own threshold argument; times in nanoseconds
// relative to the scenario origin.  With "sleep" the caller honours the wait it is given before the next one arrives,
// otherwise the next caller arrives gap ns after the previous arrival (requests of independent callers).
func chk(s hx.M, tr *hx.Trace, clk *hx.VClock) {
	trn := hx.Int(s, "tr")
	intervalMs, maxqMs := hx.Int(s, "interval_ms"), hx.Int(s, "maxq_ms")
	sleep := s["sleep"] == true
	origin := int64(1e12)
	clk.SetNs(origin)
	c := flow.NewThrottlingChecker(nil, uint32(maxqMs), uint32(intervalMs))
	tr.Emit(hx.M{"op": "new", "tr": trn, "maxq": maxqMs * 1e6, "tol": 1, "si": intervalMs * 1e6})
	for i, x := range s["reqs"].([]interface{}) {
		q := x.(map[string]interface{})
		clk.AdvanceNs(hx.Int(q, "gap"))
		arr := clk.NowNs() - origin
		b, n, d := hx.Int(q, "batch"), hx.Int(q, "tn"), hx.Int(q, "td")
		tr.Emit(hx.M{"op": "inv", "p": i + 1, "arr": arr, "b": b, "tn": n, "td": d})
		r := c.DoCheck(nil, uint32(b), float64(n)/float64(d))
		switch {
		case r == nil || r.IsPass():
			tr.Emit(hx.M{"op": "ret", "p": i + 1, "res": "pass", "w": 0})
		case r.IsBlocked():
			tr.Emit(hx.M{"op": "ret", "p": i + 1, "res": "reject", "w": 0})
		default:
			w := int64(r.NanosToWait())
			tr.Emit(hx.M{"op": "ret", "p": i + 1, "res": "pass", "w": w})
			if sleep {
				clk.AdvanceNs(w)
			}
		}
	}
	tr.Emit(hx.M{"op": "end"})
}
