// c20 drives outlier ejection of the real code (core/outlier) on a slot chain built like the
// micro / kratos adapters build it (api.BuildDefaultSlotChain + outlier.DefaultSlot +
// outlier.DefaultMetricStatSlot) through the public API only: outlier.LoadRules, api.Entry with
// api.WithSlotChain, entry.Context().FilterNodes()/HalfOpenNodes(), api.TraceCallee, api.TraceError,
// entry.Exit.  Breaker time is the virtual clock (hx.BaseMs + t); the recycler and the retryer of the
// library use the REAL time.AfterFunc, so the two operations that depend on them ("wait", "active",
// thorough tier only) poll for a condition with a generous timeout; a timeout is a machinery failure
// (exit 2), never a verdict.  The recorded trace is validated against spec/Outlier_Trace.tla.
//
// usage: c20 <scenarios.ndjson> <trace.ndjson>
package main

import (
	"errors"
	"fmt"
	"os"
	"sort"
	"sync"
	"time"

	"github.com/alibaba/sentinel-golang/api"
	"github.com/alibaba/sentinel-golang/core/base"
	"github.com/alibaba/sentinel-golang/core/circuitbreaker"
	"github.com/alibaba/sentinel-golang/core/outlier"

	"verifharness/hx"
)

var strategies = map[string]circuitbreaker.Strategy{
	"slow": circuitbreaker.SlowRequestRatio, "eratio": circuitbreaker.ErrorRatio, "ecount": circuitbreaker.ErrorCount,
}

// health answers of the retryer's RecoveryCheckFunc, per scenario (active recovery)
type health struct {
	mu      sync.Mutex
	answer  map[string]bool
	arrived map[string]int
}

func (h *health) check(addr string) bool {
	h.mu.Lock()
	defer h.mu.Unlock()
	ok := h.answer[addr]
	if ok {
		h.arrived[addr]++
	}
	return ok
}

func (h *health) seen(addr string) int {
	h.mu.Lock()
	defer h.mu.Unlock()
	return h.arrived[addr]
}

func gcd(a, b int64) int64 {
	for b != 0 {
		a, b = b, a%b
	}
	return a
}
func lcm(a, b int64) int64 { return a / gcd(a, b) * b }

func sorted(s []string) []string {
	out := make([]string, len(s))
	copy(out, s)
	sort.Strings(out)
	return out
}

func arr(m hx.M, k string) []interface{} {
	l, _ := m[k].([]interface{})
	return l
}

type run struct {
	tr      int64
	res     string
	base    int64
	chain   *base.SlotChain
	entries map[int64]*base.SentinelEntry
	h       *health
	started time.Time // real time of the first request that may have armed a recycle timer
	armed   bool
	recycle time.Duration
}

// observe sends one request and returns filter and half-open sets (the entry exits without a callee:
// the stat slot ignores completions that carry no address)
func (r *run) observe() (filter, half []string) {
	e, b := api.Entry(r.res, api.WithTrafficType(base.Outbound), api.WithResourceType(base.ResTypeRPC), api.WithSlotChain(r.chain))
	if b != nil {
		hx.Fatal("trace %d: observation request blocked: %v", r.tr, b.BlockType())
	}
	filter = sorted(e.Context().FilterNodes())
	half = sorted(e.Context().HalfOpenNodes())
	e.Exit()
	return
}

func main() {
	if len(os.Args) < 3 {
		hx.Fatal("usage: c20 scenarios.ndjson trace.ndjson")
	}
	scn, err := hx.ReadNDJSON[hx.M](os.Args[1])
	if err != nil {
		hx.Fatal("%v", err)
	}
	clk := hx.NewVClock(1e6)
	clk.Install()
	hx.InitSentinel()
	tr := hx.NewTrace(os.Args[2])
	defer tr.Close()

	chain := api.BuildDefaultSlotChain()
	chain.AddRuleCheckSlot(outlier.DefaultSlot)
	chain.AddStatSlot(outlier.DefaultMetricStatSlot)

	var r *run
	for _, s := range scn {
		switch op := hx.Str(s, "op"); op {
		case "new":
			rl := s["rule"].(map[string]interface{})
			thr := arr(rl, "thr")
			pct := arr(s, "pct")
			I := hx.Int(rl, "I")
			r = &run{tr: hx.Int(s, "tr"), chain: chain, entries: map[int64]*base.SentinelEntry{},
				h: &health{answer: map[string]bool{}, arrived: map[string]int{}}}
			r.res = fmt.Sprintf("svc-%d", r.tr)
			r.base = hx.BaseMs(lcm(lcm(I, 1000), 10000))
			clk.SetMs(r.base)
			if m, ok := s["healthy"].(map[string]interface{}); ok {
				for k, v := range m {
					r.h.answer[k] = v == true
				}
			}
			recov := uint32(hx.Int(s, "recov_ms"))
			if recov == 0 {
				recov = 4000 // the library multiplies by 1e6 in uint32: anything above 4294 wraps around
			}
			recS := uint32(hx.Int(s, "recycle_s"))
			r.recycle = time.Duration(recS) * time.Second
			rule := &outlier.Rule{
				Rule: &circuitbreaker.Rule{
					Resource:                     r.res,
					Strategy:                     strategies[hx.Str(rl, "strategy")],
					RetryTimeoutMs:               uint32(hx.Int(rl, "timeout")),
					MinRequestAmount:             uint64(hx.Int(rl, "minAmt")),
					StatIntervalMs:               uint32(I),
					StatSlidingWindowBucketCount: uint32(hx.Int(rl, "nb")),
					MaxAllowedRtMs:               uint64(hx.Int(rl, "maxRt")),
					Threshold:                    thr[0].(float64) / thr[1].(float64),
					ProbeNum:                     uint64(hx.Int(rl, "probeNum")),
				},
				EnableActiveRecovery: s["active"] == true,
				MaxEjectionPercent:   pct[0].(float64) / pct[1].(float64),
				RecoveryIntervalMs:   recov,
				RecycleIntervalS:     recS, // 0 = the library's default of ten minutes: never fires during a run
				MaxRecoveryAttempts:  3,
				RecoveryCheckFunc:    r.h.check,
			}
			// Rules of earlier scenarios stay loaded (fresh resource name per scenario): the library's retryer /
			// recycler goroutines look the rule up asynchronously and crash the process on a rule that is gone.
			if _, err := outlier.LoadRuleOfResource(r.res, rule); err != nil {
				hx.Fatal("trace %d: LoadRuleOfResource: %v", r.tr, err)
			}
			tr.Emit(hx.M{"op": "new", "tr": r.tr, "rule": rl, "pct": pct, "active": s["active"] == true})
		case "req":
			id := hx.Int(s, "id")
			e, b := api.Entry(r.res, api.WithTrafficType(base.Outbound), api.WithResourceType(base.ResTypeRPC), api.WithSlotChain(chain))
			if b != nil {
				hx.Fatal("trace %d: request blocked although no blocking rule is loaded: %v", r.tr, b.BlockType())
			}
			filter := sorted(e.Context().FilterNodes())
			half := sorted(e.Context().HalfOpenNodes())
			if !r.armed {
				r.armed, r.started = true, time.Now()
			}
			r.entries[id] = e
			tr.Emit(hx.M{"op": "req", "id": id, "filter": filter, "half": half})
			if r.recycle > 0 {
				// The slot hands the rejecting nodes to the recycler / retryer goroutines through a channel.  In the
				// timer scenarios "scheduled" must be ordered before the completions that follow, so give those
				// goroutines time to take the task (nothing observable tells when they did).
				time.Sleep(15 * time.Millisecond)
			}
		case "done":
			id := hx.Int(s, "id")
			e := r.entries[id]
			if e == nil {
				hx.Fatal("trace %d: done for unknown id %d", r.tr, id)
			}
			delete(r.entries, id)
			api.TraceCallee(e, hx.Str(s, "node"))
			if s["err"] == true {
				api.TraceError(e, errors.New("callee failed"))
			}
			e.Exit()
			tr.Emit(hx.M{"op": "done", "id": id, "node": hx.Str(s, "node"), "err": s["err"] == true})
		case "tick":
			clk.AdvanceMs(hx.Int(s, "d"))
			tr.Emit(hx.M{"op": "tick", "t": clk.NowMs() - r.base})
		case "active":
			// wait until the retryer asked for the node's health and was told "healthy" (real timer)
			node := hx.Str(s, "node")
			deadline := time.Now().Add(20 * time.Second)
			for r.h.seen(node) == 0 {
				if time.Now().After(deadline) {
					hx.Fatal("trace %d: the retryer never checked node %s (timeout)", r.tr, node)
				}
				time.Sleep(5 * time.Millisecond)
			}
			time.Sleep(50 * time.Millisecond) // onConnected runs right after the check returns
			tr.Emit(hx.M{"op": "active", "node": node})
		case "wait":
			// The recycle timers (real time.AfterFunc, r.recycle after the request that saw the node rejecting)
			// must all have fired.  `sentinel' is a node the scenario made fail LAST and never recover: poll
			// until it is gone.  Polls are requests at a frozen virtual time directly after a recorded request:
			// they move no breaker.  A poll after the first timer fired re-arms timers for nodes that still
			// reject; those fire r.recycle later, so the observation is only sound while less than
			// 2*r.recycle of real time elapsed since the first request: otherwise the scenario is retried.
			sentinel := hx.Str(s, "sentinel")
			deadline := time.Now().Add(30 * time.Second)
			for {
				f, h := r.observe()
				if os.Getenv("C20_DEBUG") != "" {
					fmt.Fprintf(os.Stderr, "poll +%v filter=%v half=%v\n", time.Since(r.started), f, h)
				}
				if !contains(f, sentinel) && !contains(h, sentinel) {
					break
				}
				if time.Now().After(deadline) {
					hx.Fatal("trace %d: node %s was not recycled within 30 s (timeout)", r.tr, sentinel)
				}
				time.Sleep(20 * time.Millisecond)
			}
			time.Sleep(120 * time.Millisecond) // timers armed by the same task fire together; let the callbacks finish
			f, h := r.observe()
			if os.Getenv("C20_DEBUG") != "" {
				fmt.Fprintf(os.Stderr, "final +%v filter=%v half=%v\n", time.Since(r.started), f, h)
			}
			if el := time.Since(r.started); el > 2*r.recycle-300*time.Millisecond {
				hx.Fatal("trace %d: observation too late (%v after the first request): timing unsafe", r.tr, el)
			}
			vis := map[string]bool{}
			for _, n := range append(f, h...) {
				vis[n] = true
			}
			var visible []string
			for n := range vis {
				visible = append(visible, n)
			}
			tr.Emit(hx.M{"op": "recycle", "visible": sorted(visible)})
		default:
			hx.Fatal("unknown op %q", op)
		}
	}
}

func contains(l []string, x string) bool {
	for _, y := range l {
		if y == x {
			return true
		}
	}
	return false
}
