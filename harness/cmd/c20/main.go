// c20 drives outlier ejection of the real code (core/outlier) on a slot chain built like the
// micro / kratos adapters build it (api.BuildDefaultSlotChain + outlier.DefaultSlot +
// outlier.DefaultMetricStatSlot) through the public API only: outlier.LoadRules, api.Entry with
// api.WithSlotChain, entry.Context().FilterNodes()/HalfOpenNodes(), api.TraceCallee, api.TraceError,
// entry.Exit.  Breaker time is the virtual clock (hx.BaseMs + t); the recycler and the retryer of the
// library use the REAL time.AfterFunc, so the two operations that depend on them ("wait", "active",
// thorough tier only) poll for a condition with a generous timeout; a timeout is a machinery failure
// (exit 2), never a verdict.  The recorded trace is validated against spec/Outlier_Trace.tla.
//
// A scenario may use SEVERAL resources ("more" in the `new' line; req / obs carry "res"): they share the slot chain
// and therefore the pool of entry contexts, in which the answer lists (FilterNodes / HalfOpenNodes) live - what a
// request of one resource is told must not depend on what an earlier entry (of any resource) left in the context it
// draws.  To make every scenario self-contained (and every replay file reproduce in a fresh process) the context
// pool is emptied at the start of each scenario (two garbage collections empty a sync.Pool); inside a scenario
// the contexts circulate as they do in production.
//
// "reload" loads the outlier rule of one resource of the scenario AGAIN in the middle of the history: with another
// MaxEjectionPercent / EnableActiveRecovery / RecycleIntervalS / RecoveryIntervalMs / MaxRecoveryAttempts (or with
// nothing changed), the embedded circuit-breaker rule being the same ("clear": false), or after clearing the rule
// ("clear": true: ClearRuleOfResource / a LoadRules without it, then the load - any rule).  "via" selects the public
// entry point: "res" = outlier.LoadRuleOfResource, "all" = outlier.LoadRules with every rule this process has loaded
// (the rules of finished scenarios must stay).  The trace records the rule in force afterwards.
//
// usage: c20 <scenarios.ndjson> <trace.ndjson>
package main

import (
	"errors"
	"fmt"
	"os"
	"runtime"
	"sort"
	"sync"
	"time"

	"github.com/alibaba/sentinel-golang/api"
	"github.com/alibaba/sentinel-golang/core/base"
	"github.com/alibaba/sentinel-golang/core/circuitbreaker"
	"github.com/alibaba/sentinel-golang/core/outlier"

	"verifharness/hx"
)

var strategies = map[string]circuitbreaker.Strategy{
	"slow": circuitbreaker.SlowRequestRatio, "eratio": circuitbreaker.ErrorRatio, "ecount": circuitbreaker.ErrorCount,
}

// health answers of the retryer's RecoveryCheckFunc, per scenario (active recovery)
type health struct {
	mu      sync.Mutex
	answer  map[string]bool
	arrived map[string]int
}

func (h *health) check(addr string) bool {
	h.mu.Lock()
	defer h.mu.Unlock()
	ok := h.answer[addr]
	if ok {
		h.arrived[addr]++
	}
	return ok
}

func (h *health) seen(addr string) int {
	h.mu.Lock()
	defer h.mu.Unlock()
	return h.arrived[addr]
}

func gcd(a, b int64) int64 {
	for b != 0 {
		a, b = b, a%b
	}
	return a
}
func lcm(a, b int64) int64 { return a / gcd(a, b) * b }

func sorted(s []string) []string {
	out := make([]string, len(s))
	copy(out, s)
	sort.Strings(out)
	return out
}

func arr(m hx.M, k string) []interface{} {
	l, _ := m[k].([]interface{})
	return l
}

type run struct {
	tr      int64
	res     string   // resource 1 (the resource of the timer operations)
	names   []string // names[k-1] = resource k
	base    int64
	chain   *base.SlotChain
	entries map[int64]*base.SentinelEntry
	h       *health
	cfgs    []hx.M    // cfgs[k-1] = rule, pct, active of resource k NOW in force
	params  []*params // the rule fields the specification abstracts from
	started time.Time // real time of the first request that may have armed a recycle timer
	armed   bool
	recycle time.Duration
}

// the fields of an outlier rule that the specification abstracts from (they select timers, not answers)
type params struct {
	recycleS uint32
	recovMs  uint32
	attempts uint32
	nocheck  bool // RecoveryCheckFunc nil (passive resources only: the library's default dials the address)
}

// every rule this process has loaded and not cleared (outlier.LoadRules replaces ALL rules)
var (
	allRules = map[string]*outlier.Rule{}
	allOrder []string
)

func remember(name string, rule *outlier.Rule) {
	if _, ok := allRules[name]; !ok {
		allOrder = append(allOrder, name)
	}
	allRules[name] = rule
}

func everyRule(except string) []*outlier.Rule {
	var l []*outlier.Rule
	for _, n := range allOrder {
		if n != except && allRules[n] != nil {
			l = append(l, allRules[n])
		}
	}
	return l
}

func buildRule(name string, c hx.M, p *params, h *health) *outlier.Rule {
	rl := c["rule"].(map[string]interface{})
	thr := arr(rl, "thr")
	pct := arr(c, "pct")
	rule := &outlier.Rule{
		Rule: &circuitbreaker.Rule{
			Resource:                     name,
			Strategy:                     strategies[hx.Str(rl, "strategy")],
			RetryTimeoutMs:               uint32(hx.Int(rl, "timeout")),
			MinRequestAmount:             uint64(hx.Int(rl, "minAmt")),
			StatIntervalMs:               uint32(hx.Int(rl, "I")),
			StatSlidingWindowBucketCount: uint32(hx.Int(rl, "nb")),
			MaxAllowedRtMs:               uint64(hx.Int(rl, "maxRt")),
			Threshold:                    thr[0].(float64) / thr[1].(float64),
			ProbeNum:                     uint64(hx.Int(rl, "probeNum")),
		},
		EnableActiveRecovery: c["active"] == true,
		MaxEjectionPercent:   pct[0].(float64) / pct[1].(float64),
		RecoveryIntervalMs:   p.recovMs,
		RecycleIntervalS:     p.recycleS, // 0 = the library's default of ten minutes: never fires during a run
		MaxRecoveryAttempts:  p.attempts,
	}
	if !p.nocheck || c["active"] == true {
		rule.RecoveryCheckFunc = h.check
	}
	return rule
}

// observe sends one request and returns filter and half-open sets (the entry exits without a callee:
// the stat slot ignores completions that carry no address)
func (r *run) observe() (filter, half []string) { return r.observeRes(r.res) }

func (r *run) name(s hx.M) string {
	k := hx.Int(s, "res")
	if k == 0 {
		k = 1
	}
	if k < 1 || int(k) > len(r.names) {
		fatal("trace %d: resource %d is not part of the scenario", r.tr, k)
	}
	return r.names[k-1]
}

func resNo(s hx.M) int64 {
	if k := hx.Int(s, "res"); k != 0 {
		return k
	}
	return 1
}

func (r *run) observeRes(res string) (filter, half []string) {
	e, b := api.Entry(res, api.WithTrafficType(base.Outbound), api.WithResourceType(base.ResTypeRPC), api.WithSlotChain(r.chain))
	if b != nil {
		fatal("trace %d: observation request blocked: %v", r.tr, b.BlockType())
	}
	filter, half = lists(e)
	e.Exit()
	return
}

var out *hx.Trace

// some entry was told a non-empty list since the context pool was emptied
var dirty bool

func lists(e *base.SentinelEntry) (filter, half []string) {
	filter = sorted(e.Context().FilterNodes())
	half = sorted(e.Context().HalfOpenNodes())
	if len(filter)+len(half) > 0 {
		dirty = true
	}
	return
}

// fatal = hx.Fatal (exit 2) after flushing what was recorded so far: the check still judges the partial trace
func fatal(format string, a ...interface{}) {
	if out != nil {
		out.Close()
	}
	hx.Fatal(format, a...)
}

func main() {
	if len(os.Args) < 3 {
		hx.Fatal("usage: c20 scenarios.ndjson trace.ndjson")
	}
	scn, err := hx.ReadNDJSON[hx.M](os.Args[1])
	if err != nil {
		hx.Fatal("%v", err)
	}
	clk := hx.NewVClock(1e6)
	clk.Install()
	hx.InitSentinel()
	tr := hx.NewTrace(os.Args[2])
	out = tr
	defer tr.Close()

	chain := api.BuildDefaultSlotChain()
	chain.AddRuleCheckSlot(outlier.DefaultSlot)
	chain.AddStatSlot(outlier.DefaultMetricStatSlot)

	entry := func(res string) *base.SentinelEntry {
		e, b := api.Entry(res, api.WithTrafficType(base.Outbound), api.WithResourceType(base.ResTypeRPC), api.WithSlotChain(chain))
		if b != nil {
			fatal("request of %s blocked although no blocking rule is loaded: %v", res, b.BlockType())
		}
		return e
	}

	var r *run
	for _, s := range scn {
		switch op := hx.Str(s, "op"); op {
		case "new":
			// one configuration per resource: the `new' line itself describes resource 1, "more" the others
			cfgs := []hx.M{{"rule": s["rule"], "pct": s["pct"], "active": s["active"] == true}}
			for _, m := range arr(s, "more") {
				mm := m.(map[string]interface{})
				cfgs = append(cfgs, hx.M{"rule": mm["rule"], "pct": mm["pct"], "active": mm["active"] == true})
			}
			r = &run{tr: hx.Int(s, "tr"), chain: chain, entries: map[int64]*base.SentinelEntry{},
				h: &health{answer: map[string]bool{}, arrived: map[string]int{}}}
			align := int64(10000)
			for _, c := range cfgs {
				align = lcm(align, lcm(hx.Int(c["rule"].(map[string]interface{}), "I"), 1000))
			}
			r.base = hx.BaseMs(align)
			clk.SetMs(r.base)
			if m, ok := s["healthy"].(map[string]interface{}); ok {
				for k, v := range m {
					r.h.answer[k] = v == true
				}
			}
			recov := uint32(hx.Int(s, "recov_ms"))
			if recov == 0 {
				recov = 4000 // the library multiplies by 1e6 in uint32: anything above 4294 wraps around
			}
			recS := uint32(hx.Int(s, "recycle_s"))
			r.recycle = time.Duration(recS) * time.Second
			for k, c := range cfgs {
				name := fmt.Sprintf("svc-%d", r.tr)
				if k > 0 {
					name = fmt.Sprintf("svc-%d-r%d", r.tr, k+1)
				}
				r.names = append(r.names, name)
				p := &params{recycleS: recS, recovMs: recov, attempts: 3, nocheck: s["nocheck"] == true}
				r.params = append(r.params, p)
				rule := buildRule(name, c, p, r.h)
				// Rules of earlier scenarios stay loaded (fresh resource names per scenario): the library's retryer /
				// recycler goroutines look the rule up asynchronously and crash the process on a rule that is gone.
				if _, err := outlier.LoadRuleOfResource(name, rule); err != nil {
					fatal("trace %d: LoadRuleOfResource: %v", r.tr, err)
				}
				remember(name, rule)
			}
			r.cfgs = cfgs
			r.res = r.names[0]
			// empty the pool of entry contexts: the scenario does not depend on what earlier scenarios left in it
			// (needed only if some entry since the last time was told a non-empty list: every entry is ours, and
			// every entry's lists are read)
			if dirty {
				runtime.GC()
				runtime.GC()
				dirty = false
			}
			tr.Emit(hx.M{"op": "new", "tr": r.tr, "cfgs": cfgs})
		case "req":
			id := hx.Int(s, "id")
			if r.entries[id] != nil {
				fatal("trace %d: id %d is still open", r.tr, id)
			}
			e := entry(r.name(s))
			filter, half := lists(e)
			if !r.armed {
				r.armed, r.started = true, time.Now()
			}
			r.entries[id] = e
			tr.Emit(hx.M{"op": "req", "id": id, "res": resNo(s), "filter": filter, "half": half})
			if r.recycle > 0 {
				// The slot hands the rejecting nodes to the recycler / retryer goroutines through a channel.  In the
				// timer scenarios "scheduled" must be ordered before the completions that follow, so give those
				// goroutines time to take the task (nothing observable tells when they did).
				time.Sleep(15 * time.Millisecond)
			}
		case "obs":
			// a request that exits at once without naming a callee (the statistic slot ignores it)
			f, h := r.observeRes(r.name(s))
			if !r.armed {
				r.armed, r.started = true, time.Now()
			}
			tr.Emit(hx.M{"op": "obs", "res": resNo(s), "filter": f, "half": h})
			if r.recycle > 0 {
				time.Sleep(15 * time.Millisecond)
			}
		case "done":
			id := hx.Int(s, "id")
			e := r.entries[id]
			if e == nil {
				fatal("trace %d: done for unknown id %d", r.tr, id)
			}
			delete(r.entries, id)
			api.TraceCallee(e, hx.Str(s, "node"))
			if s["err"] == true {
				api.TraceError(e, errors.New("callee failed"))
			}
			e.Exit()
			tr.Emit(hx.M{"op": "done", "id": id, "node": hx.Str(s, "node"), "err": s["err"] == true})
		case "leave":
			id := hx.Int(s, "id")
			e := r.entries[id]
			if e == nil {
				fatal("trace %d: leave for unknown id %d", r.tr, id)
			}
			delete(r.entries, id)
			e.Exit()
			tr.Emit(hx.M{"op": "leave", "id": id})
		case "tick":
			clk.AdvanceMs(hx.Int(s, "d"))
			tr.Emit(hx.M{"op": "tick", "t": clk.NowMs() - r.base})
		case "reload":
			k := resNo(s) - 1
			name := r.name(s)
			cur, p := r.cfgs[k], r.params[k]
			next := hx.M{"rule": cur["rule"], "pct": cur["pct"], "active": cur["active"]}
			if v, ok := s["rule"]; ok && v != nil {
				next["rule"] = v
			}
			if v, ok := s["pct"]; ok && v != nil {
				next["pct"] = v
			}
			if v, ok := s["active"]; ok {
				next["active"] = v == true
			}
			if _, ok := s["recycle_s"]; ok {
				p.recycleS = uint32(hx.Int(s, "recycle_s"))
			}
			if _, ok := s["recov_ms"]; ok {
				p.recovMs = uint32(hx.Int(s, "recov_ms"))
			}
			if _, ok := s["attempts"]; ok {
				p.attempts = uint32(hx.Int(s, "attempts"))
			}
			rule := buildRule(name, next, p, r.h)
			clear := s["clear"] == true
			via := hx.Str(s, "via")
			if via == "" {
				via = "res"
			}
			if clear {
				// A request hands its rejecting nodes to the recycler / retryer goroutines through a channel; a task taken
				// while the rule is gone builds a recycler without interval (fires at once) / a retryer without check
				// function (crashes the process).  Let queued tasks be taken first: that race is not the subject here.
				time.Sleep(20 * time.Millisecond)
				var err error
				if via == "all" {
					_, err = outlier.LoadRules(everyRule(name))
				} else {
					err = outlier.ClearRuleOfResource(name)
				}
				if err != nil {
					fatal("trace %d: clearing the rule of %s: %v", r.tr, name, err)
				}
			}
			remember(name, rule)
			var err error
			if via == "all" {
				_, err = outlier.LoadRules(everyRule(""))
			} else {
				_, err = outlier.LoadRuleOfResource(name, rule)
			}
			if err != nil {
				fatal("trace %d: reload of %s: %v", r.tr, name, err)
			}
			r.cfgs[k] = next
			tr.Emit(hx.M{"op": "reload", "res": k + 1, "rule": next["rule"], "pct": next["pct"], "active": next["active"], "clear": clear,
				"via": via, "recycle_s": p.recycleS, "recov_ms": p.recovMs})
		case "active":
			// wait until the retryer asked for the node's health and was told "healthy" (real timer)
			node := hx.Str(s, "node")
			deadline := time.Now().Add(20 * time.Second)
			for r.h.seen(node) == 0 {
				if time.Now().After(deadline) {
					fatal("trace %d: the retryer never checked node %s (timeout)", r.tr, node)
				}
				time.Sleep(5 * time.Millisecond)
			}
			time.Sleep(50 * time.Millisecond) // onConnected runs right after the check returns
			tr.Emit(hx.M{"op": "active", "node": node})
		case "wait":
			// The recycle timers (real time.AfterFunc, r.recycle after the request that saw the node rejecting)
			// must all have fired.  `sentinel' is a node the scenario made fail LAST and never recover: poll
			// until it is gone.  Polls are requests at a frozen virtual time directly after a recorded request:
			// they move no breaker.  A poll after the first timer fired re-arms timers for nodes that still
			// reject; those fire r.recycle later, so the observation is only sound while less than
			// 2*r.recycle of real time elapsed since the first request: otherwise the scenario is retried.
			//
			// Recycling is observed through the reported lists, so the polls must not depend on a request that
			// has "nothing to report" being answered correctly (that is judged by the sequential scenarios):
			// a fresh node `pin' is made to fail first (recorded as ordinary req / done / obs lines) - it is
			// handed to the recycler later than every node of the scenario, so while the scenario's timers fire
			// some node still rejects and every poll is answered from the breakers.
			sentinel := hx.Str(s, "sentinel")
			time.Sleep(30 * time.Millisecond) // pin's timer: clearly later than the timers of the scenario's nodes
			pinned := false
			for try := 0; try < 8 && !pinned; try++ { // as many failures as the rule needs to open pin's breaker
				pe := entry(r.res)
				pf0, ph0 := lists(pe)
				tr.Emit(hx.M{"op": "req", "id": 90, "res": 1, "filter": pf0, "half": ph0})
				api.TraceCallee(pe, "pin")
				api.TraceError(pe, errors.New("callee failed"))
				pe.Exit()
				tr.Emit(hx.M{"op": "done", "id": 90, "node": "pin", "err": true})
				pf, ph := r.observe()
				tr.Emit(hx.M{"op": "obs", "res": 1, "filter": pf, "half": ph})
				pinned = contains(pf, "pin")
			}
			if !pinned {
				fatal("trace %d: node pin does not reject after 8 failures", r.tr)
			}
			time.Sleep(15 * time.Millisecond) // the recycler takes pin
			if el := time.Since(r.started); el > r.recycle-150*time.Millisecond {
				// a timer may have fired before the last recorded request: its answer cannot be judged
				fatal("trace %d: the scenario took %v before the wait began: timing unsafe", r.tr, el)
			}
			// later than this the observation would be refused below anyway
			deadline := r.started.Add(2*r.recycle + time.Second)
			for {
				f, h := r.observe()
				if os.Getenv("C20_DEBUG") != "" {
					fmt.Fprintf(os.Stderr, "poll +%v filter=%v half=%v\n", time.Since(r.started), f, h)
				}
				if !contains(f, sentinel) && !contains(h, sentinel) {
					break
				}
				if time.Now().After(deadline) {
					fatal("trace %d: node %s was not recycled within %v (timeout); last poll filter=%v half=%v", r.tr, sentinel,
						time.Since(r.started), f, h)
				}
				time.Sleep(5 * time.Millisecond)
			}
			time.Sleep(120 * time.Millisecond) // timers armed by the same task fire together; let the callbacks finish
			f, h := r.observe()
			if os.Getenv("C20_DEBUG") != "" {
				fmt.Fprintf(os.Stderr, "final +%v filter=%v half=%v\n", time.Since(r.started), f, h)
			}
			if el := time.Since(r.started); el > 2*r.recycle-300*time.Millisecond {
				fatal("trace %d: observation too late (%v after the first request): timing unsafe", r.tr, el)
			}
			vis := map[string]bool{}
			for _, n := range append(f, h...) {
				vis[n] = true
			}
			var visible []string
			for n := range vis {
				visible = append(visible, n)
			}
			tr.Emit(hx.M{"op": "recycle", "visible": sorted(visible)})
		default:
			fatal("unknown op %q", op)
		}
	}
}

func contains(l []string, x string) bool {
	for _, y := range l {
		if y == x {
			return true
		}
	}
	return false
}
