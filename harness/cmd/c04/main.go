//go:build verif

// c04 drives concurrency isolation rules of the real code through the public API (isolation.LoadRules,
// api.Entry / Exit) under the virtual clock and records what every call returned.  The recorded trace is
// validated against spec/Isolation_Trace.tla (property C04).
//
// Numbers of the full uint32 range (thresholds, batch counts, reported values) travel as two 16-bit limbs
// [h, l] (value = h<<16 | l): the validating model checker has 32-bit signed integers.
//
// scenario ops:
//
//	new  {tr, nres, rules:[{res, N:[h,l]}]}
//	req  {res, b:[h,l], id, dt}   one api.Entry(WithBatchCount(b)); an admitted entry stays open under handle id;
//	                              dt (optional) ms the clock advances before the call
//	exit {id, dt}                 Exit of the entry with handle id
//	reload {via, r, rules:[{res, N:[h,l], mt}], dt}
//	                              a rule list pushed in the middle of the trace (entries may be in flight): via = all ->
//	                              isolation.LoadRules(rules), res -> LoadRulesOfResource(r, rules), clear ->
//	                              ClearRulesOfResource(r), clearall -> ClearRules().  Rules are pushed RAW: N may be 0, mt may
//	                              be a metric type other than Concurrency, res 0 = a rule without resource name.  Recorded:
//	                              the raw list, whether an error came back, per resource the thresholds
//	                              GetRulesOfResource reports and the gauge.  The driver does not decide which rules are valid.
//	conc {res, bs, sched}         len(bs) gated goroutines call api.Entry (small batches) in the interleaving
//	                              `sched`, parking only at the yield point "chain.checked"; all admitted entries
//	                              are exited afterwards
//
// usage: c04 <scenarios.ndjson> <trace.ndjson>
package main

import (
	"fmt"
	"os"
	"runtime"
	"strconv"
	"sync"
	"sync/atomic"

	"github.com/alibaba/sentinel-golang/api"
	"github.com/alibaba/sentinel-golang/core/base"
	"github.com/alibaba/sentinel-golang/core/flow"
	"github.com/alibaba/sentinel-golang/core/isolation"
	"github.com/alibaba/sentinel-golang/core/stat"

	"verifharness/hx"
)

func list(m hx.M, k string) []interface{} {
	l, _ := m[k].([]interface{})
	return l
}

func ints(m hx.M, k string) []int64 {
	var out []int64
	for _, x := range list(m, k) {
		out = append(out, int64(x.(float64)))
	}
	return out
}

func u32(m hx.M, k string) uint32 {
	l := ints(m, k)
	if len(l) != 2 || l[0] < 0 || l[0] > 0xffff || l[1] < 0 || l[1] > 0xffff {
		hx.Fatal("field %s is not a pair of 16-bit limbs: %v", k, m[k])
	}
	return uint32(l[0])<<16 | uint32(l[1])
}

func limbs(v uint32) []int64 { return []int64{int64(v >> 16), int64(v & 0xffff)} }

type outcome struct {
	ok    bool
	bt    string
	rule  int64
	rn    []int64
	val   []int64
	entry *base.SentinelEntry
}

// entryOpts: options every api.Entry of the running request carries besides the batch count (resource type, traffic type):
// they must not influence the isolation decision
var entryOpts []api.EntryOption

func entry(name string, b uint32) (o outcome) {
	defer func() {
		if e := recover(); e != nil {
			o = outcome{ok: false, bt: "panic", val: limbs(0)}
		}
	}()
	e, berr := api.Entry(name, append([]api.EntryOption{api.WithBatchCount(b)}, entryOpts...)...)
	if berr == nil {
		return outcome{ok: true, entry: e}
	}
	o.bt = "other:" + berr.BlockType().String()
	switch berr.BlockType() {
	case base.BlockTypeFlow:
		o.bt = "flow"
	case base.BlockTypeIsolation:
		o.bt = "isolation"
	}
	if ir, ok := berr.TriggeredRule().(*isolation.Rule); ok && ir != nil {
		if n, err := strconv.ParseInt(ir.ID, 10, 64); err == nil {
			o.rule = n
		}
		o.rn = limbs(ir.Threshold)
	}
	o.val = []int64{-1, -1}
	if o.rn == nil {
		o.rn = []int64{-1, -1}
	}
	switch v := berr.TriggeredValue().(type) {
	case uint32:
		o.val = limbs(v)
	case int32:
		if v >= 0 {
			o.val = limbs(uint32(v))
		}
	}
	return o
}

func conc(name string) int64 {
	n := stat.GetResourceNode(name)
	if n == nil {
		return 0
	}
	return int64(n.CurrentConcurrency())
}

func main() {
	if len(os.Args) < 3 {
		hx.Fatal("usage: c04 scenarios.ndjson trace.ndjson")
	}
	scn, err := hx.ReadNDJSON[hx.M](os.Args[1])
	if err != nil {
		hx.Fatal("%v", err)
	}
	clk := hx.NewVClock(hx.BaseMs(1000) * 1e6)
	clk.Install()
	hx.InitSentinel()
	tr := hx.NewTrace(os.Args[2])
	defer tr.Close()
	var cur, nres int64
	open := map[int64]*base.SentinelEntry{}
	resOf := map[int64]int64{}
	name := func(res int64) string { return fmt.Sprintf("c04_%d_r%d", cur, res) }
	for _, s := range scn {
		op := hx.Str(s, "op")
		if op != "new" && cur == 0 {
			hx.Fatal("scenario does not start with new")
		}
		clk.AdvanceMs(hx.Int(s, "dt"))
		switch op {
		case "new":
			for _, e := range open { // entries a scenario left open
				e.Exit()
			}
			open, resOf = map[int64]*base.SentinelEntry{}, map[int64]int64{}
			cur = hx.Int(s, "tr")
			clk.SetMs(hx.BaseMs(1000) + 1)
			_ = flow.ClearRules()
			if err := isolation.ClearRules(); err != nil {
				hx.Fatal("ClearRules: %v", err)
			}
			var rules []*isolation.Rule
			var out []hx.M
			for i, x := range list(s, "rules") {
				m := x.(map[string]interface{})
				res, n := hx.Int(m, "res"), u32(m, "N")
				rules = append(rules, &isolation.Rule{ID: strconv.Itoa(i + 1), Resource: name(res),
					MetricType: isolation.Concurrency, Threshold: n})
				out = append(out, hx.M{"res": res, "N": limbs(n)})
			}
			if _, err := isolation.LoadRules(rules); err != nil {
				hx.Fatal("LoadRules: %v", err)
			}
			if got := len(isolation.GetRules()); got != len(rules) {
				// a scenario error only if the module's validity predicate refuses a rule; valid rules that are not in force
				// are the library's doing: run on, the decisions are judged against the rules that were loaded
				for _, ir := range rules {
					if err := isolation.IsValidRule(ir); err != nil {
						hx.Fatal("trace %d: %d of %d rules in force: the scenario holds an invalid rule (%v)", cur, got, len(rules), err)
					}
				}
			}
			nres = hx.Int(s, "nres")
			tr.Emit(hx.M{"op": "new", "tr": cur, "nres": nres, "rules": out})
		case "reload":
			via, r := hx.Str(s, "via"), hx.Int(s, "r")
			rules := []*isolation.Rule{}
			raw := []hx.M{}
			for i, x := range list(s, "rules") {
				m := x.(map[string]interface{})
				res, n, mt := hx.Int(m, "res"), u32(m, "N"), hx.Int(m, "mt")
				rn := ""
				if res != 0 {
					rn = name(res)
				}
				rules = append(rules, &isolation.Rule{ID: strconv.Itoa(i + 1), Resource: rn,
					MetricType: isolation.MetricType(mt), Threshold: n})
				raw = append(raw, hx.M{"res": res, "N": limbs(n), "mt": mt})
			}
			var lerr error
			func() {
				defer func() {
					if e := recover(); e != nil {
						lerr = fmt.Errorf("panic: %v", e)
					}
				}()
				switch via {
				case "all":
					_, lerr = isolation.LoadRules(rules)
				case "res":
					_, lerr = isolation.LoadRulesOfResource(name(r), rules)
				case "clear":
					lerr = isolation.ClearRulesOfResource(name(r))
				case "clearall":
					lerr = isolation.ClearRules()
				default:
					hx.Fatal("unknown reload via %q", via)
				}
			}()
			got := [][][]int64{}
			concs := []int64{}
			for res := int64(1); res <= nres; res++ {
				ths := [][]int64{}
				for _, ru := range isolation.GetRulesOfResource(name(res)) {
					ths = append(ths, limbs(ru.Threshold))
				}
				got = append(got, ths)
				concs = append(concs, conc(name(res)))
			}
			tr.Emit(hx.M{"op": "reload", "via": via, "r": r, "rules": raw, "err": lerr != nil, "got": got, "conc": concs})
		case "req":
			res, b, id := hx.Int(s, "res"), u32(s, "b"), hx.Int(s, "id")
			entryOpts = nil
			if _, ok := s["rt"]; ok {
				entryOpts = append(entryOpts, api.WithResourceType(base.ResourceType(hx.Int(s, "rt"))))
			}
			if s["inb"] == true {
				entryOpts = append(entryOpts, api.WithTrafficType(base.Inbound))
			}
			o := entry(name(res), b)
			entryOpts = nil
			rec := hx.M{"op": "req", "res": res, "b": limbs(b), "id": id, "ok": o.ok}
			if o.ok {
				open[id], resOf[id] = o.entry, res
			} else {
				rec["bt"], rec["rule"], rec["rN"], rec["val"] = o.bt, o.rule, o.rn, o.val
			}
			rec["conc"] = conc(name(res))
			tr.Emit(rec)
		case "exit":
			id := hx.Int(s, "id")
			e := open[id]
			if e == nil { // the scenario exits an entry the real code did not admit: nothing to do, nothing to record
				continue
			}
			e.Exit()
			delete(open, id)
			tr.Emit(hx.M{"op": "exit", "res": resOf[id], "id": id, "conc": conc(name(resOf[id]))})
		case "conc":
			res, bs, sched := hx.Int(s, "res"), ints(s, "bs"), ints(s, "sched")
			k := len(bs)
			outs := make([]outcome, k)
			sc := hx.NewSched()
			sc.Filter = func(p string) bool { return p == "chain.checked" }
			procs := make([]*hx.Proc, k)
			for i := 0; i < k; i++ {
				i := i
				procs[i] = sc.Spawn(func() { outs[i] = entry(name(res), uint32(bs[i])) })
			}
			var points []string
			for _, who := range sched {
				if who < 1 || int(who) > k {
					hx.Fatal("bad caller id %d in schedule", who)
				}
				points = append(points, sc.Step(procs[who-1]))
			}
			for _, p := range procs {
				sc.Finish(p)
			}
			sc.Close()
			oks := make([]bool, k)
			for i, o := range outs {
				oks[i] = o.ok
			}
			c := conc(name(res))
			for _, o := range outs {
				if o.entry != nil {
					o.entry.Exit()
				}
			}
			tr.Emit(hx.M{"op": "conc", "res": res, "bs": bs, "sched": sched, "oks": oks, "conc": c, "points": points})
		case "storm":
			// W free-running goroutines (real parallelism, no gate) enter and exit the resource with batch 1.  The driver keeps
			// its own count of admitted-and-not-yet-exited entries (raised after Entry returned an entry, lowered before Exit is
			// called), which never exceeds the true number of entries in flight; its maximum, the totals and the gauge at
			// quiescence are recorded.
			res, w, iters := hx.Int(s, "res"), int(hx.Int(s, "workers")), int(hx.Int(s, "iters"))
			var infl, maxInfl, adm, rej int64
			var wg sync.WaitGroup
			var start int32
			for i := 0; i < w; i++ {
				wg.Add(1)
				go func() {
					defer wg.Done()
					for atomic.LoadInt32(&start) == 0 {
						runtime.Gosched()
					}
					for j := 0; j < iters; j++ {
						o := entry(name(res), 1)
						if !o.ok || o.entry == nil {
							atomic.AddInt64(&rej, 1)
							continue
						}
						atomic.AddInt64(&adm, 1)
						n := atomic.AddInt64(&infl, 1)
						for {
							m := atomic.LoadInt64(&maxInfl)
							if n <= m || atomic.CompareAndSwapInt64(&maxInfl, m, n) {
								break
							}
						}
						if j%3 == 0 {
							runtime.Gosched()
						}
						atomic.AddInt64(&infl, -1)
						if j%4 == 1 {
							// two goroutines exit the SAME entry at the same instant: it releases its capacity exactly once
							var both sync.WaitGroup
							var go2, ready int32
							both.Add(1)
							en := o.entry
							go func() {
								defer both.Done()
								atomic.StoreInt32(&ready, 1)
								for atomic.LoadInt32(&go2) == 0 {
								}
								en.Exit()
							}()
							for atomic.LoadInt32(&ready) == 0 { // the helper is running and spinning before either Exit starts
								runtime.Gosched()
							}
							atomic.StoreInt32(&go2, 1)
							en.Exit()
							both.Wait()
						} else {
							o.entry.Exit()
						}
					}
				}()
			}
			atomic.StoreInt32(&start, 1)
			wg.Wait()
			tr.Emit(hx.M{"op": "storm", "res": res, "workers": w, "iters": iters, "admitted": adm, "rejected": rej,
				"maxinfl": maxInfl, "conc": conc(name(res))})
		default:
			hx.Fatal("unknown op %q", op)
		}
	}
}
