// c01 drives Entry / TraceError / Exit (first, repeated, late, with and without error) of the real
// library and records the accounting a user can read back after every operation:
//
//	mode "stat"   : a custom base.SlotChain with scripted prepare / rule-check slots (pass, block, panic),
//	                the real statistic slots (stat.DefaultResourceNodePrepareSlot, stat.DefaultSlot, wrapped so
//	                that their calls are logged) and a recording StatSlot, entered through api.Entry(WithSlotChain);
//	mode "global" : the default global chain with an isolation rule (to obtain blocks) and a hot-parameter
//	                rule that is fed an unhashable argument (to obtain a built-in rule-check panic);
//	op "stress"   : many free-running goroutines; only order-insensitive totals at quiescence are recorded.
//
// After every operation: stat.GetResourceNode(res).CurrentConcurrency()/GetSum(event) over the default and the
// whole-array view, the same for stat.InboundNode() (gauge as delta against the start of the trace), the
// recorder's call log, Context().Err()/Input.Args/BatchCount/Resource of every live entry and the fields of
// every block error handed out so far.  Judged by spec/EntryChain_Trace.tla (property C01).
//
// usage: c01 <scenarios.ndjson> <trace.ndjson>
package main

import (
	"os"

	"verifharness/ecx"
	"verifharness/hx"
)

func main() {
	if len(os.Args) < 3 {
		hx.Fatal("usage: c01 scenarios.ndjson trace.ndjson")
	}
	scn, err := hx.ReadNDJSON[hx.M](os.Args[1])
	if err != nil {
		hx.Fatal("%v", err)
	}
	clk := hx.NewVClock(1e6)
	clk.Install()
	hx.InitSentinel()
	tr := hx.NewTrace(os.Args[2])
	defer tr.Close()
	ecx.NewEngine(clk, tr, "stat", "global").Run(scn)
}
