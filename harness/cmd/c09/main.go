//go:build verif

// c09 forces goroutine schedules (from TLC / seeded random) on the real lock-free sliding window
// (sbase.BucketLeapArray: AddCount / UpdateConcurrency / Count / MinRt / MaxConcurrency) with goroutines parked at
// the la.* / mb.* yield points and records an operation-level trace (invocations, returns with values, roll-over
// steps, ticks) that spec/WindowConc_Trace.tla judges against property C09.
//
// Every operation names the statistic ("ev") it records into / reads:
//   add : "pass" "block" "complete" "error" "rt" -> AddCount(event, n) ("rt" goes through AddRt: also the bucket minimum)
//         "conc"                                 -> UpdateConcurrency(n) (the bucket maximum)
//   read: the five event kinds                   -> Count(event)
//         "minrt" -> MinRt()      "maxconc" -> MaxConcurrency()
// (ev absent = "pass").  After the schedule a final goroutine reads every statistic once at quiescence.
//
// usage: c09 <scenarios.ndjson> <trace.ndjson>
package main

import (
	"os"
	"strings"

	"github.com/alibaba/sentinel-golang/core/base"
	sbase "github.com/alibaba/sentinel-golang/core/stat/base"
	"github.com/alibaba/sentinel-golang/util/vhook"

	"verifharness/hx"
)

type op struct {
	kind string
	ev   string
	n    int64
}

var events = map[string]base.MetricEvent{
	"pass": base.MetricEventPass, "block": base.MetricEventBlock, "complete": base.MetricEventComplete,
	"error": base.MetricEventError, "rt": base.MetricEventRt,
}

// every statistic a bucket keeps, in the order of the final quiescent reads
var allReads = []string{"pass", "block", "complete", "error", "rt", "minrt", "maxconc"}

func record(arr *sbase.BucketLeapArray, ev string, n int64) {
	if ev == "conc" {
		arr.UpdateConcurrency(int32(n))
		return
	}
	e, ok := events[ev]
	if !ok {
		hx.Fatal("unknown statistic to record into: %q", ev)
	}
	arr.AddCount(e, n)
}

func read(arr *sbase.BucketLeapArray, ev string) int64 {
	switch ev {
	case "minrt":
		return arr.MinRt()
	case "maxconc":
		return int64(arr.MaxConcurrency())
	}
	e, ok := events[ev]
	if !ok {
		hx.Fatal("unknown statistic to read: %q", ev)
	}
	return arr.Count(e)
}

func main() {
	if len(os.Args) < 3 {
		hx.Fatal("usage: c09 scenarios.ndjson trace.ndjson")
	}
	scn, err := hx.ReadNDJSON[hx.M](os.Args[1])
	if err != nil {
		hx.Fatal("%v", err)
	}
	hx.InitSentinel()
	tr := hx.NewTrace(os.Args[2])
	defer tr.Close()
	clk := hx.NewVClock(1e6)
	clk.Install()

	for _, s := range scn {
		unit := hx.Int(s, "unit")
		if unit == 0 {
			unit = 1
		}
		n, bl, t0 := hx.Int(s, "n"), hx.Int(s, "bl")*unit, hx.Int(s, "t0")*unit
		clk.SetMs(t0)
		arr := sbase.NewBucketLeapArray(uint32(n), uint32(n*bl))
		var plist [][]op
		for _, x := range s["procs"].([]interface{}) {
			var ops []op
			for _, y := range x.([]interface{}) {
				m := y.(map[string]interface{})
				ev := hx.Str(m, "ev")
				if ev == "" {
					ev = "pass"
				}
				ops = append(ops, op{hx.Str(m, "kind"), ev, hx.Int(m, "n")})
			}
			plist = append(plist, ops)
		}
		var sched []int
		for _, x := range s["sched"].([]interface{}) {
			sched = append(sched, int(x.(float64)))
		}
		tr.Emit(hx.M{"op": "new", "tr": hx.Int(s, "tr"), "n": n, "bl": bl, "t0": t0, "maxrt": base.DefaultStatisticMaxRt})

		sc := hx.NewSched()
		sc.Filter = func(pt string) bool {
			return strings.HasPrefix(pt, "la.") || strings.HasPrefix(pt, "mb.") || strings.HasPrefix(pt, "drv.")
		}
		pendTs := map[int]int64{} // pending adds: proc -> time stamp
		var procs []*hx.Proc
		for i, ops := range plist {
			i, ops := i, ops
			procs = append(procs, sc.Spawn(func() {
				for k, o := range ops {
					if k > 0 {
						vhook.Yield("drv.next")
					}
					now := clk.NowMs()
					tr.Emit(hx.M{"op": "inv", "p": i + 1, "kind": o.kind, "ev": o.ev, "ts": now, "n": o.n})
					if o.kind == "add" {
						pendTs[i] = now
						record(arr, o.ev, o.n)
						delete(pendTs, i)
						tr.Emit(hx.M{"op": "ret", "p": i + 1, "val": 0, "now": clk.NowMs()})
					} else {
						v := read(arr, o.ev)
						tr.Emit(hx.M{"op": "ret", "p": i + 1, "val": v, "now": clk.NowMs()})
					}
				}
			}))
		}
		steps := 0
		step := func(i int) {
			p := procs[i]
			if p.Done {
				return
			}
			steps++
			if steps <= 600 || p.Point == "la.setstart" || p.Point == "la.reset" { // a spinning goroutine must not flood the trace
				tr.Emit(hx.M{"op": "step", "p": i + 1, "at": p.Point})
			}
			sc.Step(p)
		}
		tick := func() {
			for _, ts := range pendTs { // a pending recorder may not be stalled for more than one bucket length
				if clk.NowMs()+unit-ts > bl {
					return
				}
			}
			clk.AdvanceMs(unit)
			tr.Emit(hx.M{"op": "tick", "now": clk.NowMs()})
		}
		for _, x := range sched {
			if x == 0 {
				tick()
			} else if x-1 < len(procs) {
				step(x - 1)
			}
		}
		stuck := false
		for !sc.AllDone() && !stuck {
			for i := range procs {
				step(i)
			}
			if steps > 5000 {
				stuck = true
			}
		}
		if !stuck {
			// final quiescent reads of every statistic, still through the gate: if an earlier operation leaked the update
			// lock the first read spins for ever, which must show up as non-termination and not hang the driver
			fin := sc.Spawn(func() {
				now := clk.NowMs()
				for _, ev := range allReads {
					tr.Emit(hx.M{"op": "inv", "p": 8, "kind": "read", "ev": ev, "ts": now, "n": 0})
					tr.Emit(hx.M{"op": "ret", "p": 8, "val": read(arr, ev), "now": now})
				}
			})
			for n := 0; !fin.Done && n < 6000; n++ {
				sc.Step(fin)
			}
			stuck = !fin.Done
		}
		sc.Close()
		if stuck {
			// the property demands that every recorder and reader terminates: this is an observable, judged by the spec.
			// (the goroutines of this scenario stay parked at their yield points for ever; the next scenario uses a fresh array)
			tr.Emit(hx.M{"op": "stuck"})
		}
		tr.Emit(hx.M{"op": "end"})
	}
}
