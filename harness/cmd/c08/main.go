// c08 drives the sliding-window statistics of the real code (core/stat/base, core/stat) with
// scenarios of write operations and clock ticks and records everything that can be read back.
// The recorded trace is validated against spec/Window_Trace.tla (reference = WindowRef.tla).
//
// usage: c08 <scenarios.ndjson> <trace.ndjson>
package main

import (
	"math"
	"os"

	"github.com/alibaba/sentinel-golang/core/base"
	"github.com/alibaba/sentinel-golang/core/config"
	"github.com/alibaba/sentinel-golang/core/stat"
	sbase "github.com/alibaba/sentinel-golang/core/stat/base"

	"verifharness/hx"
)

var kinds = map[string]base.MetricEvent{
	"pass": base.MetricEventPass, "block": base.MetricEventBlock, "complete": base.MetricEventComplete,
	"error": base.MetricEventError, "rt": base.MetricEventRt,
}
var kindNames = []string{"pass", "block", "complete", "error", "rt"}

type view struct {
	vn, vi int64
	m      *sbase.SlidingWindowMetric // array mode
	rs     base.ReadStat               // node mode, extra views
}

type run struct {
	mode  string
	unit  int64
	base  int64
	clk   *hx.VClock
	arr   *sbase.BucketLeapArray
	node  *stat.BaseStatNode
	gauge int64 // entries the driver holds "in flight" on the node (gauge ops)
	nvn   int64
	nvi   int64
	views []*view
	pn    int64
	pbl   int64 // ms
}

func round(f float64) int64 { return int64(math.Round(f)) }

func (r *run) obs() []hx.M {
	var out []hx.M
	if r.mode == "node" {
		o := hx.M{"vn": r.nvn, "vi": r.nvi}
		sum, qps, prev, maxb := hx.M{}, hx.M{}, hx.M{}, hx.M{}
		for _, k := range kindNames {
			e := kinds[k]
			sum[k] = r.node.GetSum(e)
			qps[k] = round(r.node.GetQPS(e) * float64(r.nvi))
			prev[k] = round(r.node.GetPreviousQPS(e) * float64(r.nvi))
			maxb[k] = round(r.node.GetMaxAvg(e) * float64(r.nvi) / float64(r.nvn) / 1000.0)
		}
		o["sum"], o["qps"], o["prev"], o["maxb"] = sum, qps, prev, maxb
		o["minrt"] = round(r.node.MinRT())
		o["maxc"] = int64(r.node.MaxConcurrency())
		o["avgrt"] = round(r.node.AvgRT())
		out = append(out, o)
	}
	for _, v := range r.views {
		o := hx.M{"vn": v.vn, "vi": v.vi}
		sum, qps, prev, maxb := hx.M{}, hx.M{}, hx.M{}, hx.M{}
		for _, k := range kindNames {
			e := kinds[k]
			if v.m != nil {
				sum[k] = v.m.GetSum(e)
				qps[k] = round(v.m.GetQPS(e) * float64(v.vi))
				prev[k] = round(v.m.GetPreviousQPS(e) * float64(v.vi))
				maxb[k] = v.m.GetMaxOfSingleBucket(e)
			} else {
				sum[k] = v.rs.GetSum(e)
				qps[k] = round(v.rs.GetQPS(e) * float64(v.vi))
				prev[k] = round(v.rs.GetPreviousQPS(e) * float64(v.vi))
			}
		}
		o["sum"], o["qps"], o["prev"] = sum, qps, prev
		if v.m != nil {
			o["maxb"] = maxb
			o["minrt"] = round(v.m.MinRT())
			o["maxc"] = int64(v.m.MaxConcurrency())
		}
		out = append(out, o)
	}
	return out
}

func (r *run) rel() int64 { return r.clk.NowMs() - r.base }

func main() {
	if len(os.Args) < 3 {
		hx.Fatal("usage: c08 scenarios.ndjson trace.ndjson")
	}
	scn, err := hx.ReadNDJSON[hx.M](os.Args[1])
	if err != nil {
		hx.Fatal("%v", err)
	}
	hx.InitSentinel()
	tr := hx.NewTrace(os.Args[2])
	defer tr.Close()
	clk := hx.NewVClock(1e6)
	clk.Install()
	var r *run
	for _, s := range scn {
		op := hx.Str(s, "op")
		switch op {
		case "new":
			r = &run{mode: hx.Str(s, "mode"), unit: hx.Int(s, "unit"), clk: clk, pn: hx.Int(s, "pn")}
			if r.unit == 0 {
				r.unit = 1
			}
			r.pbl = hx.Int(s, "pbl") * r.unit
			if s["base"] == true {
				r.base = hx.BaseMs(lcm(r.pbl*r.pn, 1000))
			}
			t0 := hx.Int(s, "t") * r.unit
			clk.SetMs(r.base + t0)
			var vws [][]int64
			if l, ok := s["views"].([]interface{}); ok {
				for _, x := range l {
					p := x.([]interface{})
					vws = append(vws, []int64{int64(p[0].(float64)), int64(p[1].(float64)) * r.unit})
				}
			}
			if r.mode == "node" {
				// parent geometry is the configured global one (20 x 500 ms by default; VERIF_STAT_CFG selects another one for the
				// whole process and the scenario names it); the first view is the node's own metric
				if cfg := hx.Str(s, "cfg"); cfg != os.Getenv("VERIF_STAT_CFG") {
					hx.Fatal("trace %d wants statistic configuration %q, the process runs with %q", hx.Int(s, "tr"), cfg, os.Getenv("VERIF_STAT_CFG"))
				}
				r.pn, r.pbl = int64(config.GlobalStatisticSampleCountTotal()), int64(config.GlobalStatisticBucketLengthInMs())
				r.nvn, r.nvi = vws[0][0], vws[0][1]
				r.node = stat.NewBaseStatNode(uint32(r.nvn), uint32(r.nvi))
				for _, v := range vws[1:] {
					rs, err := r.node.GenerateReadStat(uint32(v[0]), uint32(v[1]))
					if err == nil {
						r.views = append(r.views, &view{vn: v[0], vi: v[1], rs: rs})
					}
				}
			} else {
				r.arr = sbase.NewBucketLeapArray(uint32(r.pn), uint32(r.pn*r.pbl))
				for _, v := range vws {
					m, err := sbase.NewSlidingWindowMetric(uint32(v[0]), uint32(v[1]), r.arr)
					if err == nil {
						r.views = append(r.views, &view{vn: v[0], vi: v[1], m: m})
					}
				}
			}
			tr.Emit(hx.M{"op": "new", "tr": hx.Int(s, "tr"), "pn": r.pn, "pbl": r.pbl, "t": t0, "sec": 1000})
		case "add":
			k, n := hx.Str(s, "k"), hx.Int(s, "n")
			if r.node != nil {
				r.node.AddCount(kinds[k], n)
			} else {
				r.arr.AddCount(kinds[k], n)
			}
			tr.Emit(hx.M{"op": "add", "k": k, "n": n, "obs": r.obs()})
		case "conc":
			c := hx.Int(s, "c")
			if r.node != nil {
				r.node.UpdateConcurrency(int32(c))
			} else {
				r.arr.UpdateConcurrency(int32(c))
			}
			tr.Emit(hx.M{"op": "conc", "c": c, "obs": r.obs()})
		case "gauge":
			// the node's in-flight gauge: IncreaseConcurrency samples the new gauge value as a concurrency amount at the current
			// instant, DecreaseConcurrency samples nothing.  The driver keeps its own count: that is what the reference is told.
			if r.node == nil {
				hx.Fatal("gauge op outside node mode")
			}
			c := int64(0)
			if hx.Int(s, "d") > 0 {
				r.gauge++
				r.node.IncreaseConcurrency()
				c = r.gauge
			} else if r.gauge > 0 {
				r.gauge--
				r.node.DecreaseConcurrency()
			}
			tr.Emit(hx.M{"op": "conc", "c": c, "obs": r.obs()})
		case "tick":
			clk.AdvanceMs(hx.Int(s, "d") * r.unit)
			tr.Emit(hx.M{"op": "tick", "t": r.rel(), "obs": r.obs()})
		case "readarr":
			if r.arr == nil {
				continue
			}
			sum := hx.M{}
			now := uint64(clk.NowMs())
			for _, k := range kindNames {
				sum[k] = r.arr.CountWithTime(now, kinds[k])
			}
			a := hx.M{"sum": sum, "minrt": r.arr.MinRt(), "maxc": int64(r.arr.MaxConcurrency())}
			tr.Emit(hx.M{"op": "readarr", "arr": a, "obs": r.obs()})
		case "newview":
			vn, vi := hx.Int(s, "vn"), hx.Int(s, "vi")*r.unit
			var err error
			if r.node != nil {
				_, err = r.node.GenerateReadStat(uint32(vn), uint32(vi))
			} else {
				_, err = sbase.NewSlidingWindowMetric(uint32(vn), uint32(vi), r.arr)
			}
			tr.Emit(hx.M{"op": "newview", "vn": vn, "vi": vi, "ok": err == nil})
		case "cond":
			lo, hi := hx.Int(s, "lo")*r.unit, hx.Int(s, "hi")*r.unit
			pred := func(ts uint64) bool { return int64(ts)-r.base >= lo && int64(ts)-r.base < hi }
			var items []*base.MetricItem
			if r.node != nil {
				items = r.node.MetricsOnCondition(pred)
			} else if len(r.views) > 0 {
				items = r.views[0].m.SecondMetricsOnCondition(pred)
			} else {
				continue
			}
			out := []hx.M{}
			for _, it := range items {
				if it.PassQps+it.BlockQps+it.ErrorQps+it.CompleteQps+it.AvgRt+uint64(it.Concurrency) == 0 {
					continue
				}
				out = append(out, hx.M{"ts": int64(it.Timestamp) - r.base, "pass": it.PassQps, "block": it.BlockQps,
					"error": it.ErrorQps, "complete": it.CompleteQps, "avgrt": it.AvgRt, "conc": it.Concurrency})
			}
			tr.Emit(hx.M{"op": "cond", "lo": lo, "hi": hi, "items": out})
		default:
			hx.Fatal("unknown op %q", op)
		}
	}
}

func gcd(a, b int64) int64 {
	for b != 0 {
		a, b = b, a%b
	}
	return a
}
func lcm(a, b int64) int64 { return a / gcd(a, b) * b }
