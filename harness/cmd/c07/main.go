//go:build verif

// c07 drives the system-protection stage of the real code through the public API (system.LoadRules,
// system_metric.SetSystemLoad / SetSystemCpuUsage, api.Entry with a traffic type, Exit) under the virtual
// clock and records what every call returned.  The recorded trace is validated against
// spec/SystemGate_Trace.tla (property C07).
//
// scenario ops (times in ms relative to the start of the scenario):
//
//	new   {tr, t, rules:[{mt, num, den, bbr}]}   mt in load|rt|conc|qps|cpu, trigger = num/den
//	rules {rules:[...]}                          system.LoadRules again (replaces the list)
//	load  {num, den} / cpu {num, den}            inject a sample (num/den; -1/1 = not sampled)
//	enter {id, res, ty, b}                       api.Entry("c07_<tr>_r<res>", WithTrafficType(ty), WithBatchCount(b));
//	                                             an admitted entry stays open until exit {id}
//	exit  {id, err}                              THE completion of the entry: Exit(), or Exit(base.WithError(e)) when err
//	                                             (ignored if the entry was not admitted; on an entry that has already
//	                                             completed it is a late call, see below)
//	trace {id, via}                              an error is reported on the open entry before it completes:
//	                                             api.TraceError(entry, e) (via "api", default) or entry.SetError(e) ("entry")
//	late  {id, how}                              a call on an entry that has ALREADY completed: how = "exit" ->
//	                                             Exit(base.WithError(e)) again, "trace" -> api.TraceError(entry, e)
//	tick  {d}                                    clock += d
//
// The inbound statistic node is a process-wide object created with the real clock: the driver runs at
// hx.BaseMs + t, starts every scenario more than 20 virtual seconds after the end of the previous one (so the
// 1 s view and the whole 10 s array of the previous scenario have expired) and exits every entry that is
// still open at the end of a scenario (so the in-flight gauge is back to zero).
//
// usage: c07 <scenarios.ndjson> <trace.ndjson>
package main

import (
	"errors"
	"fmt"
	"math"
	"os"
	"strconv"

	"github.com/alibaba/sentinel-golang/api"
	"github.com/alibaba/sentinel-golang/core/base"
	"github.com/alibaba/sentinel-golang/core/stat"
	"github.com/alibaba/sentinel-golang/core/system"
	"github.com/alibaba/sentinel-golang/core/system_metric"

	"verifharness/hx"
)

var mts = map[string]system.MetricType{
	"load": system.Load, "rt": system.AvgRT, "conc": system.Concurrency, "qps": system.InboundQPS, "cpu": system.CpuUsage,
}

func mtName(t system.MetricType) string {
	for k, v := range mts {
		if v == t {
			return k
		}
	}
	return "unknown"
}

func list(m hx.M, k string) []interface{} {
	l, _ := m[k].([]interface{})
	return l
}

type run struct {
	leaked bool      // the inbound gauge did not return to zero at the end of the trace
	trace  *hx.Trace
	tr    int64
	epoch int64 // absolute ms of relative time 0
	open  map[int64]*base.SentinelEntry
	done  map[int64]*base.SentinelEntry // entries that have completed (for late calls)
}

var errBiz = errors.New("c07: business error")

// late performs a call on an entry that has already completed; nothing may change
func late(e *base.SentinelEntry, how string) {
	if how == "trace" {
		api.TraceError(e, errBiz)
	} else {
		e.Exit(base.WithError(errBiz))
	}
}

func buildRules(s hx.M) ([]*system.Rule, []hx.M) {
	var rules []*system.Rule
	out := []hx.M{}
	for i, x := range list(s, "rules") {
		m := x.(map[string]interface{})
		mt, ok := mts[hx.Str(m, "mt")]
		if !ok {
			hx.Fatal("unknown metric type %q", hx.Str(m, "mt"))
		}
		num, den := hx.Int(m, "num"), hx.Int(m, "den")
		bbr := m["bbr"] == true
		r := &system.Rule{ID: strconv.Itoa(i + 1), MetricType: mt, TriggerCount: float64(num) / float64(den), Strategy: system.NoAdaptive}
		if bbr {
			r.Strategy = system.BBR
		}
		rules = append(rules, r)
		out = append(out, hx.M{"mt": hx.Str(m, "mt"), "num": num, "den": den, "bbr": bbr})
	}
	return rules, out
}

func load(rules []*system.Rule) {
	if _, err := system.LoadRules(rules); err != nil {
		hx.Fatal("LoadRules: %v", err)
	}
	// the scenario generators only produce valid rules (a scenario error otherwise); whether the module then really
	// enforces every one of them is what the recorded decisions are judged for - not something to assume here
	for _, r := range rules {
		if err := system.IsValidSystemRule(r); err != nil {
			hx.Fatal("the scenario contains an invalid system rule: %v", err)
		}
	}
}

type outcome struct {
	ok, sys, panicked bool
	rule              int64
	mt                string
	vnum              int64
	entry             *base.SentinelEntry
}

// implicitOut: the running outbound request does not name its traffic type (outbound is the documented default)
var implicitOut bool

func enter(name string, ty base.TrafficType, b uint32) (o outcome) {
	defer func() {
		if e := recover(); e != nil {
			o = outcome{panicked: true}
		}
	}()
	opts := []api.EntryOption{api.WithBatchCount(b)}
	if !(implicitOut && ty == base.Outbound) {
		opts = append(opts, api.WithTrafficType(ty))
	}
	e, berr := api.Entry(name, opts...)
	if berr == nil {
		return outcome{ok: true, entry: e}
	}
	o.sys = berr.BlockType() == base.BlockTypeSystemFlow
	if sr, ok := berr.TriggeredRule().(*system.Rule); ok && sr != nil {
		if n, err := strconv.ParseInt(sr.ID, 10, 64); err == nil {
			o.rule = n
		}
		o.mt = mtName(sr.MetricType)
	}
	if v, ok := berr.TriggeredValue().(float64); ok && !math.IsNaN(v) && math.Abs(v) < 1e6 {
		o.vnum = int64(math.Round(v * 1000))
	} else {
		o.vnum = -999999
	}
	return o
}

func (r *run) finish() {
	if r == nil {
		return
	}
	for _, e := range r.open {
		e.Exit()
	}
	if c := stat.InboundNode().CurrentConcurrency(); c != 0 {
		// the library's inbound in-flight count is off although every entry of the trace has been exited: an observable
		// (judged by SystemGate_Trace!TEnd), and the end of this driver run - the gauge is shared by the whole process
		r.leaked = true
		r.trace.Emit(hx.M{"op": "end", "gauge": int64(c)})
	}
}

func main() {
	if len(os.Args) < 3 {
		hx.Fatal("usage: c07 scenarios.ndjson trace.ndjson")
	}
	scn, err := hx.ReadNDJSON[hx.M](os.Args[1])
	if err != nil {
		hx.Fatal("%v", err)
	}
	clk := hx.NewVClock(hx.BaseMs(1000) * 1e6)
	clk.Install()
	hx.InitSentinel()
	tr := hx.NewTrace(os.Args[2])
	defer tr.Close()
	var r *run
	for _, s := range scn {
		op := hx.Str(s, "op")
		if op != "new" && r == nil {
			hx.Fatal("scenario does not start with new")
		}
		switch op {
		case "new":
			r.finish()
			if r != nil && r.leaked {
				return // (deferred: the trace is flushed and closed)
			}
			// next epoch: a whole second, more than 20 s after everything that happened so far
			epoch := (clk.NowMs()/1000 + 22) * 1000
			r = &run{trace: tr, tr: hx.Int(s, "tr"), epoch: epoch, open: map[int64]*base.SentinelEntry{}, done: map[int64]*base.SentinelEntry{}}
			t0 := hx.Int(s, "t")
			clk.SetMs(epoch + t0)
			system_metric.SetSystemLoad(system_metric.NotRetrievedLoadValue)
			system_metric.SetSystemCpuUsage(system_metric.NotRetrievedCpuUsageValue)
			rules, out := buildRules(s)
			load(rules)
			tr.Emit(hx.M{"op": "new", "tr": r.tr, "t": t0, "rules": out})
		case "rules":
			rules, out := buildRules(s)
			load(rules)
			tr.Emit(hx.M{"op": "rules", "rules": out})
		case "load", "cpu":
			num, den := hx.Int(s, "num"), hx.Int(s, "den")
			if den <= 0 {
				hx.Fatal("bad sample %d/%d", num, den)
			}
			if op == "load" {
				system_metric.SetSystemLoad(float64(num) / float64(den))
			} else {
				system_metric.SetSystemCpuUsage(float64(num) / float64(den))
			}
			tr.Emit(hx.M{"op": op, "num": num, "den": den})
		case "enter":
			id, res, ty, b := hx.Int(s, "id"), hx.Int(s, "res"), hx.Str(s, "ty"), hx.Int(s, "b")
			tt := base.Outbound
			if ty == "in" {
				tt = base.Inbound
			}
			implicitOut = s["imp"] == true
			o := enter(fmt.Sprintf("c07_%d_r%d", r.tr, res), tt, uint32(b))
			implicitOut = false
			rec := hx.M{"op": "enter", "id": id, "res": res, "ty": ty, "b": b, "ok": o.ok}
			if o.ok {
				r.open[id] = o.entry
			} else {
				rec["sys"], rec["rule"], rec["mt"], rec["vnum"], rec["vden"] = o.sys, o.rule, o.mt, o.vnum, 1000
				if o.panicked {
					rec["panic"] = true
				}
			}
			tr.Emit(rec)
		case "exit":
			id := hx.Int(s, "id")
			werr := s["err"] == true
			if e, ok := r.open[id]; ok {
				if werr {
					e.Exit(base.WithError(errBiz))
				} else {
					e.Exit()
				}
				delete(r.open, id)
				r.done[id] = e
				tr.Emit(hx.M{"op": "exit", "id": id, "err": werr})
			} else if e, ok := r.done[id]; ok && werr {
				late(e, "exit")
				tr.Emit(hx.M{"op": "late", "id": id, "how": "exit"})
			}
		case "trace":
			id := hx.Int(s, "id")
			if e, ok := r.open[id]; ok {
				if hx.Str(s, "via") == "entry" {
					e.SetError(errBiz)
				} else {
					api.TraceError(e, errBiz)
				}
				tr.Emit(hx.M{"op": "trace", "id": id})
			} else if e, ok := r.done[id]; ok {
				late(e, "trace")
				tr.Emit(hx.M{"op": "late", "id": id, "how": "trace"})
			}
		case "late":
			id, how := hx.Int(s, "id"), hx.Str(s, "how")
			if e, ok := r.done[id]; ok {
				late(e, how)
				tr.Emit(hx.M{"op": "late", "id": id, "how": how})
			}
		case "tick":
			clk.AdvanceMs(hx.Int(s, "d"))
			tr.Emit(hx.M{"op": "tick", "t": clk.NowMs() - r.epoch})
		default:
			hx.Fatal("unknown op %q", op)
		}
	}
	r.finish()
	_ = system.ClearRules()
}
