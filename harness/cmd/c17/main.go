// c17 drives the metric log of the real code (core/log/metric): a writer created under the virtual
// clock in a private temporary directory, Write calls, searches through long-lived and fresh searcher
// instances, and truncation of the last data / index file at chosen (or all) byte offsets followed by
// searches.  Everything a user can observe is recorded: the directory listing after every write (file
// names, line counts, decoded index entries), the items every search returned, errors and panics.
// The recorded trace is validated against spec/MetricLog_Trace.tla.
//
// usage: c17 <scenarios.ndjson> <trace.ndjson> <scratch dir>
//
// Times in scenarios and traces are milliseconds relative to a fixed local midnight (so that day rolls
// can be provoked and every number stays below 2^31); second = t / 1000, day = t / 86400000.
package main

import (
	"bytes"
	"encoding/binary"
	"fmt"
	"os"
	"path/filepath"
	"sort"
	"strconv"
	"strings"
	"time"

	"github.com/alibaba/sentinel-golang/core/base"
	"github.com/alibaba/sentinel-golang/core/config"
	"github.com/alibaba/sentinel-golang/core/log/metric"

	"verifharness/hx"
)

const appName = "app"
const dayMs = 86400000

var baseTime = time.Date(2024, 1, 10, 0, 0, 0, 0, time.Local)
var baseMs = baseTime.UnixNano() / 1e6

type fileInfo struct {
	name    string
	day, n  int64
	data    []byte
	idxData []byte
}

type run struct {
	tr        int64
	dir       string
	baseName  string
	writer    metric.MetricLogWriter
	searchers map[int64]metric.MetricSearcher
	// truncation: pristine content of the last data file and of its index file
	cutReady bool
	cutFile  string
	pData    []byte
	pIdx     []byte
}

func (r *run) list() []fileInfo {
	ents, err := os.ReadDir(r.dir)
	if err != nil {
		hx.Fatal("readdir: %v", err)
	}
	var out []fileInfo
	for _, e := range ents {
		name := e.Name()
		if e.IsDir() || strings.HasSuffix(name, ".idx") || !strings.HasPrefix(name, r.baseName+".") {
			continue
		}
		rest := strings.Split(name[len(r.baseName)+1:], ".")
		d, err := time.ParseInLocation("2006-01-02", rest[0], time.Local)
		if err != nil {
			hx.Fatal("unexpected file name %q", name)
		}
		fi := fileInfo{name: name, day: int64(d.Sub(baseTime).Hours()+0.5) / 24}
		if len(rest) > 1 {
			v, err := strconv.ParseInt(rest[1], 10, 64)
			if err != nil {
				hx.Fatal("unexpected file name %q", name)
			}
			fi.n = v
		}
		fi.data, err = os.ReadFile(filepath.Join(r.dir, name))
		if err != nil {
			hx.Fatal("read %s: %v", name, err)
		}
		fi.idxData, _ = os.ReadFile(filepath.Join(r.dir, name+".idx"))
		out = append(out, fi)
	}
	sort.Slice(out, func(i, j int) bool {
		if out[i].day != out[j].day {
			return out[i].day < out[j].day
		}
		return out[i].n < out[j].n
	})
	return out
}

func decodeIdx(b []byte) [][]int64 {
	out := [][]int64{}
	for i := 0; i+16 <= len(b); i += 16 {
		sec := int64(binary.BigEndian.Uint64(b[i:]))
		off := int64(binary.BigEndian.Uint64(b[i+8:]))
		out = append(out, []int64{sec - baseMs/1000, off})
	}
	return out
}

func lineEnds(b []byte) []int64 {
	out := []int64{}
	for i, c := range b {
		if c == '\n' {
			out = append(out, int64(i+1))
		}
	}
	return out
}

func (r *run) listing() ([]hx.M, []string) {
	fs := r.list()
	out := []hx.M{}
	names := []string{}
	for _, f := range fs {
		nl := int64(bytes.Count(f.data, []byte("\n")))
		out = append(out, hx.M{"day": f.day, "n": f.n, "nl": nl, "size": len(f.data), "idx": decodeIdx(f.idxData),
			"whole": len(f.data) == 0 || f.data[len(f.data)-1] == '\n', "idxrem": len(f.idxData) % 16})
		names = append(names, f.name)
	}
	return out, names
}

func toItems(v interface{}, ts uint64) []*base.MetricItem {
	l, _ := v.([]interface{})
	out := make([]*base.MetricItem, 0, len(l))
	for _, x := range l {
		m := x.(map[string]interface{})
		out = append(out, &base.MetricItem{Resource: hx.Str(m, "res"), Timestamp: ts, PassQps: uint64(hx.Int(m, "p")),
			BlockQps: uint64(hx.Int(m, "b")), CompleteQps: uint64(hx.Int(m, "c")), ErrorQps: uint64(hx.Int(m, "e")),
			AvgRt: uint64(hx.Int(m, "rt")), OccupiedPassQps: uint64(hx.Int(m, "oc")), Concurrency: uint32(hx.Int(m, "cc")),
			Classification: int32(hx.Int(m, "cl"))})
	}
	return out
}

func fromItems(items []*base.MetricItem) []hx.M {
	out := []hx.M{}
	for _, it := range items {
		if it == nil {
			out = append(out, hx.M{"t": -1, "res": "<nil>", "p": 0, "b": 0, "c": 0, "e": 0, "rt": 0, "oc": 0, "cc": 0, "cl": 0})
			continue
		}
		t := int64(it.Timestamp) - baseMs
		if t < -1<<30 || t > 1<<30 {
			t = -2 // a time stamp that was never written (keeps every number of the trace in 32 bits)
		}
		clip := func(v uint64) int64 {
			if v > 1<<30 {
				return -2
			}
			return int64(v)
		}
		out = append(out, hx.M{"t": t, "res": it.Resource, "p": clip(it.PassQps), "b": clip(it.BlockQps), "c": clip(it.CompleteQps),
			"e": clip(it.ErrorQps), "rt": clip(it.AvgRt), "oc": clip(it.OccupiedPassQps), "cc": int64(it.Concurrency), "cl": int64(it.Classification)})
	}
	return out
}

func (r *run) searcher(s int64) metric.MetricSearcher {
	if s != 0 {
		if x, ok := r.searchers[s]; ok {
			return x
		}
	}
	x, err := metric.NewDefaultMetricSearcher(r.dir, r.baseName)
	if err != nil {
		hx.Fatal("NewDefaultMetricSearcher: %v", err)
	}
	if s != 0 {
		r.searchers[s] = x
	}
	return x
}

// search runs one query on searcher s; a panic escaping the library is an observable
func (r *run) search(s int64, q hx.M) (items []hx.M, isErr bool, panicked bool) {
	sr := r.searcher(s)
	defer func() {
		if p := recover(); p != nil {
			items, panicked = []hx.M{}, true
		}
	}()
	var res []*base.MetricItem
	var err error
	if hx.Str(q, "op") == "find" {
		res, err = sr.FindByTimeAndResource(uint64(baseMs+hx.Int(q, "b")), uint64(baseMs+hx.Int(q, "e")), hx.Str(q, "res"))
	} else {
		res, err = sr.FindFromTimeWithMaxLines(uint64(baseMs+hx.Int(q, "b")), uint32(hx.Int(q, "n")))
	}
	return fromItems(res), err != nil, false
}

func (r *run) doFind(tr *hx.Trace, q hx.M) {
	s := hx.Int(q, "s")
	ev := hx.M{"op": hx.Str(q, "op"), "s": s, "b": hx.Int(q, "b")}
	if hx.Str(q, "op") == "find" {
		ev["e"], ev["res"] = hx.Int(q, "e"), hx.Str(q, "res")
	} else {
		ev["n"] = hx.Int(q, "n")
	}
	ev["items"], ev["err"], ev["panic"] = r.search(s, q)
	if s != 0 {
		// the same query through a fresh searcher, for the "independent of earlier queries" clause
		ev["f_items"], ev["f_err"], ev["f_panic"] = r.search(0, q)
	}
	tr.Emit(ev)
}

func (r *run) prepareCut() {
	if r.cutReady {
		return
	}
	fs := r.list()
	if len(fs) == 0 {
		hx.Fatal("cut without files")
	}
	lf := fs[len(fs)-1]
	r.cutFile = filepath.Join(r.dir, lf.name)
	r.pData, r.pIdx = lf.data, lf.idxData
	r.cutReady = true
}

func (r *run) applyCut(tr *hx.Trace, doff, ioff int64) {
	if doff > int64(len(r.pData)) {
		doff = int64(len(r.pData))
	}
	if ioff > int64(len(r.pIdx)) {
		ioff = int64(len(r.pIdx))
	}
	if err := os.WriteFile(r.cutFile, r.pData[:doff], 0644); err != nil {
		hx.Fatal("cut: %v", err)
	}
	if err := os.WriteFile(r.cutFile+".idx", r.pIdx[:ioff], 0644); err != nil {
		hx.Fatal("cut: %v", err)
	}
	tr.Emit(hx.M{"op": "cut", "doff": doff, "ioff": ioff, "dsize": len(r.pData), "isize": len(r.pIdx),
		"ends": lineEnds(r.pData), "idx": decodeIdx(r.pIdx)})
}

// nthSep returns the offset just after the n-th '|' of line (or len(line))
func nthSep(line []byte, n int) int {
	c := 0
	for i, b := range line {
		if b == '|' {
			c++
			if c == n {
				return i + 1
			}
		}
	}
	return len(line)
}

// classOffset maps a cut class of the model to a byte offset of the last data file:
// dk whole lines kept, then a torn piece of the next line of class dt (variant v)
func (r *run) dataOffset(dk int64, dt string, v int64) int64 {
	ends := lineEnds(r.pData)
	if dk > int64(len(ends)) {
		dk = int64(len(ends))
	}
	start := int64(0)
	if dk > 0 {
		start = ends[dk-1]
	}
	if dt == "none" || dk >= int64(len(ends)) {
		return start
	}
	line := r.pData[start : ends[dk]-1]
	var rel int
	switch dt {
	case "garbage": // fewer than 8 fields, or an empty / non-numeric piece
		opts := []int{1, 5, nthSep(line, 1), nthSep(line, 2) + 3, nthSep(line, 3), nthSep(line, 5), nthSep(line, 7), nthSep(line, 8), nthSep(line, 10)}
		rel = opts[int(v)%len(opts)]
	case "bogus": // at least 8 fields, the last one cut short or later fields missing
		opts := []int{nthSep(line, 7) + 2, nthSep(line, 8) - 1, nthSep(line, 8) + 1, nthSep(line, 9) - 1, nthSep(line, 9) + 1, nthSep(line, 7) + 1}
		rel = opts[int(v)%len(opts)]
	case "nonl":
		rel = len(line)
	}
	if rel < 1 {
		rel = 1
	}
	if rel > len(line) {
		rel = len(line)
	}
	return start + int64(rel)
}

func (r *run) idxOffset(ik int64, it string, v int64) int64 {
	n := int64(len(r.pIdx) / 16)
	if ik > n {
		ik = n
	}
	off := ik * 16
	if it == "none" || ik >= n {
		return off
	}
	if it == "nosec" {
		return off + 1 + v%7
	}
	return off + 8 + v%8
}

func (r *run) close() {
	if r == nil {
		return
	}
	if c, ok := r.writer.(interface{ Close() error }); ok && r.writer != nil {
		_ = c.Close()
	}
	_ = os.RemoveAll(r.dir)
}

func main() {
	if len(os.Args) < 4 {
		hx.Fatal("usage: c17 scenarios.ndjson trace.ndjson scratchdir")
	}
	scn, err := hx.ReadNDJSON[hx.M](os.Args[1])
	if err != nil {
		hx.Fatal("%v", err)
	}
	clk := hx.NewVClock(baseMs * 1e6)
	clk.Install()
	hx.InitSentinel()
	tr := hx.NewTrace(os.Args[2])
	defer tr.Close()
	scratch := os.Args[3]
	var r *run
	for _, s := range scn {
		op := hx.Str(s, "op")
		switch op {
		case "new":
			r.close()
			r = &run{tr: hx.Int(s, "tr"), searchers: map[int64]metric.MetricSearcher{}}
			r.dir = filepath.Join(scratch, fmt.Sprintf("t%d", r.tr))
			_ = os.RemoveAll(r.dir)
			if err := os.MkdirAll(r.dir, 0755); err != nil {
				hx.Fatal("mkdir: %v", err)
			}
			e := config.NewDefaultConfig()
			e.Sentinel.App.Name = appName
			e.Sentinel.Log.Logger = hx.NopLogger{}
			e.Sentinel.Log.Dir = r.dir
			e.Sentinel.Log.UsePid = false
			e.Sentinel.Log.Metric.FlushIntervalSec = 0
			config.ResetGlobalConfig(e)
			r.baseName = metric.FormMetricFileName(appName, false)
			t0 := hx.Int(s, "t0")
			clk.SetMs(baseMs + t0)
			ev := hx.M{"op": "new", "tr": r.tr, "maxsize": hx.Int(s, "maxsize"), "maxfiles": hx.Int(s, "maxfiles"), "t0": t0,
				"day": dayMs / 1000, "fx": s["fx"]}
			if ev["fx"] == nil {
				ev["fx"] = []string{}
			}
			ev["drift"] = s["drift"] != false
			func() {
				defer func() {
					if p := recover(); p != nil {
						ev["panic"] = true
					}
				}()
				w, err := metric.NewDefaultMetricLogWriterOfApp(uint64(hx.Int(s, "maxsize")), uint32(hx.Int(s, "maxfiles")), appName)
				if err != nil {
					ev["err"] = true
				} else {
					r.writer = w
				}
			}()
			if r.writer == nil {
				hx.Fatal("trace %d: the writer could not be created", r.tr)
			}
			ev["files"], ev["names"] = r.listing()
			tr.Emit(ev)
		case "write":
			t := hx.Int(s, "t")
			if t <= -baseMs {
				hx.Fatal("write time out of range")
			}
			if hx.Int(s, "clock") != 0 {
				clk.SetMs(baseMs + hx.Int(s, "clock"))
			}
			ts := uint64(baseMs + t)
			items := toItems(s["items"], ts)
			ws := []int64{}
			for _, it := range items {
				line, _ := it.ToFatString()
				ws = append(ws, int64(len(line)+1))
			}
			ev := hx.M{"op": "write", "t": t, "items": s["items"], "ws": ws, "err": false, "panic": false}
			if s["items"] == nil {
				ev["items"] = []hx.M{}
			}
			func() {
				defer func() {
					if p := recover(); p != nil {
						ev["panic"] = true
					}
				}()
				if err := r.writer.Write(ts, items); err != nil {
					ev["err"] = true
				}
			}()
			ev["files"], ev["names"] = r.listing()
			tr.Emit(ev)
		case "find", "from":
			r.doFind(tr, s)
		case "cut":
			r.prepareCut()
			var doff, ioff int64
			if _, explicit := s["doff"]; explicit {
				doff, ioff = hx.Int(s, "doff"), hx.Int(s, "ioff")
				if doff < 0 {
					doff = int64(len(r.pData))
				}
				if ioff < 0 {
					ioff = int64(len(r.pIdx))
				}
			} else {
				doff = r.dataOffset(hx.Int(s, "dk"), hx.Str(s, "dt"), hx.Int(s, "v"))
				ioff = r.idxOffset(hx.Int(s, "ik"), hx.Str(s, "it"), hx.Int(s, "v"))
			}
			r.applyCut(tr, doff, ioff)
		case "cutall":
			// every byte offset of the last data file (file = "data") or of its index file ("idx"),
			// each followed by the given searches
			r.prepareCut()
			finds, _ := s["finds"].([]interface{})
			n := int64(len(r.pData))
			if hx.Str(s, "file") == "idx" {
				n = int64(len(r.pIdx))
			}
			for off := int64(0); off < n; off++ {
				if hx.Str(s, "file") == "idx" {
					r.applyCut(tr, int64(len(r.pData)), off)
				} else {
					r.applyCut(tr, off, int64(len(r.pIdx)))
				}
				for _, q := range finds {
					r.doFind(tr, q.(map[string]interface{}))
				}
			}
			r.applyCut(tr, int64(len(r.pData)), int64(len(r.pIdx)))
		default:
			hx.Fatal("unknown op %q", op)
		}
	}
	r.close()
}
