// c23 drives the REAL bounded LRU cache of the hot-parameter modules (package core/hotspot/cache) through its public API:
//
//	kind "lru": cache.NewLRU(size, onEvict)  - Add, AddIfAbsent, Get, Contains, Peek, Remove, RemoveOldest, GetOldest, Keys,
//	            Len, Purge, Resize, with an eviction callback that logs its arguments;
//	kind "map": cache.NewLRUCacheMap(size)   - the ConcurrentCounterCache wrapper (values are *int64; no callback).
//
// After EVERY call it records the return value, Keys() (oldest to newest), Len() and the callbacks made during the call;
// spec/Lru_Trace.tla replays the calls through the operators of spec/Lru.tla and judges all of it.
//
// A "conc" scenario is a free-running concurrent phase on an LruCacheMap: G goroutines call AddIfAbsent / Get / Remove on a
// few keys; the values are counters (*int64) they atomically add to.  At quiescence the driver records, per key, how many
// callers inserted, how many Removes succeeded, how many distinct counter objects were handed out, how much was added and
// what is read back; QuiescentOK (spec/Lru.tla) judges the record.
//
// usage: c23 <scenarios.ndjson> <trace.ndjson>
package main

import (
	"fmt"
	"math/rand"
	"os"
	"sync"
	"sync/atomic"

	"github.com/alibaba/sentinel-golang/core/hotspot/cache"

	"verifharness/hx"
)

type kv struct {
	K string `json:"k"`
	V int64  `json:"v"`
}

// the two kinds behind one face; rv = -1 / rk = "" mean "nothing returned"
type face struct {
	lru *cache.LRU
	m   cache.ConcurrentCounterCache
	evs []kv
}

func ival(v interface{}) int64 {
	switch x := v.(type) {
	case nil:
		return -1
	case int64:
		return x
	case *int64:
		if x == nil {
			return -1
		}
		return *x
	}
	return -2
}

func skey(k interface{}) string {
	if s, ok := k.(string); ok {
		return s
	}
	if k == nil {
		return ""
	}
	return fmt.Sprintf("?%v", k)
}

func box(v int64) *int64 { p := new(int64); *p = v; return p }

func (f *face) keys() []string {
	var ks []interface{}
	if f.lru != nil {
		ks = f.lru.Keys()
	} else {
		ks = f.m.Keys()
	}
	out := make([]string, 0, len(ks))
	for _, k := range ks {
		out = append(out, skey(k))
	}
	return out
}

func (f *face) length() int {
	if f.lru != nil {
		return f.lru.Len()
	}
	return f.m.Len()
}

// call performs one method; returns found, rk, rv, rn
func (f *face) call(op, k string, v, n int64) (found bool, rk string, rv int64, rn int64) {
	rv = -1
	if f.lru != nil {
		c := f.lru
		switch op {
		case "add":
			c.Add(k, v)
		case "addabs":
			p := c.AddIfAbsent(k, v)
			found, rv = p != nil, ival(p)
		case "get":
			var x interface{}
			x, found = c.Get(k)
			rv = ival(x)
		case "peek":
			var x interface{}
			x, found = c.Peek(k)
			rv = ival(x)
		case "contains":
			found = c.Contains(k)
		case "remove":
			found = c.Remove(k)
		case "removeoldest":
			a, b, ok := c.RemoveOldest()
			found, rk, rv = ok, skey(a), ival(b)
		case "getoldest":
			a, b, ok := c.GetOldest()
			found, rk, rv = ok, skey(a), ival(b)
		case "keys":
			rn = int64(len(c.Keys()))
		case "len":
			rn = int64(c.Len())
		case "purge":
			c.Purge()
		case "resize":
			rn = int64(c.Resize(int(n)))
		default:
			hx.Fatal("unknown op %q for kind lru", op)
		}
		return
	}
	c := f.m
	switch op {
	case "add":
		c.Add(k, box(v))
	case "addabs":
		p := c.AddIfAbsent(k, box(v))
		found, rv = p != nil, ival(p)
	case "get":
		var p *int64
		p, found = c.Get(k)
		rv = ival(p)
	case "contains":
		found = c.Contains(k)
	case "remove":
		found = c.Remove(k)
	case "keys":
		rn = int64(len(c.Keys()))
	case "len":
		rn = int64(c.Len())
	case "purge":
		c.Purge()
	default:
		hx.Fatal("unknown op %q for kind map", op)
	}
	return
}

func main() {
	if len(os.Args) < 3 {
		hx.Fatal("usage: c23 scenarios.ndjson trace.ndjson")
	}
	scn, err := hx.ReadNDJSON[hx.M](os.Args[1])
	if err != nil {
		hx.Fatal("%v", err)
	}
	tr := hx.NewTrace(os.Args[2])
	defer tr.Close()
	var f *face
	for _, s := range scn {
		op := hx.Str(s, "op")
		switch op {
		case "new":
			size, kind := int(hx.Int(s, "cap")), hx.Str(s, "kind")
			f = &face{}
			failed := false
			if kind == "lru" {
				ff := f
				c, err := cache.NewLRU(size, func(k, v interface{}) { ff.evs = append(ff.evs, kv{skey(k), ival(v)}) })
				failed = err != nil || c == nil
				f.lru = c
			} else if kind == "map" {
				f.m = cache.NewLRUCacheMap(size)
				failed = f.m == nil
			} else {
				hx.Fatal("unknown kind %q", kind)
			}
			if failed {
				f = nil
			}
			tr.Emit(hx.M{"op": "new", "tr": hx.Int(s, "tr"), "cap": size, "kind": kind, "err": failed})
		case "conc":
			tr.Emit(conc(s))
		default:
			if f == nil {
				continue // the constructor refused the size: nothing to call
			}
			k, v, n := hx.Str(s, "k"), hx.Int(s, "v"), hx.Int(s, "n")
			f.evs = nil
			rec := hx.M{"op": op, "k": k, "v": v, "n": n, "panic": false}
			func() {
				defer func() {
					if r := recover(); r != nil {
						rec["panic"] = true
					}
				}()
				found, rk, rv, rn := f.call(op, k, v, n)
				rec["found"], rec["rk"], rec["rv"], rec["rn"] = found, rk, rv, rn
			}()
			if rec["panic"] == true {
				rec["found"], rec["rk"], rec["rv"], rec["rn"] = false, "", -1, 0
			}
			evs := f.evs
			if evs == nil {
				evs = []kv{}
			}
			rec["ev"] = evs
			func() {
				defer func() {
					if r := recover(); r != nil {
						rec["panic"], rec["keys"], rec["len"] = true, []string{}, -1
					}
				}()
				rec["keys"], rec["len"] = f.keys(), f.length()
			}()
			tr.Emit(rec)
		}
	}
}

// ---------------------------------------------------------------------------------------------- concurrent phase

type gstat struct {
	ins, rem, tries []int64
	applied        []int64
	handed         map[*int64]int // counter object -> key index it was handed out for
	inserted       map[*int64]int // counter object -> key index this goroutine inserted it under
	mixed          int64          // an object handed out for two different keys
	panicked       bool
}

func conc(s hx.M) hx.M {
	size, nkeys, G, nops := int(hx.Int(s, "cap")), int(hx.Int(s, "nkeys")), int(hx.Int(s, "G")), int(hx.Int(s, "nops"))
	removes, seed := s["removes"] == true, hx.Int(s, "seed")
	c := cache.NewLRUCacheMap(size)
	keys := make([]string, nkeys)
	for i := range keys {
		keys[i] = fmt.Sprintf("c%d", i)
	}
	st := make([]*gstat, G)
	var ready int32
	var wg sync.WaitGroup
	for g := 0; g < G; g++ {
		gs := &gstat{ins: make([]int64, nkeys), rem: make([]int64, nkeys), tries: make([]int64, nkeys), applied: make([]int64, nkeys),
			handed: map[*int64]int{}, inserted: map[*int64]int{}}
		st[g] = gs
		wg.Add(1)
		go func(g int) {
			defer wg.Done()
			defer func() {
				if r := recover(); r != nil {
					gs.panicked = true
				}
			}()
			rng := rand.New(rand.NewSource(seed*1000 + int64(g)))
			hand := func(p *int64, ki int) {
				if old, ok := gs.handed[p]; ok && old != ki {
					gs.mixed++
				}
				gs.handed[p] = ki
			}
			// tight start: everybody spins until all G goroutines are here, so the very first calls really race
			atomic.AddInt32(&ready, 1)
			for atomic.LoadInt32(&ready) < int32(G) {
			}
			for i := 0; i < nops; i++ {
				ki := rng.Intn(nkeys)
				if i == 0 {
					ki = 0
				}
				x, d := rng.Intn(10), int64(1+rng.Intn(3))
				switch {
				case removes && x == 0 && i > 0:
					if c.Remove(keys[ki]) {
						gs.rem[ki]++
					}
				case x < 7 || i == 0:
					fresh := new(int64)
					gs.tries[ki]++
					p := c.AddIfAbsent(keys[ki], fresh)
					if p == nil {
						gs.ins[ki]++
						gs.inserted[fresh] = ki
						p = fresh
					}
					hand(p, ki)
					atomic.AddInt64(p, d)
					gs.applied[ki] += d
				default:
					if p, ok := c.Get(keys[ki]); ok {
						if p == nil {
							gs.panicked = true // "found" with no counter: nothing a caller can use
							continue
						}
						hand(p, ki)
						atomic.AddInt64(p, d)
						gs.applied[ki] += d
					}
				}
			}
		}(g)
	}
	wg.Wait()
	// quiescence: merge and read back
	handed, inserted := map[*int64]int{}, map[*int64]int{}
	var mixed int64
	panicked := false
	for _, gs := range st {
		panicked = panicked || gs.panicked
		mixed += gs.mixed
		for p, ki := range gs.handed {
			if old, ok := handed[p]; ok && old != ki {
				mixed++
			}
			handed[p] = ki
		}
		for p, ki := range gs.inserted {
			inserted[p] = ki
		}
	}
	per := make([]hx.M, nkeys)
	for ki := range keys {
		var ins, rem, tries, applied, objs, foreign int64
		for _, gs := range st {
			ins += gs.ins[ki]
			rem += gs.rem[ki]
			tries += gs.tries[ki]
			applied += gs.applied[ki]
		}
		for p, k2 := range handed {
			if k2 == ki {
				objs++
				if k3, ok := inserted[p]; !ok || k3 != ki {
					foreign++
				}
			}
		}
		if ki == 0 {
			foreign += mixed
		}
		present, read := false, int64(0)
		func() {
			defer func() {
				if r := recover(); r != nil {
					panicked = true
				}
			}()
			if p, ok := c.Get(keys[ki]); ok {
				present = true
				if p != nil {
					read = atomic.LoadInt64(p)
					if k3, ok := inserted[p]; !ok || k3 != ki {
						foreign++
					}
				} else {
					foreign++
				}
			}
		}()
		per[ki] = hx.M{"k": keys[ki], "ins": ins, "rem": rem, "objs": objs, "foreign": foreign, "applied": applied, "read": read,
			"present": present, "touched": tries > 0}
	}
	return hx.M{"op": "conc", "tr": hx.Int(s, "tr"), "cap": size, "nkeys": nkeys, "G": G, "nops": nops, "removes": removes, "seed": seed,
		"perkey": per, "len": c.Len(), "panic": panicked}
}
