// c15 is the free-running concurrency driver for property C15.  It is built with -race.
//
// Traffic goroutines call Entry / TraceError / Exit on resources of every rule module while churn goroutines
// load, clear and read rules and statistics of every module.  For the flow and isolation modules the rule lists
// are "version-identifying": every version k of resource <m>_r1 consists of two rules of which exactly one
// blocks every request, and the blocking rule carries k in a semantic field, with the order of the two rules
// alternating with the parity of k.  So a request decided entirely by version k is blocked by marker k, while a
// request that saw a mixture of two versions (or no rules at all) can PASS - which no version allows.  Resource
// <m>_r2 keeps one constant blocking rule (marker 7) while r1 is churned.
//
// Every invocation / return / load start / load end takes a number from one global atomic counter BEFORE the call
// resp. AFTER its return, so "version k was current at some instant between the request's invocation and return"
// is decidable from the numbers.  The merged trace is judged by spec/RuleSwitch_Trace.tla.
//
// usage: c15 <trace.ndjson> <seed> <versions> <traffic goroutines>
package main

import (
	"errors"
	"fmt"
	"math/rand"
	"os"
	"runtime"
	"strconv"
	"sync"
	"sync/atomic"
	"time"

	"github.com/alibaba/sentinel-golang/api"
	"github.com/alibaba/sentinel-golang/core/base"
	cb "github.com/alibaba/sentinel-golang/core/circuitbreaker"
	"github.com/alibaba/sentinel-golang/core/flow"
	"github.com/alibaba/sentinel-golang/core/hotspot"
	"github.com/alibaba/sentinel-golang/core/isolation"
	"github.com/alibaba/sentinel-golang/core/outlier"
	"github.com/alibaba/sentinel-golang/core/stat"
	"github.com/alibaba/sentinel-golang/core/system"

	"verifharness/hx"
)

var seq uint64

func tick() uint64 { return atomic.AddUint64(&seq, 1) }

type rec = hx.M

const constMarker = 7
const isoBatch = 100000

func flowVersion(res string, k int) []*flow.Rule {
	pass := &flow.Rule{Resource: res, TokenCalculateStrategy: flow.Direct, ControlBehavior: flow.Reject, Threshold: 1e12, StatIntervalInMs: 1000, MaxQueueingTimeMs: uint32(k)}
	block := &flow.Rule{Resource: res, TokenCalculateStrategy: flow.Direct, ControlBehavior: flow.Reject, Threshold: 0, StatIntervalInMs: 1000, MaxQueueingTimeMs: uint32(k)}
	if k%2 == 1 {
		return []*flow.Rule{pass, block}
	}
	return []*flow.Rule{block, pass}
}
func isoVersion(res string, k int) []*isolation.Rule {
	pass := &isolation.Rule{Resource: res, MetricType: isolation.Concurrency, Threshold: uint32(2000000000 + k)}
	block := &isolation.Rule{Resource: res, MetricType: isolation.Concurrency, Threshold: uint32(k)} // batch isoBatch > k
	if k%2 == 1 {
		return []*isolation.Rule{pass, block}
	}
	return []*isolation.Rule{block, pass}
}

func hotVersion(res string, k int) []*hotspot.Rule {
	pass := &hotspot.Rule{Resource: res, MetricType: hotspot.QPS, ControlBehavior: hotspot.Reject, ParamIndex: 0, Threshold: 1000000000, DurationInSec: int64(k)}
	block := &hotspot.Rule{Resource: res, MetricType: hotspot.QPS, ControlBehavior: hotspot.Reject, ParamIndex: 0, Threshold: 0, DurationInSec: int64(k)}
	if k%2 == 1 {
		return []*hotspot.Rule{pass, block}
	}
	return []*hotspot.Rule{block, pass}
}

func main() {
	if len(os.Args) < 5 {
		hx.Fatal("usage: c15 trace.ndjson seed versions traffic")
	}
	seed, _ := strconv.Atoi(os.Args[2])
	nver, _ := strconv.Atoi(os.Args[3])
	ntraffic, _ := strconv.Atoi(os.Args[4])
	hx.InitSentinel()
	go func() { // watchdog: an API call that never returns is a deadlock
		time.Sleep(90 * time.Second)
		fmt.Fprintln(os.Stderr, "WATCHDOG: driver did not finish within 90s")
		os.Exit(4)
	}()
	var mu sync.Mutex
	var loads, reqs []rec
	var panics int32
	guard := func(what string) {
		if r := recover(); r != nil {
			atomic.AddInt32(&panics, 1)
			fmt.Fprintf(os.Stderr, "PANIC in %s: %v\n", what, r)
		}
	}
	// initial versions (k = 1) and the constant rules of r2, loaded before any traffic
	_, _ = flow.LoadRules(append(flowVersion("f_r1", 1), &flow.Rule{Resource: "f_r2", TokenCalculateStrategy: flow.Direct, ControlBehavior: flow.Reject, Threshold: 0, StatIntervalInMs: 1000, MaxQueueingTimeMs: constMarker}))
	_, _ = isolation.LoadRules(append(isoVersion("i_r1", 1), &isolation.Rule{Resource: "i_r2", MetricType: isolation.Concurrency, Threshold: constMarker}))
	hotConst := &hotspot.Rule{Resource: "p_r2", MetricType: hotspot.QPS, ControlBehavior: hotspot.Reject, ParamIndex: 0, Threshold: 0, DurationInSec: constMarker}
	_, _ = hotspot.LoadRules(append(hotVersion("p_r1", 1), hotConst))
	loads = append(loads, rec{"op": "load", "mod": "flow", "k": 1, "ls": 0, "le": 0}, rec{"op": "load", "mod": "iso", "k": 1, "ls": 0, "le": 0},
		rec{"op": "load", "mod": "hot", "k": 1, "ls": 0, "le": 0})

	var stop int32
	var wg, cw sync.WaitGroup
	// ---- churn of the version-identifying modules ----------------------------------------------
	churn := func(mod string, load func(k int, whole bool)) {
		defer cw.Done()
		defer guard("churn " + mod)
		rng := rand.New(rand.NewSource(int64(seed)*31 + int64(len(mod))))
		var mine []rec
		for k := 2; k <= nver; k++ {
			for i := rng.Intn(40); i > 0; i-- {
				runtime.Gosched()
			}
			ls := tick()
			load(k, rng.Intn(2) == 0)
			le := tick()
			mine = append(mine, rec{"op": "load", "mod": mod, "k": k, "ls": ls, "le": le})
		}
		mu.Lock()
		loads = append(loads, mine...)
		mu.Unlock()
	}
	cw.Add(3)
	go churn("hot", func(k int, whole bool) {
		// (the race-only hotspot churn on h_r1 / h_r2 uses per-resource loads and getters only, so that the whole-set
		// loads here stay the single writer of p_r1 / p_r2)
		if whole {
			_, _ = hotspot.LoadRules(append(hotVersion("p_r1", k), &hotspot.Rule{Resource: "p_r2", MetricType: hotspot.QPS, ControlBehavior: hotspot.Reject, ParamIndex: 0, Threshold: 0, DurationInSec: constMarker},
				&hotspot.Rule{Resource: "h_r2", MetricType: hotspot.Concurrency, ParamIndex: 0, Threshold: 2}))
		} else {
			_, _ = hotspot.LoadRulesOfResource("p_r1", hotVersion("p_r1", k))
		}
	})
	go churn("flow", func(k int, whole bool) {
		if whole {
			_, _ = flow.LoadRules(append(flowVersion("f_r1", k), &flow.Rule{Resource: "f_r2", TokenCalculateStrategy: flow.Direct, ControlBehavior: flow.Reject, Threshold: 0, StatIntervalInMs: 1000, MaxQueueingTimeMs: constMarker}))
		} else {
			_, _ = flow.LoadRulesOfResource("f_r1", flowVersion("f_r1", k))
		}
	})
	go churn("iso", func(k int, whole bool) {
		if whole {
			_, _ = isolation.LoadRules(append(isoVersion("i_r1", k), &isolation.Rule{Resource: "i_r2", MetricType: isolation.Concurrency, Threshold: constMarker}))
		} else {
			_, _ = isolation.LoadRulesOfResource("i_r1", isoVersion("i_r1", k))
		}
	})
	// ---- churn / readers of every other module (race, panic and deadlock freedom only) ---------------
	other := func(name string, f func(rng *rand.Rand, i int)) {
		for g := 0; g < 2; g++ { // two goroutines per module, so that its loaders and getters really overlap
			wg.Add(1)
			go func(g int) {
				defer wg.Done()
				defer guard(name)
				rng := rand.New(rand.NewSource(int64(seed)*131 + int64(len(name))*7 + int64(g)))
				for i := 0; atomic.LoadInt32(&stop) == 0; i++ {
					f(rng, i)
					runtime.Gosched()
				}
			}(g)
		}
	}
	other("cb-churn", func(rng *rand.Rand, i int) {
		rs := []*cb.Rule{{Resource: "c_r1", Strategy: cb.ErrorCount, RetryTimeoutMs: uint32(10 + i%3), MinRequestAmount: 1, StatIntervalMs: 1000, Threshold: float64(1 + i%2)},
			{Resource: "c_r2", Strategy: cb.SlowRequestRatio, RetryTimeoutMs: 50, MinRequestAmount: 5, StatIntervalMs: 1000, MaxAllowedRtMs: 50, Threshold: 0.5}}
		switch rng.Intn(5) {
		case 0:
			_, _ = cb.LoadRules(rs)
		case 1:
			_, _ = cb.LoadRulesOfResource("c_r1", rs[:1])
		case 2:
			_ = cb.ClearRulesOfResource("c_r1")
		case 3:
			_ = cb.GetRules()
		default:
			_ = cb.GetRulesOfResource("c_r1")
		}
	})
	other("hotspot-churn", func(rng *rand.Rand, i int) {
		rs := []*hotspot.Rule{{Resource: "h_r1", MetricType: hotspot.QPS, ControlBehavior: hotspot.Reject, ParamIndex: 0, Threshold: int64(1 + i%3), BurstCount: 0, DurationInSec: 1},
			{Resource: "h_r2", MetricType: hotspot.Concurrency, ParamIndex: 0, Threshold: 2}}
		switch rng.Intn(5) {
		case 0:
			_, _ = hotspot.LoadRulesOfResource("h_r2", rs[1:])
		case 1:
			_, _ = hotspot.LoadRulesOfResource("h_r1", rs[:1])
		case 2:
			_ = hotspot.ClearRulesOfResource("h_r1")
		case 3:
			_ = hotspot.GetRules()
		default:
			_ = hotspot.GetRulesOfResource("h_r1")
		}
	})
	other("system-churn", func(rng *rand.Rand, i int) {
		switch rng.Intn(3) {
		case 0:
			_, _ = system.LoadRules([]*system.Rule{{MetricType: system.Concurrency, TriggerCount: float64(1000000 + i%2), Strategy: system.NoAdaptive}})
		case 1:
			_ = system.GetRules()
		default:
			if i%50 == 0 {
				_ = system.ClearRules()
			}
		}
	})
	other("outlier-churn", func(rng *rand.Rand, i int) {
		r := &outlier.Rule{Rule: &cb.Rule{Resource: "o_r1", Strategy: cb.ErrorCount, RetryTimeoutMs: 100, MinRequestAmount: 1, StatIntervalMs: 1000, Threshold: float64(1 + i%2)},
			MaxEjectionPercent: 0.5, RecoveryIntervalMs: 1000, MaxRecoveryAttempts: 2}
		switch rng.Intn(4) {
		case 0:
			_, _ = outlier.LoadRules([]*outlier.Rule{r})
		case 1:
			_, _ = outlier.LoadRuleOfResource("o_r1", r)
		case 2:
			_ = outlier.GetRules()
		default:
			_ = outlier.ClearRuleOfResource("o_r1")
		}
	})
	other("flow-iso-readers", func(rng *rand.Rand, i int) {
		_ = flow.GetRules()
		_ = flow.GetRulesOfResource("f_r1")
		_ = isolation.GetRules()
		_ = isolation.GetRulesOfResource("i_r1")
	})
	other("stat-readers", func(rng *rand.Rand, i int) {
		for _, n := range stat.ResourceNodeList() {
			_ = n.GetQPS(base.MetricEventPass)
			_ = n.GetSum(base.MetricEventBlock)
			_ = n.AvgRT()
			_ = n.MinRT()
			_ = n.CurrentConcurrency()
			_ = n.MaxConcurrency()
		}
		_ = stat.InboundNode().GetQPS(base.MetricEventPass)
		_ = stat.GetResourceNode("f_r1")
	})
	// ---- traffic --------------------------------------------------------------------------------
	resources := []string{"f_r1", "f_r2", "i_r1", "i_r2", "p_r1", "p_r2", "c_r1", "c_r2", "h_r1", "h_r2", "o_r1", "x_plain"}
	for t := 0; t < ntraffic; t++ {
		wg.Add(1)
		go func(t int) {
			defer wg.Done()
			defer guard("traffic")
			rng := rand.New(rand.NewSource(int64(seed)*1009 + int64(t)))
			var mine []rec
			for atomic.LoadInt32(&stop) == 0 {
				res := resources[rng.Intn(len(resources))]
				opts := []api.EntryOption{api.WithTrafficType(base.TrafficType(rng.Intn(2)))}
				if res[0] == 'i' {
					opts = append(opts, api.WithBatchCount(isoBatch))
				}
				if res[0] == 'h' || res[0] == 'p' {
					opts = append(opts, api.WithArgs(rng.Intn(3)))
				}
				inv := tick()
				e, b := api.Entry(res, opts...)
				ret := tick()
				if res[0] == 'f' || res[0] == 'i' || res[0] == 'p' {
					r := rec{"op": "req", "res": res, "inv": inv, "ret": ret, "pass": b == nil, "marker": -1}
					if b != nil {
						switch x := b.TriggeredRule().(type) {
						case *flow.Rule:
							r["marker"] = int(x.MaxQueueingTimeMs)
						case *isolation.Rule:
							r["marker"] = int(x.Threshold)
						case *hotspot.Rule:
							r["marker"] = int(x.DurationInSec)
						}
					}
					mine = append(mine, r)
				}
				if b == nil {
					if rng.Intn(3) == 0 {
						api.TraceError(e, errors.New("x"))
					}
					if res[0] == 'o' {
						api.TraceCallee(e, "10.0.0."+strconv.Itoa(rng.Intn(3)))
					}
					e.Exit()
					if rng.Intn(8) == 0 {
						e.Exit() // repeated Exit
					}
				}
			}
			mu.Lock()
			reqs = append(reqs, mine...)
			mu.Unlock()
		}(t)
	}
	cw.Wait()
	for i := 0; i < 200; i++ { // let traffic observe the last versions for a moment
		runtime.Gosched()
	}
	atomic.StoreInt32(&stop, 1)
	wg.Wait()

	tr := hx.NewTrace(os.Args[1])
	tr.Emit(rec{"op": "new", "tr": seed, "nver": nver, "const": constMarker})
	for _, l := range loads {
		tr.Emit(l)
	}
	// keep the trace small: every request that passed, every request that raced with a load of its module
	// (its [inv, ret] overlaps a load's [ls, le]) up to a cap, and a thin sample of the rest
	type iv struct{ ls, le uint64 }
	byMod := map[string][]iv{}
	for _, l := range loads {
		m := l["mod"].(string)
		ls, _ := l["ls"].(uint64)
		le, _ := l["le"].(uint64)
		byMod[m] = append(byMod[m], iv{ls, le})
	}
	racing, kept := 0, 0
	for i, r := range reqs {
		m := "flow"
		if r["res"].(string)[0] == 'i' {
			m = "iso"
		} else if r["res"].(string)[0] == 'p' {
			m = "hot"
		}
		inv, ret := r["inv"].(uint64), r["ret"].(uint64)
		over := false
		for _, x := range byMod[m] {
			if x.le != 0 && x.ls < ret && inv < x.le {
				over = true
				break
			}
		}
		if over {
			racing++
		}
		if r["pass"] == true || (over && kept < 9000) || i%97 == 0 {
			tr.Emit(r)
			kept++
		}
	}
	tr.Emit(rec{"op": "end", "panics": int(atomic.LoadInt32(&panics)), "requests": len(reqs), "racing": racing, "loads": len(loads)})
	tr.Close()
	if atomic.LoadInt32(&panics) > 0 {
		os.Exit(5)
	}
}
