// c15 is the free-running concurrency driver for property C15.  It is built with -race.
//
// Traffic goroutines call Entry / TraceError / Exit on resources of every rule module while churn goroutines
// load, clear and read rules and statistics of every module.  For the flow and isolation modules the rule lists
// are "version-identifying": every version k of resource <m>_r1 consists of two rules of which exactly one
// blocks every request, and the blocking rule carries k in a semantic field, with the order of the two rules
// alternating with the parity of k.  So a request decided entirely by version k is blocked by marker k, while a
// request that saw a mixture of two versions (or no rules at all) can PASS - which no version allows.  Resource
// <m>_r2 keeps one constant blocking rule (marker 7) while r1 is churned.
//
// Every invocation / return / load start / load end takes a number from one global atomic counter BEFORE the call
// resp. AFTER its return, so "version k was current at some instant between the request's invocation and return"
// is decidable from the numbers.  The merged trace is judged by spec/RuleSwitch_Trace.tla.
//
// FIRST USE (second phase, after the free-running phase has quiesced; the clock is frozen from here on so that every
// request of a round falls into one statistic window).  Every round takes a resource name that has never been seen
// before and releases, from a spin barrier, several first api.Entry calls of it together with 0..2 rule loads for that
// very resource (flow: LoadRules / LoadRulesOfResource, which bind the rule to the resource's statistic node;
// isolation; a flow rule of another resource that refers to the fresh one).  When they have all returned the driver
// records what is in force (Get*RulesOfResource) and then, sequentially, probes it: requests until the threshold is
// crossed (each: decision + triggering threshold), the statistics getters of the resource's node, optionally a
// sequential reload with another threshold and more probes, then Exit of everything held and the getters again.
// spec/RuleSwitch_Trace.tla computes the expected decision of every probe and every getter value (invariants
// Enforced / StatAgrees of spec/RuleSwitch.tla).
//
// usage: c15 <trace.ndjson> <seed> <versions> <traffic goroutines> [<first-use rounds>]
package main

import (
	"errors"
	"fmt"
	"math/rand"
	"os"
	"runtime"
	"strconv"
	"sync"
	"sync/atomic"
	"time"

	"github.com/alibaba/sentinel-golang/api"
	"github.com/alibaba/sentinel-golang/core/base"
	cb "github.com/alibaba/sentinel-golang/core/circuitbreaker"
	"github.com/alibaba/sentinel-golang/core/flow"
	"github.com/alibaba/sentinel-golang/core/hotspot"
	"github.com/alibaba/sentinel-golang/core/isolation"
	"github.com/alibaba/sentinel-golang/core/outlier"
	"github.com/alibaba/sentinel-golang/core/stat"
	"github.com/alibaba/sentinel-golang/core/system"

	"verifharness/hx"
)

var seq uint64

func tick() uint64 { return atomic.AddUint64(&seq, 1) }

type rec = hx.M

const constMarker = 7
const isoBatch = 100000

func flowVersion(res string, k int) []*flow.Rule {
	pass := &flow.Rule{Resource: res, TokenCalculateStrategy: flow.Direct, ControlBehavior: flow.Reject, Threshold: 1e12, StatIntervalInMs: 1000, MaxQueueingTimeMs: uint32(k)}
	block := &flow.Rule{Resource: res, TokenCalculateStrategy: flow.Direct, ControlBehavior: flow.Reject, Threshold: 0, StatIntervalInMs: 1000, MaxQueueingTimeMs: uint32(k)}
	if k%2 == 1 {
		return []*flow.Rule{pass, block}
	}
	return []*flow.Rule{block, pass}
}
func isoVersion(res string, k int) []*isolation.Rule {
	pass := &isolation.Rule{Resource: res, MetricType: isolation.Concurrency, Threshold: uint32(2000000000 + k)}
	block := &isolation.Rule{Resource: res, MetricType: isolation.Concurrency, Threshold: uint32(k)} // batch isoBatch > k
	if k%2 == 1 {
		return []*isolation.Rule{pass, block}
	}
	return []*isolation.Rule{block, pass}
}

func hotVersion(res string, k int) []*hotspot.Rule {
	pass := &hotspot.Rule{Resource: res, MetricType: hotspot.QPS, ControlBehavior: hotspot.Reject, ParamIndex: 0, Threshold: 1000000000, DurationInSec: int64(k)}
	block := &hotspot.Rule{Resource: res, MetricType: hotspot.QPS, ControlBehavior: hotspot.Reject, ParamIndex: 0, Threshold: 0, DurationInSec: int64(k)}
	if k%2 == 1 {
		return []*hotspot.Rule{pass, block}
	}
	return []*hotspot.Rule{block, pass}
}

func main() {
	if len(os.Args) < 5 {
		hx.Fatal("usage: c15 trace.ndjson seed versions traffic")
	}
	seed, _ := strconv.Atoi(os.Args[2])
	nver, _ := strconv.Atoi(os.Args[3])
	ntraffic, _ := strconv.Atoi(os.Args[4])
	nfirst := 0
	if len(os.Args) > 5 {
		nfirst, _ = strconv.Atoi(os.Args[5])
	}
	hx.InitSentinel()
	go func() { // watchdog: an API call that never returns is a deadlock
		time.Sleep(90 * time.Second)
		fmt.Fprintln(os.Stderr, "WATCHDOG: driver did not finish within 90s")
		os.Exit(4)
	}()
	var mu sync.Mutex
	var loads, reqs []rec
	var panics int32
	guard := func(what string) {
		if r := recover(); r != nil {
			atomic.AddInt32(&panics, 1)
			fmt.Fprintf(os.Stderr, "PANIC in %s: %v\n", what, r)
		}
	}
	// initial versions (k = 1) and the constant rules of r2, loaded before any traffic
	_, _ = flow.LoadRules(append(flowVersion("f_r1", 1), &flow.Rule{Resource: "f_r2", TokenCalculateStrategy: flow.Direct, ControlBehavior: flow.Reject, Threshold: 0, StatIntervalInMs: 1000, MaxQueueingTimeMs: constMarker}))
	_, _ = isolation.LoadRules(append(isoVersion("i_r1", 1), &isolation.Rule{Resource: "i_r2", MetricType: isolation.Concurrency, Threshold: constMarker}))
	hotConst := &hotspot.Rule{Resource: "p_r2", MetricType: hotspot.QPS, ControlBehavior: hotspot.Reject, ParamIndex: 0, Threshold: 0, DurationInSec: constMarker}
	_, _ = hotspot.LoadRules(append(hotVersion("p_r1", 1), hotConst))
	loads = append(loads, rec{"op": "load", "mod": "flow", "k": 1, "ls": 0, "le": 0}, rec{"op": "load", "mod": "iso", "k": 1, "ls": 0, "le": 0},
		rec{"op": "load", "mod": "hot", "k": 1, "ls": 0, "le": 0})

	var stop int32
	var wg, cw sync.WaitGroup
	// ---- churn of the version-identifying modules ----------------------------------------------
	churn := func(mod string, load func(k int, whole bool)) {
		defer cw.Done()
		defer guard("churn " + mod)
		rng := rand.New(rand.NewSource(int64(seed)*31 + int64(len(mod))))
		var mine []rec
		for k := 2; k <= nver; k++ {
			for i := rng.Intn(40); i > 0; i-- {
				runtime.Gosched()
			}
			ls := tick()
			load(k, rng.Intn(2) == 0)
			le := tick()
			mine = append(mine, rec{"op": "load", "mod": mod, "k": k, "ls": ls, "le": le})
		}
		mu.Lock()
		loads = append(loads, mine...)
		mu.Unlock()
	}
	cw.Add(3)
	go churn("hot", func(k int, whole bool) {
		// (the race-only hotspot churn on h_r1 / h_r2 uses per-resource loads and getters only, so that the whole-set
		// loads here stay the single writer of p_r1 / p_r2)
		if whole {
			_, _ = hotspot.LoadRules(append(hotVersion("p_r1", k), &hotspot.Rule{Resource: "p_r2", MetricType: hotspot.QPS, ControlBehavior: hotspot.Reject, ParamIndex: 0, Threshold: 0, DurationInSec: constMarker},
				&hotspot.Rule{Resource: "h_r2", MetricType: hotspot.Concurrency, ParamIndex: 0, Threshold: 2}))
		} else {
			_, _ = hotspot.LoadRulesOfResource("p_r1", hotVersion("p_r1", k))
		}
	})
	go churn("flow", func(k int, whole bool) {
		if whole {
			_, _ = flow.LoadRules(append(flowVersion("f_r1", k), &flow.Rule{Resource: "f_r2", TokenCalculateStrategy: flow.Direct, ControlBehavior: flow.Reject, Threshold: 0, StatIntervalInMs: 1000, MaxQueueingTimeMs: constMarker}))
		} else {
			_, _ = flow.LoadRulesOfResource("f_r1", flowVersion("f_r1", k))
		}
	})
	go churn("iso", func(k int, whole bool) {
		if whole {
			_, _ = isolation.LoadRules(append(isoVersion("i_r1", k), &isolation.Rule{Resource: "i_r2", MetricType: isolation.Concurrency, Threshold: constMarker}))
		} else {
			_, _ = isolation.LoadRulesOfResource("i_r1", isoVersion("i_r1", k))
		}
	})
	// ---- churn / readers of every other module (race, panic and deadlock freedom only) ---------------
	other := func(name string, f func(rng *rand.Rand, i int)) {
		for g := 0; g < 2; g++ { // two goroutines per module, so that its loaders and getters really overlap
			wg.Add(1)
			go func(g int) {
				defer wg.Done()
				defer guard(name)
				rng := rand.New(rand.NewSource(int64(seed)*131 + int64(len(name))*7 + int64(g)))
				for i := 0; atomic.LoadInt32(&stop) == 0; i++ {
					f(rng, i)
					runtime.Gosched()
				}
			}(g)
		}
	}
	other("cb-churn", func(rng *rand.Rand, i int) {
		rs := []*cb.Rule{{Resource: "c_r1", Strategy: cb.ErrorCount, RetryTimeoutMs: uint32(10 + i%3), MinRequestAmount: 1, StatIntervalMs: 1000, Threshold: float64(1 + i%2)},
			{Resource: "c_r2", Strategy: cb.SlowRequestRatio, RetryTimeoutMs: 50, MinRequestAmount: 5, StatIntervalMs: 1000, MaxAllowedRtMs: 50, Threshold: 0.5}}
		switch rng.Intn(5) {
		case 0:
			_, _ = cb.LoadRules(rs)
		case 1:
			_, _ = cb.LoadRulesOfResource("c_r1", rs[:1])
		case 2:
			_ = cb.ClearRulesOfResource("c_r1")
		case 3:
			_ = cb.GetRules()
		default:
			_ = cb.GetRulesOfResource("c_r1")
		}
	})
	other("hotspot-churn", func(rng *rand.Rand, i int) {
		rs := []*hotspot.Rule{{Resource: "h_r1", MetricType: hotspot.QPS, ControlBehavior: hotspot.Reject, ParamIndex: 0, Threshold: int64(1 + i%3), BurstCount: 0, DurationInSec: 1},
			{Resource: "h_r2", MetricType: hotspot.Concurrency, ParamIndex: 0, Threshold: 2}}
		switch rng.Intn(5) {
		case 0:
			_, _ = hotspot.LoadRulesOfResource("h_r2", rs[1:])
		case 1:
			_, _ = hotspot.LoadRulesOfResource("h_r1", rs[:1])
		case 2:
			_ = hotspot.ClearRulesOfResource("h_r1")
		case 3:
			_ = hotspot.GetRules()
		default:
			_ = hotspot.GetRulesOfResource("h_r1")
		}
	})
	other("system-churn", func(rng *rand.Rand, i int) {
		switch rng.Intn(3) {
		case 0:
			_, _ = system.LoadRules([]*system.Rule{{MetricType: system.Concurrency, TriggerCount: float64(1000000 + i%2), Strategy: system.NoAdaptive}})
		case 1:
			_ = system.GetRules()
		default:
			if i%50 == 0 {
				_ = system.ClearRules()
			}
		}
	})
	other("outlier-churn", func(rng *rand.Rand, i int) {
		r := &outlier.Rule{Rule: &cb.Rule{Resource: "o_r1", Strategy: cb.ErrorCount, RetryTimeoutMs: 100, MinRequestAmount: 1, StatIntervalMs: 1000, Threshold: float64(1 + i%2)},
			MaxEjectionPercent: 0.5, RecoveryIntervalMs: 1000, MaxRecoveryAttempts: 2}
		switch rng.Intn(4) {
		case 0:
			_, _ = outlier.LoadRules([]*outlier.Rule{r})
		case 1:
			_, _ = outlier.LoadRuleOfResource("o_r1", r)
		case 2:
			_ = outlier.GetRules()
		default:
			_ = outlier.ClearRuleOfResource("o_r1")
		}
	})
	other("flow-iso-readers", func(rng *rand.Rand, i int) {
		_ = flow.GetRules()
		_ = flow.GetRulesOfResource("f_r1")
		_ = isolation.GetRules()
		_ = isolation.GetRulesOfResource("i_r1")
	})
	other("stat-readers", func(rng *rand.Rand, i int) {
		for _, n := range stat.ResourceNodeList() {
			_ = n.GetQPS(base.MetricEventPass)
			_ = n.GetSum(base.MetricEventBlock)
			_ = n.AvgRT()
			_ = n.MinRT()
			_ = n.CurrentConcurrency()
			_ = n.MaxConcurrency()
		}
		_ = stat.InboundNode().GetQPS(base.MetricEventPass)
		_ = stat.GetResourceNode("f_r1")
	})
	// ---- traffic --------------------------------------------------------------------------------
	resources := []string{"f_r1", "f_r2", "i_r1", "i_r2", "p_r1", "p_r2", "c_r1", "c_r2", "h_r1", "h_r2", "o_r1", "x_plain"}
	for t := 0; t < ntraffic; t++ {
		wg.Add(1)
		go func(t int) {
			defer wg.Done()
			defer guard("traffic")
			rng := rand.New(rand.NewSource(int64(seed)*1009 + int64(t)))
			var mine []rec
			for atomic.LoadInt32(&stop) == 0 {
				res := resources[rng.Intn(len(resources))]
				opts := []api.EntryOption{api.WithTrafficType(base.TrafficType(rng.Intn(2)))}
				if res[0] == 'i' {
					opts = append(opts, api.WithBatchCount(isoBatch))
				}
				if res[0] == 'h' || res[0] == 'p' {
					opts = append(opts, api.WithArgs(rng.Intn(3)))
				}
				inv := tick()
				e, b := api.Entry(res, opts...)
				ret := tick()
				if res[0] == 'f' || res[0] == 'i' || res[0] == 'p' {
					r := rec{"op": "req", "res": res, "inv": inv, "ret": ret, "pass": b == nil, "marker": -1}
					if b != nil {
						switch x := b.TriggeredRule().(type) {
						case *flow.Rule:
							r["marker"] = int(x.MaxQueueingTimeMs)
						case *isolation.Rule:
							r["marker"] = int(x.Threshold)
						case *hotspot.Rule:
							r["marker"] = int(x.DurationInSec)
						}
					}
					mine = append(mine, r)
				}
				if b == nil {
					if rng.Intn(3) == 0 {
						api.TraceError(e, errors.New("x"))
					}
					if res[0] == 'o' {
						api.TraceCallee(e, "10.0.0."+strconv.Itoa(rng.Intn(3)))
					}
					e.Exit()
					if rng.Intn(8) == 0 {
						e.Exit() // repeated Exit
					}
				}
			}
			mu.Lock()
			reqs = append(reqs, mine...)
			mu.Unlock()
		}(t)
	}
	cw.Wait()
	for i := 0; i < 200; i++ { // let traffic observe the last versions for a moment
		runtime.Gosched()
	}
	atomic.StoreInt32(&stop, 1)
	wg.Wait()

	var fuRecs []rec
	func() {
		defer guard("first use")
		fuRecs = firstUse(seed, nfirst)
	}()

	tr := hx.NewTrace(os.Args[1])
	tr.Emit(rec{"op": "new", "tr": seed, "nver": nver, "const": constMarker})
	for _, l := range loads {
		tr.Emit(l)
	}
	// keep the trace small: every request that passed, every request that raced with a load of its module
	// (its [inv, ret] overlaps a load's [ls, le]) up to a cap, and a thin sample of the rest
	type iv struct{ ls, le uint64 }
	byMod := map[string][]iv{}
	for _, l := range loads {
		m := l["mod"].(string)
		ls, _ := l["ls"].(uint64)
		le, _ := l["le"].(uint64)
		byMod[m] = append(byMod[m], iv{ls, le})
	}
	racing, kept := 0, 0
	for i, r := range reqs {
		m := "flow"
		if r["res"].(string)[0] == 'i' {
			m = "iso"
		} else if r["res"].(string)[0] == 'p' {
			m = "hot"
		}
		inv, ret := r["inv"].(uint64), r["ret"].(uint64)
		over := false
		for _, x := range byMod[m] {
			if x.le != 0 && x.ls < ret && inv < x.le {
				over = true
				break
			}
		}
		if over {
			racing++
		}
		if r["pass"] == true || (over && kept < 9000) || i%97 == 0 {
			tr.Emit(r)
			kept++
		}
	}
	for _, r := range fuRecs {
		tr.Emit(r)
	}
	tr.Emit(rec{"op": "end", "panics": int(atomic.LoadInt32(&panics)), "requests": len(reqs), "racing": racing, "loads": len(loads), "rounds": nfirst})
	tr.Close()
	if atomic.LoadInt32(&panics) > 0 {
		os.Exit(5)
	}
}

// ---- first use ---------------------------------------------------------------------------------------


func markerOf(b *base.BlockError) int {
	switch x := b.TriggeredRule().(type) {
	case *flow.Rule:
		return int(x.Threshold)
	case *isolation.Rule:
		return int(x.Threshold)
	}
	return -3
}

// inForce returns the threshold of the single rule in force for target (-1: none, -2: more than one)
func inForce(kind, target string) int {
	if kind == "iso" {
		rs := isolation.GetRulesOfResource(target)
		if len(rs) == 0 {
			return -1
		} else if len(rs) > 1 {
			return -2
		}
		return int(rs[0].Threshold)
	}
	rs := flow.GetRulesOfResource(target)
	if len(rs) == 0 {
		return -1
	} else if len(rs) > 1 {
		return -2
	}
	return int(rs[0].Threshold)
}

func loadOne(kind, res, target string, thr int, interval uint32, whole bool) {
	switch kind {
	case "flow", "assoc":
		r := &flow.Rule{Resource: target, TokenCalculateStrategy: flow.Direct, ControlBehavior: flow.Reject, Threshold: float64(thr), StatIntervalInMs: interval}
		if kind == "assoc" {
			r.RelationStrategy = flow.AssociatedResource
			r.RefResource = res
		}
		if whole {
			_, _ = flow.LoadRules([]*flow.Rule{r})
		} else {
			_, _ = flow.LoadRulesOfResource(target, []*flow.Rule{r})
		}
	case "iso":
		r := &isolation.Rule{Resource: target, MetricType: isolation.Concurrency, Threshold: uint32(thr)}
		if whole {
			_, _ = isolation.LoadRules([]*isolation.Rule{r})
		} else {
			_, _ = isolation.LoadRulesOfResource(target, []*isolation.Rule{r})
		}
	}
}

func statRec(res string) rec {
	n := stat.GetResourceNode(res)
	if n == nil {
		return rec{"op": "stat", "node": false, "pass": 0, "block": 0, "conc": 0, "complete": 0}
	}
	return rec{"op": "stat", "node": true, "pass": int(n.GetSum(base.MetricEventPass)), "block": int(n.GetSum(base.MetricEventBlock)),
		"conc": int(n.CurrentConcurrency()), "complete": int(n.GetSum(base.MetricEventComplete))}
}

func firstUse(seed, rounds int) []rec {
	var out []rec
	if rounds <= 0 {
		return out
	}
	vc := hx.NewVClock(hx.BaseMs(10000) * 1e6) // frozen: every request of a round falls into one window
	vc.Install()
	_ = flow.ClearRules()
	_ = isolation.ClearRules()
	rng := rand.New(rand.NewSource(int64(seed)*7919 + 5))
	kinds := []string{"flow", "flow", "iso", "iso", "assoc"}
	intervals := []uint32{1000, 1000, 2000, 5000}
	for round := 0; round < rounds; round++ {
		kind := kinds[rng.Intn(len(kinds))]
		res := fmt.Sprintf("u%d_%d", seed, round) // never seen before
		target := res
		if kind == "assoc" {
			target = res + "_a"
		}
		ne := 2 + rng.Intn(4)
		nl := rng.Intn(3)
		if kind == "assoc" {
			nl = 1 + rng.Intn(2)
		}
		thr0 := ne - 1 + rng.Intn(4)
		interval := intervals[rng.Intn(len(intervals))]
		pre := false
		loaded := []int{}
		if kind == "iso" && nl == 0 && rng.Intn(2) == 0 { // isolation does not create the node: a rule loaded beforehand keeps the resource fresh
			pre = true
			loadOne(kind, res, target, thr0, interval, false)
			loaded = append(loaded, thr0)
		}
		n := ne + nl
		var arrived int32
		barrier := func() {
			atomic.AddInt32(&arrived, 1)
			for i := 0; atomic.LoadInt32(&arrived) < int32(n); i++ {
				if i > 20000 {
					runtime.Gosched()
				}
			}
		}
		type outcome struct {
			e *base.SentinelEntry
			b *base.BlockError
		}
		results := make([]outcome, ne)
		var panicked int32
		var fw sync.WaitGroup
		roles := make([]func(), 0, n)
		for j := 0; j < ne; j++ {
			j := j
			roles = append(roles, func() {
				barrier()
				e, b := api.Entry(res)
				results[j] = outcome{e, b}
			})
		}
		for j := 0; j < nl; j++ {
			t, whole := thr0+j, rng.Intn(3) == 0
			loaded = append(loaded, t)
			roles = append(roles, func() {
				barrier()
				loadOne(kind, res, target, t, interval, whole)
			})
		}
		rng.Shuffle(len(roles), func(a, b int) { roles[a], roles[b] = roles[b], roles[a] })
		for _, f := range roles {
			f := f
			fw.Add(1)
			go func() {
				defer fw.Done()
				defer func() {
					if r := recover(); r != nil {
						atomic.AddInt32(&panicked, 1)
						atomic.StoreInt32(&arrived, int32(n)) // do not leave the others spinning
						fmt.Fprintf(os.Stderr, "PANIC in first use: %v\n", r)
					}
				}()
				f()
			}()
		}
		fw.Wait()
		if panicked > 0 {
			panic("first-use round panicked")
		}
		// ---- quiescent: record what happened and what is in force, then probe sequentially -------------
		var onRes, onA []*base.SentinelEntry
		rpass, rblock := 0, 0
		rmarks := []int{}
		for _, o := range results {
			if o.b == nil {
				rpass++
				onRes = append(onRes, o.e)
			} else {
				rblock++
				rmarks = append(rmarks, markerOf(o.b))
			}
		}
		thr := inForce(kind, target)
		out = append(out, rec{"op": "fu", "round": round, "kind": kind, "res": res, "ne": ne, "pre": pre, "interval": int(interval), "loaded": loaded, "thr": thr,
			"rpass": rpass, "rblock": rblock, "rmarks": rmarks})
		adm, inflight := rpass, rpass
		probe := func(on string) {
			name := res
			if on == "a" {
				name = target
			}
			e, b := api.Entry(name)
			r := rec{"op": "probe", "on": on, "pass": b == nil, "marker": -1}
			if b != nil {
				r["marker"] = markerOf(b)
			} else if on == "a" {
				onA = append(onA, e)
			} else {
				onRes = append(onRes, e)
				adm++
				inflight++
			}
			out = append(out, r)
		}
		probeAll := func(t int) {
			switch kind {
			case "flow":
				for i, np := 0, clamp(t-adm+2, 2, 8); i < np; i++ {
					probe("res")
				}
			case "iso":
				for i, np := 0, clamp(t-inflight+2, 2, 8); i < np; i++ {
					probe("res")
				}
			case "assoc": // requests of the fresh resource are never limited; requests of the referring one are, by its count
				for i, np := 0, clamp(t-adm+2, 2, 6); i < np; i++ {
					probe("a")
					probe("res")
				}
				probe("a")
			}
		}
		probeAll(thr)
		out = append(out, statRec(res))
		if thr > 0 && rng.Intn(3) == 0 { // a sequential reload reuses what the first load bound
			want := thr + 2
			loadOne(kind, res, target, want, interval, rng.Intn(3) == 0)
			thr = inForce(kind, target)
			out = append(out, rec{"op": "reload", "want": want, "thr": thr})
			probeAll(thr)
			out = append(out, statRec(res))
		}
		for _, e := range onRes {
			e.Exit()
		}
		for _, e := range onA {
			e.Exit()
		}
		out = append(out, rec{"op": "release"}, statRec(res))
		if kind == "iso" {
			_ = isolation.ClearRulesOfResource(target)
		} else {
			_ = flow.ClearRulesOfResource(target)
		}
	}
	return out
}

func clamp(x, lo, hi int) int {
	if x < lo {
		return lo
	}
	if x > hi {
		return hi
	}
	return x
}
