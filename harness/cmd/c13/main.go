// c13 drives the rule managers of the six rule modules of the real code (flow, isolation, hotspot,
// circuitbreaker, system, outlier) with sequences of LoadRules / LoadRulesOfResource / ClearRules /
// ClearRulesOfResource over lists of RULE TOKENS and records, after every call: what the call returned
// (changed, err, panicked), what the getters return, and the answers of probing requests (each valid token
// has a request that only its rule blocks, each invalid token a request its rule would block if it were
// in force).  The recorded trace is validated against spec/RuleStore_Trace.tla (property C13).
//
// Tokens: R1..R3 valid rules, I1..I3 invalid rules (the scenario's "var" says WHICH field-wise invalidity of
// the module's IsValid... function each of them carries), Nil a nil element.  Every call gets freshly
// allocated rule objects.  The rule ID is derived from the token ("R1@r1"), i.e. from the semantic fields.
//
// NEAR-EQUAL VARIANTS: a token "R2a" / "R2b" is the rule of "R2" with ONE field changed slightly (a fractional
// threshold, +-1 on an integer field, a flipped enum); the scenario's "var" selects which entry of the module's delta
// table (near()) it carries.  Every field the module's rule equality / controller reuse looks at has an entry.  A
// variant is a DIFFERENT rule (own ID "R2a@r1"): after a reload R2 -> R2a the getters must report R2a, a refusal must
// name R2a, and the probing traffic tells the variants apart where their behaviour differs (an error-count breaker
// with threshold 3 / 3.5 / 2 opens on the 3rd / 4th / 2nd error).  The probe table written into the "new" event is
// computed per scenario from the delta table.
//
// usage: c13 <scenarios.ndjson> <trace.ndjson>
//
//	c13 -describe     prints {module: {base token: [delta names]}} (the check sizes its scenario families with it)
//	c13 -calibrate    loads every token alone on a fresh resource and compares the probes it refuses with the
//	                  declared table (maintenance aid for the delta tables; not used for verdicts)
package main

import (
	"encoding/json"
	"errors"
	"fmt"
	"math"
	"os"
	"sort"
	"strings"

	"github.com/alibaba/sentinel-golang/api"
	"github.com/alibaba/sentinel-golang/core/base"
	cb "github.com/alibaba/sentinel-golang/core/circuitbreaker"
	"github.com/alibaba/sentinel-golang/core/flow"
	"github.com/alibaba/sentinel-golang/core/hotspot"
	"github.com/alibaba/sentinel-golang/core/isolation"
	"github.com/alibaba/sentinel-golang/core/outlier"
	"github.com/alibaba/sentinel-golang/core/system"
	"github.com/alibaba/sentinel-golang/core/system_metric"

	"verifharness/hx"
)

type el struct{ Tok, Res string }

var (
	clk      *hx.VClock
	baseMs   int64
	nowMs    int64
	tr       int64
	vars     map[string]int64 // invalid token -> variant number
	errBiz   = errors.New("biz")
	outChain *base.SlotChain
)

func adv(ms int64) { nowMs += ms; clk.SetMs(baseMs + nowMs) }

// concrete resource name of an abstract one for the running scenario
func cres(abs string) string { return fmt.Sprintf("c13_%d_%s", tr, abs) }
func absres(c string) string {
	p := fmt.Sprintf("c13_%d_", tr)
	if strings.HasPrefix(c, p) {
		return strings.TrimPrefix(c, p)
	}
	if c == "" {
		return "empty"
	}
	return "other"
}
func id(e el) string { return e.Tok + "@" + e.Res }
func parseID(s string) el {
	i := strings.IndexByte(s, '@')
	if i < 0 {
		return el{"?" + s, "?"}
	}
	return el{s[:i], s[i+1:]}
}
func variant(tok string, n int64) int64 { return ((vars[tok] % n) + n) % n }

// ---------------------------------------------------------------------------------------------------
// near-equal variants

var nearToks = []string{"R1a", "R1b", "R2a", "R2b", "R3a", "R3b"}

func isNear(tok string) bool { return len(tok) == 3 && tok[0] == 'R' }
func baseTok(tok string) string {
	if isNear(tok) {
		return tok[:2]
	}
	return tok
}

// one entry of a module's delta table: the base token, the field change (name), and the probes the changed rule
// refuses: same = exactly those of the base rule, otherwise the list blocks
type nearDelta struct {
	base, name string
	same       bool
	blocks     []string
}

func same(base, name string) nearDelta { return nearDelta{base: base, name: name, same: true} }
func blk(base, name string, probes ...string) nearDelta {
	return nearDelta{base: base, name: name, blocks: probes}
}

func hasNear(m module, base string) bool {
	for _, d := range m.near() {
		if d.base == base {
			return true
		}
	}
	return false
}

// index (into m.near()) of the delta a near token carries in the running scenario; -1 for any other token
func nearIdx(m module, tok string) int {
	if !isNear(tok) {
		return -1
	}
	var idx []int
	for i, d := range m.near() {
		if d.base == tok[:2] {
			idx = append(idx, i)
		}
	}
	if len(idx) == 0 {
		hx.Fatal("token %s: the module has no near-equal variant of %s", tok, tok[:2])
	}
	return idx[variant(tok, int64(len(idx)))]
}

// the probe table of the running scenario: the module's table of the base tokens + the near tokens
func scenarioProbeTable(m module) map[string][]string {
	t := map[string][]string{}
	for p, toks := range m.probeTable() {
		t[p] = append([]string{}, toks...)
	}
	for _, tok := range nearToks {
		if !hasNear(m, tok[:2]) {
			continue
		}
		d := m.near()[nearIdx(m, tok)]
		var ps []string
		if d.same {
			for p, toks := range m.probeTable() {
				for _, x := range toks {
					if x == d.base {
						ps = append(ps, p)
					}
				}
			}
		} else {
			ps = d.blocks
		}
		for _, p := range ps {
			if _, ok := t[p]; !ok {
				hx.Fatal("delta %q of %s: unknown probe %q", d.name, d.base, p)
			}
			t[p] = append(t[p], tok)
		}
	}
	for p := range t {
		sort.Strings(t[p])
	}
	return t
}

// ---------------------------------------------------------------------------------------------------
// the module adapters

type module interface {
	desc() (perRes, rejects, ordered, resGetter bool)
	resources() []string
	probeTable() map[string][]string
	near() []nearDelta
	nvariants() int64
	load(list []el) (bool, error)
	loadRes(res string, list []el) (bool, error)
	clear() error
	clearRes(res string) error
	getAll() map[string][]el
	getRes(res string) []el
	probe(res string) []hx.M
}

// scnRes: the resources of the running scenario when its "new" record names them ("res": large-list scenarios use up
// to five), nil = the module's own
var scnRes []string

func ressOf(m module) []string {
	if scnRes != nil {
		return scnRes
	}
	return m.resources()
}

func grouped(ress []string) map[string][]el {
	if scnRes != nil {
		ress = scnRes
	}
	m := map[string][]el{}
	for _, r := range ress {
		m[r] = []el{}
	}
	return m
}

// who blocked: the token of the triggered rule, "?..." if it cannot be attributed to a rule of resource res
func who(b *base.BlockError, res string) string {
	var rid string
	switch r := b.TriggeredRule().(type) {
	case *flow.Rule:
		if r != nil {
			rid = r.ID
		}
	case *isolation.Rule:
		if r != nil {
			rid = r.ID
		}
	case *hotspot.Rule:
		if r != nil {
			rid = r.ID
		}
	case *cb.Rule:
		if r != nil {
			rid = r.Id
		}
	case *system.Rule:
		if r != nil {
			rid = r.ID
		}
	}
	e := parseID(rid)
	if e.Res != res {
		return "?" + rid
	}
	return e.Tok
}

// one request: returns the entry (nil if blocked) and who blocked it ("pass" if admitted)
func entry(res string, abs string, opts ...api.EntryOption) (*base.SentinelEntry, string) {
	e, b := api.Entry(res, opts...)
	if b != nil {
		return nil, who(b, abs)
	}
	return e, "pass"
}

// a probe is a short sequence of requests; its answer is the first block met anywhere in it
type answer struct{ by string }

func (a *answer) see(by string) {
	if a.by == "pass" && by != "pass" {
		a.by = by
	}
}
func pr(res, p string, a *answer) hx.M { return hx.M{"res": res, "p": p, "by": a.by} }

// ------------------------------------------------------------------------------------------ flow
type flowMod struct{}

func (flowMod) desc() (bool, bool, bool, bool) { return true, false, true, true }
func (flowMod) resources() []string            { return []string{"r1", "r2"} }
func (flowMod) nvariants() int64               { return 16 }
func (flowMod) probeTable() map[string][]string {
	return map[string][]string{"p1": {"R1"}, "p1m": {}, "p2": {"R2"}, "p3": {"R3"}, "all": {"R1", "R2", "R3"}, "pinv": {"I1", "I2", "I3", "Nil"}}
}

// every field flow.Rule.isEqualsTo / isStatReusable looks at (Resource is the element's resource).  Fields a strategy
// does not read (warm-up / queueing / memory fields of a Direct+Reject rule) still make a different rule.
var flowNear = []struct {
	nearDelta
	f func(r *flow.Rule)
}{
	// R1 = Direct/Reject, 5 per 1000 ms: p1 asks for 6, p1m for 5, "all" for 1 + 6
	{blk("R1", "Threshold 6", "all"), func(r *flow.Rule) { r.Threshold = 6 }},
	{blk("R1", "Threshold 4", "p1", "p1m", "all"), func(r *flow.Rule) { r.Threshold = 4 }},
	{same("R1", "Threshold 5.5"), func(r *flow.Rule) { r.Threshold = 5.5 }},
	{same("R1", "StatIntervalInMs 2000"), func(r *flow.Rule) { r.StatIntervalInMs = 2000 }},
	{same("R1", "MaxQueueingTimeMs 1"), func(r *flow.Rule) { r.MaxQueueingTimeMs = 1 }},
	{same("R1", "WarmUpPeriodSec 1"), func(r *flow.Rule) { r.WarmUpPeriodSec = 1 }},
	{same("R1", "WarmUpColdFactor 2"), func(r *flow.Rule) { r.WarmUpColdFactor = 2 }},
	{same("R1", "LowMemUsageThreshold 1"), func(r *flow.Rule) { r.LowMemUsageThreshold = 1 }},
	{same("R1", "HighMemUsageThreshold 1"), func(r *flow.Rule) { r.HighMemUsageThreshold = 1 }},
	{same("R1", "MemLowWaterMarkBytes 1"), func(r *flow.Rule) { r.MemLowWaterMarkBytes = 1 }},
	{same("R1", "MemHighWaterMarkBytes 1"), func(r *flow.Rule) { r.MemHighWaterMarkBytes = 1 }},
	// R2 = WarmUp/Reject 100 on the statistics of the associated resource <res>_a (p2 / all make it pass 100)
	{same("R2", "Threshold 101"), func(r *flow.Rule) { r.Threshold = 101 }},
	{same("R2", "Threshold 99"), func(r *flow.Rule) { r.Threshold = 99 }},
	{same("R2", "WarmUpPeriodSec 11"), func(r *flow.Rule) { r.WarmUpPeriodSec = 11 }},
	{same("R2", "WarmUpColdFactor 2"), func(r *flow.Rule) { r.WarmUpColdFactor = 2 }},
	{blk("R2", "RefResource _b"), func(r *flow.Rule) { r.RefResource = r.Resource + "_b" }},
	{blk("R2", "RelationStrategy CurrentResource"), func(r *flow.Rule) { r.RelationStrategy = flow.CurrentResource }},
	{same("R2", "TokenCalculateStrategy Direct"), func(r *flow.Rule) { r.TokenCalculateStrategy = flow.Direct }},
	// R3 = Direct/Throttling 10 per 10 s, no queueing: p3 sends two requests at one instant
	{same("R3", "Threshold 11"), func(r *flow.Rule) { r.Threshold = 11 }},
	{same("R3", "Threshold 9"), func(r *flow.Rule) { r.Threshold = 9 }},
	{same("R3", "MaxQueueingTimeMs 1"), func(r *flow.Rule) { r.MaxQueueingTimeMs = 1 }},
	{same("R3", "StatIntervalInMs 9000"), func(r *flow.Rule) { r.StatIntervalInMs = 9000 }},
	{blk("R3", "ControlBehavior Reject"), func(r *flow.Rule) { r.ControlBehavior = flow.Reject }},
}

func (flowMod) near() []nearDelta {
	out := make([]nearDelta, len(flowNear))
	for i, d := range flowNear {
		out[i] = d.nearDelta
	}
	return out
}
func (m flowMod) mk(e el) *flow.Rule {
	res := cres(e.Res)
	if p, ok := param(e.Tok); ok {
		return flowParam(e, p)
	}
	r := &flow.Rule{ID: id(e), Resource: res}
	if i := nearIdx(m, e.Tok); i >= 0 {
		r = m.mk(el{baseTok(e.Tok), e.Res})
		r.ID = id(e)
		flowNear[i].f(r)
		return r
	}
	switch e.Tok {
	case "Nil":
		return nil
	case "R1":
		r.TokenCalculateStrategy, r.ControlBehavior, r.Threshold, r.StatIntervalInMs = flow.Direct, flow.Reject, 5, 1000
	case "R2": // warm-up on the statistics of an associated resource; cold factor left at its zero value
		r.TokenCalculateStrategy, r.ControlBehavior, r.Threshold = flow.WarmUp, flow.Reject, 100
		r.RelationStrategy, r.RefResource, r.WarmUpPeriodSec = flow.AssociatedResource, res+"_a", 10
	case "R3": // pacing: one request per second, no queueing
		r.TokenCalculateStrategy, r.ControlBehavior, r.Threshold, r.StatIntervalInMs = flow.Direct, flow.Throttling, 10, 10000
	default: // invalid: a rule that would block the "pinv" probe, with ONE field broken
		r.TokenCalculateStrategy, r.ControlBehavior, r.Threshold, r.StatIntervalInMs = flow.Direct, flow.Reject, 1, 1000
		ma := func() {
			r.TokenCalculateStrategy = flow.MemoryAdaptive
			r.LowMemUsageThreshold, r.HighMemUsageThreshold, r.MemLowWaterMarkBytes, r.MemHighWaterMarkBytes = 2, 1, 1024, 2048
		}
		switch variant(e.Tok, 16) {
		case 0:
			r.Resource = ""
		case 1:
			r.Threshold = -1
		case 2:
			r.TokenCalculateStrategy = -1
		case 3:
			r.ControlBehavior = -1
		case 4:
			r.RelationStrategy = 2
		case 5:
			r.RelationStrategy = -1
		case 6:
			r.RelationStrategy, r.RefResource = flow.AssociatedResource, ""
		case 7:
			r.TokenCalculateStrategy, r.WarmUpPeriodSec, r.WarmUpColdFactor = flow.WarmUp, 0, 3
		case 8:
			r.TokenCalculateStrategy, r.WarmUpPeriodSec, r.WarmUpColdFactor = flow.WarmUp, 10, 1
		case 9:
			ma()
			r.LowMemUsageThreshold = 0
		case 10:
			ma()
			r.HighMemUsageThreshold = 0
		case 11:
			ma()
			r.HighMemUsageThreshold = 2
		case 12:
			ma()
			r.MemLowWaterMarkBytes = 0
		case 13:
			ma()
			r.MemHighWaterMarkBytes = 0
		case 14:
			ma()
			r.MemHighWaterMarkBytes = math.MaxInt64
		case 15:
			ma()
			r.MemLowWaterMarkBytes = 2048
		}
	}
	return r
}
func (m flowMod) mkList(list []el) []*flow.Rule {
	out := make([]*flow.Rule, 0, len(list))
	for _, e := range list {
		out = append(out, m.mk(e))
	}
	return out
}
func (m flowMod) load(list []el) (bool, error) { return flow.LoadRules(m.mkList(list)) }
func (m flowMod) loadRes(r string, l []el) (bool, error) {
	return flow.LoadRulesOfResource(cres(r), m.mkList(l))
}
func (flowMod) clear() error            { return flow.ClearRules() }
func (flowMod) clearRes(r string) error { return flow.ClearRulesOfResource(cres(r)) }
func (m flowMod) getAll() map[string][]el {
	g := grouped(m.resources())
	for _, r := range flow.GetRules() {
		k := absres(r.Resource)
		g[k] = append(g[k], parseID(r.ID))
	}
	return g
}
func (flowMod) getRes(res string) []el {
	out := []el{}
	for _, r := range flow.GetRulesOfResource(cres(res)) {
		out = append(out, parseID(r.ID))
	}
	return out
}
func (flowMod) probe(abs string) []hx.M {
	res := cres(abs)
	one := func(a *answer, batch uint32) {
		e, by := entry(res, abs, api.WithBatchCount(batch))
		a.see(by)
		if e != nil {
			e.Exit()
		}
	}
	ref := func() {
		if e, _ := entry(res+"_a", abs, api.WithBatchCount(100)); e != nil {
			e.Exit()
		}
	}
	var out []hx.M
	// p1: 6 tokens at once on an idle resource: only the threshold-5 rule objects
	adv(20000)
	a := &answer{"pass"}
	one(a, 6)
	out = append(out, pr(abs, "p1", a))
	// p1m: 5 tokens at once on an idle resource: only a threshold below 5 objects
	adv(20000)
	a = &answer{"pass"}
	one(a, 5)
	out = append(out, pr(abs, "p1m", a))
	// p2: the associated resource is busy: only the rule bound to its statistics objects
	adv(20000)
	a = &answer{"pass"}
	ref()
	one(a, 1)
	out = append(out, pr(abs, "p2", a))
	// p3: two requests at the same instant: only the pacing rule objects to the second
	adv(20000)
	a = &answer{"pass"}
	one(a, 1)
	one(a, 1)
	out = append(out, pr(abs, "p3", a))
	// all: a request every valid rule objects to: the first rule in list order must be the one named
	adv(20000)
	a = &answer{"pass"}
	one(a, 1)
	ref()
	one(a, 6)
	out = append(out, pr(abs, "all", a))
	// pinv: 3 tokens on an idle resource: admitted by every valid rule, refused by the invalid ones were they in force
	adv(20000)
	a = &answer{"pass"}
	one(a, 3)
	out = append(out, pr(abs, "pinv", a))
	return out
}

// ------------------------------------------------------------------------------------------ isolation
type isoMod struct{}

func (isoMod) desc() (bool, bool, bool, bool) { return true, false, true, true }
func (isoMod) resources() []string            { return []string{"r1", "r2"} }
func (isoMod) nvariants() int64               { return 3 }
func (isoMod) probeTable() map[string][]string {
	return map[string][]string{"p1": {"R1"}, "p2": {"R1", "R2"}, "p3": {"R1", "R2", "R3"}, "p4": {"R1", "R2", "R3"}, "pinv": {"I1", "I2", "I3", "Nil"}}
}

// isolation has no rule equality of its own (DeepEqual of the lists only) and one numeric field: thresholds 1 / 2 / 3
// are the base tokens, 4 is the only neighbour that is not another token
func (isoMod) near() []nearDelta { return []nearDelta{blk("R3", "Threshold 4", "p4")} }
func (m isoMod) mk(e el) *isolation.Rule {
	if p, ok := param(e.Tok); ok {
		return isoParam(e, p)
	}
	r := &isolation.Rule{ID: id(e), Resource: cres(e.Res), MetricType: isolation.Concurrency}
	if i := nearIdx(m, e.Tok); i >= 0 {
		r.Threshold = 4
		return r
	}
	switch e.Tok {
	case "Nil":
		return nil
	case "R1":
		r.Threshold = 1
	case "R2":
		r.Threshold = 2
	case "R3":
		r.Threshold = 3
	default:
		r.Threshold = 1
		switch variant(e.Tok, 3) {
		case 0:
			r.Resource = ""
		case 1:
			r.MetricType = 1
		case 2:
			r.Threshold = 0
		}
	}
	return r
}
func (m isoMod) mkList(list []el) []*isolation.Rule {
	out := make([]*isolation.Rule, 0, len(list))
	for _, e := range list {
		out = append(out, m.mk(e))
	}
	return out
}
func (m isoMod) load(list []el) (bool, error) { return isolation.LoadRules(m.mkList(list)) }
func (m isoMod) loadRes(r string, l []el) (bool, error) {
	return isolation.LoadRulesOfResource(cres(r), m.mkList(l))
}
func (isoMod) clear() error            { return isolation.ClearRules() }
func (isoMod) clearRes(r string) error { return isolation.ClearRulesOfResource(cres(r)) }
func (m isoMod) getAll() map[string][]el {
	g := grouped(m.resources())
	for _, r := range isolation.GetRules() {
		k := absres(r.Resource)
		g[k] = append(g[k], parseID(r.ID))
	}
	return g
}
func (isoMod) getRes(res string) []el {
	out := []el{}
	for _, r := range isolation.GetRulesOfResource(cres(res)) {
		out = append(out, parseID(r.ID))
	}
	return out
}
func (isoMod) probe(abs string) []hx.M {
	res := cres(abs)
	var out []hx.M
	// p<k>: k+1 tokens at once with nothing in flight: refused by the rules with threshold <= k (p4 tells 3 from 4); pinv: 1 token
	for _, p := range []struct {
		name  string
		batch uint32
	}{{"p1", 2}, {"p2", 3}, {"p3", 4}, {"p4", 5}, {"pinv", 1}} {
		adv(20000)
		a := &answer{"pass"}
		e, by := entry(res, abs, api.WithBatchCount(p.batch))
		a.see(by)
		if e != nil {
			e.Exit()
		}
		out = append(out, pr(abs, p.name, a))
	}
	return out
}

// ------------------------------------------------------------------------------------------ hotspot
type hotMod struct{}

func (hotMod) desc() (bool, bool, bool, bool) { return true, false, true, true }
func (hotMod) resources() []string            { return []string{"r1", "r2"} }
func (hotMod) nvariants() int64               { return 9 }
func (hotMod) probeTable() map[string][]string {
	return map[string][]string{"p1": {"R1"}, "p2": {"R2"}, "p3": {"R3"}, "all": {"R1", "R2", "R3"},
		"p1x2": {"R1"}, "p2x2": {"R2"}, "p3x2": {"R3"}, "p3w": {}, "p3wx4": {}, "p3i": {}, "p3s": {}, "pinv": {"I1", "I2", "I3", "Nil"}}
}

// every field hotspot.Rule.Equals / IsStatReusable looks at (ParamIndex cannot change alone: an index together with a
// key is invalid).  A threshold of 1 admits the single request of p<k>; p<k>x2 observes the SECOND of two requests at
// one instant, which a threshold of 1 refuses as well.
// COMPOSITE FIELD SpecificItems (a map): variants that differ in ONE ENTRY - a key replaced in a map of the same size (the
// dropped key's threshold 0 / non-zero), an entry added / removed, a value changed, nil vs the empty map, an int key vs the
// string key with the same digits (the key types ext/datasource/hotspot_rule_converter.go produces).  Consecutive entries of
// the table are reloaded over each other (the scenario families pair delta k with delta k+1), so the order below makes every
// one of these one-entry changes a reload.  The probes p3w / p3wx4 / p3i / p3s send attachment k3 = "w" (once / the 4th of
// four at one instant) / int 7 / "7": each key is limited by ITS OWN threshold (0 = refused, 3 = the 4th refused) or, when the
// map does not hold it, by the rule's general threshold (1000 = admitted).
var hotNear = []struct {
	nearDelta
	f func(r *hotspot.Rule)
}{
	// R1 = QPS/Reject on attachment k1, threshold 0, SpecificItems nil
	{blk("R1", "Threshold 1", "p1x2"), func(r *hotspot.Rule) { r.Threshold = 1 }},
	{same("R1", "BurstCount 1"), func(r *hotspot.Rule) { r.BurstCount = 1 }},
	{same("R1", "ParamsMaxCapacity 1"), func(r *hotspot.Rule) { r.ParamsMaxCapacity = 1 }},
	{same("R1", "DurationInSec 2"), func(r *hotspot.Rule) { r.DurationInSec = 2 }},
	{same("R1", "SpecificItems {} (empty, not nil)"), func(r *hotspot.Rule) { r.SpecificItems = map[interface{}]int64{} }},
	{same("R1", "SpecificItems {z:5}"), func(r *hotspot.Rule) { r.SpecificItems = map[interface{}]int64{"z": 5} }},
	{same("R1", "SpecificItems {q:5} (key replaced)"), func(r *hotspot.Rule) { r.SpecificItems = map[interface{}]int64{"q": 5} }},
	{same("R1", "SpecificItems {q:0} (value changed to 0)"), func(r *hotspot.Rule) { r.SpecificItems = map[interface{}]int64{"q": 0} }},
	{same("R1", "SpecificItems {z:0} (zero-threshold key replaced)"), func(r *hotspot.Rule) { r.SpecificItems = map[interface{}]int64{"z": 0} }},
	{blk("R1", "SpecificItems {x:1}", "p1x2"), func(r *hotspot.Rule) { r.SpecificItems = map[interface{}]int64{"x": 1} }},
	{same("R1", "ControlBehavior Throttling"), func(r *hotspot.Rule) { r.ControlBehavior = hotspot.Throttling }},
	{same("R1", "MetricType Concurrency"), func(r *hotspot.Rule) { r.MetricType = hotspot.Concurrency }},
	{blk("R1", "ParamKey k1x"), func(r *hotspot.Rule) { r.ParamKey = "k1x" }},
	// R2 = QPS/Throttling on k2, threshold 0, SpecificItems {y:3}
	{same("R2", "MaxQueueingTimeMs 1"), func(r *hotspot.Rule) { r.MaxQueueingTimeMs = 1 }},
	{blk("R2", "Threshold 1", "p2x2"), func(r *hotspot.Rule) { r.Threshold = 1 }},
	{same("R2", "DurationInSec 2"), func(r *hotspot.Rule) { r.DurationInSec = 2 }},
	{same("R2", "SpecificItems {y:4}"), func(r *hotspot.Rule) { r.SpecificItems = map[interface{}]int64{"y": 4} }},
	{same("R2", "SpecificItems {z:4} (key replaced)"), func(r *hotspot.Rule) { r.SpecificItems = map[interface{}]int64{"z": 4} }},
	{same("R2", "SpecificItems {z:4, w:0} (entry added)"), func(r *hotspot.Rule) { r.SpecificItems = map[interface{}]int64{"z": 4, "w": 0} }},
	{same("R2", "SpecificItems {z:4, v:1} (zero-threshold key replaced)"), func(r *hotspot.Rule) { r.SpecificItems = map[interface{}]int64{"z": 4, "v": 1} }},
	{same("R2", "SpecificItems nil (all entries removed)"), func(r *hotspot.Rule) { r.SpecificItems = nil }},
	// R3 = QPS/Reject on k3, threshold 1000, SpecificItems {x:0}
	{same("R3", "BurstCount 1"), func(r *hotspot.Rule) { r.BurstCount = 1 }},
	{same("R3", "Threshold 999"), func(r *hotspot.Rule) { r.Threshold = 999 }},
	{blk("R3", "SpecificItems {x:1}", "p3x2"), func(r *hotspot.Rule) { r.SpecificItems = map[interface{}]int64{"x": 1} }},
	{same("R3", "DurationInSec 2"), func(r *hotspot.Rule) { r.DurationInSec = 2 }},
	{same("R3", "ParamsMaxCapacity 1"), func(r *hotspot.Rule) { r.ParamsMaxCapacity = 1 }},
	// SpecificItems of R3 = {x:0}; each entry differs from its predecessor in one map entry
	{blk("R3", "SpecificItems {w:0} (zero-threshold key replaced)", "p3w", "p3wx4"), func(r *hotspot.Rule) { r.SpecificItems = map[interface{}]int64{"w": 0} }},
	{blk("R3", "SpecificItems {x:0, w:0} (entry added)", "p3", "p3x2", "all", "p3w", "p3wx4"), func(r *hotspot.Rule) { r.SpecificItems = map[interface{}]int64{"x": 0, "w": 0} }},
	{same("R3", "SpecificItems {x:0, z:50} (zero-threshold key replaced by another entry)"), func(r *hotspot.Rule) { r.SpecificItems = map[interface{}]int64{"x": 0, "z": 50} }},
	{same("R3", "SpecificItems {x:0, y:50} (key with a non-zero threshold replaced)"), func(r *hotspot.Rule) { r.SpecificItems = map[interface{}]int64{"x": 0, "y": 50} }},
	{blk("R3", "SpecificItems {w:3, y:50} (zero-threshold key replaced, same size)", "p3wx4"), func(r *hotspot.Rule) { r.SpecificItems = map[interface{}]int64{"w": 3, "y": 50} }},
	{blk("R3", "SpecificItems {w:3} (entry removed)", "p3wx4"), func(r *hotspot.Rule) { r.SpecificItems = map[interface{}]int64{"w": 3} }},
	{blk("R3", "SpecificItems {} (last entry removed)"), func(r *hotspot.Rule) { r.SpecificItems = map[interface{}]int64{} }},
	{blk("R3", "SpecificItems nil"), func(r *hotspot.Rule) { r.SpecificItems = nil }},
	{blk("R3", "SpecificItems {7:0} (int key)", "p3i"), func(r *hotspot.Rule) { r.SpecificItems = map[interface{}]int64{7: 0} }},
	{blk("R3", "SpecificItems {\"7\":0} (string key, same digits)", "p3s"), func(r *hotspot.Rule) { r.SpecificItems = map[interface{}]int64{"7": 0} }},
	{blk("R3", "SpecificItems {7:0, \"7\":1} (both key types)", "p3i"), func(r *hotspot.Rule) { r.SpecificItems = map[interface{}]int64{7: 0, "7": 1} }},
}

func (hotMod) near() []nearDelta {
	out := make([]nearDelta, len(hotNear))
	for i, d := range hotNear {
		out[i] = d.nearDelta
	}
	return out
}
func (m hotMod) mk(e el) *hotspot.Rule {
	if p, ok := param(e.Tok); ok {
		return hotParam(e, p)
	}
	r := &hotspot.Rule{ID: id(e), Resource: cres(e.Res), MetricType: hotspot.QPS, DurationInSec: 1}
	if i := nearIdx(m, e.Tok); i >= 0 {
		r = m.mk(el{baseTok(e.Tok), e.Res})
		r.ID = id(e)
		hotNear[i].f(r)
		return r
	}
	switch e.Tok {
	case "Nil":
		return nil
	case "R1": // refuses every request that carries attachment k1; SpecificItems left nil
		r.ControlBehavior, r.ParamKey, r.Threshold = hotspot.Reject, "k1", 0
	case "R2":
		r.ControlBehavior, r.ParamKey, r.Threshold = hotspot.Throttling, "k2", 0
		r.SpecificItems = map[interface{}]int64{"y": 3}
	case "R3": // refuses value "x" of attachment k3 only
		r.ControlBehavior, r.ParamKey, r.Threshold = hotspot.Reject, "k3", 1000
		r.SpecificItems = map[interface{}]int64{"x": 0}
	default:
		r.ControlBehavior, r.ParamKey, r.Threshold = hotspot.Reject, "ki", 0
		r.SpecificItems = map[interface{}]int64{}
		switch variant(e.Tok, 9) {
		case 0:
			r.Resource = ""
		case 1:
			r.Threshold = -1
		case 2:
			r.MetricType = -1
		case 3:
			r.ControlBehavior = -1
		case 4:
			r.DurationInSec = 0
		case 5:
			r.DurationInSec = -1
		case 6:
			r.ParamIndex = 1
		case 7:
			r.BurstCount = -1
		case 8:
			r.ControlBehavior, r.MaxQueueingTimeMs = hotspot.Throttling, -1
		}
	}
	return r
}
func (m hotMod) mkList(list []el) []*hotspot.Rule {
	out := make([]*hotspot.Rule, 0, len(list))
	for _, e := range list {
		out = append(out, m.mk(e))
	}
	return out
}
func (m hotMod) load(list []el) (bool, error) { return hotspot.LoadRules(m.mkList(list)) }
func (m hotMod) loadRes(r string, l []el) (bool, error) {
	return hotspot.LoadRulesOfResource(cres(r), m.mkList(l))
}
func (hotMod) clear() error            { return hotspot.ClearRules() }
func (hotMod) clearRes(r string) error { return hotspot.ClearRulesOfResource(cres(r)) }
func (m hotMod) getAll() map[string][]el {
	g := grouped(m.resources())
	for _, r := range hotspot.GetRules() {
		k := absres(r.Resource)
		g[k] = append(g[k], parseID(r.ID))
	}
	return g
}
func (hotMod) getRes(res string) []el {
	out := []el{}
	for _, r := range hotspot.GetRulesOfResource(cres(res)) {
		out = append(out, parseID(r.ID))
	}
	return out
}
func (hotMod) probe(abs string) []hx.M {
	res := cres(abs)
	var out []hx.M
	for _, p := range []struct {
		name string
		keys []string
	}{{"p1", []string{"k1"}}, {"p2", []string{"k2"}}, {"p3", []string{"k3"}}, {"all", []string{"k1", "k2", "k3"}}, {"pinv", []string{"ki"}}} {
		adv(20000)
		at := map[interface{}]interface{}{}
		for _, k := range p.keys {
			at[k] = "x"
		}
		a := &answer{"pass"}
		e, by := entry(res, abs, api.WithAttachments(at))
		a.see(by)
		if e != nil {
			e.Exit()
		}
		out = append(out, pr(abs, p.name, a))
	}
	// p<k>x2: two requests carrying k<k> at one instant; the answer is that of the SECOND (what refuses the first one
	// refuses the second as well, so the first rule in list order that objects is still the one named)
	for _, p := range []struct{ name, key string }{{"p1x2", "k1"}, {"p2x2", "k2"}, {"p3x2", "k3"}} {
		adv(20000)
		at := map[interface{}]interface{}{p.key: "x"}
		if e, _ := entry(res, abs, api.WithAttachments(at)); e != nil {
			e.Exit()
		}
		a := &answer{"pass"}
		e, by := entry(res, abs, api.WithAttachments(at))
		a.see(by)
		if e != nil {
			e.Exit()
		}
		out = append(out, pr(abs, p.name, a))
	}
	// other values of attachment k3: each is limited by ITS OWN entry of SpecificItems (or, when the map does not hold it,
	// by the general threshold): p3w "w" once, p3wx4 the FOURTH of four "w" at one instant, p3i the int 7, p3s the string "7"
	for _, p := range []struct {
		name string
		val  interface{}
		n    int
	}{{"p3w", "w", 1}, {"p3wx4", "w", 4}, {"p3i", 7, 1}, {"p3s", "7", 1}} {
		adv(20000)
		at := map[interface{}]interface{}{"k3": p.val}
		for i := 1; i < p.n; i++ {
			if e, _ := entry(res, abs, api.WithAttachments(at)); e != nil {
				e.Exit()
			}
		}
		a := &answer{"pass"}
		e, by := entry(res, abs, api.WithAttachments(at))
		a.see(by)
		if e != nil {
			e.Exit()
		}
		out = append(out, pr(abs, p.name, a))
	}
	return out
}

// ------------------------------------------------------------------------------------------ circuit breaker
type cbMod struct{}

func (cbMod) desc() (bool, bool, bool, bool) { return true, false, true, true }
func (cbMod) resources() []string            { return []string{"r1", "r2"} }
func (cbMod) nvariants() int64               { return 6 }
func (cbMod) probeTable() map[string][]string {
	return map[string][]string{"p1": {"R1"}, "p2": {"R2"}, "p3": {"R3"}, "all": {"R1", "R2", "R3"},
		"e2": {"R3"}, "e4": {"R2", "R3"}, "pinv": {"I1", "I2", "I3", "Nil"}}
}

// every field cb.Rule.isEqualsTo / isStatReusable looks at.  Errors seen by the probes: pinv 1, e2 2, p2 3 (after 4
// good requests), e4 4, "all" 4 (slow as well); p3 = one good + one failing request; p1 = one slow request.
var cbNear = []struct {
	nearDelta
	f func(r *cb.Rule)
}{
	// R1 = slow request ratio 1.0 of >= 1 requests, slow = more than 100 ms (p1 / all take 200 ms)
	{same("R1", "Threshold 0.5"), func(r *cb.Rule) { r.Threshold = 0.5 }},
	{same("R1", "MaxAllowedRtMs 101"), func(r *cb.Rule) { r.MaxAllowedRtMs = 101 }},
	{same("R1", "MaxAllowedRtMs 99"), func(r *cb.Rule) { r.MaxAllowedRtMs = 99 }},
	{same("R1", "RetryTimeoutMs 1001"), func(r *cb.Rule) { r.RetryTimeoutMs = 1001 }},
	{same("R1", "RetryTimeoutMs 999"), func(r *cb.Rule) { r.RetryTimeoutMs = 999 }},
	{blk("R1", "MinRequestAmount 2", "all"), func(r *cb.Rule) { r.MinRequestAmount = 2 }},
	{same("R1", "StatIntervalMs 2000"), func(r *cb.Rule) { r.StatIntervalMs = 2000 }},
	{same("R1", "StatSlidingWindowBucketCount 2"), func(r *cb.Rule) { r.StatSlidingWindowBucketCount = 2 }},
	{same("R1", "ProbeNum 1"), func(r *cb.Rule) { r.ProbeNum = 1 }},
	{blk("R1", "Strategy ErrorRatio", "pinv", "all", "e2", "e4"), func(r *cb.Rule) { r.Strategy = cb.ErrorRatio }},
	// R2 = error count 3: the breaker opens when the count reaches ceil(threshold)
	{same("R2", "Threshold 2.5"), func(r *cb.Rule) { r.Threshold = 2.5 }},
	{blk("R2", "Threshold 3.5", "all", "e4"), func(r *cb.Rule) { r.Threshold = 3.5 }},
	{blk("R2", "Threshold 2", "e2", "p2", "all", "e4"), func(r *cb.Rule) { r.Threshold = 2 }},
	{blk("R2", "Threshold 4", "all", "e4"), func(r *cb.Rule) { r.Threshold = 4 }},
	{same("R2", "RetryTimeoutMs 1001"), func(r *cb.Rule) { r.RetryTimeoutMs = 1001 }},
	{same("R2", "MinRequestAmount 2"), func(r *cb.Rule) { r.MinRequestAmount = 2 }},
	{same("R2", "StatIntervalMs 2000"), func(r *cb.Rule) { r.StatIntervalMs = 2000 }},
	{same("R2", "StatSlidingWindowBucketCount 2"), func(r *cb.Rule) { r.StatSlidingWindowBucketCount = 2 }},
	{same("R2", "ProbeNum 1"), func(r *cb.Rule) { r.ProbeNum = 1 }},
	// R3 = error ratio 0.5 of >= 2 requests
	{blk("R3", "Threshold 0.6", "all", "e2", "e4"), func(r *cb.Rule) { r.Threshold = 0.6 }},
	{blk("R3", "Threshold 0.4", "p2", "p3", "all", "e2", "e4"), func(r *cb.Rule) { r.Threshold = 0.4 }},
	{blk("R3", "MinRequestAmount 3", "all", "e4"), func(r *cb.Rule) { r.MinRequestAmount = 3 }},
	{blk("R3", "MinRequestAmount 1", "pinv", "p3", "all", "e2", "e4"), func(r *cb.Rule) { r.MinRequestAmount = 1 }},
	{same("R3", "RetryTimeoutMs 999"), func(r *cb.Rule) { r.RetryTimeoutMs = 999 }},
	{same("R3", "StatIntervalMs 2000"), func(r *cb.Rule) { r.StatIntervalMs = 2000 }},
	{blk("R3", "Strategy ErrorCount", "p2", "p3", "all", "e2", "e4"), func(r *cb.Rule) { r.Strategy = cb.ErrorCount }},
}

func (cbMod) near() []nearDelta {
	out := make([]nearDelta, len(cbNear))
	for i, d := range cbNear {
		out[i] = d.nearDelta
	}
	return out
}
func cbRule(e el, res string) *cb.Rule {
	r := &cb.Rule{Id: id(e), Resource: res, RetryTimeoutMs: 1000, StatIntervalMs: 1000, MinRequestAmount: 1}
	switch e.Tok {
	case "R1": // opens on one slow request
		r.Strategy, r.MaxAllowedRtMs, r.Threshold = cb.SlowRequestRatio, 100, 1.0
	case "R2": // opens on the third error
		r.Strategy, r.Threshold = cb.ErrorCount, 3
	case "R3": // opens when at least half of >= 2 requests failed
		r.Strategy, r.Threshold, r.MinRequestAmount = cb.ErrorRatio, 0.5, 2
	}
	return r
}
func (cbMod) mk(e el) *cb.Rule {
	if e.Tok == "Nil" {
		return nil
	}
	if p, ok := param(e.Tok); ok {
		return cbParam(e, p)
	}
	if i := nearIdx(cbMod{}, e.Tok); i >= 0 {
		r := cbRule(el{baseTok(e.Tok), e.Res}, cres(e.Res))
		r.Id = id(e)
		cbNear[i].f(r)
		return r
	}
	r := cbRule(e, cres(e.Res))
	if e.Tok[0] == 'I' { // would open on the first error
		r.Strategy, r.Threshold = cb.ErrorCount, 1
		switch variant(e.Tok, 6) {
		case 0:
			r.Resource = ""
		case 1:
			r.StatIntervalMs = 0
		case 2:
			r.RetryTimeoutMs = 0
		case 3:
			r.Threshold = -1
		case 4:
			r.Strategy, r.Threshold, r.MaxAllowedRtMs = cb.SlowRequestRatio, 1.5, 0
		case 5:
			r.Strategy, r.Threshold = cb.ErrorRatio, 1.5
		}
	}
	return r
}
func (m cbMod) mkList(list []el) []*cb.Rule {
	out := make([]*cb.Rule, 0, len(list))
	for _, e := range list {
		out = append(out, m.mk(e))
	}
	return out
}
func (m cbMod) load(list []el) (bool, error) { return cb.LoadRules(m.mkList(list)) }
func (m cbMod) loadRes(r string, l []el) (bool, error) {
	return cb.LoadRulesOfResource(cres(r), m.mkList(l))
}
func (cbMod) clear() error            { return cb.ClearRules() }
func (cbMod) clearRes(r string) error { return cb.ClearRulesOfResource(cres(r)) }
func (m cbMod) getAll() map[string][]el {
	g := grouped(m.resources())
	for _, r := range cb.GetRules() {
		k := absres(r.Resource)
		g[k] = append(g[k], parseID(r.Id))
	}
	return g
}
func (cbMod) getRes(res string) []el {
	out := []el{}
	for _, r := range cb.GetRulesOfResource(cres(res)) {
		out = append(out, parseID(r.Id))
	}
	return out
}
func (cbMod) probe(abs string) []hx.M {
	res := cres(abs)
	// one request taking rt ms, failing or not
	req := func(a *answer, rt int64, fail bool) {
		e, by := entry(res, abs)
		a.see(by)
		if e == nil {
			return
		}
		adv(rt)
		if fail {
			api.TraceError(e, errBiz)
		}
		e.Exit()
	}
	// after the observation: let every breaker that opened recover (retry timeout, one good probe request)
	recoverAll := func() {
		adv(1500)
		if e, _ := entry(res, abs); e != nil {
			e.Exit()
		}
	}
	var out []hx.M
	run := func(name string, f func(a *answer)) {
		adv(20000)
		a := &answer{"pass"}
		f(a)
		// the observed requests: two in flight together (a breaker that is merely half-open refuses the second)
		e1, by1 := entry(res, abs)
		a.see(by1)
		e2, by2 := entry(res, abs)
		a.see(by2)
		if e1 != nil {
			e1.Exit()
		}
		if e2 != nil {
			e2.Exit()
		}
		out = append(out, pr(abs, name, a))
		recoverAll()
	}
	// n requests in flight together, the last nfail of them fail, each takes rt ms: every breaker of the resource sees
	// every completion (a breaker that opens on the 2nd error cannot hide the 3rd one from its neighbour)
	together := func(a *answer, n, nfail int, rt int64) {
		var es []*base.SentinelEntry
		for i := 0; i < n; i++ {
			e, by := entry(res, abs)
			a.see(by)
			if e != nil {
				es = append(es, e)
			}
		}
		adv(rt)
		for i, e := range es {
			if i >= len(es)-nfail {
				api.TraceError(e, errBiz)
			}
			e.Exit()
		}
	}
	run("p1", func(a *answer) { req(a, 200, false) })
	run("p2", func(a *answer) { together(a, 7, 3, 0) }) // four good requests, then three errors
	run("p3", func(a *answer) { req(a, 0, false); req(a, 0, true) })
	run("all", func(a *answer) { together(a, 4, 4, 200) }) // four requests, all slow and failing
	run("e2", func(a *answer) { together(a, 2, 2, 0) })    // two errors
	run("e4", func(a *answer) { together(a, 4, 4, 0) })    // four errors
	run("pinv", func(a *answer) { req(a, 0, true) })
	return out
}

// ------------------------------------------------------------------------------------------ system
type sysMod struct{}

func (sysMod) desc() (bool, bool, bool, bool) { return false, false, false, false }
func (sysMod) resources() []string            { return []string{"sys"} }
func (sysMod) nvariants() int64               { return 4 }
func (sysMod) probeTable() map[string][]string {
	return map[string][]string{"p1": {"R1"}, "p2": {"R2"}, "p3": {"R3"}, "p3lo": {"R3"}, "all": {"R1", "R2", "R3"}, "pinv": {"I1", "I2", "I3", "Nil"}}
}

// system has no rule equality of its own (DeepEqual of the lists only); the fields of a rule are the metric type and
// the trigger count.  p1: the 4th inbound request of a second; p2: the 3rd concurrent one; p3 / p3lo: load 10 / 5.2.
var sysNear = []struct {
	nearDelta
	f func(r *system.Rule)
}{
	// R1 = inbound QPS 3 (refuses while the pass QPS is not below the trigger count)
	{same("R1", "TriggerCount 2.5"), func(r *system.Rule) { r.TriggerCount = 2.5 }},
	{blk("R1", "TriggerCount 4"), func(r *system.Rule) { r.TriggerCount = 4 }},
	{blk("R1", "TriggerCount 2", "p1", "p2", "all"), func(r *system.Rule) { r.TriggerCount = 2 }},
	// R2 = concurrency 2
	{same("R2", "TriggerCount 1.5"), func(r *system.Rule) { r.TriggerCount = 1.5 }},
	{blk("R2", "TriggerCount 3"), func(r *system.Rule) { r.TriggerCount = 3 }},
	{blk("R2", "TriggerCount 1", "p2", "all"), func(r *system.Rule) { r.TriggerCount = 1 }},
	// R3 = load 5 (refuses while the load is above the trigger count)
	{blk("R3", "TriggerCount 5.5", "p3", "all"), func(r *system.Rule) { r.TriggerCount = 5.5 }},
	{same("R3", "TriggerCount 4.5"), func(r *system.Rule) { r.TriggerCount = 4.5 }},
	{blk("R3", "MetricType AvgRT"), func(r *system.Rule) { r.MetricType = system.AvgRT }},
}

func (sysMod) near() []nearDelta {
	out := make([]nearDelta, len(sysNear))
	for i, d := range sysNear {
		out[i] = d.nearDelta
	}
	return out
}
func (m sysMod) mk(e el) *system.Rule {
	if p, ok := param(e.Tok); ok {
		return sysParam(e, p)
	}
	r := &system.Rule{ID: id(e), Strategy: system.NoAdaptive}
	if i := nearIdx(m, e.Tok); i >= 0 {
		r = m.mk(el{baseTok(e.Tok), e.Res})
		r.ID = id(e)
		sysNear[i].f(r)
		return r
	}
	switch e.Tok {
	case "Nil":
		return nil
	case "R1":
		r.MetricType, r.TriggerCount = system.InboundQPS, 3
	case "R2":
		r.MetricType, r.TriggerCount = system.Concurrency, 2
	case "R3":
		r.MetricType, r.TriggerCount = system.Load, 5
	default:
		switch variant(e.Tok, 4) {
		case 0: // would refuse every inbound request
			r.MetricType, r.TriggerCount = system.AvgRT, -1
		case 1:
			r.MetricType, r.TriggerCount = system.MetricTypeSize, 0
		case 2:
			r.MetricType, r.TriggerCount = 99, 0
		case 3: // would refuse while the CPU usage reads 2.0
			r.MetricType, r.TriggerCount = system.CpuUsage, 1.5
		}
	}
	return r
}
func (m sysMod) load(list []el) (bool, error) {
	out := make([]*system.Rule, 0, len(list))
	for _, e := range list {
		out = append(out, m.mk(e))
	}
	return system.LoadRules(out)
}
func (sysMod) loadRes(string, []el) (bool, error) {
	hx.Fatal("system has no per-resource load")
	return false, nil
}
func (sysMod) clear() error          { return system.ClearRules() }
func (sysMod) clearRes(string) error { hx.Fatal("system has no per-resource clear"); return nil }
func (m sysMod) getAll() map[string][]el {
	g := grouped(m.resources())
	for _, r := range system.GetRules() {
		g["sys"] = append(g["sys"], parseID(r.ID))
	}
	return g
}
func (sysMod) getRes(string) []el { return nil }
func (sysMod) probe(abs string) []hx.M {
	res := cres("in")
	in := api.WithTrafficType(base.Inbound)
	var out []hx.M
	run := func(name string, f func(a *answer) func()) {
		adv(20000)
		a := &answer{"pass"}
		undo := f(a)
		e, by := entry(res, abs, in) // the observed request
		a.see(by)
		if e != nil {
			e.Exit()
		}
		if undo != nil {
			undo()
		}
		out = append(out, pr(abs, name, a))
	}
	passN := func(a *answer, n int) {
		for i := 0; i < n; i++ {
			e, by := entry(res, abs, in)
			a.see(by)
			if e != nil {
				e.Exit()
			}
		}
	}
	hold := func(a *answer, n int) func() {
		var es []*base.SentinelEntry
		for i := 0; i < n; i++ {
			e, by := entry(res, abs, in)
			a.see(by)
			if e != nil {
				es = append(es, e)
			}
		}
		return func() {
			for _, e := range es {
				e.Exit()
			}
		}
	}
	run("p1", func(a *answer) func() { passN(a, 3); return nil })
	run("p2", func(a *answer) func() { return hold(a, 2) })
	run("p3", func(a *answer) func() {
		system_metric.SetSystemLoad(10)
		return func() { system_metric.SetSystemLoad(0) }
	})
	run("p3lo", func(a *answer) func() {
		system_metric.SetSystemLoad(5.2)
		return func() { system_metric.SetSystemLoad(0) }
	})
	run("all", func(a *answer) func() {
		passN(a, 1)
		u := hold(a, 2)
		system_metric.SetSystemLoad(10)
		return func() { u(); system_metric.SetSystemLoad(0) }
	})
	run("pinv", func(a *answer) func() {
		system_metric.SetSystemCpuUsage(2.0)
		return func() { system_metric.SetSystemCpuUsage(0) }
	})
	return out
}

// ------------------------------------------------------------------------------------------ outlier
type outMod struct{}

func (outMod) desc() (bool, bool, bool, bool) { return true, true, true, false }
func (outMod) resources() []string            { return []string{"r1", "r2"} }
func (outMod) nvariants() int64               { return 8 }

// the probe counts the errors of node n1 until the node is ejected; e<k> = "ejected after at most k errors" (no rule
// is named by an ejection, so these probes carry `hit' instead of `by').  R1 / R2 / R3 eject on the 1st / 2nd / 3rd
// error, an invalid rule would eject on the 4th.
func (outMod) probeTable() map[string][]string {
	inv := []string{"I1", "I2", "I3"}
	return map[string][]string{"e0": {}, "e1": {"R1"}, "e2": {"R1", "R2"}, "e3": {"R1", "R2", "R3"}, "e4": append([]string{"R1", "R2", "R3"}, inv...)}
}

// the fields of the embedded breaker rule that cb.Rule.isEqualsTo looks at (the node breakers are rebuilt through
// cb.BuildResourceCircuitBreaker) and the fields of the outlier rule itself; need = errors until ejection as a function
// of the base rule's count n (99 = never)
var outNear = []struct {
	name string
	need func(n int) int
	f    func(r *outlier.Rule)
}{
	{"Threshold +0.5", func(n int) int { return n + 1 }, func(r *outlier.Rule) { r.Threshold += 0.5 }},
	{"Threshold -0.25", func(n int) int { return n }, func(r *outlier.Rule) { r.Threshold -= 0.25 }},
	{"RetryTimeoutMs 1001", func(n int) int { return n }, func(r *outlier.Rule) { r.RetryTimeoutMs = 1001 }},
	{"MinRequestAmount 2", func(n int) int {
		if n < 2 {
			return 2
		}
		return n
	}, func(r *outlier.Rule) { r.MinRequestAmount = 2 }},
	{"StatIntervalMs 2000", func(n int) int { return n }, func(r *outlier.Rule) { r.StatIntervalMs = 2000 }},
	{"StatSlidingWindowBucketCount 2", func(n int) int { return n }, func(r *outlier.Rule) { r.StatSlidingWindowBucketCount = 2 }},
	{"ProbeNum 1", func(n int) int { return n }, func(r *outlier.Rule) { r.ProbeNum = 1 }},
	{"MaxEjectionPercent 0.9", func(n int) int { return 99 }, func(r *outlier.Rule) { r.MaxEjectionPercent = 0.9 }}, // 0.9 of one node = no node
	{"RecoveryIntervalMs 1", func(n int) int { return n }, func(r *outlier.Rule) { r.RecoveryIntervalMs = 1 }},
	{"MaxRecoveryAttempts 1", func(n int) int { return n }, func(r *outlier.Rule) { r.MaxRecoveryAttempts = 1 }},
}

func (outMod) near() []nearDelta {
	var out []nearDelta
	for n, b := range []string{"R1", "R2", "R3"} {
		for _, d := range outNear {
			var ps []string
			for k := 1; k <= 4; k++ {
				if d.need(n+1) <= k {
					ps = append(ps, fmt.Sprintf("e%d", k))
				}
			}
			out = append(out, blk(b, d.name, ps...))
		}
	}
	return out
}
func (m outMod) mk(e el) *outlier.Rule {
	if e.Tok == "Nil" {
		return nil
	}
	if p, ok := param(e.Tok); ok {
		return outParam(e, p)
	}
	if i := nearIdx(m, e.Tok); i >= 0 {
		r := m.mk(el{baseTok(e.Tok), e.Res})
		r.Id = id(e)
		outNear[i%len(outNear)].f(r)
		return r
	}
	c := &cb.Rule{Id: id(e), Resource: cres(e.Res), Strategy: cb.ErrorCount, RetryTimeoutMs: 1000, StatIntervalMs: 1000, MinRequestAmount: 1}
	r := &outlier.Rule{Rule: c, MaxEjectionPercent: 1.0}
	switch e.Tok {
	case "R1": // ejects a node on its 1st / 2nd / 3rd error
		c.Threshold = 1
	case "R2":
		c.Threshold = 2
	case "R3":
		c.Threshold = 3
	default:
		c.Threshold = 4
		switch variant(e.Tok, 8) {
		case 0:
			c.Resource = ""
		case 1:
			r.MaxEjectionPercent = -0.1
		case 2:
			r.MaxEjectionPercent = 1.5
		case 3:
			c.StatIntervalMs = 0
		case 4:
			c.RetryTimeoutMs = 0
		case 5:
			c.Threshold = -1
		case 6:
			c.Strategy, c.Threshold = cb.ErrorRatio, 1.5
		case 7:
			r.Rule = nil
		}
	}
	return r
}
func (m outMod) load(list []el) (bool, error) {
	out := make([]*outlier.Rule, 0, len(list))
	for _, e := range list {
		out = append(out, m.mk(e))
	}
	return outlier.LoadRules(out)
}
func (m outMod) loadRes(r string, l []el) (bool, error) {
	if len(l) > 1 {
		hx.Fatal("outlier per-resource load takes at most one rule")
	}
	if len(l) == 0 { // the per-resource load of "no rule"
		return outlier.LoadRuleOfResource(cres(r), nil)
	}
	return outlier.LoadRuleOfResource(cres(r), m.mk(l[0]))
}
func (outMod) clear() error            { return outlier.ClearRules() }
func (outMod) clearRes(r string) error { return outlier.ClearRuleOfResource(cres(r)) }
func (m outMod) getAll() map[string][]el {
	g := grouped(m.resources())
	for _, r := range outlier.GetRules() {
		if r.Rule == nil {
			g["other"] = append(g["other"], el{"?", "?"})
			continue
		}
		k := absres(r.Resource)
		g[k] = append(g[k], parseID(r.Id))
	}
	return g
}
func (outMod) getRes(string) []el { return nil }
func (outMod) probe(abs string) []hx.M {
	res := cres(abs)
	call := func(fail bool) (ejected bool) {
		e, b := api.Entry(res, api.WithSlotChain(outChain), api.WithTrafficType(base.Outbound))
		if b != nil {
			return false
		}
		for _, n := range e.Context().FilterNodes() {
			if n == "n1" {
				ejected = true
			}
		}
		api.TraceCallee(e, "n1")
		if fail {
			api.TraceError(e, errBiz)
		}
		e.Exit()
		return
	}
	// how many errors of node n1 does it take until the node is ejected?  (identifies the rule in force)
	adv(20000)
	need := 99
	for k := 1; k <= 5; k++ {
		if call(true) {
			need = k - 1 // the k-th call saw the node ejected after k-1 errors
			break
		}
	}
	adv(1500)
	call(false) // recovery probe of the node
	adv(1500)
	call(false)
	var out []hx.M
	for k := 0; k <= 4; k++ {
		out = append(out, hx.M{"res": abs, "p": fmt.Sprintf("e%d", k), "hit": need <= k})
	}
	return out
}

// ---------------------------------------------------------------------------------------------------

func pairs(l []el) [][]string {
	out := make([][]string, 0, len(l))
	for _, e := range l {
		out = append(out, []string{e.Tok, e.Res})
	}
	return out
}

func parseList(x interface{}) []el {
	var out []el
	l, _ := x.([]interface{})
	for _, it := range l {
		p, ok := it.([]interface{})
		if !ok || len(p) != 2 {
			hx.Fatal("bad list element %v", it)
		}
		out = append(out, el{p[0].(string), p[1].(string)})
	}
	return out
}

func clearEverything() {
	guard := func(f func() error) {
		defer func() { recover() }()
		_ = f()
	}
	guard(flow.ClearRules)
	guard(isolation.ClearRules)
	guard(hotspot.ClearRules)
	guard(cb.ClearRules)
	guard(system.ClearRules)
	guard(outlier.ClearRules)
	system_metric.SetSystemLoad(0)
	system_metric.SetSystemCpuUsage(0)
}

var mods = map[string]module{"flow": flowMod{}, "isolation": isoMod{}, "hotspot": hotMod{}, "circuitbreaker": cbMod{},
	"system": sysMod{}, "outlier": outMod{}}

// {module: {base token: [delta names]}}
func describe() {
	out := map[string]map[string][]string{}
	for name, m := range mods {
		out[name] = map[string][]string{"R1": {}, "R2": {}, "R3": {}}
		for _, d := range m.near() {
			out[name][d.base] = append(out[name][d.base], d.name)
		}
	}
	b, _ := json.Marshal(out)
	fmt.Println(string(b))
}

// scenarios that load every token alone (whole-set) on a fresh resource: the probes it refuses must be those of the table
func calibrationScenarios() []hx.M {
	var scn []hx.M
	n := int64(0)
	names := []string{"flow", "isolation", "hotspot", "circuitbreaker", "system", "outlier"}
	for _, name := range names {
		m := mods[name]
		res := m.resources()[0]
		one := func(tok string, k int) {
			n++
			scn = append(scn, hx.M{"op": "new", "tr": float64(n), "mod": name, "var": map[string]interface{}{tok: float64(k)}},
				hx.M{"op": "load", "scope": "*", "list": []interface{}{[]interface{}{tok, res}}})
		}
		for _, b := range []string{"R1", "R2", "R3"} {
			one(b, 0)
			k := 0
			for _, d := range m.near() {
				if d.base == b {
					one(b+"a", k)
					k++
				}
			}
		}
	}
	return scn
}

func main() {
	if len(os.Args) == 2 && os.Args[1] == "-describe" {
		describe()
		return
	}
	calibrate := len(os.Args) == 2 && os.Args[1] == "-calibrate"
	if len(os.Args) < 3 && !calibrate {
		hx.Fatal("usage: c13 scenarios.ndjson trace.ndjson | -describe | -calibrate")
	}
	var scn []hx.M
	var err error
	tracePath := os.DevNull
	if calibrate {
		scn = calibrationScenarios()
	} else {
		tracePath = os.Args[2]
		if scn, err = hx.ReadNDJSON[hx.M](os.Args[1]); err != nil {
			hx.Fatal("%v", err)
		}
	}
	clk = hx.NewVClock(1e6)
	clk.NoAdvance = true
	clk.Install()
	hx.InitSentinel()
	baseMs = hx.BaseMs(10000)
	adv(0)
	outChain = api.BuildDefaultSlotChain()
	outChain.AddRuleCheckSlot(outlier.DefaultSlot)
	outChain.AddStatSlot(outlier.DefaultMetricStatSlot)
	out := hx.NewTrace(tracePath)
	defer out.Close()

	var m module
	var scn0 hx.M // the "new" record of the running scenario
	var table map[string][]string
	bad := 0
	dead := false // a call of the running scenario panicked: the rest of it is not executed
	for _, s := range scn {
		op := hx.Str(s, "op")
		switch op {
		case "new":
			scn0 = s
			clearEverything()
			adv(60000)
			tr = hx.Int(s, "tr")
			var ok bool
			if m, ok = mods[hx.Str(s, "mod")]; !ok {
				hx.Fatal("unknown module %q", hx.Str(s, "mod"))
			}
			vars = map[string]int64{}
			if v, ok := s["var"].(map[string]interface{}); ok {
				for k, x := range v {
					vars[k] = int64(x.(float64))
				}
			}
			dead = false
			params, sweep, scnRes = nil, nil, nil
			if l, ok := s["res"].([]interface{}); ok && len(l) > 0 {
				for _, x := range l {
					scnRes = append(scnRes, x.(string))
				}
			}
			if ps, ok := s["params"].(map[string]interface{}); ok { // a parameter-sweep scenario
				params = map[string]prec{}
				for k, x := range ps {
					params[k] = prec(x.(map[string]interface{}))
				}
				if l, ok := s["sweep"].([]interface{}); ok {
					for _, x := range l {
						sweep = append(sweep, x.(map[string]interface{}))
					}
				}
			}
			perRes, rejects, ordered, _ := m.desc()
			varn := hx.M{}
			for k := range vars {
				if isNear(k) { // the field change a near-equal variant carries
					if hasNear(m, k[:2]) {
						varn[k] = m.near()[nearIdx(m, k)].name
					}
					continue
				}
				varn[k] = variant(k, m.nvariants())
			}
			near := hx.M{}
			for _, t := range nearToks {
				near[t] = baseTok(t)
			}
			table = scenarioProbeTable(m)
			rec := hx.M{"op": "new", "tr": tr, "mod": hx.Str(s, "mod"), "perres": perRes, "rejects": rejects, "ordered": ordered,
				"invalid": []string{"I1", "I2", "I3", "Nil"}, "res": ressOf(m), "probes": table, "near": near, "var": varn}
			if params != nil {
				rec["params"] = s["params"] // the records the rules are built from, as given
			}
			out.Emit(rec)
		case "load", "clear":
			if dead {
				continue
			}
			scope := hx.Str(s, "scope")
			list := parseList(s["list"])
			var changed, panicked bool
			var e error
			func() {
				defer func() {
					if r := recover(); r != nil {
						panicked = true
					}
				}()
				switch {
				case op == "load" && scope == "*":
					changed, e = m.load(list)
				case op == "load":
					changed, e = m.loadRes(scope, list)
				case scope == "*":
					e = m.clear()
				default:
					e = m.clearRes(scope)
				}
			}()
			rec := hx.M{"op": op, "scope": scope, "list": pairs(list), "changed": changed, "err": e != nil, "panic": panicked}
			all := hx.M{}
			probes := []hx.M{}
			if !panicked {
				// getters and probing traffic: a panic escaping them is an observable as well
				func() {
					defer func() {
						if r := recover(); r != nil {
							panicked = true
							rec["panic"] = true
							rec["where"] = "getter-or-probe"
							delete(rec, "rep")
							all = hx.M{}
							probes = []hx.M{}
						}
					}()
					_, _, _, resGetter := m.desc()
					if resGetter {
						rep := hx.M{}
						for _, r := range ressOf(m) {
							rep[r] = pairs(m.getRes(r))
						}
						rec["rep"] = rep
					}
					for k, v := range m.getAll() {
						all[k] = pairs(v)
					}
					for _, r := range ressOf(m) {
						if params != nil { // parameter sweep: the probes the scenario lists
							probes = append(probes, sweepProbes(hx.Str(scn0, "mod"), r)...)
						} else {
							probes = append(probes, m.probe(r)...)
						}
					}
				}()
			}
			if panicked {
				dead = true
				for _, r := range ressOf(m) {
					all[r] = [][]string{}
				}
			}
			rec["all"] = all
			rec["probes"] = probes
			out.Emit(rec)
			if calibrate { // the probes the lone token refuses against the table
				tok := list[0].Tok
				var got, want []string
				for _, p := range probes {
					if hx.Str(p, "res") != list[0].Res {
						continue
					}
					hit, isHit := p["hit"].(bool)
					if (isHit && hit) || (!isHit && hx.Str(p, "by") != "pass") {
						got = append(got, hx.Str(p, "p"))
						if !isHit && hx.Str(p, "by") != tok {
							got[len(got)-1] += "(by " + hx.Str(p, "by") + ")"
						}
					}
				}
				for p, toks := range table {
					for _, x := range toks {
						if x == tok {
							want = append(want, p)
						}
					}
				}
				sort.Strings(got)
				sort.Strings(want)
				name := tok
				if i := nearIdx(m, tok); i >= 0 {
					name = tok[:2] + " + " + m.near()[i].name
				}
				verdict := "ok"
				if strings.Join(got, ",") != strings.Join(want, ",") || panicked {
					verdict = fmt.Sprintf("DIFFERS: table says %v (panic %v)", want, panicked)
					bad++
				}
				fmt.Printf("%-15s %-40s refuses %v  %s\n", modName(m), name, got, verdict)
			}
		default:
			hx.Fatal("unknown op %q", op)
		}
	}
	clearEverything()
	if calibrate && bad > 0 {
		hx.Fatal("%d tokens do not behave as the probe table says", bad)
	}
}

func modName(m module) string {
	for k, v := range mods {
		if v == m {
			return k
		}
	}
	return "?"
}
