// c13 drives the rule managers of the six rule modules of the real code (flow, isolation, hotspot,
// circuitbreaker, system, outlier) with sequences of LoadRules / LoadRulesOfResource / ClearRules /
// ClearRulesOfResource over lists of RULE TOKENS and records, after every call: what the call returned
// (changed, err, panicked), what the getters return, and the answers of probing requests (each valid token
// has a request that only its rule blocks, each invalid token a request its rule would block if it were
// in force).  The recorded trace is validated against spec/RuleStore_Trace.tla (property C13).
//
// Tokens: R1..R3 valid rules, I1..I3 invalid rules (the scenario's "var" says WHICH field-wise invalidity of
// the module's IsValid... function each of them carries), Nil a nil element.  Every call gets freshly
// allocated rule objects.  The rule ID is derived from the token ("R1@r1"), i.e. from the semantic fields.
//
// usage: c13 <scenarios.ndjson> <trace.ndjson>
package main

import (
	"errors"
	"fmt"
	"math"
	"os"
	"strings"

	"github.com/alibaba/sentinel-golang/api"
	"github.com/alibaba/sentinel-golang/core/base"
	cb "github.com/alibaba/sentinel-golang/core/circuitbreaker"
	"github.com/alibaba/sentinel-golang/core/flow"
	"github.com/alibaba/sentinel-golang/core/hotspot"
	"github.com/alibaba/sentinel-golang/core/isolation"
	"github.com/alibaba/sentinel-golang/core/outlier"
	"github.com/alibaba/sentinel-golang/core/system"
	"github.com/alibaba/sentinel-golang/core/system_metric"

	"verifharness/hx"
)

type el struct{ Tok, Res string }

var (
	clk      *hx.VClock
	baseMs   int64
	nowMs    int64
	tr       int64
	vars     map[string]int64 // invalid token -> variant number
	errBiz   = errors.New("biz")
	outChain *base.SlotChain
)

func adv(ms int64) { nowMs += ms; clk.SetMs(baseMs + nowMs) }

// concrete resource name of an abstract one for the running scenario
func cres(abs string) string { return fmt.Sprintf("c13_%d_%s", tr, abs) }
func absres(c string) string {
	p := fmt.Sprintf("c13_%d_", tr)
	if strings.HasPrefix(c, p) {
		return strings.TrimPrefix(c, p)
	}
	if c == "" {
		return "empty"
	}
	return "other"
}
func id(e el) string { return e.Tok + "@" + e.Res }
func parseID(s string) el {
	i := strings.IndexByte(s, '@')
	if i < 0 {
		return el{"?" + s, "?"}
	}
	return el{s[:i], s[i+1:]}
}
func variant(tok string, n int64) int64 { return ((vars[tok] % n) + n) % n }

// ---------------------------------------------------------------------------------------------------
// the module adapters

type module interface {
	desc() (perRes, rejects, ordered, resGetter bool)
	resources() []string
	probeTable() map[string][]string
	nvariants() int64
	load(list []el) (bool, error)
	loadRes(res string, list []el) (bool, error)
	clear() error
	clearRes(res string) error
	getAll() map[string][]el
	getRes(res string) []el
	probe(res string) []hx.M
}

func grouped(ress []string) map[string][]el {
	m := map[string][]el{}
	for _, r := range ress {
		m[r] = []el{}
	}
	return m
}

// who blocked: the token of the triggered rule, "?..." if it cannot be attributed to a rule of resource res
func who(b *base.BlockError, res string) string {
	var rid string
	switch r := b.TriggeredRule().(type) {
	case *flow.Rule:
		if r != nil {
			rid = r.ID
		}
	case *isolation.Rule:
		if r != nil {
			rid = r.ID
		}
	case *hotspot.Rule:
		if r != nil {
			rid = r.ID
		}
	case *cb.Rule:
		if r != nil {
			rid = r.Id
		}
	case *system.Rule:
		if r != nil {
			rid = r.ID
		}
	}
	e := parseID(rid)
	if e.Res != res {
		return "?" + rid
	}
	return e.Tok
}

// one request: returns the entry (nil if blocked) and who blocked it ("pass" if admitted)
func entry(res string, abs string, opts ...api.EntryOption) (*base.SentinelEntry, string) {
	e, b := api.Entry(res, opts...)
	if b != nil {
		return nil, who(b, abs)
	}
	return e, "pass"
}

// a probe is a short sequence of requests; its answer is the first block met anywhere in it
type answer struct{ by string }

func (a *answer) see(by string) {
	if a.by == "pass" && by != "pass" {
		a.by = by
	}
}
func pr(res, p string, a *answer) hx.M { return hx.M{"res": res, "p": p, "by": a.by} }

// ------------------------------------------------------------------------------------------ flow
type flowMod struct{}

func (flowMod) desc() (bool, bool, bool, bool) { return true, false, true, true }
func (flowMod) resources() []string            { return []string{"r1", "r2"} }
func (flowMod) nvariants() int64               { return 16 }
func (flowMod) probeTable() map[string][]string {
	return map[string][]string{"p1": {"R1"}, "p2": {"R2"}, "p3": {"R3"}, "all": {"R1", "R2", "R3"}, "pinv": {"I1", "I2", "I3", "Nil"}}
}
func (flowMod) mk(e el) *flow.Rule {
	res := cres(e.Res)
	r := &flow.Rule{ID: id(e), Resource: res}
	switch e.Tok {
	case "Nil":
		return nil
	case "R1":
		r.TokenCalculateStrategy, r.ControlBehavior, r.Threshold, r.StatIntervalInMs = flow.Direct, flow.Reject, 5, 1000
	case "R2": // warm-up on the statistics of an associated resource; cold factor left at its zero value
		r.TokenCalculateStrategy, r.ControlBehavior, r.Threshold = flow.WarmUp, flow.Reject, 100
		r.RelationStrategy, r.RefResource, r.WarmUpPeriodSec = flow.AssociatedResource, res+"_a", 10
	case "R3": // pacing: one request per second, no queueing
		r.TokenCalculateStrategy, r.ControlBehavior, r.Threshold, r.StatIntervalInMs = flow.Direct, flow.Throttling, 10, 10000
	default: // invalid: a rule that would block the "pinv" probe, with ONE field broken
		r.TokenCalculateStrategy, r.ControlBehavior, r.Threshold, r.StatIntervalInMs = flow.Direct, flow.Reject, 1, 1000
		ma := func() {
			r.TokenCalculateStrategy = flow.MemoryAdaptive
			r.LowMemUsageThreshold, r.HighMemUsageThreshold, r.MemLowWaterMarkBytes, r.MemHighWaterMarkBytes = 2, 1, 1024, 2048
		}
		switch variant(e.Tok, 16) {
		case 0:
			r.Resource = ""
		case 1:
			r.Threshold = -1
		case 2:
			r.TokenCalculateStrategy = -1
		case 3:
			r.ControlBehavior = -1
		case 4:
			r.RelationStrategy = 2
		case 5:
			r.RelationStrategy = -1
		case 6:
			r.RelationStrategy, r.RefResource = flow.AssociatedResource, ""
		case 7:
			r.TokenCalculateStrategy, r.WarmUpPeriodSec, r.WarmUpColdFactor = flow.WarmUp, 0, 3
		case 8:
			r.TokenCalculateStrategy, r.WarmUpPeriodSec, r.WarmUpColdFactor = flow.WarmUp, 10, 1
		case 9:
			ma()
			r.LowMemUsageThreshold = 0
		case 10:
			ma()
			r.HighMemUsageThreshold = 0
		case 11:
			ma()
			r.HighMemUsageThreshold = 2
		case 12:
			ma()
			r.MemLowWaterMarkBytes = 0
		case 13:
			ma()
			r.MemHighWaterMarkBytes = 0
		case 14:
			ma()
			r.MemHighWaterMarkBytes = math.MaxInt64
		case 15:
			ma()
			r.MemLowWaterMarkBytes = 2048
		}
	}
	return r
}
func (m flowMod) mkList(list []el) []*flow.Rule {
	out := make([]*flow.Rule, 0, len(list))
	for _, e := range list {
		out = append(out, m.mk(e))
	}
	return out
}
func (m flowMod) load(list []el) (bool, error) { return flow.LoadRules(m.mkList(list)) }
func (m flowMod) loadRes(r string, l []el) (bool, error) {
	return flow.LoadRulesOfResource(cres(r), m.mkList(l))
}
func (flowMod) clear() error            { return flow.ClearRules() }
func (flowMod) clearRes(r string) error { return flow.ClearRulesOfResource(cres(r)) }
func (m flowMod) getAll() map[string][]el {
	g := grouped(m.resources())
	for _, r := range flow.GetRules() {
		k := absres(r.Resource)
		g[k] = append(g[k], parseID(r.ID))
	}
	return g
}
func (flowMod) getRes(res string) []el {
	out := []el{}
	for _, r := range flow.GetRulesOfResource(cres(res)) {
		out = append(out, parseID(r.ID))
	}
	return out
}
func (flowMod) probe(abs string) []hx.M {
	res := cres(abs)
	one := func(a *answer, batch uint32) {
		e, by := entry(res, abs, api.WithBatchCount(batch))
		a.see(by)
		if e != nil {
			e.Exit()
		}
	}
	ref := func() {
		if e, _ := entry(res+"_a", abs, api.WithBatchCount(100)); e != nil {
			e.Exit()
		}
	}
	var out []hx.M
	// p1: 6 tokens at once on an idle resource: only the threshold-5 rule objects
	adv(20000)
	a := &answer{"pass"}
	one(a, 6)
	out = append(out, pr(abs, "p1", a))
	// p2: the associated resource is busy: only the rule bound to its statistics objects
	adv(20000)
	a = &answer{"pass"}
	ref()
	one(a, 1)
	out = append(out, pr(abs, "p2", a))
	// p3: two requests at the same instant: only the pacing rule objects to the second
	adv(20000)
	a = &answer{"pass"}
	one(a, 1)
	one(a, 1)
	out = append(out, pr(abs, "p3", a))
	// all: a request every valid rule objects to: the first rule in list order must be the one named
	adv(20000)
	a = &answer{"pass"}
	one(a, 1)
	ref()
	one(a, 6)
	out = append(out, pr(abs, "all", a))
	// pinv: 3 tokens on an idle resource: admitted by every valid rule, refused by the invalid ones were they in force
	adv(20000)
	a = &answer{"pass"}
	one(a, 3)
	out = append(out, pr(abs, "pinv", a))
	return out
}

// ------------------------------------------------------------------------------------------ isolation
type isoMod struct{}

func (isoMod) desc() (bool, bool, bool, bool) { return true, false, true, true }
func (isoMod) resources() []string            { return []string{"r1", "r2"} }
func (isoMod) nvariants() int64               { return 3 }
func (isoMod) probeTable() map[string][]string {
	return map[string][]string{"p1": {"R1"}, "p2": {"R1", "R2"}, "p3": {"R1", "R2", "R3"}, "pinv": {"I1", "I2", "I3", "Nil"}}
}
func (isoMod) mk(e el) *isolation.Rule {
	r := &isolation.Rule{ID: id(e), Resource: cres(e.Res), MetricType: isolation.Concurrency}
	switch e.Tok {
	case "Nil":
		return nil
	case "R1":
		r.Threshold = 1
	case "R2":
		r.Threshold = 2
	case "R3":
		r.Threshold = 3
	default:
		r.Threshold = 1
		switch variant(e.Tok, 3) {
		case 0:
			r.Resource = ""
		case 1:
			r.MetricType = 1
		case 2:
			r.Threshold = 0
		}
	}
	return r
}
func (m isoMod) mkList(list []el) []*isolation.Rule {
	out := make([]*isolation.Rule, 0, len(list))
	for _, e := range list {
		out = append(out, m.mk(e))
	}
	return out
}
func (m isoMod) load(list []el) (bool, error) { return isolation.LoadRules(m.mkList(list)) }
func (m isoMod) loadRes(r string, l []el) (bool, error) {
	return isolation.LoadRulesOfResource(cres(r), m.mkList(l))
}
func (isoMod) clear() error            { return isolation.ClearRules() }
func (isoMod) clearRes(r string) error { return isolation.ClearRulesOfResource(cres(r)) }
func (m isoMod) getAll() map[string][]el {
	g := grouped(m.resources())
	for _, r := range isolation.GetRules() {
		k := absres(r.Resource)
		g[k] = append(g[k], parseID(r.ID))
	}
	return g
}
func (isoMod) getRes(res string) []el {
	out := []el{}
	for _, r := range isolation.GetRulesOfResource(cres(res)) {
		out = append(out, parseID(r.ID))
	}
	return out
}
func (isoMod) probe(abs string) []hx.M {
	res := cres(abs)
	var out []hx.M
	// p<k>: k+1 tokens at once with nothing in flight: refused by the rules with threshold <= k; pinv: 1 token
	for _, p := range []struct {
		name  string
		batch uint32
	}{{"p1", 2}, {"p2", 3}, {"p3", 4}, {"pinv", 1}} {
		adv(20000)
		a := &answer{"pass"}
		e, by := entry(res, abs, api.WithBatchCount(p.batch))
		a.see(by)
		if e != nil {
			e.Exit()
		}
		out = append(out, pr(abs, p.name, a))
	}
	return out
}

// ------------------------------------------------------------------------------------------ hotspot
type hotMod struct{}

func (hotMod) desc() (bool, bool, bool, bool) { return true, false, true, true }
func (hotMod) resources() []string            { return []string{"r1", "r2"} }
func (hotMod) nvariants() int64               { return 9 }
func (hotMod) probeTable() map[string][]string {
	return map[string][]string{"p1": {"R1"}, "p2": {"R2"}, "p3": {"R3"}, "all": {"R1", "R2", "R3"}, "pinv": {"I1", "I2", "I3", "Nil"}}
}
func (hotMod) mk(e el) *hotspot.Rule {
	r := &hotspot.Rule{ID: id(e), Resource: cres(e.Res), MetricType: hotspot.QPS, DurationInSec: 1}
	switch e.Tok {
	case "Nil":
		return nil
	case "R1": // refuses every request that carries attachment k1; SpecificItems left nil
		r.ControlBehavior, r.ParamKey, r.Threshold = hotspot.Reject, "k1", 0
	case "R2":
		r.ControlBehavior, r.ParamKey, r.Threshold = hotspot.Throttling, "k2", 0
		r.SpecificItems = map[interface{}]int64{"y": 3}
	case "R3": // refuses value "x" of attachment k3 only
		r.ControlBehavior, r.ParamKey, r.Threshold = hotspot.Reject, "k3", 1000
		r.SpecificItems = map[interface{}]int64{"x": 0}
	default:
		r.ControlBehavior, r.ParamKey, r.Threshold = hotspot.Reject, "ki", 0
		r.SpecificItems = map[interface{}]int64{}
		switch variant(e.Tok, 9) {
		case 0:
			r.Resource = ""
		case 1:
			r.Threshold = -1
		case 2:
			r.MetricType = -1
		case 3:
			r.ControlBehavior = -1
		case 4:
			r.DurationInSec = 0
		case 5:
			r.DurationInSec = -1
		case 6:
			r.ParamIndex = 1
		case 7:
			r.BurstCount = -1
		case 8:
			r.ControlBehavior, r.MaxQueueingTimeMs = hotspot.Throttling, -1
		}
	}
	return r
}
func (m hotMod) mkList(list []el) []*hotspot.Rule {
	out := make([]*hotspot.Rule, 0, len(list))
	for _, e := range list {
		out = append(out, m.mk(e))
	}
	return out
}
func (m hotMod) load(list []el) (bool, error) { return hotspot.LoadRules(m.mkList(list)) }
func (m hotMod) loadRes(r string, l []el) (bool, error) {
	return hotspot.LoadRulesOfResource(cres(r), m.mkList(l))
}
func (hotMod) clear() error            { return hotspot.ClearRules() }
func (hotMod) clearRes(r string) error { return hotspot.ClearRulesOfResource(cres(r)) }
func (m hotMod) getAll() map[string][]el {
	g := grouped(m.resources())
	for _, r := range hotspot.GetRules() {
		k := absres(r.Resource)
		g[k] = append(g[k], parseID(r.ID))
	}
	return g
}
func (hotMod) getRes(res string) []el {
	out := []el{}
	for _, r := range hotspot.GetRulesOfResource(cres(res)) {
		out = append(out, parseID(r.ID))
	}
	return out
}
func (hotMod) probe(abs string) []hx.M {
	res := cres(abs)
	var out []hx.M
	for _, p := range []struct {
		name string
		keys []string
	}{{"p1", []string{"k1"}}, {"p2", []string{"k2"}}, {"p3", []string{"k3"}}, {"all", []string{"k1", "k2", "k3"}}, {"pinv", []string{"ki"}}} {
		adv(20000)
		at := map[interface{}]interface{}{}
		for _, k := range p.keys {
			at[k] = "x"
		}
		a := &answer{"pass"}
		e, by := entry(res, abs, api.WithAttachments(at))
		a.see(by)
		if e != nil {
			e.Exit()
		}
		out = append(out, pr(abs, p.name, a))
	}
	return out
}

// ------------------------------------------------------------------------------------------ circuit breaker
type cbMod struct{}

func (cbMod) desc() (bool, bool, bool, bool) { return true, false, true, true }
func (cbMod) resources() []string            { return []string{"r1", "r2"} }
func (cbMod) nvariants() int64               { return 6 }
func (cbMod) probeTable() map[string][]string {
	return map[string][]string{"p1": {"R1"}, "p2": {"R2"}, "p3": {"R3"}, "all": {"R1", "R2", "R3"}, "pinv": {"I1", "I2", "I3", "Nil"}}
}
func cbRule(e el, res string) *cb.Rule {
	r := &cb.Rule{Id: id(e), Resource: res, RetryTimeoutMs: 1000, StatIntervalMs: 1000, MinRequestAmount: 1}
	switch e.Tok {
	case "R1": // opens on one slow request
		r.Strategy, r.MaxAllowedRtMs, r.Threshold = cb.SlowRequestRatio, 100, 1.0
	case "R2": // opens on the third error
		r.Strategy, r.Threshold = cb.ErrorCount, 3
	case "R3": // opens when at least half of >= 2 requests failed
		r.Strategy, r.Threshold, r.MinRequestAmount = cb.ErrorRatio, 0.5, 2
	}
	return r
}
func (cbMod) mk(e el) *cb.Rule {
	if e.Tok == "Nil" {
		return nil
	}
	r := cbRule(e, cres(e.Res))
	if e.Tok[0] == 'I' { // would open on the first error
		r.Strategy, r.Threshold = cb.ErrorCount, 1
		switch variant(e.Tok, 6) {
		case 0:
			r.Resource = ""
		case 1:
			r.StatIntervalMs = 0
		case 2:
			r.RetryTimeoutMs = 0
		case 3:
			r.Threshold = -1
		case 4:
			r.Strategy, r.Threshold, r.MaxAllowedRtMs = cb.SlowRequestRatio, 1.5, 0
		case 5:
			r.Strategy, r.Threshold = cb.ErrorRatio, 1.5
		}
	}
	return r
}
func (m cbMod) mkList(list []el) []*cb.Rule {
	out := make([]*cb.Rule, 0, len(list))
	for _, e := range list {
		out = append(out, m.mk(e))
	}
	return out
}
func (m cbMod) load(list []el) (bool, error) { return cb.LoadRules(m.mkList(list)) }
func (m cbMod) loadRes(r string, l []el) (bool, error) {
	return cb.LoadRulesOfResource(cres(r), m.mkList(l))
}
func (cbMod) clear() error            { return cb.ClearRules() }
func (cbMod) clearRes(r string) error { return cb.ClearRulesOfResource(cres(r)) }
func (m cbMod) getAll() map[string][]el {
	g := grouped(m.resources())
	for _, r := range cb.GetRules() {
		k := absres(r.Resource)
		g[k] = append(g[k], parseID(r.Id))
	}
	return g
}
func (cbMod) getRes(res string) []el {
	out := []el{}
	for _, r := range cb.GetRulesOfResource(cres(res)) {
		out = append(out, parseID(r.Id))
	}
	return out
}
func (cbMod) probe(abs string) []hx.M {
	res := cres(abs)
	// one request taking rt ms, failing or not
	req := func(a *answer, rt int64, fail bool) {
		e, by := entry(res, abs)
		a.see(by)
		if e == nil {
			return
		}
		adv(rt)
		if fail {
			api.TraceError(e, errBiz)
		}
		e.Exit()
	}
	// after the observation: let every breaker that opened recover (retry timeout, one good probe request)
	recoverAll := func() {
		adv(1500)
		if e, _ := entry(res, abs); e != nil {
			e.Exit()
		}
	}
	var out []hx.M
	run := func(name string, f func(a *answer)) {
		adv(20000)
		a := &answer{"pass"}
		f(a)
		// the observed requests: two in flight together (a breaker that is merely half-open refuses the second)
		e1, by1 := entry(res, abs)
		a.see(by1)
		e2, by2 := entry(res, abs)
		a.see(by2)
		if e1 != nil {
			e1.Exit()
		}
		if e2 != nil {
			e2.Exit()
		}
		out = append(out, pr(abs, name, a))
		recoverAll()
	}
	run("p1", func(a *answer) { req(a, 200, false) })
	run("p2", func(a *answer) {
		for i := 0; i < 4; i++ {
			req(a, 0, false)
		}
		for i := 0; i < 3; i++ {
			req(a, 0, true)
		}
	})
	run("p3", func(a *answer) { req(a, 0, false); req(a, 0, true) })
	run("all", func(a *answer) { // four requests in flight together, all slow and failing
		var es []*base.SentinelEntry
		for i := 0; i < 4; i++ {
			e, by := entry(res, abs)
			a.see(by)
			if e != nil {
				es = append(es, e)
			}
		}
		adv(200)
		for _, e := range es {
			api.TraceError(e, errBiz)
			e.Exit()
		}
	})
	run("pinv", func(a *answer) { req(a, 0, true) })
	return out
}

// ------------------------------------------------------------------------------------------ system
type sysMod struct{}

func (sysMod) desc() (bool, bool, bool, bool) { return false, false, false, false }
func (sysMod) resources() []string            { return []string{"sys"} }
func (sysMod) nvariants() int64               { return 4 }
func (sysMod) probeTable() map[string][]string {
	return map[string][]string{"p1": {"R1"}, "p2": {"R2"}, "p3": {"R3"}, "all": {"R1", "R2", "R3"}, "pinv": {"I1", "I2", "I3", "Nil"}}
}
func (sysMod) mk(e el) *system.Rule {
	r := &system.Rule{ID: id(e), Strategy: system.NoAdaptive}
	switch e.Tok {
	case "Nil":
		return nil
	case "R1":
		r.MetricType, r.TriggerCount = system.InboundQPS, 3
	case "R2":
		r.MetricType, r.TriggerCount = system.Concurrency, 2
	case "R3":
		r.MetricType, r.TriggerCount = system.Load, 5
	default:
		switch variant(e.Tok, 4) {
		case 0: // would refuse every inbound request
			r.MetricType, r.TriggerCount = system.AvgRT, -1
		case 1:
			r.MetricType, r.TriggerCount = system.MetricTypeSize, 0
		case 2:
			r.MetricType, r.TriggerCount = 99, 0
		case 3: // would refuse while the CPU usage reads 2.0
			r.MetricType, r.TriggerCount = system.CpuUsage, 1.5
		}
	}
	return r
}
func (m sysMod) load(list []el) (bool, error) {
	out := make([]*system.Rule, 0, len(list))
	for _, e := range list {
		out = append(out, m.mk(e))
	}
	return system.LoadRules(out)
}
func (sysMod) loadRes(string, []el) (bool, error) {
	hx.Fatal("system has no per-resource load")
	return false, nil
}
func (sysMod) clear() error          { return system.ClearRules() }
func (sysMod) clearRes(string) error { hx.Fatal("system has no per-resource clear"); return nil }
func (m sysMod) getAll() map[string][]el {
	g := grouped(m.resources())
	for _, r := range system.GetRules() {
		g["sys"] = append(g["sys"], parseID(r.ID))
	}
	return g
}
func (sysMod) getRes(string) []el { return nil }
func (sysMod) probe(abs string) []hx.M {
	res := cres("in")
	in := api.WithTrafficType(base.Inbound)
	var out []hx.M
	run := func(name string, f func(a *answer) func()) {
		adv(20000)
		a := &answer{"pass"}
		undo := f(a)
		e, by := entry(res, abs, in) // the observed request
		a.see(by)
		if e != nil {
			e.Exit()
		}
		if undo != nil {
			undo()
		}
		out = append(out, pr(abs, name, a))
	}
	passN := func(a *answer, n int) {
		for i := 0; i < n; i++ {
			e, by := entry(res, abs, in)
			a.see(by)
			if e != nil {
				e.Exit()
			}
		}
	}
	hold := func(a *answer, n int) func() {
		var es []*base.SentinelEntry
		for i := 0; i < n; i++ {
			e, by := entry(res, abs, in)
			a.see(by)
			if e != nil {
				es = append(es, e)
			}
		}
		return func() {
			for _, e := range es {
				e.Exit()
			}
		}
	}
	run("p1", func(a *answer) func() { passN(a, 3); return nil })
	run("p2", func(a *answer) func() { return hold(a, 2) })
	run("p3", func(a *answer) func() {
		system_metric.SetSystemLoad(10)
		return func() { system_metric.SetSystemLoad(0) }
	})
	run("all", func(a *answer) func() {
		passN(a, 1)
		u := hold(a, 2)
		system_metric.SetSystemLoad(10)
		return func() { u(); system_metric.SetSystemLoad(0) }
	})
	run("pinv", func(a *answer) func() {
		system_metric.SetSystemCpuUsage(2.0)
		return func() { system_metric.SetSystemCpuUsage(0) }
	})
	return out
}

// ------------------------------------------------------------------------------------------ outlier
type outMod struct{}

func (outMod) desc() (bool, bool, bool, bool) { return true, true, true, false }
func (outMod) resources() []string            { return []string{"r1", "r2"} }
func (outMod) nvariants() int64               { return 8 }
func (outMod) probeTable() map[string][]string {
	return map[string][]string{"p": {"R1", "R2", "R3"}}
}
func (outMod) mk(e el) *outlier.Rule {
	if e.Tok == "Nil" {
		return nil
	}
	c := &cb.Rule{Id: id(e), Resource: cres(e.Res), Strategy: cb.ErrorCount, RetryTimeoutMs: 1000, StatIntervalMs: 1000, MinRequestAmount: 1}
	r := &outlier.Rule{Rule: c, MaxEjectionPercent: 1.0}
	switch e.Tok {
	case "R1": // ejects a node on its 1st / 2nd / 3rd error
		c.Threshold = 1
	case "R2":
		c.Threshold = 2
	case "R3":
		c.Threshold = 3
	default:
		c.Threshold = 4
		switch variant(e.Tok, 8) {
		case 0:
			c.Resource = ""
		case 1:
			r.MaxEjectionPercent = -0.1
		case 2:
			r.MaxEjectionPercent = 1.5
		case 3:
			c.StatIntervalMs = 0
		case 4:
			c.RetryTimeoutMs = 0
		case 5:
			c.Threshold = -1
		case 6:
			c.Strategy, c.Threshold = cb.ErrorRatio, 1.5
		case 7:
			r.Rule = nil
		}
	}
	return r
}
func (m outMod) load(list []el) (bool, error) {
	out := make([]*outlier.Rule, 0, len(list))
	for _, e := range list {
		out = append(out, m.mk(e))
	}
	return outlier.LoadRules(out)
}
func (m outMod) loadRes(r string, l []el) (bool, error) {
	if len(l) > 1 {
		hx.Fatal("outlier per-resource load takes at most one rule")
	}
	if len(l) == 0 { // the per-resource load of "no rule"
		return outlier.LoadRuleOfResource(cres(r), nil)
	}
	return outlier.LoadRuleOfResource(cres(r), m.mk(l[0]))
}
func (outMod) clear() error            { return outlier.ClearRules() }
func (outMod) clearRes(r string) error { return outlier.ClearRuleOfResource(cres(r)) }
func (m outMod) getAll() map[string][]el {
	g := grouped(m.resources())
	for _, r := range outlier.GetRules() {
		if r.Rule == nil {
			g["other"] = append(g["other"], el{"?", "?"})
			continue
		}
		k := absres(r.Resource)
		g[k] = append(g[k], parseID(r.Id))
	}
	return g
}
func (outMod) getRes(string) []el { return nil }
func (outMod) probe(abs string) []hx.M {
	res := cres(abs)
	call := func(fail bool) (ejected bool) {
		e, b := api.Entry(res, api.WithSlotChain(outChain), api.WithTrafficType(base.Outbound))
		if b != nil {
			return false
		}
		for _, n := range e.Context().FilterNodes() {
			if n == "n1" {
				ejected = true
			}
		}
		api.TraceCallee(e, "n1")
		if fail {
			api.TraceError(e, errBiz)
		}
		e.Exit()
		return
	}
	// how many errors of node n1 does it take until the node is ejected?  (identifies the rule in force)
	adv(20000)
	a := &answer{"pass"}
count:
	for k := 1; k <= 5; k++ {
		if call(true) {
			// the k-th call saw the node ejected after k-1 errors
			switch k - 1 {
			case 0:
				a.by = "?ejected-before-any-error"
			case 1, 2, 3:
				a.by = fmt.Sprintf("R%d", k-1)
			default:
				a.by = "?I"
			}
			break count
		}
	}
	adv(1500)
	call(false) // recovery probe of the node
	adv(1500)
	call(false)
	return []hx.M{pr(abs, "p", a)}
}

// ---------------------------------------------------------------------------------------------------

func pairs(l []el) [][]string {
	out := make([][]string, 0, len(l))
	for _, e := range l {
		out = append(out, []string{e.Tok, e.Res})
	}
	return out
}

func parseList(x interface{}) []el {
	var out []el
	l, _ := x.([]interface{})
	for _, it := range l {
		p, ok := it.([]interface{})
		if !ok || len(p) != 2 {
			hx.Fatal("bad list element %v", it)
		}
		out = append(out, el{p[0].(string), p[1].(string)})
	}
	return out
}

func clearEverything() {
	guard := func(f func() error) {
		defer func() { recover() }()
		_ = f()
	}
	guard(flow.ClearRules)
	guard(isolation.ClearRules)
	guard(hotspot.ClearRules)
	guard(cb.ClearRules)
	guard(system.ClearRules)
	guard(outlier.ClearRules)
	system_metric.SetSystemLoad(0)
	system_metric.SetSystemCpuUsage(0)
}

func main() {
	if len(os.Args) < 3 {
		hx.Fatal("usage: c13 scenarios.ndjson trace.ndjson")
	}
	scn, err := hx.ReadNDJSON[hx.M](os.Args[1])
	if err != nil {
		hx.Fatal("%v", err)
	}
	clk = hx.NewVClock(1e6)
	clk.NoAdvance = true
	clk.Install()
	hx.InitSentinel()
	baseMs = hx.BaseMs(10000)
	adv(0)
	outChain = api.BuildDefaultSlotChain()
	outChain.AddRuleCheckSlot(outlier.DefaultSlot)
	outChain.AddStatSlot(outlier.DefaultMetricStatSlot)
	out := hx.NewTrace(os.Args[2])
	defer out.Close()

	mods := map[string]module{"flow": flowMod{}, "isolation": isoMod{}, "hotspot": hotMod{}, "circuitbreaker": cbMod{},
		"system": sysMod{}, "outlier": outMod{}}
	var m module
	dead := false // a call of the running scenario panicked: the rest of it is not executed
	for _, s := range scn {
		op := hx.Str(s, "op")
		switch op {
		case "new":
			clearEverything()
			adv(60000)
			tr = hx.Int(s, "tr")
			var ok bool
			if m, ok = mods[hx.Str(s, "mod")]; !ok {
				hx.Fatal("unknown module %q", hx.Str(s, "mod"))
			}
			vars = map[string]int64{}
			if v, ok := s["var"].(map[string]interface{}); ok {
				for k, x := range v {
					vars[k] = int64(x.(float64))
				}
			}
			dead = false
			perRes, rejects, ordered, _ := m.desc()
			varn := hx.M{}
			for k := range vars {
				varn[k] = variant(k, m.nvariants())
			}
			out.Emit(hx.M{"op": "new", "tr": tr, "mod": hx.Str(s, "mod"), "perres": perRes, "rejects": rejects, "ordered": ordered,
				"invalid": []string{"I1", "I2", "I3", "Nil"}, "res": m.resources(), "probes": m.probeTable(), "var": varn})
		case "load", "clear":
			if dead {
				continue
			}
			scope := hx.Str(s, "scope")
			list := parseList(s["list"])
			var changed, panicked bool
			var e error
			func() {
				defer func() {
					if r := recover(); r != nil {
						panicked = true
					}
				}()
				switch {
				case op == "load" && scope == "*":
					changed, e = m.load(list)
				case op == "load":
					changed, e = m.loadRes(scope, list)
				case scope == "*":
					e = m.clear()
				default:
					e = m.clearRes(scope)
				}
			}()
			rec := hx.M{"op": op, "scope": scope, "list": pairs(list), "changed": changed, "err": e != nil, "panic": panicked}
			all := hx.M{}
			probes := []hx.M{}
			if !panicked {
				// getters and probing traffic: a panic escaping them is an observable as well
				func() {
					defer func() {
						if r := recover(); r != nil {
							panicked = true
							rec["panic"] = true
							rec["where"] = "getter-or-probe"
							delete(rec, "rep")
							all = hx.M{}
							probes = []hx.M{}
						}
					}()
					_, _, _, resGetter := m.desc()
					if resGetter {
						rep := hx.M{}
						for _, r := range m.resources() {
							rep[r] = pairs(m.getRes(r))
						}
						rec["rep"] = rep
					}
					for k, v := range m.getAll() {
						all[k] = pairs(v)
					}
					for _, r := range m.resources() {
						probes = append(probes, m.probe(r)...)
					}
				}()
			}
			if panicked {
				dead = true
				for _, r := range m.resources() {
					all[r] = [][]string{}
				}
			}
			rec["all"] = all
			rec["probes"] = probes
			out.Emit(rec)
		default:
			hx.Fatal("unknown op %q", op)
		}
	}
	clearEverything()
}
