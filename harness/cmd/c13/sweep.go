// PARAMETER SWEEP.  A scenario whose "new" record carries "params" uses PARAMETRIC tokens (P1, P2, ...): params[P] is a
// RULE RECORD - the numeric fields of the module's rule type as integers (fractional fields in thousandths; spec/RuleStore.tla,
// section RULE PARAMETERS, documents the field names) - and the driver builds the rule from exactly these numbers.  The
// driver does NOT know which records are valid (it never calls IsValidRule): it loads them, records what the getters
// return and runs the probes listed in the scenario's "sweep" - plain traffic whose shape (batch sizes, number of failing
// completions, system metrics) the scenario generator derived from the numbers of each record - recording the answer of
// every single request.  spec/RuleStore_Trace.tla decides which records are valid rules (RuleStore!ValidRule), that
// exactly those are reported, and what each request must have been answered (RuleStore!Verdict / Trips / Ejects).
//
//	{"kind":"req", "tok":"P1", "env":{"load":..,"cpu":..,"mem":..}, "bs":[5,1]}   requests of bs[i] units at ONE instant on an
//	      idle resource, every admitted one held until the probe ends (hotspot: all carry attachment "k<tok>" = a value no
//	      rule has seen; system: inbound traffic)                                  -> reqs: [{"b":5,"by":"pass"},{"b":1,"by":"P1"}]
//	{"kind":"trip", "n":4, "fails":3, "rt":200}   n requests in flight together complete after rt ms, the last `fails' with
//	      an error; then two observed requests in flight together; then recovery  -> adm: [by...], obs: [by, by]
//	{"kind":"eject", "n":3, "fails":3, "rt":0}    outlier: the same against node n1 (node n2 answers one healthy call first);
//	      is n1 filtered out for the next call?                                   -> hit, nodes: 2
package main

import (
	"fmt"

	"github.com/alibaba/sentinel-golang/api"
	"github.com/alibaba/sentinel-golang/core/base"
	cb "github.com/alibaba/sentinel-golang/core/circuitbreaker"
	"github.com/alibaba/sentinel-golang/core/flow"
	"github.com/alibaba/sentinel-golang/core/hotspot"
	"github.com/alibaba/sentinel-golang/core/isolation"
	"github.com/alibaba/sentinel-golang/core/outlier"
	"github.com/alibaba/sentinel-golang/core/system"
	"github.com/alibaba/sentinel-golang/core/system_metric"

	"verifharness/hx"
)

type prec hx.M

func (p prec) i(k string) int64 {
	if _, ok := p[k]; !ok {
		hx.Fatal("rule record lacks field %q: %v", k, p)
	}
	return hx.Int(hx.M(p), k)
}
func (p prec) b(k string) bool {
	v, ok := p[k].(bool)
	if !ok {
		hx.Fatal("rule record lacks boolean field %q: %v", k, p)
	}
	return v
}
func (p prec) milli(k string) float64 { return float64(p.i(k)) / 1000.0 }

var (
	params   map[string]prec // parametric token -> rule record (nil in an ordinary scenario)
	sweep    []hx.M          // the probes of the running sweep scenario
	freshArg int64
)

func param(tok string) (prec, bool) { p, ok := params[tok]; return p, ok }

func flowParam(e el, p prec) *flow.Rule {
	res := cres(e.Res)
	r := &flow.Rule{ID: id(e), Resource: res,
		TokenCalculateStrategy: flow.TokenCalculateStrategy(p.i("tcs")), ControlBehavior: flow.ControlBehavior(p.i("cb")),
		Threshold: p.milli("thr"), RelationStrategy: flow.RelationStrategy(p.i("rel")),
		StatIntervalInMs: uint32(p.i("intv")), WarmUpPeriodSec: uint32(p.i("wup")), WarmUpColdFactor: uint32(p.i("wcf")),
		MaxQueueingTimeMs: uint32(p.i("mq")), LowMemUsageThreshold: p.i("lomem"), HighMemUsageThreshold: p.i("himem"),
		MemLowWaterMarkBytes: p.i("lowm"), MemHighWaterMarkBytes: p.i("hiwm")}
	if p.b("ref") {
		r.RefResource = res + "_a"
	}
	if p.b("nores") {
		r.Resource = ""
	}
	return r
}

func isoParam(e el, p prec) *isolation.Rule {
	r := &isolation.Rule{ID: id(e), Resource: cres(e.Res), MetricType: isolation.MetricType(p.i("mt")), Threshold: uint32(p.i("thr"))}
	if p.b("nores") {
		r.Resource = ""
	}
	return r
}

func hotKey(tok string) string { return "k" + tok }

func hotParam(e el, p prec) *hotspot.Rule {
	r := &hotspot.Rule{ID: id(e), Resource: cres(e.Res), MetricType: hotspot.MetricType(p.i("mt")),
		ControlBehavior: hotspot.ControlBehavior(p.i("cb")), ParamIndex: int(p.i("idx")), Threshold: p.i("thr"),
		MaxQueueingTimeMs: p.i("mq"), BurstCount: p.i("burst"), DurationInSec: p.i("dur"), ParamsMaxCapacity: p.i("cap")}
	if p.b("key") {
		r.ParamKey = hotKey(e.Tok)
	}
	if p.b("nores") {
		r.Resource = ""
	}
	return r
}

func cbParam(e el, p prec) *cb.Rule {
	r := &cb.Rule{Id: id(e), Resource: cres(e.Res), Strategy: cb.Strategy(p.i("strat")), RetryTimeoutMs: uint32(p.i("retry")),
		MinRequestAmount: uint64(p.i("minreq")), StatIntervalMs: uint32(p.i("intv")), StatSlidingWindowBucketCount: uint32(p.i("bc")),
		MaxAllowedRtMs: uint64(p.i("maxrt")), Threshold: p.milli("thr"), ProbeNum: uint64(p.i("probenum"))}
	if p.b("nores") {
		r.Resource = ""
	}
	return r
}

func sysParam(e el, p prec) *system.Rule {
	return &system.Rule{ID: id(e), MetricType: system.MetricType(p.i("mt")), TriggerCount: p.milli("thr"), Strategy: system.AdaptiveStrategy(p.i("strat"))}
}

func outParam(e el, p prec) *outlier.Rule {
	r := &outlier.Rule{Rule: cbParam(e, p), MaxEjectionPercent: p.milli("pct")}
	if p.b("nilrule") {
		r.Rule = nil
	}
	return r
}

// ---------------------------------------------------------------------------------------------------

func ints(x interface{}) []int64 {
	var out []int64
	l, _ := x.([]interface{})
	for _, v := range l {
		out = append(out, int64(v.(float64)))
	}
	return out
}

// requests of bs[i] units at one instant on an idle resource, held until the end
func reqProbe(name, abs string, def hx.M) hx.M {
	adv(60000)
	env, _ := def["env"].(map[string]interface{})
	system_metric.SetSystemLoad(float64(hx.Int(env, "load")) / 1000.0)
	system_metric.SetSystemCpuUsage(float64(hx.Int(env, "cpu")) / 1000.0)
	system_metric.SetSystemMemoryUsage(hx.Int(env, "mem"))
	tok := hx.Str(def, "tok")
	res := cres(abs)
	var common []api.EntryOption
	switch name {
	case "hotspot":
		freshArg++
		common = append(common, api.WithAttachments(map[interface{}]interface{}{hotKey(tok): fmt.Sprintf("v%d", freshArg)}))
	case "system":
		res = cres("in")
		common = append(common, api.WithTrafficType(base.Inbound))
	}
	var held []*base.SentinelEntry
	reqs := []hx.M{}
	for _, b := range ints(def["bs"]) {
		opts := append([]api.EntryOption{api.WithBatchCount(uint32(b))}, common...)
		e, by := entry(res, abs, opts...)
		if e != nil {
			held = append(held, e)
		}
		reqs = append(reqs, hx.M{"b": b, "by": by})
	}
	for _, e := range held {
		e.Exit()
	}
	system_metric.SetSystemLoad(0)
	system_metric.SetSystemCpuUsage(0)
	system_metric.SetSystemMemoryUsage(system_metric.NotRetrievedMemoryValue)
	return hx.M{"res": abs, "p": "sw", "kind": "req", "tok": tok, "env": env, "reqs": reqs}
}

// n requests in flight together complete after rt ms, the last `fails' with an error; two observed requests; recovery
func tripProbe(abs string, def hx.M) hx.M {
	adv(60000)
	res := cres(abs)
	n, fails, rt := int(hx.Int(def, "n")), int(hx.Int(def, "fails")), hx.Int(def, "rt")
	var es []*base.SentinelEntry
	adm := []string{}
	for i := 0; i < n; i++ {
		e, by := entry(res, abs)
		adm = append(adm, by)
		if e != nil {
			es = append(es, e)
		}
	}
	adv(rt)
	for i, e := range es {
		if i >= len(es)-fails {
			api.TraceError(e, errBiz)
		}
		e.Exit()
	}
	e1, by1 := entry(res, abs)
	e2, by2 := entry(res, abs)
	if e1 != nil {
		e1.Exit()
	}
	if e2 != nil {
		e2.Exit()
	}
	// recovery: past every retry timeout and statistic interval of the sweep, then good requests one after the other
	// (the first takes every open breaker to half-open, ProbeNum <= 3 good completions close it)
	adv(61000)
	for i := 0; i < 3; i++ {
		if e, _ := entry(res, abs); e != nil {
			e.Exit()
		}
	}
	return hx.M{"res": abs, "p": "sw", "kind": "trip", "n": n, "fails": fails, "rt": rt, "adm": adm, "obs": []string{by1, by2}}
}

// outlier: node n2 answers one healthy call, then n calls to node n1 in flight together complete after rt ms, the last
// `fails' with an error: is n1 filtered out for the next call?
func ejectProbe(abs string, def hx.M) hx.M {
	adv(60000)
	res := cres(abs)
	n, fails, rt := int(hx.Int(def, "n")), int(hx.Int(def, "fails")), hx.Int(def, "rt")
	enter := func() *base.SentinelEntry {
		e, b := api.Entry(res, api.WithSlotChain(outChain), api.WithTrafficType(base.Outbound))
		if b != nil {
			return nil
		}
		return e
	}
	if e := enter(); e != nil {
		api.TraceCallee(e, "n2")
		e.Exit()
	}
	var es []*base.SentinelEntry
	for i := 0; i < n; i++ {
		if e := enter(); e != nil {
			es = append(es, e)
		}
	}
	adv(rt)
	for i, e := range es {
		api.TraceCallee(e, "n1")
		if i >= len(es)-fails {
			api.TraceError(e, errBiz)
		}
		e.Exit()
	}
	hit := false
	if e := enter(); e != nil {
		for _, x := range e.Context().FilterNodes() {
			if x == "n1" {
				hit = true
			}
		}
		api.TraceCallee(e, "n2")
		e.Exit()
	}
	adv(61000)
	for i := 0; i < 3; i++ {
		if e := enter(); e != nil {
			api.TraceCallee(e, "n1")
			e.Exit()
		}
	}
	return hx.M{"res": abs, "p": "sw", "kind": "eject", "n": n, "fails": fails, "rt": rt, "nodes": 2, "hit": hit}
}

func sweepProbes(name, abs string) []hx.M {
	out := []hx.M{}
	for _, def := range sweep {
		switch hx.Str(def, "kind") {
		case "req":
			out = append(out, reqProbe(name, abs, def))
		case "trip":
			out = append(out, tripProbe(abs, def))
		case "eject":
			out = append(out, ejectProbe(abs, def))
		default:
			hx.Fatal("unknown sweep probe %v", def)
		}
	}
	return out
}
