// c16 drives custom slot chains of the real library (base.SlotChain, entered through
// api.Entry(res, api.WithSlotChain(chain), ...)) assembled from recording slots with scripted
// behaviours (pass / nil / block in three ways / panic, colliding order values) and records, per
// operation, the call log of the slots, what the caller got back, and the fields of every block error
// handed out so far (before and after further traffic that recycles the pooled contexts / results).
// The recorded trace is judged by spec/EntryChain_Trace.tla (property C16).
//
// usage: c16 <scenarios.ndjson> <trace.ndjson>
package main

import (
	"os"

	"verifharness/ecx"
	"verifharness/hx"
)

func main() {
	if len(os.Args) < 3 {
		hx.Fatal("usage: c16 scenarios.ndjson trace.ndjson")
	}
	scn, err := hx.ReadNDJSON[hx.M](os.Args[1])
	if err != nil {
		hx.Fatal("%v", err)
	}
	clk := hx.NewVClock(1e6)
	clk.Install()
	hx.InitSentinel()
	tr := hx.NewTrace(os.Args[2])
	defer tr.Close()
	// "stat" is accepted too so that a C16 scenario may put the real statistic slots among the recorders
	// "multi": several chains alive at once, obtained from the library's constructors (incl. the default and the global chain)
	ecx.NewEngine(clk, tr, "chain", "stat", "multi").Run(scn)
}
