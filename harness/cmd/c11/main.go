//go:build verif

// c11 drives adaptive flow rules of the real code (warm-up and memory-adaptive token calculation with the reject
// checker) through the public API (flow.LoadRules, api.Entry, system_metric.SetSystemMemoryUsage) under the virtual
// clock and records every decision.  The traces are validated against spec/WarmUp_Trace.tla and
// spec/MemAdaptive_Trace.tla (property C11).
//
// scenario ops (times in ms relative to the start of the scenario):
//
//	new   {tr, kind:"warmup", t, tn, td, p, c}        one WarmUp/Reject rule on a fresh resource: Threshold tn/td,
//	                                                  WarmUpPeriodSec p, WarmUpColdFactor c
//	new   {tr, kind:"mem", low, high, lw, hw}         one MemoryAdaptive/Reject rule on a fresh resource
//	tick  {d}                                         clock += d
//	req   {b}                                         one api.Entry(WithBatchCount(b)); an admitted entry is exited at once
//	burst {n}                                         n single-token requests at the current instant (n req records)
//	probe {mem, n}                                    clock += 3 s (empty window), SetSystemMemoryUsage(mem), n single-token
//	                                                  requests at one instant; records how many were admitted
//
// usage: c11 <scenarios.ndjson> <trace.ndjson>
package main

import (
	"fmt"
	"os"

	"github.com/alibaba/sentinel-golang/api"
	"github.com/alibaba/sentinel-golang/core/flow"
	"github.com/alibaba/sentinel-golang/core/system_metric"

	"verifharness/hx"
)

type run struct {
	tr    int64
	epoch int64
	name  string
}

// one request; returns admitted / panicked
func request(name string, b uint32) (ok bool, panicked bool) {
	defer func() {
		if e := recover(); e != nil {
			ok, panicked = false, true
		}
	}()
	e, berr := api.Entry(name, api.WithBatchCount(b))
	if berr != nil {
		return false, false
	}
	e.Exit()
	return true, false
}

func main() {
	if len(os.Args) < 3 {
		hx.Fatal("usage: c11 scenarios.ndjson trace.ndjson")
	}
	scn, err := hx.ReadNDJSON[hx.M](os.Args[1])
	if err != nil {
		hx.Fatal("%v", err)
	}
	clk := hx.NewVClock(hx.BaseMs(1000) * 1e6)
	clk.Install()
	hx.InitSentinel()
	tr := hx.NewTrace(os.Args[2])
	defer tr.Close()
	var r *run
	emitReq := func(b int64) {
		ok, p := request(r.name, uint32(b))
		rec := hx.M{"op": "req", "b": b, "ok": ok}
		if p {
			rec["panic"] = true
		}
		tr.Emit(rec)
	}
	for _, s := range scn {
		op := hx.Str(s, "op")
		if op != "new" && r == nil {
			hx.Fatal("scenario does not start with new")
		}
		switch op {
		case "new":
			epoch := (clk.NowMs()/1000 + 5) * 1000
			r = &run{tr: hx.Int(s, "tr"), epoch: epoch}
			r.name = fmt.Sprintf("c11_%d", r.tr)
			t0 := hx.Int(s, "t")
			clk.SetMs(epoch + t0)
			system_metric.SetSystemMemoryUsage(system_metric.NotRetrievedMemoryValue)
			var rule *flow.Rule
			var rec hx.M
			switch hx.Str(s, "kind") {
			case "warmup":
				tn, td, p, c := hx.Int(s, "tn"), hx.Int(s, "td"), hx.Int(s, "p"), hx.Int(s, "c")
				rule = &flow.Rule{Resource: r.name, TokenCalculateStrategy: flow.WarmUp, ControlBehavior: flow.Reject,
					Threshold: float64(tn) / float64(td), WarmUpPeriodSec: uint32(p), WarmUpColdFactor: uint32(c)}
				rec = hx.M{"op": "new", "tr": r.tr, "t": t0, "tn": tn, "td": td, "p": p, "c": c}
			case "mem":
				low, high, lw, hw := hx.Int(s, "low"), hx.Int(s, "high"), hx.Int(s, "lw"), hx.Int(s, "hw")
				rule = &flow.Rule{Resource: r.name, TokenCalculateStrategy: flow.MemoryAdaptive, ControlBehavior: flow.Reject,
					LowMemUsageThreshold: low, HighMemUsageThreshold: high, MemLowWaterMarkBytes: lw, MemHighWaterMarkBytes: hw}
				rec = hx.M{"op": "new", "tr": r.tr, "low": low, "high": high, "lw": lw, "hw": hw}
			default:
				hx.Fatal("unknown kind %q", hx.Str(s, "kind"))
			}
			if _, err := flow.LoadRules([]*flow.Rule{rule}); err != nil {
				hx.Fatal("LoadRules: %v", err)
			}
			if got := len(flow.GetRulesOfResource(r.name)); got != 1 {
				hx.Fatal("trace %d: the rule is not in force (invalid rule in the scenario?)", r.tr)
			}
			tr.Emit(rec)
		case "tick":
			clk.AdvanceMs(hx.Int(s, "d"))
			tr.Emit(hx.M{"op": "tick", "t": clk.NowMs() - r.epoch})
		case "req":
			emitReq(hx.Int(s, "b"))
		case "burst":
			for i := int64(0); i < hx.Int(s, "n"); i++ {
				emitReq(1)
			}
		case "probe":
			clk.AdvanceMs(3000)
			mem, n := hx.Int(s, "mem"), hx.Int(s, "n")
			system_metric.SetSystemMemoryUsage(mem)
			k := int64(0)
			for i := int64(0); i < n; i++ {
				if ok, _ := request(r.name, 1); ok {
					k++
				}
			}
			tr.Emit(hx.M{"op": "probe", "mem": mem, "n": n, "k": k})
		default:
			hx.Fatal("unknown op %q", op)
		}
	}
	_ = flow.ClearRules()
}
