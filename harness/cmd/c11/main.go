//go:build verif

// c11 drives adaptive flow rules of the real code (warm-up and memory-adaptive token calculation with the reject
// or the throttling checker) through the public API (flow.LoadRules, api.Entry, system_metric.SetSystemMemoryUsage)
// under the virtual clock and records every decision.  The traces are validated against spec/WarmUp_Trace.tla and
// spec/MemAdaptive_Trace.tla (property C11).
//
// scenario ops (times in ms relative to the start of the scenario):
//
//	new   {tr, kind:"warmup", t, tn, td, p, c [, cb, q]}   one WarmUp rule on a fresh resource: Threshold tn/td,
//	                                                  WarmUpPeriodSec p, WarmUpColdFactor c; control behaviour cb
//	                                                  (0 / absent: Reject, 1: Throttling with MaxQueueingTimeMs q)
//	new   {tr, kind:"mem", low, high, lw, hw [, cb, q]}    one MemoryAdaptive rule on a fresh resource (same cb, q)
//	      (both: optional si = StatIntervalInMs of the rule; absent / 0 = the default statistic of the resource, 1000 ms)
//	reload {same fields as new, via}                  the rule of the resource is replaced now: flow.LoadRules (via absent /
//	                                                  "set") or flow.LoadRulesOfResource (via "res"); same kind, same resource
//	tick  {d}                                         clock += d
//	at    {t}                                         clock = start + t (ms) unless it is already past that
//	req   {b}                                         one api.Entry(WithBatchCount(b)); an admitted entry is exited at once
//	burst {n}                                         n single-token requests at the current instant (n req records)
//	pace  {until, step}                               (throttling warm-up rule) saturating single-token demand until
//	                                                  start + until ms: one request after the other; a rejected one is
//	                                                  repeated step ms later, an admitted one has slept (virtual clock) as
//	                                                  long as the library asked it to
//	probe {mem, n}                                    clock += 3 s (empty window), SetSystemMemoryUsage(mem), n single-token
//	                                                  requests at one instant; records how many were admitted
//	                                                  (throttling rule: saturating demand for one second, one request per
//	                                                  millisecond; records the requests made and those whose ADMISSION
//	                                                  time lies inside that second)
//
// trace records of a throttling warm-up rule (times in microseconds since the start of the scenario):
//
//	preq {t, ok, w}       one request at t; admitted after sleeping w (rounded up), or rejected
//	prej {n, t0, t1}      n consecutive rejected requests at t0..t1 (pace only; never spans an aligned second)
//
// usage: c11 <scenarios.ndjson> <trace.ndjson>
package main

import (
	"fmt"
	"os"

	"github.com/alibaba/sentinel-golang/api"
	"github.com/alibaba/sentinel-golang/core/flow"
	"github.com/alibaba/sentinel-golang/core/system_metric"

	"verifharness/hx"
)

type run struct {
	tr    int64
	epoch int64
	name  string
	kind  string
	thr   bool  // throttling control behaviour
	si    int64 // StatIntervalInMs of the rule in force
}

// one request; returns admitted / panicked
func request(name string, b uint32) (ok bool, panicked bool) {
	defer func() {
		if e := recover(); e != nil {
			ok, panicked = false, true
		}
	}()
	e, berr := api.Entry(name, api.WithBatchCount(b))
	if berr != nil {
		return false, false
	}
	e.Exit()
	return true, false
}

func main() {
	if len(os.Args) < 3 {
		hx.Fatal("usage: c11 scenarios.ndjson trace.ndjson")
	}
	scn, err := hx.ReadNDJSON[hx.M](os.Args[1])
	if err != nil {
		hx.Fatal("%v", err)
	}
	clk := hx.NewVClock(hx.BaseMs(1000) * 1e6)
	clk.Install()
	hx.InitSentinel()
	tr := hx.NewTrace(os.Args[2])
	defer tr.Close()
	var r *run
	us := func() int64 { return (clk.NowNs() - r.epoch*1e6) / 1000 }
	emitTick := func() { tr.Emit(hx.M{"op": "tick", "t": clk.NowMs() - r.epoch}) }
	// one single-token request to a throttling rule: admitted, nanoseconds slept, request time (microseconds)
	paced := func() (ok bool, w int64, t int64) {
		clk.TakeSleeps()
		t = us()
		ok, p := request(r.name, 1)
		if p {
			hx.Fatal("trace %d: panic in a throttled request", r.tr)
		}
		for _, d := range clk.TakeSleeps() {
			if d > 0 {
				w += d
			}
		}
		return ok, w, t
	}
	// the rule described by a new / reload op (kind of the scenario, resource of the scenario) and its trace record
	build := func(s hx.M) (*flow.Rule, hx.M) {
		cb, q := int64(0), int64(0)
		if _, ok := s["cb"]; ok {
			cb = hx.Int(s, "cb")
		}
		if _, ok := s["q"]; ok {
			q = hx.Int(s, "q")
		}
		behavior := flow.Reject
		if cb == 1 {
			behavior = flow.Throttling
		} else if cb != 0 || q != 0 {
			hx.Fatal("trace %d: cb must be 0 (reject) or 1 (throttling, with q)", r.tr)
		}
		r.thr = cb == 1
		si := int64(0) // StatIntervalInMs (0 / absent: the default statistic of the resource, 1000 ms)
		if _, ok := s["si"]; ok {
			si = hx.Int(s, "si")
		}
		r.si = si
		switch r.kind {
		case "warmup":
			tn, td, p, c := hx.Int(s, "tn"), hx.Int(s, "td"), hx.Int(s, "p"), hx.Int(s, "c")
			return &flow.Rule{Resource: r.name, TokenCalculateStrategy: flow.WarmUp, ControlBehavior: behavior, MaxQueueingTimeMs: uint32(q),
					Threshold: float64(tn) / float64(td), WarmUpPeriodSec: uint32(p), WarmUpColdFactor: uint32(c), StatIntervalInMs: uint32(si)},
				hx.M{"tn": tn, "td": td, "p": p, "c": c, "cb": cb, "q": q, "si": si}
		case "mem":
			low, high, lw, hw := hx.Int(s, "low"), hx.Int(s, "high"), hx.Int(s, "lw"), hx.Int(s, "hw")
			return &flow.Rule{Resource: r.name, TokenCalculateStrategy: flow.MemoryAdaptive, ControlBehavior: behavior, MaxQueueingTimeMs: uint32(q),
					LowMemUsageThreshold: low, HighMemUsageThreshold: high, MemLowWaterMarkBytes: lw, MemHighWaterMarkBytes: hw, StatIntervalInMs: uint32(si)},
				hx.M{"low": low, "high": high, "lw": lw, "hw": hw, "cb": cb, "q": q, "si": si}
		}
		hx.Fatal("unknown kind %q", r.kind)
		return nil, nil
	}
	emitPaced := func(ok bool, w int64, t int64) {
		tr.Emit(hx.M{"op": "preq", "t": t, "ok": ok, "w": (w + 999) / 1000})
		if w > 0 {
			emitTick()
		}
	}
	emitReq := func(b int64) {
		if r.thr {
			if b != 1 {
				hx.Fatal("trace %d: throttling scenarios use single-token requests", r.tr)
			}
			emitPaced(paced())
			return
		}
		ok, p := request(r.name, uint32(b))
		rec := hx.M{"op": "req", "b": b, "ok": ok}
		if p {
			rec["panic"] = true
		}
		tr.Emit(rec)
	}
	for _, s := range scn {
		op := hx.Str(s, "op")
		if op != "new" && r == nil {
			hx.Fatal("scenario does not start with new")
		}
		switch op {
		case "new":
			epoch := (clk.NowMs()/1000 + 5) * 1000
			r = &run{tr: hx.Int(s, "tr"), epoch: epoch}
			r.name = fmt.Sprintf("c11_%d", r.tr)
			t0 := hx.Int(s, "t")
			clk.SetMs(epoch + t0)
			system_metric.SetSystemMemoryUsage(system_metric.NotRetrievedMemoryValue)
			r.kind = hx.Str(s, "kind")
			rule, rec := build(s)
			rec["op"], rec["tr"] = "new", r.tr
			if r.kind == "warmup" {
				rec["t"] = t0
			}
			if _, err := flow.LoadRules([]*flow.Rule{rule}); err != nil {
				hx.Fatal("LoadRules: %v", err)
			}
			if got := len(flow.GetRulesOfResource(r.name)); got != 1 {
				hx.Fatal("trace %d: the rule is not in force (invalid rule in the scenario?)", r.tr)
			}
			tr.Emit(rec)
		case "reload":
			// the rule of the resource is replaced in the middle of the history (whole set or this resource only)
			rule, rec := build(s)
			var err error
			if hx.Str(s, "via") == "res" {
				_, err = flow.LoadRulesOfResource(r.name, []*flow.Rule{rule})
			} else {
				_, err = flow.LoadRules([]*flow.Rule{rule})
			}
			if err != nil {
				hx.Fatal("reload: %v", err)
			}
			if got := len(flow.GetRulesOfResource(r.name)); got != 1 {
				hx.Fatal("trace %d: the reloaded rule is not in force (invalid rule in the scenario?)", r.tr)
			}
			rec["op"], rec["t"] = "reload", clk.NowMs()-r.epoch
			tr.Emit(rec)
		case "tick":
			clk.AdvanceMs(hx.Int(s, "d"))
			emitTick()
		case "at":
			if t := r.epoch + hx.Int(s, "t"); clk.NowMs() < t {
				clk.SetMs(t)
			}
			emitTick()
		case "req":
			emitReq(hx.Int(s, "b"))
		case "burst":
			for i := int64(0); i < hx.Int(s, "n"); i++ {
				emitReq(1)
			}
		case "pace":
			if !r.thr || r.kind != "warmup" {
				hx.Fatal("trace %d: pace needs a throttling warm-up rule", r.tr)
			}
			until, step := (r.epoch+hx.Int(s, "until"))*1e6, hx.Int(s, "step")*1e6
			if step <= 0 {
				hx.Fatal("trace %d: pace needs a positive step", r.tr)
			}
			var n, t0, t1 int64 // rejections not yet written
			same := 0           // consecutive admissions without any wait
			flush := func() {
				if n > 0 {
					tr.Emit(hx.M{"op": "prej", "n": n, "t0": t0, "t1": t1})
					n = 0
				}
			}
			for clk.NowNs() < until {
				ok, w, t := paced()
				if ok {
					flush()
					emitPaced(ok, w, t)
					// (a rule that admits without ever spacing - NaN threshold - must not hold the clock still for ever)
					if same++; w > 0 {
						same = 0
					} else if same >= 50 {
						clk.SetNs(until) // (the unlimited admission is on record; more of the same demand adds nothing)
					}
					continue
				}
				same = 0
				if n > 0 && t/1e6 != t0/1e6 {
					flush()
					emitTick()
				}
				if n == 0 {
					t0 = t
				}
				n, t1 = n+1, t
				if rest := until - clk.NowNs(); rest < step {
					clk.AdvanceNs(rest)
				} else {
					clk.AdvanceNs(step)
				}
			}
			flush()
			emitTick()
		case "probe":
			if r.si+1000 > 3000 {
				clk.AdvanceMs(r.si + 1000) // (a statistic window longer than two seconds must have emptied as well)
			} else {
				clk.AdvanceMs(3000)
			}
			mem, n := hx.Int(s, "mem"), hx.Int(s, "n")
			system_metric.SetSystemMemoryUsage(mem)
			k := int64(0)
			if r.thr {
				// saturating demand for one second: the admissions are spaced by 1/threshold; count those inside the second
				n = 0
				for end := clk.NowNs() + 1e9; clk.NowNs() < end; n++ {
					at := clk.NowNs()
					clk.TakeSleeps()
					ok, _ := request(r.name, 1)
					for _, d := range clk.TakeSleeps() {
						if d > 0 {
							at += d
						}
					}
					if ok && at < end {
						k++
					}
					if !ok || at >= end || n%50 == 49 {
						clk.AdvanceMs(1)
					}
				}
				tr.Emit(hx.M{"op": "probe", "mem": mem, "n": n, "k": k})
				break
			}
			for i := int64(0); i < n; i++ {
				if ok, _ := request(r.name, 1); ok {
					k++
				}
			}
			tr.Emit(hx.M{"op": "probe", "mem": mem, "n": n, "k": k})
		default:
			hx.Fatal("unknown op %q", op)
		}
	}
	_ = flow.ClearRules()
}
