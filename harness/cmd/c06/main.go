//go:build verif

// c06 drives the hot-parameter CONCURRENCY rules of the real code (core/hotspot) through the
// public API: hotspot.LoadRules + api.Entry(WithArgs / WithAttachments) + entry.Exit, entries for
// different values and resources opened, nested and exited in any order, interleaved with entries
// on resources without a rule that carry other arguments (pooled-option reuse).
// After every operation it records what Input.Args of EVERY live entry reads.
// Concurrent admission (ops chk / rec / recall): a request is started on its own goroutine under the
// cooperative gate (hx.Sched) and parked at the yield point "chain.checked" of the slot chain, i.e.
// after the rule checks took the decision and before the statistic slots record the entry; other
// entries are opened, exited and probed from the main goroutine in between; "rec" lets the parked
// caller finish and records what api.Entry returned.  The schedules come from TLC (HotParamConc with
// K >= 1: Check / Record / Exit as separate actions).
// First use of a value (op burst): G goroutines, released by a spin barrier under real parallelism (no gate:
// there is no yield point inside the parameter cache), issue one request each for the same value at the
// same instant - normally a value the rule has never seen, so they race for the on-demand creation of its
// counter (HotParamConc with Fresh: Lookup / Create / Record).  Their outcomes are recorded; the entries are
// either held (they become live entries of the trace, exited later by exit / exitall from the main
// goroutine) or exited by their own goroutine right away.  The probes that follow judge the quiescent state.
// Reload (op reload): the rule table is replaced while entries are live (hotspot.LoadRules, LoadRulesOfResource /
// ClearRulesOfResource, or ClearRules + LoadRules); the entries opened before it are exited afterwards like any other.
// Other slots that fail ("chain" of op new, "pp" of a request): the entries of the trace go through a slot chain of their own
// (api.WithSlotChain) - api.BuildDefaultSlotChain() ("user") or only the hot-parameter slots ("custom") - to which three user
// slots are added: a rule-check slot in front of every check, a statistic slot in front of (order 3500) and one behind (order
// 9000) the hot-parameter statistic slot (order 4000).  pp (carried by api.WithFlag) names the slot that panics while the request
// is served: chk, sb / sa (OnEntryPassed), cb / ca (OnCompleted).  A panic reaching the caller of api.Entry or Exit is recorded.
// The recorded trace is validated against spec/HotParamConc_Trace.tla.
//
// usage: c06 <scenarios.ndjson> <trace.ndjson>
package main

import (
	"fmt"
	"math/rand"
	"os"
	"runtime"
	"runtime/debug"
	"sort"
	"sync"
	"sync/atomic"

	"github.com/alibaba/sentinel-golang/api"
	"github.com/alibaba/sentinel-golang/core/base"
	"github.com/alibaba/sentinel-golang/core/hotspot"
	"github.com/alibaba/sentinel-golang/core/stat"

	"verifharness/hpx"
	"verifharness/hx"
)

type liveEntry struct {
	id int64
	e  *base.SentinelEntry
}

// a caller parked between the rule check and the statistic slot
type parked struct {
	proc *hx.Proc
	e    *base.SentinelEntry
	b    *base.BlockError
	p    bool
}

type run struct {
	tr    int64
	tab   *hpx.Table
	live  map[int64]*base.SentinelEntry
	sched *hx.Sched
	pend  map[int64]*parked
	chain *base.SlotChain // nil: the global chain
}

// where a user slot panics while a request is served (Input.Flag of the request)
var ppFlag = map[string]int32{"": 0, "none": 0, "sb": 1, "sa": 2, "cb": 3, "ca": 4, "chk": 5}

// userStat is a user statistic slot: it panics when told "passed" / "completed" for a request flagged pass / comp
type userStat struct {
	order      uint32
	pass, comp int32
}

func (s *userStat) Order() uint32 { return s.order }
func (s *userStat) OnEntryPassed(ctx *base.EntryContext) {
	if ctx.Input.Flag == s.pass {
		panic("user statistic slot: OnEntryPassed")
	}
}
func (s *userStat) OnEntryBlocked(*base.EntryContext, *base.BlockError) {}
func (s *userStat) OnCompleted(ctx *base.EntryContext) {
	if ctx.Input.Flag == s.comp {
		panic("user statistic slot: OnCompleted")
	}
}

// userCheck is a user rule-check slot in front of every other check: it panics for a request flagged chk
type userCheck struct{}

func (userCheck) Order() uint32 { return 100 }
func (userCheck) Check(ctx *base.EntryContext) *base.TokenResult {
	if ctx.Input.Flag == ppFlag["chk"] {
		panic("user rule-check slot")
	}
	return nil
}

// the slot chain of a trace: "" = the global one, "user" = the default slots + the user slots, "custom" = only the
// hot-parameter slots + the user slots
func buildChain(kind string) *base.SlotChain {
	var sc *base.SlotChain
	switch kind {
	case "":
		return nil
	case "user":
		sc = api.BuildDefaultSlotChain()
	case "custom":
		sc = base.NewSlotChain()
		sc.AddRuleCheckSlot(hotspot.DefaultSlot)
		sc.AddStatSlot(hotspot.DefaultConcurrencyStatSlot)
	default:
		hx.Fatal("chain %q", kind)
	}
	sc.AddRuleCheckSlot(userCheck{})
	sc.AddStatSlot(&userStat{order: 3500, pass: ppFlag["sb"], comp: ppFlag["cb"]})
	sc.AddStatSlot(&userStat{order: 9000, pass: ppFlag["sa"], comp: ppFlag["ca"]})
	return sc
}

// Exit of an entry; a panic escaping the library is an observable
func exit(e *base.SentinelEntry) (panicked bool) {
	defer func() {
		if x := recover(); x != nil {
			panicked = true
		}
	}()
	e.Exit()
	return
}

// release the parked caller id: it runs through the statistic slots, api.Entry returns; the outcome is recorded
func (r *run) record(tr *hx.Trace, id int64) {
	pk := r.pend[id]
	if pk == nil {
		hx.Fatal("trace %d: rec of caller %d which is not parked", r.tr, id)
	}
	r.sched.Finish(pk.proc)
	delete(r.pend, id)
	rec := hx.M{"op": "rec", "id": id, "ok": pk.e != nil && pk.b == nil, "tv": 0}
	if pk.p {
		rec["panic"], rec["ok"] = true, false
	} else if pk.b != nil {
		rec["tv"] = tvOf(pk.b)
	} else {
		r.live[id] = pk.e
	}
	rec["live"] = r.liveObs()
	tr.Emit(rec)
}

func (r *run) pendIDs() []int64 {
	ids := make([]int64, 0, len(r.pend))
	for id := range r.pend {
		ids = append(ids, id)
	}
	sort.Slice(ids, func(i, j int) bool { return ids[i] < ids[j] })
	return ids
}

// end of a trace: nobody stays parked, nothing stays live, the gate is removed
func (r *run) close() {
	for _, id := range r.pendIDs() {
		pk := r.pend[id]
		r.sched.Finish(pk.proc)
		if pk.e != nil {
			pk.e.Exit()
		}
	}
	for _, e := range r.live {
		e.Exit()
	}
	if r.sched != nil {
		r.sched.Close()
	}
}

// the hotspot rules of a rule table {resource: {thr, items, idx, key, cap}} (only: restrict to these resources)
func (r *run) rules(tab interface{}, only map[string]bool) []*hotspot.Rule {
	rules := []*hotspot.Rule{}
	rm, _ := tab.(map[string]interface{})
	names := make([]string, 0, len(rm))
	for name := range rm {
		if only == nil || only[name] {
			names = append(names, name)
		}
	}
	sort.Strings(names)
	for _, name := range names {
		x := rm[name].(map[string]interface{})
		rules = append(rules, &hotspot.Rule{
			Resource: r.res(name), MetricType: hotspot.Concurrency, ControlBehavior: hotspot.Reject,
			ParamIndex: int(hx.Int(x, "idx")), ParamKey: hx.Str(x, "key"), Threshold: hx.Int(x, "thr"),
			ParamsMaxCapacity: hx.Int(x, "cap"), SpecificItems: r.tab.Items(x["items"]),
		})
	}
	return rules
}

func (r *run) res(name string) string { return fmt.Sprintf("c06_%d_%s", r.tr, name) }

// what every live entry reads back as its arguments right now
func (r *run) liveObs() []hx.M {
	ids := make([]int64, 0, len(r.live))
	for id := range r.live {
		ids = append(ids, id)
	}
	sort.Slice(ids, func(i, j int) bool { return ids[i] < ids[j] })
	out := make([]hx.M, 0, len(ids))
	for _, id := range ids {
		out = append(out, hx.M{"id": id, "args": r.tab.Names(r.live[id].Context().Input.Args)})
	}
	return out
}

func (r *run) opts(s hx.M) []api.EntryOption {
	tab := r.tab
	var o []api.EntryOption
	if r.chain != nil {
		o = append(o, api.WithSlotChain(r.chain))
	}
	if pp, ok := ppFlag[hx.Str(s, "pp")]; !ok {
		hx.Fatal("pp %q", hx.Str(s, "pp"))
	} else if pp != 0 {
		if r.chain == nil {
			hx.Fatal("trace %d: pp without a chain of its own", r.tr)
		}
		o = append(o, api.WithFlag(pp))
	}
	if a := tab.Args(s["args"]); len(a) > 0 {
		o = append(o, api.WithArgs(a...))
	}
	if m := tab.Atts(s["atts"]); m != nil {
		o = append(o, api.WithAttachments(m))
	}
	// an entry occupies exactly ONE unit of its value whatever its batch count: scenarios vary it
	if b := hx.Int(s, "b"); b > 1 {
		o = append(o, api.WithBatchCount(uint32(b)))
	}
	return o
}

// one api.Entry; a panic escaping the library is an observable
func entry(res string, o []api.EntryOption) (e *base.SentinelEntry, b *base.BlockError, panicked bool) {
	defer func() {
		if x := recover(); x != nil {
			panicked = true
		}
	}()
	e, b = api.Entry(res, o...)
	return
}

func tvOf(b *base.BlockError) int64 {
	if b.BlockType() != base.BlockTypeHotSpotParamFlow {
		hx.Fatal("blocked by an unexpected slot: %v", b.BlockType())
	}
	switch v := b.TriggeredValue().(type) {
	case int64:
		return v
	case nil:
		return -1
	}
	return -2
}

func norm(s hx.M, k string, empty interface{}) interface{} {
	if s[k] == nil {
		return empty
	}
	return s[k]
}

func main() {
	if len(os.Args) < 3 {
		hx.Fatal("usage: c06 scenarios.ndjson trace.ndjson")
	}
	scn, err := hx.ReadNDJSON[hx.M](os.Args[1])
	if err != nil {
		hx.Fatal("%v", err)
	}
	clk := hx.NewVClock(1e6)
	clk.Install()
	hx.InitSentinel()
	base0 := hx.BaseMs(10000)
	// one P: sync.Pool hands the most recently returned option / context object to the next caller,
	// so pooled-object reuse is deterministic in the sequential scenarios
	runtime.GOMAXPROCS(1)
	// no garbage collection: it would empty the sync.Pools at an arbitrary point of a trace (the runs are short)
	debug.SetGCPercent(-1)
	tr := hx.NewTrace(os.Args[2])
	defer tr.Close()
	var r *run
	for _, s := range scn {
		op := hx.Str(s, "op")
		args, atts := norm(s, "args", []interface{}{}), norm(s, "atts", hx.M{})
		switch op {
		case "new":
			if r != nil {
				r.close()
			}
			_ = hotspot.ClearRules()
			stat.ResetResourceNodeMap()
			clk.SetMs(base0 + 1000)
			// canonical pool state at the start of every trace, whatever ran before (a replayed scenario must
			// meet the same pooled objects as in the batch run): the collector never runs, so the pools are never
			// emptied, and one entry with 8 arguments makes the pooled option slice at least 8 wide
			if e, _ := api.Entry("c06_warmup", api.WithArgs(0, 0, 0, 0, 0, 0, 0, 0)); e != nil {
				e.Exit()
			}
			r = &run{tr: hx.Int(s, "tr"), tab: hpx.NewTable(hx.Str(s, "ty")), live: map[int64]*base.SentinelEntry{}, pend: map[int64]*parked{},
				chain: buildChain(hx.Str(s, "chain"))}
			rules := r.rules(s["rules"], nil)
			if _, err := hotspot.LoadRules(rules); err != nil {
				hx.Fatal("LoadRules: %v", err)
			}
			if got := len(hotspot.GetRules()); got != len(rules) {
				hx.Fatal("trace %d: %d of %d rules accepted", r.tr, got, len(rules))
			}
			tr.Emit(hx.M{"op": "new", "tr": r.tr, "ty": r.tab.Ty, "rules": s["rules"], "chain": hx.Str(s, "chain")})
		case "req":
			id := hx.Int(s, "id")
			e, b, p := entry(r.res(hx.Str(s, "res")), r.opts(s))
			rec := hx.M{"op": "req", "id": id, "res": s["res"], "args": args, "atts": atts, "ok": e != nil && b == nil, "tv": 0, "pp": norm(s, "pp", "none")}
			if p {
				rec["panic"], rec["ok"] = true, false
			} else if b != nil {
				rec["tv"] = tvOf(b)
			} else {
				r.live[id] = e
			}
			rec["live"] = r.liveObs()
			tr.Emit(rec)
		case "chk":
			// a caller on its own goroutine runs api.Entry up to the point between rule checks and statistic slots
			id := hx.Int(s, "id")
			if r.sched == nil {
				r.sched = hx.NewSched()
				r.sched.Filter = func(p string) bool { return p == "chain.checked" }
			}
			pk := &parked{}
			res, o := r.res(hx.Str(s, "res")), r.opts(s)
			pk.proc = r.sched.Spawn(func() { pk.e, pk.b, pk.p = entry(res, o) })
			point := r.sched.Step(pk.proc)
			r.pend[id] = pk
			tr.Emit(hx.M{"op": "chk", "id": id, "res": s["res"], "args": args, "atts": atts, "point": point, "pp": norm(s, "pp", "none"), "live": r.liveObs()})
		case "rec":
			r.record(tr, hx.Int(s, "id"))
		case "recall":
			// quiescence of the admission path: every parked caller finishes (oldest first, or newest first)
			ids := r.pendIDs()
			if hx.Str(s, "order") == "lifo" {
				sort.Slice(ids, func(i, j int) bool { return ids[i] > ids[j] })
			}
			for _, id := range ids {
				r.record(tr, id)
			}
		case "exit":
			id := hx.Int(s, "id")
			e := r.live[id]
			if e == nil { // the request was rejected on the real code: nothing to exit
				continue
			}
			p := exit(e)
			delete(r.live, id)
			tr.Emit(hx.M{"op": "exit", "id": id, "panic": p, "live": r.liveObs()})
		case "exitall":
			// drain: exit whatever is still live on the real code, oldest first
			ids := make([]int64, 0, len(r.live))
			for id := range r.live {
				ids = append(ids, id)
			}
			sort.Slice(ids, func(i, j int) bool { return ids[i] < ids[j] })
			if hx.Str(s, "order") == "lifo" {
				sort.Slice(ids, func(i, j int) bool { return ids[i] > ids[j] })
			}
			for _, id := range ids {
				p := exit(r.live[id])
				delete(r.live, id)
				tr.Emit(hx.M{"op": "exit", "id": id, "panic": p, "live": r.liveObs()})
			}
		case "probe":
			// how many further entries for this value are admitted right now
			res, o := r.res(hx.Str(s, "res")), r.opts(s)
			var got []*base.SentinelEntry
			tv := int64(0)
			for len(got) < 12 {
				e, b, p := entry(res, o)
				if p {
					tv = -9
					break
				}
				if b != nil {
					tv = tvOf(b)
					break
				}
				got = append(got, e)
			}
			for i := len(got) - 1; i >= 0; i-- {
				got[i].Exit()
			}
			tr.Emit(hx.M{"op": "probe", "res": s["res"], "args": args, "atts": atts, "n": len(got), "tv": tv, "live": r.liveObs()})
		case "reload":
			// the rule table is replaced in the middle of the history, entries stay live: the whole table through LoadRules
			// ("load"), after ClearRules ("clear"), or resource by resource for the resources listed in `only` ("res":
			// LoadRulesOfResource, ClearRulesOfResource for a resource that has no rule in the new table)
			rm, _ := s["rules"].(map[string]interface{})
			var err error
			switch via := hx.Str(s, "via"); via {
			case "load":
				_, err = hotspot.LoadRules(r.rules(rm, nil))
			case "clear":
				_ = hotspot.ClearRules()
				_, err = hotspot.LoadRules(r.rules(rm, nil))
			case "res":
				only, _ := s["only"].([]interface{})
				for _, o := range only {
					name := o.(string)
					if _, ruled := rm[name]; ruled {
						_, err = hotspot.LoadRulesOfResource(r.res(name), r.rules(rm, map[string]bool{name: true}))
					} else {
						err = hotspot.ClearRulesOfResource(r.res(name))
					}
					if err != nil {
						break
					}
				}
			default:
				hx.Fatal("reload via %q", via)
			}
			if err != nil {
				hx.Fatal("reload: %v", err)
			}
			tr.Emit(hx.M{"op": "reload", "rules": norm(s, "rules", hx.M{}), "via": s["via"], "n": len(hotspot.GetRules()), "live": r.liveObs()})
		case "burst":
			out := r.burst(s)
			tr.Emit(hx.M{"op": "burst", "res": s["res"], "args": args, "atts": atts, "hold": hx.Int(s, "hold") != 0, "out": out, "live": r.liveObs()})
		case "stress":
			aliased := r.stress(s)
			tr.Emit(hx.M{"op": "stress", "aliased": aliased, "used": s["used"]})
		default:
			hx.Fatal("unknown op %q", op)
		}
	}
	if r != nil {
		r.close()
	}
}

// burst: len(ids) goroutines issue one request each for the same (resource, arguments) at the same instant.
// hold != 0: the admitted entries stay live under their ids; else every goroutine exits its own entry
// (after `lag` scheduler yields).  Everything has returned when burst returns.
func (r *run) burst(s hx.M) []hx.M {
	idl, _ := s["ids"].([]interface{})
	g := len(idl)
	hold, lag := hx.Int(s, "hold") != 0, int(hx.Int(s, "lag"))
	res := r.res(hx.Str(s, "res"))
	// the value table is not safe for concurrent use: every goroutine gets its options built here
	os_ := make([][]api.EntryOption, g)
	for i := range os_ {
		os_[i] = r.opts(s)
	}
	type outcome struct {
		e *base.SentinelEntry
		b *base.BlockError
		p bool
	}
	res_ := make([]outcome, g)
	procs := g
	if procs < 8 {
		procs = 8
	}
	prev := runtime.GOMAXPROCS(procs)
	defer runtime.GOMAXPROCS(prev)
	var arrived int32
	var wg sync.WaitGroup
	wg.Add(g)
	for i := 0; i < g; i++ {
		go func(i int) {
			defer wg.Done()
			// spin barrier: every caller is running on a processor of its own when the round starts (busy waiting, so
			// that one processor cannot take all callers through the barrier one after the other; the scheduler is
			// asked for help only after a long wait, e.g. on a machine with fewer free CPUs than callers)
			atomic.AddInt32(&arrived, 1)
			for k := 1; atomic.LoadInt32(&arrived) < int32(g); k++ {
				if k&(1<<18-1) == 0 {
					runtime.Gosched()
				}
			}
			o := &res_[i]
			o.e, o.b, o.p = entry(res, os_[i])
			if !hold && o.e != nil && o.b == nil {
				for k := 0; k < lag; k++ {
					runtime.Gosched()
				}
				o.e.Exit()
			}
		}(i)
	}
	wg.Wait()
	out := make([]hx.M, 0, g)
	for i := 0; i < g; i++ {
		id := int64(idl[i].(float64))
		o := res_[i]
		m := hx.M{"id": id, "ok": o.e != nil && o.b == nil, "tv": 0}
		if o.p {
			m["panic"], m["ok"] = true, false
		} else if o.b != nil {
			m["tv"] = tvOf(o.b)
		} else if hold {
			r.live[id] = o.e
		}
		out = append(out, m)
	}
	return out
}

// stress: G goroutines open / nest / exit entries concurrently (real parallelism, no gate) and all
// exit before it returns.  Returns how many entries read back arguments other than their own.
func (r *run) stress(s hx.M) int64 {
	g, n := int(hx.Int(s, "g")), int(hx.Int(s, "n"))
	choices, _ := s["reqs"].([]interface{})
	type choice struct {
		res  string
		o    []api.EntryOption
		want []string
	}
	cs := make([]choice, 0, len(choices))
	for _, c := range choices {
		m := c.(map[string]interface{})
		cs = append(cs, choice{res: r.res(hx.Str(m, "res")), o: r.opts(m), want: r.tab.Names(r.tab.Args(m["args"]))})
	}
	// make sure every value has a counter cell before the goroutines race for the first access
	prev := runtime.GOMAXPROCS(8)
	defer runtime.GOMAXPROCS(prev)
	var aliased int64
	var wg sync.WaitGroup
	for i := 0; i < g; i++ {
		wg.Add(1)
		go func(seed int64) {
			defer wg.Done()
			rng := rand.New(rand.NewSource(seed))
			type held struct {
				e    *base.SentinelEntry
				want []string
			}
			var stack []held
			exit := func(k int) {
				h := stack[k]
				got := r.tab.Names(h.e.Context().Input.Args)
				if fmt.Sprint(got) != fmt.Sprint(h.want) {
					atomic.AddInt64(&aliased, 1)
				}
				h.e.Exit()
				stack = append(stack[:k], stack[k+1:]...)
			}
			for k := 0; k < n; k++ {
				c := cs[rng.Intn(len(cs))]
				e, _, _ := entry(c.res, c.o)
				if e != nil {
					stack = append(stack, held{e, c.want})
				}
				if rng.Intn(3) == 0 {
					runtime.Gosched()
				}
				for len(stack) > 0 && (len(stack) > 3 || rng.Intn(2) == 0) {
					exit(rng.Intn(len(stack)))
				}
			}
			for len(stack) > 0 {
				exit(len(stack) - 1)
			}
		}(hx.Int(s, "seed")*1000 + int64(i))
	}
	wg.Wait()
	return aliased
}
