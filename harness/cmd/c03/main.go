// c03 drives the circuit breakers of the real code (core/circuitbreaker) through the public API:
// circuitbreaker.LoadRules / LoadRulesOfResource, RegisterStateChangeListeners, api.Entry and
// entry.Exit(base.WithError(err)) under the virtual clock.  Entries may be held open across other
// entries (stragglers) and exited in any order.  Every step records the decision, the block type,
// the triggered rule (as the 1-based index of the rule in the resource's list) and the listener
// callbacks that fired during the step.  The trace is validated against spec/Breaker_Trace.tla.
//
// usage: c03 <scenarios.ndjson> <trace.ndjson>
//
// scenario ops:
//   {"op":"new","tr":N,"unit":U,"via":"all"|"res","maxfl":M,"rules":{"r1":[{strategy,thr:[num,den],minAmt,timeout,I,nb,maxRt,probeNum}, ...]}}
//        times (timeout, I, maxRt) in ticks of U ms
//   {"op":"req","res":"r1","id":K}
//   {"op":"done","id":K,"err":bool}      or   {"op":"done","sel":J,"err":bool}  (J-th oldest open entry, modulo)
//   {"op":"tick","d":D}                   D ticks
package main

import (
	"errors"
	"os"
	"sort"

	"github.com/alibaba/sentinel-golang/api"
	"github.com/alibaba/sentinel-golang/core/base"
	cb "github.com/alibaba/sentinel-golang/core/circuitbreaker"
	"github.com/alibaba/sentinel-golang/core/stat"

	"verifharness/hx"
)

// listener records every callback: from, to, resource (scenario name), breaker index.
type listener struct {
	log   []hx.M
	names map[string]string // concrete resource -> scenario resource name
}

func stName(s cb.State) string {
	switch s {
	case cb.Closed:
		return "C"
	case cb.HalfOpen:
		return "H"
	case cb.Open:
		return "O"
	}
	return "?"
}

func idx(id string) int64 {
	var n int64
	for _, c := range id {
		if c >= '0' && c <= '9' {
			n = n*10 + int64(c-'0')
		}
	}
	return n
}

func (l *listener) add(from cb.State, to string, r cb.Rule) {
	l.log = append(l.log, hx.M{"f": stName(from), "t": to, "res": l.names[r.Resource], "b": idx(r.Id)})
}
func (l *listener) OnTransformToClosed(prev cb.State, rule cb.Rule)   { l.add(prev, "C", rule) }
func (l *listener) OnTransformToOpen(prev cb.State, rule cb.Rule, _ interface{}) { l.add(prev, "O", rule) }
func (l *listener) OnTransformToHalfOpen(prev cb.State, rule cb.Rule) { l.add(prev, "H", rule) }
func (l *listener) take() []hx.M {
	out := l.log
	l.log = nil
	if out == nil {
		out = []hx.M{}
	}
	return out
}

type open struct {
	id    int64
	e     *base.SentinelEntry
	start int64
	seq   int
}

func gcd(a, b int64) int64 {
	for b != 0 {
		a, b = b, a%b
	}
	return a
}
func lcm(a, b int64) int64 { return a / gcd(a, b) * b }

func ruleList(s hx.M, res string) []hx.M {
	rs, _ := s["rules"].(map[string]interface{})
	l, _ := rs[res].([]interface{})
	var out []hx.M
	for _, x := range l {
		out = append(out, x.(map[string]interface{}))
	}
	return out
}

func effBL(I, nb int64) int64 {
	if nb == 0 || I%nb != 0 {
		return I
	}
	return I / nb
}

func main() {
	if len(os.Args) < 3 {
		hx.Fatal("usage: c03 scenarios.ndjson trace.ndjson")
	}
	scn, err := hx.ReadNDJSON[hx.M](os.Args[1])
	if err != nil {
		hx.Fatal("%v", err)
	}
	clk := hx.NewVClock(1e6)
	clk.Install()
	// one alignment for the whole file: a common multiple of every bucket length and of 1000 ms
	align := int64(1000)
	for _, s := range scn {
		if hx.Str(s, "op") != "new" {
			continue
		}
		unit := hx.Int(s, "unit")
		if unit == 0 {
			unit = 1
		}
		rs, _ := s["rules"].(map[string]interface{})
		for res := range rs {
			for _, r := range ruleList(s, res) {
				align = lcm(align, effBL(hx.Int(r, "I")*unit, hx.Int(r, "nb")))
				if align > 1e10 {
					hx.Fatal("bucket lengths of the scenario file have no reasonable common multiple")
				}
			}
		}
	}
	origin := hx.BaseMs(align)
	clk.SetMs(origin)
	hx.InitSentinel()
	tr := hx.NewTrace(os.Args[2])
	defer tr.Close()

	var (
		lis     *listener
		unit    int64
		t0      int64 // absolute start of the running scenario
		end     = origin
		names   map[string]string // scenario resource -> concrete
		opens   map[int64]*open
		seq     int
		ruleIdx map[*cb.Rule]int64
		n       int64 // index of the running operation within its scenario (echoed in every record)
		maxfl   int
	)
	rel := func() int64 { return clk.NowMs() - t0 }
	for _, s := range scn {
		op := hx.Str(s, "op")
		n++
		switch op {
		case "new":
			n = 0
			maxfl = int(hx.Int(s, "maxfl"))
			// leftovers of the previous scenario
			for _, o := range opens {
				o.e.Exit()
			}
			if err := cb.ClearRules(); err != nil {
				hx.Fatal("ClearRules: %v", err)
			}
			cb.ClearStateChangeListeners()
			stat.ResetResourceNodeMap()
			if clk.NowMs() > end {
				end = clk.NowMs()
			}
			t0 = (end/align + 1) * align
			clk.SetMs(t0)
			end = t0
			unit = hx.Int(s, "unit")
			if unit == 0 {
				unit = 1
			}
			trn := hx.Int(s, "tr")
			names, opens, ruleIdx = map[string]string{}, map[int64]*open{}, map[*cb.Rule]int64{}
			lis = &listener{names: map[string]string{}}
			cb.RegisterStateChangeListeners(lis)
			rs, _ := s["rules"].(map[string]interface{})
			var resNames []string
			for res := range rs {
				resNames = append(resNames, res)
			}
			sort.Strings(resNames)
			outRules := hx.M{}
			var all []*cb.Rule
			perRes := map[string][]*cb.Rule{}
			for _, res := range resNames {
				concrete := "t" + itoa(trn) + "_" + res
				names[res] = concrete
				lis.names[concrete] = res
				var ol []hx.M
				for i, r := range ruleList(s, res) {
					thr := r["thr"].([]interface{})
					num, den := thr[0].(float64), thr[1].(float64)
					var st cb.Strategy
					switch hx.Str(r, "strategy") {
					case "slow":
						st = cb.SlowRequestRatio
					case "eratio":
						st = cb.ErrorRatio
					case "ecount":
						st = cb.ErrorCount
					default:
						hx.Fatal("unknown strategy %v", r["strategy"])
					}
					rule := &cb.Rule{
						Id:                           "b" + itoa(int64(i+1)),
						Resource:                     concrete,
						Strategy:                     st,
						RetryTimeoutMs:               uint32(hx.Int(r, "timeout") * unit),
						MinRequestAmount:             uint64(hx.Int(r, "minAmt")),
						StatIntervalMs:               uint32(hx.Int(r, "I") * unit),
						StatSlidingWindowBucketCount: uint32(hx.Int(r, "nb")),
						MaxAllowedRtMs:               uint64(hx.Int(r, "maxRt") * unit),
						Threshold:                    num / den,
						ProbeNum:                     uint64(hx.Int(r, "probeNum")),
					}
					ruleIdx[rule] = int64(i + 1)
					all = append(all, rule)
					perRes[res] = append(perRes[res], rule)
					ol = append(ol, hx.M{"strategy": hx.Str(r, "strategy"), "thr": []int64{int64(num), int64(den)},
						"minAmt": hx.Int(r, "minAmt"), "timeout": hx.Int(r, "timeout") * unit, "I": hx.Int(r, "I") * unit,
						"nb": hx.Int(r, "nb"), "maxRt": hx.Int(r, "maxRt") * unit, "probeNum": hx.Int(r, "probeNum")})
				}
				outRules[res] = ol
			}
			if hx.Str(s, "via") == "res" {
				for _, res := range resNames {
					if _, err := cb.LoadRulesOfResource(names[res], perRes[res]); err != nil {
						hx.Fatal("LoadRulesOfResource: %v", err)
					}
				}
			} else {
				if _, err := cb.LoadRules(all); err != nil {
					hx.Fatal("LoadRules: %v", err)
				}
			}
			// every rule of a scenario is valid by construction: the library must report all of them
			for _, res := range resNames {
				if got := len(cb.GetRulesOfResource(names[res])); got != len(perRes[res]) {
					hx.Fatal("scenario %d: %d of %d rules of %s in force (invalid rule in the scenario?)", trn, got, len(perRes[res]), res)
				}
			}
			tr.Emit(hx.M{"op": "new", "tr": trn, "rules": outRules, "n": n})
		case "req":
			res := hx.Str(s, "res")
			id := hx.Int(s, "id")
			if o, ok := opens[id]; ok {
				// the scenario reuses the id of an entry that is still open (the real code admitted a request the
				// scenario's author expected to be rejected): complete the old entry first, visibly
				delete(opens, id)
				o.e.Exit()
				tr.Emit(hx.M{"op": "done", "id": id, "err": false, "rt": clk.NowMs() - o.start, "cb": lis.take(), "forced": true, "n": n})
			}
			if maxfl > 0 && len(opens) >= maxfl {
				continue // random scenarios bound the number of entries in flight
			}
			rec := hx.M{"op": "req", "res": res, "id": id, "n": n}
			func() {
				defer func() {
					if p := recover(); p != nil {
						rec["panic"] = true
						rec["pass"] = false
						rec["bt"], rec["trig"] = "panic", 0
					}
				}()
				e, b := api.Entry(names[res])
				if b == nil {
					rec["pass"] = true
					rec["bt"], rec["trig"] = "", 0
					seq++
					opens[id] = &open{id: id, e: e, start: clk.NowMs(), seq: seq}
					return
				}
				rec["pass"] = false
				if b.BlockType() == base.BlockTypeCircuitBreaking {
					rec["bt"] = "cb"
				} else {
					rec["bt"] = "other" + itoa(int64(b.BlockType()))
				}
				rec["trig"] = 0
				if r, ok := b.TriggeredRule().(*cb.Rule); ok && r != nil {
					if k, ok := ruleIdx[r]; ok && r.Resource == names[res] {
						rec["trig"] = k
					} else {
						rec["trig"] = -1 // a rule of another resource / an unknown rule object
					}
				}
			}()
			rec["cb"] = lis.take()
			tr.Emit(rec)
		case "done":
			var o *open
			if _, ok := s["sel"]; ok {
				if len(opens) == 0 {
					continue
				}
				var l []*open
				for _, x := range opens {
					l = append(l, x)
				}
				sort.Slice(l, func(i, j int) bool { return l[i].seq < l[j].seq })
				o = l[int(hx.Int(s, "sel"))%len(l)]
			} else {
				o = opens[hx.Int(s, "id")]
				if o == nil {
					continue // the real code rejected this request (already recorded at its "req")
				}
			}
			delete(opens, o.id)
			failed := s["err"] == true
			rec := hx.M{"op": "done", "id": o.id, "err": failed, "rt": clk.NowMs() - o.start, "n": n}
			func() {
				defer func() {
					if p := recover(); p != nil {
						rec["panic"] = true
					}
				}()
				if failed {
					o.e.Exit(base.WithError(errors.New("biz")))
				} else {
					o.e.Exit()
				}
			}()
			rec["cb"] = lis.take()
			tr.Emit(rec)
		case "tick":
			clk.AdvanceMs(hx.Int(s, "d") * unit)
			tr.Emit(hx.M{"op": "tick", "t": rel(), "n": n})
		default:
			hx.Fatal("unknown op %q", op)
		}
	}
}

func itoa(n int64) string {
	if n == 0 {
		return "0"
	}
	neg := n < 0
	if neg {
		n = -n
	}
	var b []byte
	for n > 0 {
		b = append([]byte{byte('0' + n%10)}, b...)
		n /= 10
	}
	if neg {
		b = append([]byte{'-'}, b...)
	}
	return string(b)
}
