package micro

import (
	"context"
	"errors"
	"testing"
	"time"

	"github.com/micro/go-micro/v2/client"
	"github.com/micro/go-micro/v2/codec"
	"github.com/micro/go-micro/v2/registry"
	"github.com/micro/go-micro/v2/server"

	"github.com/alibaba/sentinel-golang/core/base"
	"github.com/alibaba/sentinel-golang/core/circuitbreaker"
	"github.com/alibaba/sentinel-golang/core/outlier"
)

type vCReq struct{ service, method string }

func (r vCReq) Service() string     { return r.service }
func (r vCReq) Method() string      { return r.method }
func (r vCReq) Endpoint() string    { return r.method }
func (r vCReq) ContentType() string { return "application/json" }
func (r vCReq) Body() interface{}   { return nil }
func (r vCReq) Codec() codec.Writer { return nil }
func (r vCReq) Stream() bool        { return false }

type vSReq struct{ vCReq }

func (r vSReq) Header() map[string]string { return nil }
func (r vSReq) Read() ([]byte, error)     { return nil, nil }
func (r vSReq) Codec() codec.Reader       { return nil }

type vSStream struct {
	req  server.Request
	sent []interface{}
}

func (s *vSStream) Context() context.Context { return context.Background() }
func (s *vSStream) Request() server.Request  { return s.req }
func (s *vSStream) Send(v interface{}) error { s.sent = append(s.sent, v); return nil }
func (s *vSStream) Recv(interface{}) error   { return nil }
func (s *vSStream) Error() error             { return nil }
func (s *vSStream) Close() error             { return nil }

// vClient stands in for go-micro's rpc client below the wrapper.  It treats call options exactly as
// rpcClient does (client/rpc_client.go v2.9.1): Call applies the options and wraps the transport call with
// CallOptions.CallWrappers (first wrapper outermost); Stream applies the options and ignores CallWrappers.
// The "transport call" is the driver's handler.  Like rpcClient.Call / Stream the stand-in is LAYERED (vLayers):
//
//	pre   r.next(): the service is looked up in the registry - fails for a service the registry does not know (err@registry)
//	pre   "should we noop right here?": the caller's context is already done -> timeout error (err@ctx)
//	pre   per attempt: CallOptions.Backoff; its error ends the call as "backoff error" (err@backoff)
//	node  the per-node call function (for Call: inside the CallWrappers)
//	post  a node error is shown to CallOptions.Retry; an error of the hook itself replaces the node's (err@retry)
//
// The driver arranges the layers with real inputs (cancelled context, client.WithBackoff / client.WithRetry call options
// handed to the wrapper, which must forward them); only the registry content is told through the outcome.
type vClient struct {
	client.Client
	outcome *string
}

var vNode = &registry.Node{Id: "verif-1", Address: "10.0.0.1:9000"}

var vHookErr = errors.New("verif: call option hook failed")

func (c vClient) vLayers(ctx context.Context, req client.Request, co client.CallOptions, node func() error) error {
	oc := *c.outcome
	if oc == "err@registry" {
		return VHit(oc) // the downstream call was entered and failed: service not found
	}
	if ctx.Err() != nil {
		return VHit(oc)
	}
	if co.Backoff != nil {
		if _, err := co.Backoff(ctx, req, 0); err != nil {
			_ = VHit(oc)
			return errors.New("backoff error: " + err.Error())
		}
	}
	err := node()
	if err == nil {
		return nil
	}
	if co.Retry != nil {
		if _, rerr := co.Retry(ctx, req, 0, err); rerr != nil {
			return rerr
		}
	}
	return err
}

// vArrange turns a layered outcome into the context and call options of the request.
func vArrange(oc string) (context.Context, []client.CallOption) {
	ctx := context.Background()
	switch oc {
	case "err@ctx":
		cctx, cancel := context.WithCancel(ctx)
		cancel()
		return cctx, nil
	case "err@backoff":
		return ctx, []client.CallOption{client.WithBackoff(func(context.Context, client.Request, int) (time.Duration, error) { return 0, vHookErr })}
	case "err@retry":
		return ctx, []client.CallOption{client.WithRetry(func(context.Context, client.Request, int, error) (bool, error) { return false, vHookErr })}
	}
	return ctx, nil
}

var vCallLayers = []string{"err@registry", "err@ctx", "err@backoff", "err@retry"}

func (c vClient) Call(ctx context.Context, req client.Request, rsp interface{}, opts ...client.CallOption) error {
	var co client.CallOptions
	for _, o := range opts {
		o(&co)
	}
	var call client.CallFunc = func(context.Context, *registry.Node, client.Request, interface{}, client.CallOptions) error {
		return VHit(*c.outcome)
	}
	for i := len(co.CallWrappers); i > 0; i-- {
		call = co.CallWrappers[i-1](call)
	}
	return c.vLayers(ctx, req, co, func() error { return call(ctx, vNode, req, rsp, co) })
}

func (c vClient) Stream(ctx context.Context, req client.Request, opts ...client.CallOption) (client.Stream, error) {
	var co client.CallOptions
	for _, o := range opts {
		o(&co)
	}
	return nil, c.vLayers(ctx, req, co, func() error { return VHit(*c.outcome) })
}

func vIsBlock(err error) bool {
	_, ok := err.(*base.BlockError)
	return ok
}

// C19 conformance driver for the micro adapter: client wrapper (Call, Stream), handler wrapper, stream wrapper
// x option variants, including the outlier-ejection branches.
func TestVerifDriver(t *testing.T) {
	outcome := "ok"
	meth := func(v string) func(bool) string {
		return func(b bool) string {
			if b {
				return "Verif." + v + ".Blk"
			}
			return "Verif." + v + ".Ok"
		}
	}
	custom := func(v string) func(bool) string { return func(b bool) string { return "custom:" + meth(v)(b) } }
	svc := func(v string) func(bool) string {
		return func(b bool) string {
			if b {
				return "verif-" + v + "-blk"
			}
			return "verif-" + v + "-ok"
		}
	}
	on := WithEnableOutlier(func(context.Context) bool { return true })
	off := WithEnableOutlier(func(context.Context) bool { return false })
	var cases, last []VCase

	// ---- client wrapper, Call
	cEx := WithClientResourceExtractor(func(_ context.Context, r client.Request) string { return "custom:" + r.Method() })
	cFb := WithClientBlockFallback(func(context.Context, client.Request, *base.BlockError) error { VFallback(); return VFallbackErr })
	call := func(v string, outlierOn bool, opts ...Option) func(bool, string) bool {
		c := NewClientWrapper(opts...)(vClient{outcome: &outcome})
		return func(blocked bool, oc string) bool {
			outcome = oc
			req := vCReq{service: "verif-service", method: meth(v)(blocked)}
			if outlierOn {
				req = vCReq{service: svc(v)(blocked), method: "Verif.Outlier.Call"}
			}
			ctx, copts := vArrange(oc)
			return vIsBlock(c.Call(ctx, req, nil, copts...))
		}
	}
	cases = append(cases,
		VCase{Ep: "NewClientWrapper/Call", Side: "client", Layers: vCallLayers, Variant: "default", Wraps: true, Errsig: true, Fb: "default", Res: meth("cd"), Send: call("cd", false)},
		VCase{Ep: "NewClientWrapper/Call", Side: "client", Layers: vCallLayers, Variant: "extractor", Options: []string{"WithClientResourceExtractor"}, Wraps: true, Errsig: true, Fb: "default",
			Res: custom("ce"), Send: call("ce", false, cEx)},
		VCase{Ep: "NewClientWrapper/Call", Side: "client", Layers: vCallLayers, Variant: "fallback", Options: []string{"WithClientBlockFallback"}, Wraps: true, Errsig: true, Fb: "custom",
			Res: meth("cf"), Send: call("cf", false, cFb)},
		VCase{Ep: "NewClientWrapper/Call", Side: "client", Layers: vCallLayers, Variant: "extractor+fallback+outlier-off", Options: []string{"WithClientResourceExtractor", "WithClientBlockFallback", "WithEnableOutlier"},
			Wraps: true, Errsig: true, Fb: "custom", Res: custom("cef"), Send: call("cef", false, cEx, cFb, off)},
		VCase{Ep: "NewClientWrapper/Call", Side: "client", Layers: vCallLayers, Variant: "outlier", Options: []string{"WithEnableOutlier"}, Wraps: true, Errsig: true, Fb: "default", Private: true,
			Res: svc("co"), Send: call("co", true, on)},
		VCase{Ep: "NewClientWrapper/Call", Side: "client", Layers: vCallLayers, Variant: "outlier+fallback", Options: []string{"WithEnableOutlier", "WithClientBlockFallback"}, Wraps: true, Errsig: true,
			Fb: "custom", Private: true, Res: svc("cof"), Send: call("cof", true, on, cFb)},
	)

	// ---- client wrapper, Stream
	sEx := WithStreamClientResourceExtractor(func(_ context.Context, r client.Request) string { return "custom:" + r.Method() })
	sFb := WithStreamClientBlockFallback(func(context.Context, client.Request, *base.BlockError) (client.Stream, error) {
		VFallback()
		return nil, VFallbackErr
	})
	stream := func(v string, outlierOn bool, opts ...Option) func(bool, string) bool {
		c := NewClientWrapper(opts...)(vClient{outcome: &outcome})
		return func(blocked bool, oc string) bool {
			outcome = oc
			req := vCReq{service: "verif-service", method: meth(v)(blocked)}
			if outlierOn {
				req = vCReq{service: svc(v)(blocked), method: "Verif.Outlier.Stream"}
			}
			ctx, copts := vArrange(oc)
			_, err := c.Stream(ctx, req, copts...)
			return vIsBlock(err)
		}
	}
	cases = append(cases,
		VCase{Ep: "NewClientWrapper/Stream", Side: "client", Layers: vCallLayers, Variant: "default", Wraps: true, Errsig: true, Fb: "default", Res: meth("sd"), Send: stream("sd", false)},
		VCase{Ep: "NewClientWrapper/Stream", Side: "client", Layers: vCallLayers, Variant: "extractor", Options: []string{"WithStreamClientResourceExtractor"}, Wraps: true, Errsig: true,
			Fb: "default", Res: custom("se"), Send: stream("se", false, sEx)},
		VCase{Ep: "NewClientWrapper/Stream", Side: "client", Layers: vCallLayers, Variant: "fallback", Options: []string{"WithStreamClientBlockFallback"}, Wraps: true, Errsig: true, Fb: "custom",
			Res: meth("sf"), Send: stream("sf", false, sFb)},
		VCase{Ep: "NewClientWrapper/Stream", Side: "client", Layers: vCallLayers, Variant: "extractor+fallback", Options: []string{"WithStreamClientResourceExtractor", "WithStreamClientBlockFallback"},
			Wraps: true, Errsig: true, Fb: "custom", Res: custom("sef"), Send: stream("sef", false, sEx, sFb)},
	)
	// the outlier branch of Stream appends slots to the GLOBAL chain on every call: run it last; observed through the
	// statistic node so that the driver also works once the branch builds a private chain like Call does
	last = append(last,
		VCase{Ep: "NewClientWrapper/Stream", Side: "client", Layers: vCallLayers, Variant: "outlier", Options: []string{"WithEnableOutlier"}, Wraps: true, Errsig: true, Fb: "default",
			Private: true, Res: svc("so"), Send: stream("so", true, on)},
		VCase{Ep: "NewClientWrapper/Stream", Side: "client", Layers: vCallLayers, Variant: "outlier+fallback", Options: []string{"WithEnableOutlier", "WithStreamClientBlockFallback"}, Wraps: true,
			Errsig: true, Fb: "custom", Private: true, Res: svc("sof"), Send: stream("sof", true, on, sFb)},
	)

	// ---- handler wrapper
	hEx := WithServerResourceExtractor(func(_ context.Context, r server.Request) string { return "custom:" + r.Method() })
	hFb := WithServerBlockFallback(func(context.Context, server.Request, *base.BlockError) error { VFallback(); return VFallbackErr })
	handler := func(v string, opts ...Option) func(bool, string) bool {
		h := NewHandlerWrapper(opts...)(func(context.Context, server.Request, interface{}) error { return VHit(outcome) })
		return func(blocked bool, oc string) bool {
			outcome = oc
			return vIsBlock(h(context.Background(), vSReq{vCReq{service: "verif-service", method: meth(v)(blocked)}}, nil))
		}
	}
	cases = append(cases,
		VCase{Ep: "NewHandlerWrapper", Side: "server", Variant: "default", Wraps: true, Errsig: true, Fb: "default", Res: meth("hd"), Send: handler("hd")},
		VCase{Ep: "NewHandlerWrapper", Side: "server", Variant: "extractor", Options: []string{"WithServerResourceExtractor"}, Wraps: true, Errsig: true, Fb: "default",
			Res: custom("he"), Send: handler("he", hEx)},
		VCase{Ep: "NewHandlerWrapper", Side: "server", Variant: "fallback", Options: []string{"WithServerBlockFallback"}, Wraps: true, Errsig: true, Fb: "custom",
			Res: meth("hf"), Send: handler("hf", hFb)},
		VCase{Ep: "NewHandlerWrapper", Side: "server", Variant: "extractor+fallback", Options: []string{"WithServerResourceExtractor", "WithServerBlockFallback"}, Wraps: true,
			Errsig: true, Fb: "custom", Res: custom("hef"), Send: handler("hef", hEx, hFb)},
	)

	// ---- stream wrapper: decorates a server.Stream, there is no handler to call
	wEx := WithStreamServerResourceExtractor(func(s server.Stream) string { return "custom:" + s.Request().Method() })
	wFb := WithStreamServerBlockFallback(func(s server.Stream, _ *base.BlockError) server.Stream { VFallback(); return s })
	wrap := func(v string, opts ...Option) func(bool, string) bool {
		w := NewStreamWrapper(opts...)
		return func(blocked bool, _ string) bool {
			s := &vSStream{req: vSReq{vCReq{service: "verif-service", method: meth(v)(blocked)}}}
			w(s)
			for _, x := range s.sent {
				if _, ok := x.(*base.BlockError); ok {
					return true
				}
			}
			return false
		}
	}
	only := []string{"ok"}
	cases = append(cases,
		VCase{Ep: "NewStreamWrapper", Side: "server", Variant: "default", Fb: "default", Res: meth("wd"), Send: wrap("wd"), Outcomes: only},
		VCase{Ep: "NewStreamWrapper", Side: "server", Variant: "extractor", Options: []string{"WithStreamServerResourceExtractor"}, Fb: "default",
			Res: custom("we"), Send: wrap("we", wEx), Outcomes: only},
		VCase{Ep: "NewStreamWrapper", Side: "server", Variant: "fallback", Options: []string{"WithStreamServerBlockFallback"}, Fb: "custom",
			Res: meth("wf"), Send: wrap("wf", wFb), Outcomes: only},
		VCase{Ep: "NewStreamWrapper", Side: "server", Variant: "extractor+fallback", Options: []string{"WithStreamServerResourceExtractor", "WithStreamServerBlockFallback"},
			Fb: "custom", Res: custom("wef"), Send: wrap("wef", wEx, wFb), Outcomes: only},
		// one option list shared by the handler wrapper and the stream wrapper of a service
		VCase{Ep: "NewStreamWrapper", Side: "server", Variant: "all-server-options", Options: []string{"WithServerResourceExtractor", "WithServerBlockFallback",
			"WithStreamServerResourceExtractor", "WithStreamServerBlockFallback"}, Fb: "custom", Res: custom("wall"),
			Send: wrap("wall", hEx, hFb, wEx, wFb), Outcomes: only},
		VCase{Ep: "NewStreamWrapper", Side: "server", Variant: "handler-options-only", Options: []string{"WithServerResourceExtractor", "WithServerBlockFallback"},
			Fb: "default", Res: meth("wh"), Send: wrap("wh", hEx, hFb), Outcomes: only},
	)

	var rules []*outlier.Rule
	for _, v := range []string{"co", "cof", "so", "sof"} {
		for _, b := range []bool{false, true} {
			rules = append(rules, &outlier.Rule{
				Rule: &circuitbreaker.Rule{Resource: svc(v)(b), Strategy: circuitbreaker.ErrorCount, RetryTimeoutMs: 3000,
					MinRequestAmount: 1, StatIntervalMs: 1000, Threshold: 1000},
				MaxEjectionPercent: 0.5, RecoveryIntervalMs: 2000, MaxRecoveryAttempts: 5,
				RecoveryCheckFunc: func(string) bool { return false },
			})
		}
	}
	if _, err := outlier.LoadRules(rules); err != nil {
		t.Fatal(err)
	}
	for i := range last {
		last[i].Last = true
	}
	VRun(t, "micro", append(cases, last...))
}
