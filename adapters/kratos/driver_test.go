package kratos

import (
	"context"
	"testing"

	"github.com/go-kratos/kratos/v2/metadata"
	"github.com/go-kratos/kratos/v2/selector"
	"github.com/go-kratos/kratos/v2/transport"

	"github.com/alibaba/sentinel-golang/core/base"
	"github.com/alibaba/sentinel-golang/core/circuitbreaker"
	"github.com/alibaba/sentinel-golang/core/outlier"
)

// client-side transport information as kratos' http / grpc clients put it into the context
type vTransport struct{ endpoint, operation string }

func (t vTransport) Kind() transport.Kind            { return transport.KindGRPC }
func (t vTransport) Endpoint() string                { return t.endpoint }
func (t vTransport) Operation() string               { return t.operation }
func (t vTransport) RequestHeader() transport.Header { return nil }
func (t vTransport) ReplyHeader() transport.Header   { return nil }

// C19 conformance driver for the kratos adapter: SentinelClientMiddleware x option variants, including the
// outlier-ejection branch (private slot chain: observed through the statistic node of the service resource).
func TestVerifDriver(t *testing.T) {
	op := func(v string) func(bool) string {
		return func(b bool) string {
			if b {
				return "/verif." + v + "/Blk"
			}
			return "/verif." + v + "/Ok"
		}
	}
	svc := func(v string) func(bool) string {
		return func(b bool) string {
			if b {
				return "verif-" + v + "-blk"
			}
			return "verif-" + v + "-ok"
		}
	}
	node := selector.NewNode("grpc", "10.0.0.1:9000", nil)
	mk := func(res func(bool) string, outlierOn bool, opts ...Option) func(bool, string) bool {
		mw := SentinelClientMiddleware(opts...)
		return func(blocked bool, oc string) bool {
			h := mw(func(ctx context.Context, req interface{}) (interface{}, error) {
				if err := VHit(oc); err != nil && ctx.Err() != nil {
					return nil, ctx.Err()
				} else {
					return "rsp", err
				}
			})
			tr := vTransport{endpoint: "discovery:///unused", operation: res(blocked)}
			if outlierOn {
				tr = vTransport{endpoint: "discovery:///" + res(blocked), operation: "/verif.Outlier/Call"}
			}
			root := context.Background()
			if oc == "err@ctx" { // the caller's context is already cancelled: kratos' transport gives up with the context's error
				cctx, cancel := context.WithCancel(root)
				cancel()
				root = cctx
			}
			ctx := transport.NewClientContext(root, tr)
			ctx = metadata.NewClientContext(ctx, metadata.New())
			// the peer is what kratos' selector filter leaves in the context once a node is picked
			ctx = selector.NewPeerContext(ctx, &selector.Peer{Node: node})
			_, err := h(ctx, "req")
			_, isBlock := err.(*base.BlockError)
			return isBlock
		}
	}
	custom := func(v string) func(bool) string { return func(b bool) string { return "custom:" + op(v)(b) } }
	extract := WithResourceExtract(func(ctx context.Context, req interface{}) string {
		tr, _ := transport.FromClientContext(ctx)
		return "custom:" + tr.Operation()
	})
	// the extractor variant asks for the custom name: the request's operation must map onto it
	mkCustom := func(v string, opts ...Option) func(bool, string) bool { return mk(op(v), false, opts...) }
	fallback := WithBlockFallback(func(ctx context.Context, req interface{}, blockErr error) (interface{}, error) {
		VFallback()
		return nil, VFallbackErr
	})
	on := WithEnableOutlier(func(context.Context) bool { return true })
	off := WithEnableOutlier(func(context.Context) bool { return false })

	var rules []*outlier.Rule
	for _, v := range []string{"outlier", "outlier+fallback"} {
		for _, b := range []bool{false, true} {
			rules = append(rules, &outlier.Rule{
				Rule: &circuitbreaker.Rule{Resource: svc(v)(b), Strategy: circuitbreaker.ErrorCount, RetryTimeoutMs: 3000,
					MinRequestAmount: 1, StatIntervalMs: 1000, Threshold: 1000},
				MaxEjectionPercent: 0.5, RecoveryIntervalMs: 2000, MaxRecoveryAttempts: 5,
				RecoveryCheckFunc: func(string) bool { return false },
			})
		}
	}
	if _, err := outlier.LoadRules(rules); err != nil {
		t.Fatal(err)
	}

	VRun(t, "kratos", []VCase{
		{Ep: "SentinelClientMiddleware", Side: "client", Layers: []string{"err@ctx"}, Variant: "default", Wraps: true, Errsig: true, Fb: "default", Res: op("d"), Send: mk(op("d"), false)},
		{Ep: "SentinelClientMiddleware", Side: "client", Layers: []string{"err@ctx"}, Variant: "extractor", Options: []string{"WithResourceExtract"}, Wraps: true, Errsig: true, Fb: "default",
			Res: custom("e"), Send: mkCustom("e", extract)},
		{Ep: "SentinelClientMiddleware", Side: "client", Layers: []string{"err@ctx"}, Variant: "fallback", Options: []string{"WithBlockFallback"}, Wraps: true, Errsig: true, Fb: "custom",
			Res: op("f"), Send: mk(op("f"), false, fallback)},
		{Ep: "SentinelClientMiddleware", Side: "client", Layers: []string{"err@ctx"}, Variant: "extractor+fallback+outlier-off", Options: []string{"WithResourceExtract", "WithBlockFallback", "WithEnableOutlier"},
			Wraps: true, Errsig: true, Fb: "custom", Res: custom("ef"), Send: mkCustom("ef", extract, fallback, off)},
		{Ep: "SentinelClientMiddleware", Side: "client", Layers: []string{"err@ctx"}, Variant: "outlier", Options: []string{"WithEnableOutlier"}, Wraps: true, Errsig: true, Fb: "default", Private: true,
			Res: svc("outlier"), Send: mk(svc("outlier"), true, on)},
		{Ep: "SentinelClientMiddleware", Side: "client", Layers: []string{"err@ctx"}, Variant: "outlier+fallback", Options: []string{"WithEnableOutlier", "WithBlockFallback"}, Wraps: true, Errsig: true,
			Fb: "custom", Private: true, Res: svc("outlier+fallback"), Send: mk(svc("outlier+fallback"), true, on, fallback)},
	})
}
