package echo

import (
	"net/http"
	"net/http/httptest"
	"testing"

	"github.com/labstack/echo/v4"
)

// C19 conformance driver for the echo adapter: every exported entry point x option variant.
func TestVerifDriver(t *testing.T) {
	outcome := "ok"
	handler := func(c echo.Context) error {
		// echo handlers return an error: the middleware sees it as the result of next(c)
		if err := VHit(outcome); err != nil {
			return err
		}
		return c.String(http.StatusOK, "ok")
	}
	mk := func(variant string, opts ...Option) func(bool, string) bool {
		e := echo.New() // no Recover middleware: a handler panic travels through the Sentinel middleware
		e.HideBanner = true
		e.Use(SentinelMiddleware(opts...))
		e.GET("/"+variant+"/ok", handler)
		e.GET("/"+variant+"/blk", handler)
		return func(blocked bool, oc string) bool {
			outcome = oc
			p := "/" + variant + "/ok"
			if blocked {
				p = "/" + variant + "/blk"
			}
			w := httptest.NewRecorder()
			e.ServeHTTP(w, httptest.NewRequest("GET", p, nil))
			return w.Code == http.StatusTooManyRequests
		}
	}
	extract := WithResourceExtractor(func(c echo.Context) string { return "custom:" + c.Path() })
	fallback := WithBlockFallback(func(c echo.Context) error {
		VFallback()
		return c.JSON(http.StatusTeapot, "custom fallback")
	})
	path := func(variant, prefix string) func(bool) string {
		return func(b bool) string {
			if b {
				return prefix + "/" + variant + "/blk"
			}
			return prefix + "/" + variant + "/ok"
		}
	}
	VRun(t, "echo", []VCase{
		{Ep: "SentinelMiddleware", Side: "server", Variant: "default", Wraps: true, Errsig: true, Fb: "default", Res: path("d", "GET:"), Send: mk("d")},
		{Ep: "SentinelMiddleware", Side: "server", Variant: "extractor", Options: []string{"WithResourceExtractor"}, Wraps: true, Errsig: true, Fb: "default",
			Res: path("e", "custom:"), Send: mk("e", extract)},
		{Ep: "SentinelMiddleware", Side: "server", Variant: "fallback", Options: []string{"WithBlockFallback"}, Wraps: true, Errsig: true, Fb: "custom",
			Res: path("f", "GET:"), Send: mk("f", fallback)},
		{Ep: "SentinelMiddleware", Side: "server", Variant: "extractor+fallback", Options: []string{"WithResourceExtractor", "WithBlockFallback"}, Wraps: true, Errsig: true,
			Fb: "custom", Res: path("ef", "custom:"), Send: mk("ef", extract, fallback)},
	})
}
