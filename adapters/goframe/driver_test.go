package goframe

import (
	"net/http"
	"net/http/httptest"
	"testing"

	"github.com/gogf/gf/v2/frame/g"
	"github.com/gogf/gf/v2/net/ghttp"
)

// C19 conformance driver for the goframe adapter: every exported entry point x option variant.
func TestVerifDriver(t *testing.T) {
	outcome := "ok"
	handler := func(r *ghttp.Request) {
		// goframe handlers return nothing: a failing handler writes an error status the middleware never sees
		if err := VHit(outcome); err != nil {
			r.Response.WriteStatus(http.StatusInternalServerError, err.Error())
			return
		}
		r.Response.WriteStatus(http.StatusOK, "ok")
	}
	mk := func(variant string, opts ...Option) func(bool, string) bool {
		s := g.Server("verif-" + variant)
		s.SetAddr("127.0.0.1:0")
		s.SetDumpRouterMap(false)
		s.SetAccessLogEnabled(false)
		s.SetErrorLogEnabled(false)
		s.Group("/", func(group *ghttp.RouterGroup) {
			group.Middleware(SentinelMiddleware(opts...))
			group.ALL("/"+variant+"/ok", handler)
			group.ALL("/"+variant+"/blk", handler)
		})
		if err := s.Start(); err != nil {
			t.Fatal(err)
		}
		return func(blocked bool, oc string) bool {
			outcome = oc
			p := "/" + variant + "/ok"
			if blocked {
				p = "/" + variant + "/blk"
			}
			w := httptest.NewRecorder()
			s.ServeHTTP(w, httptest.NewRequest("GET", p, nil))
			return w.Code == http.StatusTooManyRequests
		}
	}
	extract := WithResourceExtractor(func(r *ghttp.Request) string { return "custom:" + r.URL.Path })
	fallback := WithBlockFallback(func(r *ghttp.Request) {
		VFallback()
		r.Response.WriteStatus(http.StatusTeapot, "custom fallback")
	})
	path := func(variant, prefix string) func(bool) string {
		return func(b bool) string {
			if b {
				return prefix + "/" + variant + "/blk"
			}
			return prefix + "/" + variant + "/ok"
		}
	}
	VRun(t, "goframe", []VCase{
		{Ep: "SentinelMiddleware", Side: "server", Variant: "default", Wraps: true, Fb: "default", Res: path("d", "GET:"), Send: mk("d")},
		{Ep: "SentinelMiddleware", Side: "server", Variant: "extractor", Options: []string{"WithResourceExtractor"}, Wraps: true, Fb: "default",
			Res: path("e", "custom:"), Send: mk("e", extract)},
		{Ep: "SentinelMiddleware", Side: "server", Variant: "fallback", Options: []string{"WithBlockFallback"}, Wraps: true, Fb: "custom",
			Res: path("f", "GET:"), Send: mk("f", fallback)},
		{Ep: "SentinelMiddleware", Side: "server", Variant: "extractor+fallback", Options: []string{"WithResourceExtractor", "WithBlockFallback"}, Wraps: true, Fb: "custom",
			Res: path("ef", "custom:"), Send: mk("ef", extract, fallback)},
	})
}
