package go_zero

import (
	"net/http"
	"net/http/httptest"
	"testing"

	"github.com/zeromicro/go-zero/rest"
)

// C19 conformance driver for the go-zero adapter: every exported entry point x option variant.
// A rest.Middleware is func(next http.HandlerFunc) http.HandlerFunc; the driver applies it to its handler
// exactly as rest.Server.Use / the generated routing code do, and serves requests with net/http/httptest.
func TestVerifDriver(t *testing.T) {
	outcome := "ok"
	handler := func(w http.ResponseWriter, r *http.Request) {
		// net/http handlers return nothing: a failing handler writes an error status the middleware never sees
		if err := VHit(outcome); err != nil {
			http.Error(w, err.Error(), http.StatusInternalServerError)
			return
		}
		w.WriteHeader(http.StatusOK)
	}
	send := func(variant string, h http.HandlerFunc) func(bool, string) bool {
		return func(blocked bool, oc string) bool {
			outcome = oc
			p := "/" + variant + "/ok"
			if blocked {
				p = "/" + variant + "/blk"
			}
			w := httptest.NewRecorder()
			h(w, httptest.NewRequest("GET", p, nil))
			return w.Code == http.StatusTooManyRequests
		}
	}
	mk := func(variant string, opts ...Option) func(bool, string) bool {
		var m rest.Middleware = SentinelMiddleware(opts...)
		return send(variant, m(handler))
	}
	extract := WithResourceExtractor(func(r *http.Request) string { return "custom:" + r.URL.Path })
	fallback := WithBlockFallback(func(r *http.Request) (int, string) {
		VFallback()
		return http.StatusTeapot, "custom fallback"
	})
	path := func(variant, prefix string) func(bool) string {
		return func(b bool) string {
			if b {
				return prefix + "/" + variant + "/blk"
			}
			return prefix + "/" + variant + "/ok"
		}
	}
	route := NewSentinelRouteMiddleware()
	VRun(t, "go-zero", []VCase{
		{Ep: "SentinelMiddleware", Side: "server", Variant: "default", Wraps: true, Fb: "default", Res: path("d", "GET:"), Send: mk("d")},
		{Ep: "SentinelMiddleware", Side: "server", Variant: "extractor", Options: []string{"WithResourceExtractor"}, Wraps: true, Fb: "default",
			Res: path("e", "custom:"), Send: mk("e", extract)},
		{Ep: "SentinelMiddleware", Side: "server", Variant: "fallback", Options: []string{"WithBlockFallback"}, Wraps: true, Fb: "custom",
			Res: path("f", "GET:"), Send: mk("f", fallback)},
		{Ep: "SentinelMiddleware", Side: "server", Variant: "extractor+fallback", Options: []string{"WithResourceExtractor", "WithBlockFallback"}, Wraps: true, Fb: "custom",
			Res: path("ef", "custom:"), Send: mk("ef", extract, fallback)},
		{Ep: "NewSentinelRouteMiddleware", Side: "server", Variant: "default", Wraps: true, Fb: "default", Res: path("r", "GET:"), Send: send("r", route.Handle(handler))},
		{Ep: "SentinelRouteMiddleware.Handle", Side: "server", Variant: "default", Wraps: true, Fb: "default", Res: path("rh", "GET:"),
			Send: send("rh", (&SentinelRouteMiddleware{}).Handle(handler))},
	})
}
