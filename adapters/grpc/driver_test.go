package grpc

import (
	"context"
	"testing"

	"github.com/alibaba/sentinel-golang/core/base"
	"google.golang.org/grpc"
)

// vCtx: the caller's context of a request; for the layered outcome err@ctx it is already cancelled - grpc's invoker /
// streamer then fails with the context's error before any transport is used (the interceptor only sees the returned error)
func vCtx(oc string) context.Context {
	if oc == "err@ctx" {
		ctx, cancel := context.WithCancel(context.Background())
		cancel()
		return ctx
	}
	return context.Background()
}

func vIsBlock(err error) bool {
	_, ok := err.(*base.BlockError)
	return ok
}

// C19 conformance driver for the grpc adapter: the four interceptors x option variants.  The interceptors are
// plain functions; the driver calls them the way grpc does, with its own invoker / streamer / handler.
func TestVerifDriver(t *testing.T) {
	name := func(v string) func(bool) string {
		return func(b bool) string {
			if b {
				return "/verif." + v + "/Blk"
			}
			return "/verif." + v + "/Ok"
		}
	}
	custom := func(v string) func(bool) string {
		return func(b bool) string { return "custom:" + name(v)(b) }
	}
	var cases []VCase
	add := func(ep, side, variant string, opts []string, fb string, res func(bool) string, send func(method, oc string) error) {
		mres := name(ep + "." + variant)
		var layers []string
		if side == "client" {
			layers = []string{"err@ctx"}
		}
		cases = append(cases, VCase{Ep: ep, Side: side, Layers: layers, Variant: variant, Options: opts, Wraps: true, Errsig: true, Fb: fb, Res: res,
			Send: func(blocked bool, oc string) bool { return vIsBlock(send(mres(blocked), oc)) }})
	}
	variants := func(ep, side, exName, fbName string, ex, fb Option, send func(opts []Option) func(method, oc string) error) {
		v := func(s string) string { return ep + "." + s }
		add(ep, side, "default", nil, "default", name(v("default")), send(nil))
		add(ep, side, "extractor", []string{exName}, "default", custom(v("extractor")), send([]Option{ex}))
		add(ep, side, "fallback", []string{fbName}, "custom", name(v("fallback")), send([]Option{fb}))
		add(ep, side, "extractor+fallback", []string{exName, fbName}, "custom", custom(v("extractor+fallback")), send([]Option{ex, fb}))
	}

	// unary client: the "handler" is the invoker
	variants("NewUnaryClientInterceptor", "client", "WithUnaryClientResourceExtractor", "WithUnaryClientBlockFallback",
		WithUnaryClientResourceExtractor(func(_ context.Context, m string, _ interface{}, _ *grpc.ClientConn) string { return "custom:" + m }),
		WithUnaryClientBlockFallback(func(context.Context, string, interface{}, *grpc.ClientConn, *base.BlockError) error {
			VFallback()
			return VFallbackErr
		}),
		func(opts []Option) func(string, string) error {
			ic := NewUnaryClientInterceptor(opts...)
			return func(method, oc string) error {
				return ic(vCtx(oc), method, "req", nil, nil,
					func(ctx context.Context, _ string, _, _ interface{}, _ *grpc.ClientConn, _ ...grpc.CallOption) error {
						if err := VHit(oc); ctx.Err() != nil && err != nil {
							return ctx.Err()
						} else {
							return err
						}
					})
			}
		})
	// stream client: the "handler" is the streamer
	variants("NewStreamClientInterceptor", "client", "WithStreamClientResourceExtractor", "WithStreamClientBlockFallback",
		WithStreamClientResourceExtractor(func(_ context.Context, _ *grpc.StreamDesc, _ *grpc.ClientConn, m string) string { return "custom:" + m }),
		WithStreamClientBlockFallback(func(context.Context, *grpc.StreamDesc, *grpc.ClientConn, string, *base.BlockError) (grpc.ClientStream, error) {
			VFallback()
			return nil, VFallbackErr
		}),
		func(opts []Option) func(string, string) error {
			ic := NewStreamClientInterceptor(opts...)
			return func(method, oc string) error {
				_, err := ic(vCtx(oc), &grpc.StreamDesc{}, nil, method,
					func(ctx context.Context, _ *grpc.StreamDesc, _ *grpc.ClientConn, _ string, _ ...grpc.CallOption) (grpc.ClientStream, error) {
						if err := VHit(oc); ctx.Err() != nil && err != nil {
							return nil, ctx.Err()
						} else {
							return nil, err
						}
					})
				return err
			}
		})
	// unary server
	variants("NewUnaryServerInterceptor", "server", "WithUnaryServerResourceExtractor", "WithUnaryServerBlockFallback",
		WithUnaryServerResourceExtractor(func(_ context.Context, _ interface{}, info *grpc.UnaryServerInfo) string {
			return "custom:" + info.FullMethod
		}),
		WithUnaryServerBlockFallback(func(context.Context, interface{}, *grpc.UnaryServerInfo, *base.BlockError) (interface{}, error) {
			VFallback()
			return nil, VFallbackErr
		}),
		func(opts []Option) func(string, string) error {
			ic := NewUnaryServerInterceptor(opts...)
			return func(method, oc string) error {
				_, err := ic(context.Background(), "req", &grpc.UnaryServerInfo{FullMethod: method},
					func(context.Context, interface{}) (interface{}, error) { return "rsp", VHit(oc) })
				return err
			}
		})
	// stream server
	variants("NewStreamServerInterceptor", "server", "WithStreamServerResourceExtractor", "WithStreamServerBlockFallback",
		WithStreamServerResourceExtractor(func(_ interface{}, _ grpc.ServerStream, info *grpc.StreamServerInfo) string {
			return "custom:" + info.FullMethod
		}),
		WithStreamServerBlockFallback(func(interface{}, grpc.ServerStream, *grpc.StreamServerInfo, *base.BlockError) error {
			VFallback()
			return VFallbackErr
		}),
		func(opts []Option) func(string, string) error {
			ic := NewStreamServerInterceptor(opts...)
			return func(method, oc string) error {
				return ic(nil, nil, &grpc.StreamServerInfo{FullMethod: method}, func(interface{}, grpc.ServerStream) error { return VHit(oc) })
			}
		})
	VRun(t, "grpc", cases)
}
