// Shared part of the C19 conformance drivers (copied next to adapters/<name>/driver_test.go into a scratch
// copy of the adapter module by checks/C19.py; the package clause is rewritten to the adapter's package).
//
// It observes what a user of Sentinel can observe: a recording StatSlot on the GLOBAL slot chain
// (pass / block / complete, with ctx.Err() at completion), the statistic node of the resource (in-flight
// gauge; pass / block / complete / error counters for entry points that build a private slot chain and are
// therefore invisible to the global chain), and the driver's own handler and fallback functions.
package PKGNAME

import (
	"encoding/json"
	"errors"
	"fmt"
	"math/rand"
	"os"
	"sort"
	"strconv"
	"strings"
	"sync"
	"testing"
	"time"

	sentinel "github.com/alibaba/sentinel-golang/api"
	"github.com/alibaba/sentinel-golang/core/base"
	"github.com/alibaba/sentinel-golang/core/config"
	"github.com/alibaba/sentinel-golang/core/flow"
	"github.com/alibaba/sentinel-golang/core/stat"
	"github.com/alibaba/sentinel-golang/core/system"
	"github.com/alibaba/sentinel-golang/logging"
)

type vNopLogger struct{}

func (vNopLogger) Debug(string, ...interface{})        {}
func (vNopLogger) DebugEnabled() bool                  { return false }
func (vNopLogger) Info(string, ...interface{})         {}
func (vNopLogger) InfoEnabled() bool                   { return false }
func (vNopLogger) Warn(string, ...interface{})         {}
func (vNopLogger) WarnEnabled() bool                   { return false }
func (vNopLogger) Error(error, string, ...interface{}) {}
func (vNopLogger) ErrorEnabled() bool                  { return false }

// VErr is the error the driver's handlers return.
var VErr = errors.New("verif: handler failed")

// VFallbackErr is what the driver's custom fallbacks return (where the fallback type returns an error).
var VFallbackErr = errors.New("verif: custom fallback")

type vSnapshot struct{ pass, block, complete, errs int64 }

type vRecorder struct {
	mu      sync.Mutex
	events  []string    // slot events and driver events in order (global-chain mode)
	private string      // != "": resource whose node is snapshotted at every driver event (private-chain mode)
	snaps   []vSnapshot // snapshot taken right before each driver event
	drv     []string    // driver events (private-chain mode)
	s0      vSnapshot
	names   []string // resource names the global chain saw during the request (diagnostics)
	btype   string   // block type of the BlockError the global chain saw ("" = no block seen)
	inb0    int32    // gauge of the global inbound node when the request was sent
	inbh    int32    // the same gauge, relative to inb0, when the handler was invoked (-1: not invoked)
}

func vBlockType(b *base.BlockError) string {
	if b == nil {
		return "nil"
	}
	switch b.BlockType() {
	case base.BlockTypeFlow:
		return "flow"
	case base.BlockTypeSystemFlow:
		return "system"
	}
	return b.BlockType().String()
}

var vrec = &vRecorder{}

func vSnap(res string) vSnapshot {
	n := stat.GetResourceNode(res)
	if n == nil {
		return vSnapshot{}
	}
	return vSnapshot{n.GetSum(base.MetricEventPass), n.GetSum(base.MetricEventBlock), n.GetSum(base.MetricEventComplete), n.GetSum(base.MetricEventError)}
}

func (r *vRecorder) slot(e string, ctx *base.EntryContext, b *base.BlockError) {
	r.mu.Lock()
	defer r.mu.Unlock()
	if e == "block" && r.private == "" {
		r.btype = vBlockType(b)
	}
	if ctx != nil && ctx.Resource != nil && len(r.names) < 4 {
		r.names = append(r.names, ctx.Resource.Name())
	}
	if r.private == "" {
		r.events = append(r.events, e)
	}
}

// driver event: handler / fallback / reject
func (r *vRecorder) driver(e string) {
	r.mu.Lock()
	defer r.mu.Unlock()
	if r.private == "" {
		r.events = append(r.events, e)
		return
	}
	r.snaps = append(r.snaps, vSnap(r.private))
	r.drv = append(r.drv, e)
}

func (r *vRecorder) reset(private string) {
	r.mu.Lock()
	defer r.mu.Unlock()
	r.events, r.snaps, r.drv, r.private, r.names = nil, nil, nil, private, nil
	r.btype, r.inb0, r.inbh = "", stat.InboundNode().CurrentConcurrency(), -1
	if private != "" {
		r.s0 = vSnap(private)
	}
}

func vDelta(a, b vSnapshot) []string {
	var out []string
	for i := int64(0); i < b.pass-a.pass; i++ {
		out = append(out, "pass")
	}
	for i := int64(0); i < b.block-a.block; i++ {
		out = append(out, "block")
	}
	ne := b.errs - a.errs
	for i := int64(0); i < b.complete-a.complete; i++ {
		if ne > 0 {
			out = append(out, "complete-err")
			ne--
		} else {
			out = append(out, "complete")
		}
	}
	return out
}

// result returns the event log of the request that just finished
func (r *vRecorder) result() []string {
	r.mu.Lock()
	defer r.mu.Unlock()
	if r.private == "" {
		return append([]string{}, r.events...)
	}
	out := []string{}
	prev := r.s0
	for i, e := range r.drv {
		out = append(out, vDelta(prev, r.snaps[i])...)
		out = append(out, e)
		prev = r.snaps[i]
	}
	return append(out, vDelta(prev, vSnap(r.private))...)
}

type vSlot struct{}

func (vSlot) Order() uint32                                             { return 0 }
func (vSlot) OnEntryPassed(ctx *base.EntryContext)                      { vrec.slot("pass", ctx, nil) }
func (vSlot) OnEntryBlocked(ctx *base.EntryContext, b *base.BlockError) { vrec.slot("block", ctx, b) }
func (vSlot) OnCompleted(ctx *base.EntryContext) {
	if ctx.Err() != nil {
		vrec.slot("complete-err", ctx, nil)
	} else {
		vrec.slot("complete", ctx, nil)
	}
}

func (r *vRecorder) handlerRan() bool {
	r.mu.Lock()
	defer r.mu.Unlock()
	for _, e := range r.events {
		if e == "handler" {
			return true
		}
	}
	for _, e := range r.drv {
		if e == "handler" {
			return true
		}
	}
	return false
}

// VHit is called by every driver handler first thing: records the invocation, then behaves as told.
func VHit(outcome string) error {
	vrec.driver("handler")
	vrec.mu.Lock()
	if vrec.inbh == -1 {
		vrec.inbh = stat.InboundNode().CurrentConcurrency() - vrec.inb0
	}
	vrec.mu.Unlock()
	if strings.HasPrefix(outcome, "err@") {
		return errors.New("verif: the wrapped call failed (" + outcome + ")")
	}
	switch outcome {
	case "err":
		return VErr
	case "errblk":
		// the handler's own error is a bare *base.BlockError (e.g. a nested / downstream Sentinel call of the handler
		// was rejected): for the contract it is a handler error like any other (class outcome "err")
		return base.NewBlockError(base.WithBlockType(base.BlockTypeCircuitBreaking))
	case "panic":
		panic("verif: handler panics")
	}
	return nil
}

// VAwaitExit waits (bounded) until an admitted entry has been exited: for frameworks whose "after the
// response" hooks run on another goroutine (gear).  Global-chain mode only.
func VAwaitExit() {
	deadline := time.Now().Add(2 * time.Second)
	for time.Now().Before(deadline) {
		vrec.mu.Lock()
		pass, exit := 0, 0
		for _, e := range vrec.events {
			switch e {
			case "pass":
				pass++
			case "complete", "complete-err":
				exit++
			}
		}
		names, inb0 := append([]string{}, vrec.names...), vrec.inb0
		vrec.mu.Unlock()
		if exit >= pass {
			// the recording slot (order 0) sees the completion BEFORE the core's statistic slot lowers the gauges of the
			// resource and of the inbound node on that other goroutine: let them settle (bounded; a real leak stays visible)
			settle := time.Now().Add(300 * time.Millisecond)
			for time.Now().Before(settle) {
				ok := stat.InboundNode().CurrentConcurrency() <= inb0
				for _, n := range names {
					if rn := stat.GetResourceNode(n); rn != nil && rn.CurrentConcurrency() > 0 {
						ok = false
					}
				}
				if ok {
					return
				}
				time.Sleep(200 * time.Microsecond)
			}
			return
		}
		time.Sleep(time.Millisecond)
	}
}

// VFallback is called by every custom block fallback of the drivers.
func VFallback() { vrec.driver("fallback") }

// VCls is the class of a request as AdapterContract.tla defines it.
type VCls struct {
	Wraps   bool   `json:"wraps"`
	Errsig  bool   `json:"errsig"`
	Fb      string `json:"fb"`
	Outcome string `json:"outcome"`
	Layer   string `json:"layer"` // where the error of the wrapped call arises: "node" (the handler itself) | "pre" | "post"
	Side    string `json:"side"` // "server" | "client": what the entry point is
	Flow    bool   `json:"flow"` // a flow rule with threshold 0 is loaded on the resource the request is meant to hit
	Sys     string `json:"sys"`  // "none" | "slack" | "violated": the system rules while the request is sent
}

// VLayerOf maps the places where a layered downstream call can fail to the layer of AdapterContract.tla.
var VLayerOf = map[string]string{
	"err@registry": "pre",  // service unknown to the registry / no node available
	"err@ctx":      "pre",  // the caller's context is already cancelled: the framework gives up before a node is called
	"err@backoff":  "pre",  // the backoff hook of the call options fails
	"err@retry":    "post", // the node failed and the retry hook of the call options returns an error of its own
}

// VCase is one (entry point, option variant) of an adapter.
type VCase struct {
	Ep      string   // exported entry point, as the source lists it
	Side    string   // "server" (middleware / server interceptor / handler wrapper: guards INBOUND traffic) | "client" (OUTBOUND calls)
	Variant string   // which options
	Options []string // exported option constructors used by the variant
	Wraps   bool
	Errsig  bool
	Fb      string // "custom" | "default"
	Private bool   // the entry point builds its own slot chain: observe through the resource node
	// Res tells which resource the request will hit for the admitted (false) and blocked (true) flavour.
	Res func(blocked bool) string
	// Send sends one request whose handler behaves as `outcome'; returns true iff the response is the adapter's
	// documented default rejection.
	Send func(blocked bool, outcome string) (rejected bool)
	// Outcomes the handler type can express (default: ok, err, panic)
	Outcomes []string
	// Layers: further outcomes "err@<place>" of a client-side entry point whose downstream call can fail at other layers of
	// the framework than the node itself (see VLayerOf); sent as admitted requests; Send gets the name and arranges it
	Layers []string
	// Last: run after every other case (the case changes process-wide state)
	Last bool
}

var vOut *json.Encoder
var vTr int

func vEmit(m map[string]interface{}) {
	if err := vOut.Encode(m); err != nil {
		panic(err)
	}
}

// VRun drives every case: {admitted, blocked} x outcomes, three rounds (the gauge must be back to 0 every time).
func VRun(t *testing.T, adapter string, cases []VCase) {
	out := os.Getenv("VERIF_TRACE_OUT")
	if out == "" {
		t.Skip("VERIF_TRACE_OUT not set")
	}
	f, err := os.Create(out)
	if err != nil {
		t.Fatal(err)
	}
	defer f.Close()
	vOut = json.NewEncoder(f)

	_ = logging.ResetGlobalLogger(vNopLogger{})
	e := config.NewDefaultConfig()
	e.Sentinel.App.Name = "verif-" + adapter
	e.Sentinel.Log.Logger = vNopLogger{}
	e.Sentinel.Log.Metric.FlushIntervalSec = 0
	e.Sentinel.Stat.System.CollectIntervalMs = 0
	e.Sentinel.Stat.System.CollectLoadIntervalMs = 0
	e.Sentinel.Stat.System.CollectCpuIntervalMs = 0
	e.Sentinel.Stat.System.CollectMemoryIntervalMs = 0
	if err := sentinel.InitWithConfig(e); err != nil {
		t.Fatal(err)
	}
	sentinel.GlobalSlotChain().AddStatSlot(vSlot{})

	// every "blocked" resource gets a flow rule with threshold 0
	var rules []*flow.Rule
	seen := map[string]bool{}
	eps, opts := map[string]bool{}, map[string]bool{}
	sides := map[string]string{}
	layers := map[string][]string{}
	for _, c := range cases {
		eps[c.Ep] = true
		if c.Side != "server" && c.Side != "client" {
			t.Fatalf("%s/%s: the driver does not say which side the entry point is on", c.Ep, c.Variant)
		}
		if s, ok := sides[c.Ep]; ok && s != c.Side {
			t.Fatalf("%s: declared both server-side and client-side", c.Ep)
		}
		sides[c.Ep] = c.Side
		for _, l := range c.Layers {
			if VLayerOf[l] == "" || c.Side != "client" {
				t.Fatalf("%s/%s: layer %q not known / not a client-side entry point", c.Ep, c.Variant, l)
			}
		}
		if len(c.Layers) > 0 {
			layers[c.Ep+" / "+c.Variant] = c.Layers
		}
		for _, o := range c.Options {
			opts[o] = true
		}
		r := c.Res(true)
		if c.Res(false) == r {
			t.Fatalf("%s/%s: admitted and blocked flavour use the same resource %q", c.Ep, c.Variant, r)
		}
		if !seen[r] {
			seen[r] = true
			rules = append(rules, &flow.Rule{Resource: r, Threshold: 0, TokenCalculateStrategy: flow.Direct, ControlBehavior: flow.Reject, StatIntervalInMs: 1000})
		}
	}
	if _, err := flow.LoadRules(rules); err != nil {
		t.Fatal(err)
	}
	vEmit(map[string]interface{}{"op": "registry", "adapter": adapter, "eps": vKeys(eps), "options": vKeys(opts), "sides": sides, "layers": layers})

	// VERIF_ROUNDS rounds; within a round the requests are sent in an order seeded by VERIF_SEED
	rounds, _ := strconv.Atoi(os.Getenv("VERIF_ROUNDS"))
	if rounds <= 0 {
		rounds = 3
	}
	seed, _ := strconv.ParseInt(os.Getenv("VERIF_SEED"), 10, 64)
	rng := rand.New(rand.NewSource(seed))
	type one struct {
		c       VCase
		blocked bool
		oc      string
		sys     string
	}
	srng := rand.New(rand.NewSource(seed + 7919)) // order of the system-protection scenarios
	for round := 0; round < rounds; round++ {
		var first, last []one
		var sfirst, slast []one // a system rule is the only rule in force: see vOne
		for _, c := range cases {
			outcomes := c.Outcomes
			if outcomes == nil {
				outcomes = []string{"ok", "err", "errblk", "panic"}
			}
			for _, blocked := range []bool{false, true} {
				for _, oc := range outcomes {
					if c.Last {
						last = append(last, one{c, blocked, oc, ""})
					} else {
						first = append(first, one{c, blocked, oc, ""})
					}
				}
			}
			for _, oc := range c.Layers {
				if c.Last {
					last = append(last, one{c, false, oc, ""})
				} else {
					first = append(first, one{c, false, oc, ""})
				}
			}
			for _, sys := range VSysLoads {
				for _, oc := range outcomes {
					if c.Last {
						slast = append(slast, one{c, false, oc, sys})
					} else {
						sfirst = append(sfirst, one{c, false, oc, sys})
					}
				}
			}
		}
		if round > 0 {
			rng.Shuffle(len(first), func(i, j int) { first[i], first[j] = first[j], first[i] })
			rng.Shuffle(len(last), func(i, j int) { last[i], last[j] = last[j], last[i] })
			srng.Shuffle(len(sfirst), func(i, j int) { sfirst[i], sfirst[j] = sfirst[j], sfirst[i] })
			srng.Shuffle(len(slast), func(i, j int) { slast[i], slast[j] = slast[j], slast[i] })
		}
		all := append(append(append(first, sfirst...), last...), slast...)
		for _, o := range all {
			vOne(t, adapter, o.c, o.blocked, o.oc, o.sys)
		}
	}
}

// VSysLoads are the system-protection scenarios every (entry point, variant) is sent through.  The request uses the
// resource WITHOUT a flow rule, so a system rule is the only rule that can decide:
//
//	sys-conc   system.Concurrency, TriggerCount 1, while the driver itself holds one INBOUND entry (direct sentinel.Entry,
//	           released after the request): violated
//	sys-qps    system.InboundQPS, TriggerCount 0 (qps < 0 never holds): violated
//	sys-slack  system.Concurrency, TriggerCount 1000 with the same held entry: loaded, not violated
//
// The arrangement is confirmed with a direct inbound probe entry before the request is sent; the system rules are
// cleared and the held entry exited after every scenario (the inbound node is shared by the whole process).
var VSysLoads = []string{"sys-conc", "sys-qps", "sys-slack"}

const vHolderRes, vProbeRes = "verif-sys-holder", "verif-sys-probe"

// vArm loads the system rule of scenario sys; the returned function undoes it.
func vArm(t *testing.T, sys string) (state string, disarm func()) {
	var holder *base.SentinelEntry
	if sys != "sys-qps" {
		h, b := sentinel.Entry(vHolderRes, sentinel.WithTrafficType(base.Inbound))
		if b != nil {
			t.Fatalf("%s: the driver's own inbound entry was blocked (%s)", sys, vBlockType(b))
		}
		holder = h
	}
	rule := &system.Rule{MetricType: system.Concurrency, TriggerCount: 1, Strategy: system.NoAdaptive}
	state = "violated"
	switch sys {
	case "sys-qps":
		rule = &system.Rule{MetricType: system.InboundQPS, TriggerCount: 0, Strategy: system.NoAdaptive}
	case "sys-slack":
		rule.TriggerCount = 1000
		state = "slack"
	}
	if _, err := system.LoadRules([]*system.Rule{rule}); err != nil {
		t.Fatalf("%s: %v", sys, err)
	}
	// confirm the arrangement independently of the adapter: a direct inbound entry is blocked by system protection iff violated
	p, b := sentinel.Entry(vProbeRes, sentinel.WithTrafficType(base.Inbound))
	if p != nil {
		p.Exit()
	}
	if (state == "violated") != (b != nil && b.BlockType() == base.BlockTypeSystemFlow) {
		t.Fatalf("%s: the arrangement does not hold: system rules %s, direct inbound probe blocked=%v (%s)", sys, state, b != nil, vBlockType(b))
	}
	return state, func() {
		if holder != nil {
			holder.Exit()
		}
		if err := system.ClearRules(); err != nil {
			t.Fatalf("%s: %v", sys, err)
		}
	}
}

func vOne(t *testing.T, adapter string, c VCase, blocked bool, outcome string, sys string) {
	res := c.Res(blocked)
	private := ""
	if c.Private {
		private = res
	}
	want := map[bool]string{false: "admit", true: "block"}[blocked]
	sysState, disarm := "none", func() {}
	inbBefore := stat.InboundNode().CurrentConcurrency()
	if sys != "" {
		want = sys
		sysState, disarm = vArm(t, sys)
	}
	vrec.reset(private)
	rejected, escaped, pv := false, false, ""
	func() {
		defer func() {
			if p := recover(); p != nil {
				escaped = true
				pv = fmt.Sprint(p)
				if len(pv) > 120 {
					pv = pv[:120]
				}
			}
		}()
		rejected = c.Send(blocked, outcome)
	}()
	if rejected && outcome == "errblk" && vrec.handlerRan() {
		// entry points that return the handler's error: the BlockError in the response is the handler's own error handed
		// through, not the adapter's rejection (the handler ran) - Send recognises a rejection by the error type
		rejected = false
	}
	if rejected {
		vrec.driver("reject")
	}
	conc := int32(0)
	if n := stat.GetResourceNode(res); n != nil {
		conc = n.CurrentConcurrency()
	}
	events := vrec.result()
	vrec.mu.Lock()
	btype, inbh, inb := vrec.btype, vrec.inbh, stat.InboundNode().CurrentConcurrency()-vrec.inb0
	vrec.mu.Unlock()
	disarm()
	if sys != "" && inb == 0 {
		// the driver's own held entry must be gone again (a request that leaked is reported through inb above)
		if now := stat.InboundNode().CurrentConcurrency(); now != inbBefore {
			t.Fatalf("%s: inbound gauge %d after the scenario, %d before it", sys, now, inbBefore)
		}
	}
	vTr++
	clsOutcome, layer := outcome, "node"
	if l, ok := VLayerOf[outcome]; ok {
		clsOutcome, layer = "err", l
	} else if outcome == "errblk" {
		clsOutcome = "err" // the class abstracts from the error value
	}
	vEmit(map[string]interface{}{
		"op": "req", "tr": vTr, "adapter": adapter, "ep": c.Ep, "variant": c.Variant, "want": want,
		"res": res, "oc": outcome, "cls": VCls{c.Wraps, c.Errsig, c.Fb, clsOutcome, layer, c.Side, blocked, sysState}, "events": events, "conc": conc, "escaped": escaped, "panic": pv,
		"src": map[bool]string{false: "slot", true: "node"}[c.Private], "seen": append([]string{}, vrec.names...),
		"btype": btype, "inb": inb, "inbh": inbh,
	})
}

func vKeys(m map[string]bool) []string {
	out := []string{}
	for k := range m {
		out = append(out, k)
	}
	sort.Strings(out)
	return out
}
