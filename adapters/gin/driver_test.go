package gin

import (
	"net/http"
	"net/http/httptest"
	"testing"

	"github.com/gin-gonic/gin"
)

// C19 conformance driver for the gin adapter: every exported entry point x option variant.
func TestVerifDriver(t *testing.T) {
	gin.SetMode(gin.ReleaseMode)
	outcome := "ok"
	handler := func(c *gin.Context) {
		// gin handlers return nothing: a failing handler can only abort with an error the middleware never sees
		if err := VHit(outcome); err != nil {
			_ = c.AbortWithError(http.StatusInternalServerError, err)
			return
		}
		c.String(http.StatusOK, "ok")
	}
	mk := func(variant string, opts ...Option) func(bool, string) bool {
		r := gin.New() // no Recovery middleware: a handler panic travels through the Sentinel middleware
		r.Use(SentinelMiddleware(opts...))
		r.GET("/"+variant+"/ok", handler)
		r.GET("/"+variant+"/blk", handler)
		return func(blocked bool, oc string) bool {
			outcome = oc
			p := "/" + variant + "/ok"
			if blocked {
				p = "/" + variant + "/blk"
			}
			w := httptest.NewRecorder()
			r.ServeHTTP(w, httptest.NewRequest("GET", p, nil))
			return w.Code == http.StatusTooManyRequests
		}
	}
	extract := WithResourceExtractor(func(c *gin.Context) string { return "custom:" + c.FullPath() })
	fallback := WithBlockFallback(func(c *gin.Context) {
		VFallback()
		c.AbortWithStatusJSON(http.StatusTeapot, map[string]string{"err": "custom fallback"})
	})
	path := func(variant, prefix string) func(bool) string {
		return func(b bool) string {
			if b {
				return prefix + "/" + variant + "/blk"
			}
			return prefix + "/" + variant + "/ok"
		}
	}
	VRun(t, "gin", []VCase{
		{Ep: "SentinelMiddleware", Side: "server", Variant: "default", Wraps: true, Fb: "default", Res: path("d", "GET:"), Send: mk("d")},
		{Ep: "SentinelMiddleware", Side: "server", Variant: "extractor", Options: []string{"WithResourceExtractor"}, Wraps: true, Fb: "default",
			Res: path("e", "custom:"), Send: mk("e", extract)},
		{Ep: "SentinelMiddleware", Side: "server", Variant: "fallback", Options: []string{"WithBlockFallback"}, Wraps: true, Fb: "custom",
			Res: path("f", "GET:"), Send: mk("f", fallback)},
		{Ep: "SentinelMiddleware", Side: "server", Variant: "extractor+fallback", Options: []string{"WithResourceExtractor", "WithBlockFallback"}, Wraps: true, Fb: "custom",
			Res: path("ef", "custom:"), Send: mk("ef", extract, fallback)},
	})
}
