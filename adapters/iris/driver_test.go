package iris

import (
	"net/http"
	"net/http/httptest"
	"testing"

	"github.com/kataras/iris/v12"
)

// C19 conformance driver for the iris adapter: every exported entry point x option variant.
func TestVerifDriver(t *testing.T) {
	outcome := "ok"
	handler := func(c iris.Context) {
		// iris handlers return nothing: a failing handler writes an error status the middleware never sees
		if err := VHit(outcome); err != nil {
			c.StopWithError(http.StatusInternalServerError, err)
			return
		}
		c.StatusCode(http.StatusOK)
	}
	mk := func(variant string, opts ...Option) func(bool, string) bool {
		app := iris.New()
		app.Logger().SetLevel("disable")
		app.Use(SentinelMiddleware(opts...))
		app.Get("/"+variant+"/ok", handler)
		app.Get("/"+variant+"/blk", handler)
		if err := app.Build(); err != nil {
			t.Fatal(err)
		}
		return func(blocked bool, oc string) bool {
			outcome = oc
			p := "/" + variant + "/ok"
			if blocked {
				p = "/" + variant + "/blk"
			}
			w := httptest.NewRecorder()
			app.ServeHTTP(w, httptest.NewRequest("GET", p, nil))
			return w.Code == http.StatusTooManyRequests
		}
	}
	extract := WithResourceExtractor(func(c iris.Context) string { return "custom:" + c.Request().URL.Path })
	fallback := WithBlockFallback(func(c iris.Context) {
		VFallback()
		c.StatusCode(http.StatusTeapot)
		_, _ = c.WriteString("custom fallback")
	})
	path := func(variant, prefix string) func(bool) string {
		return func(b bool) string {
			if b {
				return prefix + "/" + variant + "/blk"
			}
			return prefix + "/" + variant + "/ok"
		}
	}
	VRun(t, "iris", []VCase{
		{Ep: "SentinelMiddleware", Side: "server", Variant: "default", Wraps: true, Fb: "default", Res: path("d", "GET:"), Send: mk("d")},
		{Ep: "SentinelMiddleware", Side: "server", Variant: "extractor", Options: []string{"WithResourceExtractor"}, Wraps: true, Fb: "default",
			Res: path("e", "custom:"), Send: mk("e", extract)},
		{Ep: "SentinelMiddleware", Side: "server", Variant: "fallback", Options: []string{"WithBlockFallback"}, Wraps: true, Fb: "custom",
			Res: path("f", "GET:"), Send: mk("f", fallback)},
		{Ep: "SentinelMiddleware", Side: "server", Variant: "extractor+fallback", Options: []string{"WithResourceExtractor", "WithBlockFallback"}, Wraps: true, Fb: "custom",
			Res: path("ef", "custom:"), Send: mk("ef", extract, fallback)},
	})
}
