package gear

import (
	"io"
	"log"
	"net/http"
	"net/http/httptest"
	"testing"

	"github.com/teambition/gear"
)

// C19 conformance driver for the gear adapter: every exported entry point x option variant.
func TestVerifDriver(t *testing.T) {
	outcome := "ok"
	handler := func(c *gear.Context) error {
		// gear handlers return an error; gear runs middleware and handler one after the other (no next())
		if err := VHit(outcome); err != nil {
			return err
		}
		return c.End(http.StatusOK, []byte("ok"))
	}
	mk := func(variant string, opts ...Option) func(bool, string) bool {
		app := gear.New()
		app.Set(gear.SetLogger, log.New(io.Discard, "", 0))
		router := gear.NewRouter()
		router.Use(SentinelMiddleware(opts...))
		router.Get("/"+variant+"/ok", handler)
		router.Get("/"+variant+"/blk", handler)
		app.UseHandler(router)
		return func(blocked bool, oc string) bool {
			outcome = oc
			p := "/" + variant + "/ok"
			if blocked {
				p = "/" + variant + "/blk"
			}
			w := httptest.NewRecorder()
			app.ServeHTTP(w, httptest.NewRequest("GET", p, nil))
			VAwaitExit() // gear runs "end hooks" on another goroutine after the response
			return w.Code == http.StatusTooManyRequests
		}
	}
	extract := WithResourceExtractor(func(c *gear.Context) string { return "custom:" + gear.GetRouterPatternFromCtx(c) })
	fallback := WithBlockFallback(func(c *gear.Context) error {
		VFallback()
		return c.End(http.StatusTeapot, []byte("custom fallback"))
	})
	path := func(variant, prefix string) func(bool) string {
		return func(b bool) string {
			if b {
				return prefix + "/" + variant + "/blk"
			}
			return prefix + "/" + variant + "/ok"
		}
	}
	VRun(t, "gear", []VCase{
		{Ep: "SentinelMiddleware", Side: "server", Variant: "default", Wraps: true, Errsig: true, Fb: "default", Res: path("d", "GET:"), Send: mk("d")},
		{Ep: "SentinelMiddleware", Side: "server", Variant: "extractor", Options: []string{"WithResourceExtractor"}, Wraps: true, Errsig: true, Fb: "default",
			Res: path("e", "custom:"), Send: mk("e", extract)},
		{Ep: "SentinelMiddleware", Side: "server", Variant: "fallback", Options: []string{"WithBlockFallback"}, Wraps: true, Errsig: true, Fb: "custom",
			Res: path("f", "GET:"), Send: mk("f", fallback)},
		{Ep: "SentinelMiddleware", Side: "server", Variant: "extractor+fallback", Options: []string{"WithResourceExtractor", "WithBlockFallback"}, Wraps: true, Errsig: true,
			Fb: "custom", Res: path("ef", "custom:"), Send: mk("ef", extract, fallback)},
	})
}
