package fiber

import (
	"net/http"
	"testing"

	"github.com/gofiber/fiber/v2"
	"github.com/valyala/fasthttp"
)

// C19 conformance driver for the fiber adapter: every exported entry point x option variant.
// Requests are handed to app.Handler() on the test goroutine (app.Test would serve them on another
// goroutine, where a handler panic kills the process instead of travelling through the middleware).
func TestVerifDriver(t *testing.T) {
	outcome := "ok"
	handler := func(c *fiber.Ctx) error {
		// fiber handlers return an error: the middleware sees it as the result of ctx.Next()
		if err := VHit(outcome); err != nil {
			return err
		}
		return c.SendString("ok")
	}
	mk := func(variant string, opts ...Option) func(bool, string) bool {
		app := fiber.New(fiber.Config{DisableStartupMessage: true})
		app.Use(SentinelMiddleware(opts...))
		app.Get("/"+variant+"/ok", handler)
		app.Get("/"+variant+"/blk", handler)
		h := app.Handler()
		return func(blocked bool, oc string) bool {
			outcome = oc
			p := "/" + variant + "/ok"
			if blocked {
				p = "/" + variant + "/blk"
			}
			var ctx fasthttp.RequestCtx
			ctx.Request.Header.SetMethod("GET")
			ctx.Request.SetRequestURI(p)
			h(&ctx)
			return ctx.Response.StatusCode() == http.StatusTooManyRequests
		}
	}
	extract := WithResourceExtractor(func(c *fiber.Ctx) string { return "custom:" + c.Path() })
	fallback := WithBlockFallback(func(c *fiber.Ctx) error {
		VFallback()
		return c.Status(http.StatusTeapot).SendString("custom fallback")
	})
	path := func(variant, prefix string) func(bool) string {
		return func(b bool) string {
			if b {
				return prefix + "/" + variant + "/blk"
			}
			return prefix + "/" + variant + "/ok"
		}
	}
	VRun(t, "fiber", []VCase{
		{Ep: "SentinelMiddleware", Side: "server", Variant: "default", Wraps: true, Errsig: true, Fb: "default", Res: path("d", "GET:"), Send: mk("d")},
		{Ep: "SentinelMiddleware", Side: "server", Variant: "extractor", Options: []string{"WithResourceExtractor"}, Wraps: true, Errsig: true, Fb: "default",
			Res: path("e", "custom:"), Send: mk("e", extract)},
		{Ep: "SentinelMiddleware", Side: "server", Variant: "fallback", Options: []string{"WithBlockFallback"}, Wraps: true, Errsig: true, Fb: "custom",
			Res: path("f", "GET:"), Send: mk("f", fallback)},
		{Ep: "SentinelMiddleware", Side: "server", Variant: "extractor+fallback", Options: []string{"WithResourceExtractor", "WithBlockFallback"}, Wraps: true, Errsig: true,
			Fb: "custom", Res: path("ef", "custom:"), Send: mk("ef", extract, fallback)},
	})
}
