"""REFINE - refinement links between the concurrent (PlusCal) and the sequential specifications (growth item 2 of DESIGN section 4).

Not one of the twenty properties and it says NOTHING about the real code: pure TLA+ / TLC work on the design models.  For three
subsystems the repository has a design-level SEQUENTIAL spec (one public call = one action) and an implementation-shaped
CONCURRENT spec (one label per atomic access = yield hook of the real code).  spec/Refine_<X>.tla defines a refinement mapping
from the concurrent to the sequential state, INSTANCEs the sequential spec WITH it and lets TLC check that every (restricted)
behaviour of the concurrent model, mapped, is a behaviour of the sequential one:

  breaker   BreakerConc (C12)  =>  Breaker (C03)              spec/Refine_Breaker.tla  (+ Refine_Breaker_Diag.tla)
  window    WindowConc  (C09)  =>  Window / WindowRef (C08)   spec/Refine_Window.tla
  admit     AdmitPath (k callers of C02 / C04)  =>  FlowQps / Isolation with at most k-1 pending records
                                                              spec/Refine_Admit.tla

Every pair has runs that must HOLD (the refinement under its stated restrictions) and runs that must be VIOLATED: the
spec-level mutants of the concurrent models (non-vacuity), and the same model with ONE restriction dropped (necessity of the
restriction: the known findings of C12 are two of them).  The stage backs C12 (thorough tier of checks/C12.py) and the
k-callers / roll-over clauses of C02, C04, C09.

Exit 0 iff every refinement holds and every mutant / dropped restriction is rejected; exit 2 otherwise (a TLC failure, an
unexpected verdict).  This stage never prints VIOLATION.  notes/REFINE.md has the mappings and the state counts.
"""
import os, re, shutil, subprocess, time, threading
from concurrent.futures import ThreadPoolExecutor
from vlib import main, MachineryError, TLCResult, SPEC, TLA_CP

# ------------------------------------------------------------------------------------------------ cfg texts
ADMIT_CFG = """SPECIFICATION RSpec
CONSTANTS
  K = %(k)d
  Mode = "%(mode)s"
  Ts <- %(ts)s
  W0s = %(w0s)s
  Bs = %(bs)s
  Mutant = "%(mutant)s"
  SeqMut = "%(seqmut)s"
VIEW rview
INVARIANTS %(invs)s
PROPERTIES %(props)s
CHECK_DEADLOCK FALSE
%(extra)s"""


def admit_cfg(mode='qps', k=3, w0s='{0, 1, 2}', bs='{0, 1, 2}', mutant='none', seqmut='none', invs='LagInv', props=None, extra=''):
    q = mode == 'qps'
    return ADMIT_CFG % dict(k=k, mode=mode, ts='MCTsQps' if q else 'MCTsConc', w0s=w0s, bs=bs, mutant=mutant, seqmut=seqmut, invs=invs,
                            props=props or ('LagSimQ' if q else 'LagSimC'), extra=extra)


WINDOW_CFG = """SPECIFICATION RSpec
CONSTANTS
  N = %(n)d
  BL = %(bl)d
  Writers = %(writers)s
  Readers = %(readers)s
  Amt <- MCAmt
  WKind <- MCWKind
  RKind <- MCRKind
  K1 = "%(k1)s"
  K2 = "%(k2)s"
  K3 = "%(k3)s"
  K4 = "%(k4)s"
  CKinds = %(ckinds)s
  MaxRt = 60000
  IdleKinds = %(idle)s
  T0 = %(t0)d
  MaxT = %(maxt)d
  ResetFirst = %(resetfirst)s
  Recheck = %(recheck)s
VIEW rview
INVARIANTS %(invs)s
PROPERTIES %(props)s
CHECK_DEADLOCK FALSE
%(extra)s"""
COUNTERS = ['pass', 'block', 'complete', 'error', 'rt']


def tlaset(xs):
    return '{%s}' % ', '.join('"%s"' % x for x in xs)


def window_cfg(n=1, bl=2, nw=2, nr=1, t0=1, maxt=4, resetfirst=True, recheck=True, kinds=None, idle=(), restricted=None,
               invs='SeqArrayOK TypeOK', props=None):
    """kinds as in checks/C09.py; restricted: NoOvertake as CONSTRAINT + guard (default: N = 1 only - with N >= 2 the stall
    assumption of WindowConc implies it and the refinement is checked without any constraint)"""
    restricted = (n == 1) if restricted is None else restricted
    w = list(range(1, nw + 1))
    r = list(range(nw + 1, nw + nr + 1))
    kinds = list(kinds or ['pass'] * (nw + nr))
    ck = sorted({'pass'} | {k for k in kinds if k in COUNTERS} | ({'rt'} if 'minrt' in kinds else set()) | set(idle))
    k4 = (kinds + ['pass'] * 4)[:4]
    props = props or ('RefInit %s ReadExact' % ('Refines' if restricted else 'RefinesAll'))
    return WINDOW_CFG % dict(n=n, bl=bl, writers='{%s}' % ', '.join(map(str, w)), readers='{%s}' % ', '.join(map(str, r)), t0=t0, maxt=maxt,
                             resetfirst='TRUE' if resetfirst else 'FALSE', recheck='TRUE' if recheck else 'FALSE', invs=invs, props=props,
                             k1=k4[0], k2=k4[1], k3=k4[2], k4=k4[3], ckinds=tlaset(ck), idle=tlaset(idle),
                             extra='CONSTRAINT NoOvertake\n' if restricted else '')


BREAKER_CFG = """SPECIFICATION %(spec)s
CONSTANTS
  NC = %(nc)d
  Errs <- MCErrs
  Timeout = %(timeout)d
  ProbeNum = %(probenum)d
  Thr = 1
  MinAmt = 1
  MaxT = %(maxt)d
  InitOpen = %(initopen)s
  DlFirst = %(dlfirst)s
  Restrict = %(restrict)s
VIEW %(view)s
INVARIANTS %(invs)s
PROPERTIES %(props)s
CHECK_DEADLOCK FALSE
%(extra)s"""
RESTRICTIONS = ['stale', 'stalled', 'pushed', 'alone', 'park']
KNOWN = {'stale': 'C12/aba-deadline-compared-before-an-intervening-reopen',
         'stalled': 'C12/opener-stalled-a-full-timeout-between-deadline-publication-and-swap'}


def breaker_cfg(nc=2, timeout=2, probenum=0, maxt=4, initopen=False, dlfirst=True, drop=None, restrict=None,
                invs='ExclusiveProbe ReportedOnce SeqInvs ListenAgrees', props=None, view='rview', staged=False, spec='RSpec', extra=''):
    restrict = RESTRICTIONS if restrict is None else restrict
    restrict = [x for x in restrict if x != drop]
    if props is not None and invs.startswith('ExclusiveProbe ReportedOnce'):
        invs = 'ExclusiveProbe'        # runs that must be violated: the action property is the expected verdict, not a consequence of it
    props = props or ('RefInit Refines ' + ('RejectJustified' if probenum == 0 else 'RejectRaced'))
    return BREAKER_CFG % dict(nc=nc, timeout=timeout, probenum=probenum, maxt=maxt, initopen='TRUE' if initopen else 'FALSE',
                              dlfirst='TRUE' if dlfirst else 'FALSE', restrict=tlaset(restrict), invs=invs, props=props, view=view, spec=spec,
                              extra=('CONSTRAINT Staged\n' if staged else '') + extra)


# ------------------------------------------------------------------------------------------------ jobs
def J(pair, name, module, cfg, expect='ok', what='', thorough=False, workers=2, timeout=1500):
    """expect: 'ok' (model checking must complete without error) or a tuple of property / invariant names one of which must be violated"""
    return dict(pair=pair, name=name, module=module, cfg=cfg, expect=expect, what=what, thorough=thorough, workers=workers, timeout=timeout)


def jobs():
    js = []
    # ---------------- admit: AdmitPath => FlowQps / Isolation through a lag of at most K-1 pending records
    A = 'Refine_Admit'
    js += [J('admit', 'qps-lag', A, admit_cfg('qps'), what='LagInv + LagSimQ, all interleavings of K=3 callers'),
           J('admit', 'conc-lag', A, admit_cfg('conc'), what='LagInv + LagSimC'),
           J('admit', 'qps-seq', A, admit_cfg('qps', invs='LagInv SeqIffQ', props='SeqInitQ SeqStepQ', extra='ACTION_CONSTRAINT NoOverlap\n'),
             what='no check overlaps a pending record: the unmodified FlowQps!Spec'),
           J('admit', 'conc-seq', A, admit_cfg('conc', invs='LagInv SeqIffC', props='SeqInitC SeqStepC', extra='ACTION_CONSTRAINT NoOverlap\n'),
             what='no check overlaps a pending record: the unmodified Isolation!Spec'),
           J('admit', 'qps-lag-k4', A, admit_cfg('qps', k=4, bs='{1, 2}', w0s='{0, 2}'), thorough=True, what='K=4 callers'),
           J('admit', 'conc-lag-k4', A, admit_cfg('conc', k=4, bs='{0, 1}', w0s='{0, 2}'), thorough=True, what='K=4 callers'),
           J('admit', 'plain-qps', A, admit_cfg('qps', props='PlainQ'), expect=('PlainQ',), what='the PLAIN refinement does not hold (overshoot of overlapping callers)'),
           J('admit', 'plain-conc', A, admit_cfg('conc', props='PlainC'), expect=('PlainC',), what='the PLAIN refinement does not hold'),
           J('admit', 'mutant qps/ge', A, admit_cfg('qps', mutant='ge'), expect=('LagSimQ',), what='check compares with >='),
           J('admit', 'mutant qps/recblocked', A, admit_cfg('qps', mutant='recblocked'), expect=('LagInv', 'LagSimQ'), what='rejected caller records'),
           J('admit', 'mutant conc/norec', A, admit_cfg('conc', mutant='norec'), expect=('LagInv',), what='admitted caller never records'),
           J('admit', 'mutant qps/twice', A, admit_cfg('qps', mutant='twice'), expect=('LagInv', 'LagSimQ'), thorough=True, what='admitted caller records twice'),
           J('admit', 'mutant qps/norec', A, admit_cfg('qps', mutant='norec'), expect=('LagInv',), thorough=True),
           J('admit', 'mutant conc/ge', A, admit_cfg('conc', mutant='ge'), expect=('LagSimC',), thorough=True),
           J('admit', 'mutant conc/recblocked', A, admit_cfg('conc', mutant='recblocked'), expect=('LagInv', 'LagSimC'), thorough=True),
           J('admit', 'mutant conc/twice', A, admit_cfg('conc', mutant='twice'), expect=('LagInv', 'LagSimC'), thorough=True),
           J('admit', 'abstract side FlowQps Mut=ge', A, admit_cfg('qps', seqmut='ge'), expect=('LagSimQ',), what='the correct AdmitPath does not refine the broken design'),
           J('admit', 'abstract side FlowQps Mut=countblocked', A, admit_cfg('qps', seqmut='countblocked'), expect=('LagSimQ',), thorough=True)]
    # ---------------- window: WindowConc => Window, linearized at the invocation
    W = 'Refine_Window'
    js += [J('window', 'n1 bl2 2w+1r t<=3 (NoOvertake)', W, window_cfg(n=1, bl=2, nw=2, nr=1, maxt=3)),
           J('window', 'n2 bl1 2w+1r t<=3 (no constraint)', W, window_cfg(n=2, bl=1, nw=2, nr=1, maxt=3)),
           J('window', 'n2 bl1 conc/rt/maxconc', W, window_cfg(n=2, bl=1, nw=2, nr=1, maxt=3, kinds=['conc', 'rt', 'maxconc']), thorough=True),
           J('window', 'n2 bl2 2w+1r t<=4', W, window_cfg(n=2, bl=2, nw=2, nr=1, maxt=4), thorough=True),
           J('window', 'n2 bl2 2w+1r t<=6', W, window_cfg(n=2, bl=2, nw=2, nr=1, maxt=6), thorough=True, workers=4, timeout=3000),
           J('window', 'n1 bl2 2w+1r t<=4 (NoOvertake)', W, window_cfg(n=1, bl=2, nw=2, nr=1, maxt=4), thorough=True),
           J('window', 'n1 bl2 rt/minrt/rt', W, window_cfg(n=1, bl=2, nw=1, nr=2, maxt=4, kinds=['rt', 'minrt', 'rt']), thorough=True),
           J('window', 'n1 bl2 3w t<=4 (NoOvertake)', W, window_cfg(n=1, bl=2, nw=3, nr=0, maxt=4), thorough=True, workers=4, timeout=3000),
           J('window', 'drop NoOvertake, n1', W, window_cfg(n=1, bl=2, nw=2, nr=1, maxt=4, restricted=False, props='RefinesAll', invs='TypeOK'),
             expect=('RefinesAll',), what='N = 1: a recorder straddling the boundary credits the new bucket (allowed by C09, not a Window behaviour)'),
           J('window', 'mutant publish-then-reset', W, window_cfg(n=1, bl=2, nw=2, nr=1, maxt=4, resetfirst=False, props='Refines', invs='TypeOK'),
             expect=('Refines',), what='ResetFirst = FALSE'),
           J('window', 'mutant no-recheck-under-lock', W, window_cfg(n=1, bl=2, nw=2, nr=0, maxt=2, recheck=False, props='Refines', invs='TypeOK'),
             expect=('Refines',), what='Recheck = FALSE: second reset wipes a credited amount'),
           J('window', 'mutant skip-reset-when-no-pass', W, window_cfg(n=1, bl=2, nw=1, nr=1, maxt=4, idle=['pass'], kinds=['complete', 'complete'],
                                                                      props='Refines', invs='TypeOK'),
             expect=('Refines',), what='IdleKinds = {"pass"}'),
           J('window', 'ReadExact is not vacuous', W, window_cfg(n=1, bl=2, nw=2, nr=1, maxt=4, props='NeverExactNonZero', invs='TypeOK'),
             expect=('NeverExactNonZero',), what='some undisturbed read returns a non-zero reference value')]
    # ---------------- breaker: BreakerConc => Breaker under the five restrictions
    B = 'Refine_Breaker'
    js += [J('breaker', 'nc2 closed p0 t<=4', B, breaker_cfg(nc=2, initopen=False, probenum=0, maxt=4, view='fview')),
           J('breaker', 'nc2 open p0 t<=4', B, breaker_cfg(nc=2, initopen=True, probenum=0, maxt=4, view='fview')),
           J('breaker', 'nc2 open p1 t<=4', B, breaker_cfg(nc=2, initopen=True, probenum=1, maxt=4, view='fview')),
           J('breaker', 'nc3 open p0 t<=4', B, breaker_cfg(nc=3, initopen=True, probenum=0, maxt=4), workers=4),
           J('breaker', 'nc3 closed p0 t<=3', B, breaker_cfg(nc=3, initopen=False, probenum=0, maxt=3), thorough=True, workers=4, timeout=3000),
           J('breaker', 'nc3 open p2 t<=4', B, breaker_cfg(nc=3, initopen=True, probenum=2, maxt=4), thorough=True, workers=4, timeout=3000),
           J('breaker', 'nc3 open p1 t<=4', B, breaker_cfg(nc=3, initopen=True, probenum=1, maxt=4), thorough=True, workers=4, timeout=3000),
           J('breaker', 'mutant swap-then-store (closed)', B, breaker_cfg(nc=2, initopen=False, maxt=3, dlfirst=False, props='Refines'), expect=('Refines',),
             what='DlFirst = FALSE, the pinned order'),
           J('breaker', 'mutant swap-then-store (open)', B, breaker_cfg(nc=2, initopen=True, maxt=4, dlfirst=False, props='Refines'), expect=('Refines',)),
           J('breaker', 'RejectJustified fails for ProbeNum > 0', B, breaker_cfg(nc=2, initopen=True, probenum=1, maxt=4, props='RejectJustified'),
             expect=('RejectJustified',), what='spurious rejections: loser of the race Open -> HalfOpen, pre-published deadline'),
           J('breaker', 'drop stale', B, breaker_cfg(nc=2, initopen=True, maxt=4, drop='stale', props='Refines'), expect=('Refines',), what='known finding (ABA)'),
           J('breaker', 'drop stalled', B, breaker_cfg(nc=2, initopen=False, maxt=3, drop='stalled', props='Refines'), expect=('Refines',),
             what='known finding (opener stalled)'),
           J('breaker', 'drop alone', B, breaker_cfg(nc=2, initopen=True, maxt=4, drop='alone', props='Refines'), expect=('Refines',),
             what='failed completion wiped by resetMetric / dropped by a concurrent close'),
           J('breaker', 'drop pushed', B, breaker_cfg(nc=3, initopen=False, maxt=3, drop='pushed', props='RejectJustified', staged=True),
             expect=('RejectJustified',), what='loser of the race to open stores a later deadline: probe rejected after openedAt + Timeout'),
           J('breaker', 'drop park', B, breaker_cfg(nc=3, initopen=False, maxt=3, drop='park', props='Refines', staged=True), expect=('Refines',),
             what='completer parked a whole timeout re-opens a half-open breaker on counters read in Closed')]
    return js


# ------------------------------------------------------------------------------------------------ TLC (own runner: jobs run side by side)
_lock = threading.Lock()


def run_tlc(c, n, job):
    d = os.path.join(c.scratch, 'r%02d' % n)
    os.makedirs(d)
    for f in os.listdir(SPEC):
        if f.endswith('.tla'):
            shutil.copy(os.path.join(SPEC, f), d)
    open(os.path.join(d, job['module'] + '.cfg'), 'w').write(job['cfg'])
    cmd = ['java', '-XX:+UseParallelGC', '-XX:ParallelGCThreads=2', '-Xmx6g', '-Xss64m', '-cp', TLA_CP, 'tlc2.TLC', '-workers', str(job['workers']),
           '-metadir', os.path.join(d, 'md'), '-noGenerateSpecTE', job['module']]
    t = time.time()
    try:
        p = subprocess.run(cmd, cwd=d, stdout=subprocess.PIPE, stderr=subprocess.STDOUT, text=True, timeout=job['timeout'])
        out, rc = p.stdout, p.returncode
    except subprocess.TimeoutExpired as e:
        out = (e.stdout.decode() if isinstance(e.stdout, bytes) else (e.stdout or ''))
        rc = 124
        subprocess.run(['pkill', '-f', d], stdout=subprocess.DEVNULL, stderr=subprocess.DEVNULL)
    r = TLCResult(out, rc, time.time() - t)
    if rc == 124:
        r.error = 'timeout'
    sched = re.findall(r'/\\ sched = <<([^>]*)>>', out)
    r.sched = [int(x) for x in re.findall(r'-?\d+', sched[-1])] if sched else None
    shutil.rmtree(d, ignore_errors=True)
    return r


def check(c, tier, replay):
    if replay:
        raise MachineryError('REFINE works on the design models only: there is nothing to replay on the real code')
    thorough = tier == 'thorough'
    todo = [j for j in jobs() if thorough or not j['thorough']]
    for j in todo:
        j['workers'] = min(j['workers'], 8)
    c.log('%d TLC runs (%s tier), three at a time' % (len(todo), tier))
    with ThreadPoolExecutor(max_workers=3) as ex:
        res = list(ex.map(lambda nj: run_tlc(c, nj[0], nj[1]), enumerate(todo)))
    pairs = {}
    for j, r in zip(todo, res):
        P = pairs.setdefault(j['pair'], dict(result='holds', states=0, transitions=0, holds=[], rejected=[]))
        verdict = 'ok' if r.completed else (r.violated or ('deadlock' if r.deadlock else r.error or 'rc=%d' % r.rc))
        c.cov['tlc_runs'].append(dict(module=j['module'], cfg=j['pair'] + ': ' + j['name'], generated=r.generated, distinct=r.distinct, depth=r.depth,
                                      wall_s=round(r.wall, 1), result=verdict, expected='ok' if j['expect'] == 'ok' else 'violates ' + ' / '.join(j['expect'])))
        if j['expect'] == 'ok':
            if r.completed:
                P['holds'].append(dict(instance=j['name'], distinct=r.distinct, generated=r.generated, depth=r.depth))
                P['states'] += r.distinct
                P['transitions'] += r.generated
                c.cov['states'] += r.distinct
                c.cov['transitions'] += r.generated
                c.log('%-8s HOLDS     %-42s %8d distinct states, %9d transitions, depth %2d, %4.0fs' % (j['pair'], j['name'], r.distinct, r.generated, r.depth, r.wall))
            else:
                P['result'] = 'FAILS'
                c.inconclusive.append('refinement %s / %s does not hold: %s\n%s' % (j['pair'], j['name'], verdict, r.out[-1500:] if r.error else ''))
                c.log('%-8s FAILS     %-42s %s' % (j['pair'], j['name'], verdict))
        else:
            if r.violated in j['expect']:
                e = dict(variant=j['name'], violates=r.violated, after_states=r.distinct)
                if j['what']:
                    e['what'] = j['what']
                if r.sched:
                    e['schedule'] = r.sched
                P['rejected'].append(e)
                c.log('%-8s rejected  %-42s violates %s after %d states (%.0fs)' % (j['pair'], j['name'], r.violated, r.distinct, r.wall))
            else:
                P['result'] = 'FAILS'
                c.inconclusive.append('%s / %s must violate %s, TLC says: %s\n%s' % (j['pair'], j['name'], ' or '.join(j['expect']), verdict, r.out[-1500:] if r.error else ''))
                c.log('%-8s NOT REJECTED %-39s %s' % (j['pair'], j['name'], verdict))
    if thorough and not c.inconclusive:
        diagnose(c, pairs)
    c.cov['refinements'] = pairs
    c.cov['exhaustive'] = True
    c.cov['distinct_nontrivial'] = sum(len(p['holds']) + len(p['rejected']) for p in pairs.values())
    c.cov['rule'] = ('no execution of the real code is involved: states / transitions = the TLC runs in which a refinement HOLDS; distinct_nontrivial = '
                     'number of TLC verdicts (refinement instances that hold + mutants / dropped restrictions that are rejected)')
    for p in ('breaker', 'window', 'admit'):
        if p in pairs and pairs[p]['rejected']:
            c.sample(dict(pair=p, **pairs[p]['rejected'][-1]))
    c.assumptions += ['breaker: Thr = MinAmt = 1, one error-count breaker, single non-rolling bucket; restricted by stale / stalled (the two known findings of C12), '
                      'pushed, alone, park (spec/Refine_Breaker.tla); rejected requests are stuttering steps whose legality is a separate property',
                      'window: operations linearized at their invocation; N = 1 restricted to recorders that do not overlap the roll-over of their bucket, '
                      'N >= 2 only by the stall assumption WindowConc already contains',
                      'admit: not a plain refinement - every check is a Request of the sequential spec seen through a lag of at most K-1 pending records; '
                      'plain refinement for schedules in which no check overlaps a pending record',
                      'bounded instances only (see tlc_runs); nothing here is evidence about the real code']


def diagnose(c, pairs):
    """thorough: every class of first deviation of the UNRESTRICTED concurrent breaker (Refine_Breaker_Diag), as a histogram"""
    hist = {}
    for k in (dict(nc=3, initopen=False, probenum=0, maxt=3), dict(nc=3, initopen=True, probenum=0, maxt=4), dict(nc=3, initopen=True, probenum=2, maxt=4)):
        j = J('breaker', 'diag', 'Refine_Breaker_Diag', breaker_cfg(restrict=[], spec='DSpec', view='dview', props='RefInit', invs='ExclusiveProbe',
                                                                    extra='CONSTRAINT TagOK\n', **k), workers=4, timeout=3000)
        r = run_tlc(c, 90 + len(hist), j)
        if not r.completed:
            c.inconclusive.append('Refine_Breaker_Diag %s did not complete: %s' % (k, r.violated or r.error))
            return
        for l in r.out.splitlines():
            if l.startswith('"TAG '):
                f = re.findall(r'"([a-zA-Z_0-9]+)\\"|(TRUE|FALSE)', l)
                f = [a or b for a, b in f]
                # kind, label, from, to, earlyStale, earlyStalled, earlyPub, failed request, already linearized, now < abstract deadline, now < physical deadline
                key = '%s %s %s->%s%s%s' % (f[0], f[1], f[2], f[3], ' earlyStale' if f[4] == 'TRUE' else '', ' earlyStalled' if f[5] == 'TRUE' else '')
                hist[key] = hist.get(key, 0) + 1
        c.log('diag %s: %d distinct states' % (k, r.distinct))
    pairs['breaker']['unrestricted_first_deviations'] = dict(sorted(hist.items(), key=lambda kv: -kv[1]))
    c.log('classes of first deviation of the unrestricted breaker model: %s' % sorted(hist))


main('REFINE', check)
