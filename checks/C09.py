"""C09 - sliding-window counters stay sound under concurrent writers and rollover.

S1  TLC explores spec/WindowConc.tla (PlusCal; labels = la.* / mb.* yield hooks of the real code) for all
    interleavings of 2-3 goroutines (writers / a reader) and the clock around a bucket boundary, under the
    property's stall assumption, and checks NoInvention and ExactWhenNoOverlap (operators of WindowConcProp).
    Every goroutine of a configuration has its own statistic (WKind / RKind): a counter event kind (pass, complete,
    rt ... via AddCount / Count), the per-bucket minimum (AddRt / MinRt) or maximum (UpdateConcurrency /
    MaxConcurrency); the clauses of the property are per statistic and a roll-over must clear all of them.
    Spec-level mutants (vacuity guards): the pinned order "publish the new start, then zero the counters"
    (ResetFirst = FALSE), the pinned "no re-check under the lock" (Recheck = FALSE) and "the roll-over skips the
    reset of a bucket in which nothing arrived" (IdleKinds = {"pass"}): TLC must find the counterexample of each,
    which is replayed on the real code.
S2  schedules: TLC random simulation, the mutants' counterexamples, seeded random schedules (1-2 ops per goroutine,
    all statistics), seeded sparse-traffic runs (1-2 goroutines x 3-5 ops, many ticks: buckets that hold only
    completions / rt / concurrency are rolled over again and again).
S3  harness/cmd/c09 forces them on sbase.BucketLeapArray (AddCount / UpdateConcurrency / Count / MinRt /
    MaxConcurrency) through the goroutine gate; every execution ends with quiescent reads of all seven statistics.
S4  spec/WindowConc_Trace.tla (TLC) judges the recorded operation-level traces with the same operators.
    Thorough tier adds a free-running stress (no gate) judged for NoInvention / exactness at quiescence.
"""
import json, os, re
from vlib import main, write_ndjson, read_ndjson, MachineryError

CFG = """SPECIFICATION Spec
CONSTANTS
  N = %(n)d
  BL = %(bl)d
  Writers = %(writers)s
  Readers = %(readers)s
  Amt <- MCAmt
  WKind <- MCWKind
  RKind <- MCRKind
  K1 = "%(k1)s"
  K2 = "%(k2)s"
  K3 = "%(k3)s"
  K4 = "%(k4)s"
  CKinds = %(ckinds)s
  MaxRt = 9
  IdleKinds = %(idle)s
  T0 = %(t0)d
  MaxT = %(maxt)d
  ResetFirst = %(resetfirst)s
  Recheck = %(recheck)s
VIEW view
INVARIANTS %(invs)s
CHECK_DEADLOCK FALSE
%(extra)s"""


COUNTERS = ['pass', 'block', 'complete', 'error', 'rt']     # AddCount / Count
FEEDS = dict(minrt='rt', maxconc='conc')                    # MinRt <- AddRt, MaxConcurrency <- UpdateConcurrency


def tlaset(xs):
    return '{%s}' % ', '.join('"%s"' % x for x in xs)


def cfg(n=1, bl=2, nw=2, nr=1, t0=1, maxt=4, resetfirst=True, recheck=True, extra='', kinds=None, idle=(), invs='NoInventionInv ExactInv FinalExact TypeOK'):
    """kinds = the statistic of process 1..nw+nr (writers first): a counter event kind, 'conc' (writers), 'minrt' / 'maxconc' (readers)"""
    w = list(range(1, nw + 1))
    r = list(range(nw + 1, nw + nr + 1))
    kinds = list(kinds or ['pass'] * (nw + nr))
    ck = sorted({'pass'} | {k for k in kinds if k in COUNTERS} | ({'rt'} if 'minrt' in kinds else set()) | set(idle))
    k4 = (kinds + ['pass'] * 4)[:4]
    return CFG % dict(n=n, bl=bl, writers='{%s}' % ', '.join(map(str, w)), readers='{%s}' % ', '.join(map(str, r)), t0=t0, maxt=maxt,
                      resetfirst='TRUE' if resetfirst else 'FALSE',
                      recheck='TRUE' if recheck else 'FALSE', extra=extra, invs=invs,
                      k1=k4[0], k2=k4[1], k3=k4[2], k4=k4[3], ckinds=tlaset(ck), idle=tlaset(idle))


def scenario(tr, sched, n=1, bl=2, nw=2, nr=1, t0=1, unit=1, procs=None, kinds=None):
    if procs is None:
        kinds = list(kinds or ['pass'] * (nw + nr))
        procs = [[dict(kind='add', ev=kinds[i - 1], n=i)] for i in range(1, nw + 1)] + \
                [[dict(kind='read', ev=kinds[nw + j], n=0)] for j in range(nr)]
    return dict(tr=tr, unit=unit, n=n, bl=bl, t0=t0, procs=procs, sched=sched)


SHAPE = ('n', 'bl', 'nw', 'nr', 't0', 'kinds')


def shape(k):
    return {x: k[x] for x in SHAPE if x in k}


def rand_ops(rng, count, palette, padd):
    """count operations over the statistics of `palette` (add kinds); reads mostly look at what is being recorded"""
    ops = []
    readable = [k if k in COUNTERS else 'maxconc' for k in palette] + (['minrt'] if 'rt' in palette else [])
    for _ in range(count):
        if rng.random() < padd:
            ops.append(dict(kind='add', ev=rng.choice(palette), n=rng.choice([1, 2, 5])))
        else:
            ev = rng.choice(readable) if rng.random() < 0.85 else rng.choice(COUNTERS + ['minrt', 'maxconc'])
            ops.append(dict(kind='read', ev=ev, n=0))
    return ops


def rand_palette(rng):
    x = rng.random()
    if x < 0.3:
        return ['pass']
    if x < 0.45:
        return [rng.choice(['block', 'complete', 'error', 'rt', 'conc'])]
    return rng.sample(COUNTERS + ['conc'], rng.choice([2, 3, 4]))


def last_sched(out):
    m = re.findall(r'/\\ sched = <<([^>]*)>>', out)
    return [int(x) for x in re.findall(r'-?\d+', m[-1])] if m else None


def maximal(hs):
    keys = sorted(json.dumps(x)[:-1] for x in hs)
    out = []
    for i, k in enumerate(keys):
        if i + 1 < len(keys) and keys[i + 1].startswith(k) and (keys[i + 1] == k or keys[i + 1][len(k)] == ','):
            continue
        out.append(json.loads(k + ']'))
    return out


def run_and_validate(c, drv, scns, tag, mode=None):
    sp = os.path.join(c.scratch, tag + '.scn.ndjson')
    tp = os.path.join(c.scratch, tag + '.trace.ndjson')
    write_ndjson(sp, scns)
    c.run([drv, sp, tp] + ([mode] if mode else []), timeout=1200)
    nlines = sum(1 for _ in open(tp))
    mism, consumed, r = c.validate('WindowConc_Trace', tp, nlines)
    if consumed != nlines:
        raise MachineryError('%s: trace validation consumed %d of %d lines\n%s' % (tag, consumed, nlines, r.out[-1500:]))
    c.cov['traces_validated_against_impl'] += len(scns)
    c.cov['evaluations'] += nlines
    c.log('S3/S4 %s: %d executions of the real window, %d events validated in %.0fs, %d rejected' % (tag, len(scns), nlines, r.wall, len(mism)))
    return mism, tp


def classify(exp):
    return None


def handle(c, drv, scns, mism, tag, mode=None):
    by = {s['tr']: s for s in scns}
    for tr, line, exp in mism:
        if len(c.violations) >= 5:
            break
        s = by[tr]
        rp = c.save_replay('%s-tr%d.ndjson' % (tag, tr), [s])
        if mode:    # free-running executions are not replayable schedule by schedule: report what was observed
            c.violation('free-running stress execution violates C09: %s' % exp[:600], rp)
            continue
        ok = 0
        for i in range(2):
            m2, _ = run_and_validate(c, drv, [s], 'confirm%d' % i)
            ok += 1 if m2 else 0
        if ok < 2:
            c.inconclusive.append('rejection of %s schedule %d did not reproduce (%d/2)' % (tag, tr, ok))
            continue
        key = classify(exp)
        if key and c.is_known(key):
            c.known(key, c.kf[key]['description'])
        else:
            c.violation('real sliding window violates C09 under the forced schedule %s (n=%d bl=%d): %s' % (s['sched'], s['n'], s['bl'], exp[:600]), rp)


def binding_selftest(c, tp):
    """inflate the value returned by one of the final reads (another statistic in each trace) of the first good traces:
    all must be rejected"""
    lines = [json.loads(l) for l in open(tp)]
    out, want, done, k, stats = [], 0, True, 0, {}
    for e in lines:
        if e['op'] == 'new':
            if want >= 35:
                break
            done, k = False, 0
        elif e['op'] == 'inv' and e['p'] == 8:
            cur = e['ev']
        elif e['op'] == 'ret' and e['p'] == 8 and not done:     # the final quiescent reads, in the driver's order
            if k == want % 7:
                e = dict(e, val=e['val'] + 1000)     # more than was ever recorded / an amount nobody recorded
                done = True
                want += 1
                stats[cur] = stats.get(cur, 0) + 1
            k += 1
        out.append(e)
    while out and out[-1]['op'] != 'end':
        out.pop()
    cp = os.path.join(c.scratch, 'corrupt.ndjson')
    write_ndjson(cp, out)
    mism, consumed, r = c.validate('WindowConc_Trace', cp, len(out))
    n = sum(1 for e in out if e['op'] == 'new')
    if len({m[0] for m in mism}) != n:
        raise MachineryError('binding self-test failed: %d corrupted traces, %d rejected' % (n, len(mism)))
    if len(stats) != 7:
        raise MachineryError('binding self-test: only %s corrupted' % sorted(stats))
    c.cov['binding_selftest'] = '%d traces with an inflated read value (%s), all rejected' % (n, ', '.join('%s x%d' % kv for kv in sorted(stats.items())))
    c.log('binding self-test: %d corrupted traces, all rejected' % n)


def check(c, tier, replay):
    drv = c.build('c09')
    if replay:
        s = read_ndjson(replay)
        mism, _ = run_and_validate(c, drv, s, 'replay')
        if mism:
            c.violation('replayed schedule violates C09: %s' % mism[0][2][:600], replay)
        c.cov['states'] = c.cov['transitions'] = 1
        c.sample(s[0])
        return
    thorough = tier == 'thorough'
    # S1 ---------------------------------------------------------------------------------------
    # kinds = statistic of each goroutine (writers first); default: everybody on the pass counter
    configs = [dict(n=1, bl=2, nw=2, nr=1, t0=1, maxt=4), dict(n=2, bl=2, nw=2, nr=1, t0=1, maxt=6),
               dict(n=1, bl=2, nw=2, nr=1, t0=1, maxt=4, kinds=['pass', 'complete', 'complete']),
               dict(n=1, bl=2, nw=2, nr=1, t0=1, maxt=4, kinds=['rt', 'conc', 'minrt']),
               dict(n=2, bl=1, nw=2, nr=1, t0=1, maxt=4, kinds=['conc', 'rt', 'maxconc'])]
    nsim = 2 + 3
    if thorough:
        configs = [dict(n=1, bl=2, nw=2, nr=1, t0=1, maxt=5), dict(n=2, bl=2, nw=2, nr=1, t0=1, maxt=7),
                   dict(n=1, bl=2, nw=2, nr=1, t0=1, maxt=4, kinds=['pass', 'complete', 'complete']),
                   dict(n=1, bl=2, nw=2, nr=1, t0=1, maxt=4, kinds=['rt', 'rt', 'minrt']),
                   dict(n=1, bl=2, nw=2, nr=1, t0=1, maxt=4, kinds=['conc', 'error', 'maxconc']),
                   dict(n=2, bl=1, nw=2, nr=1, t0=1, maxt=4, kinds=['rt', 'conc', 'minrt']),
                   dict(n=1, bl=2, nw=2, nr=1, t0=1, maxt=4, kinds=['rt', 'conc', 'minrt']),
                   dict(n=2, bl=1, nw=2, nr=1, t0=1, maxt=4, kinds=['conc', 'rt', 'maxconc']),
                   dict(n=2, bl=2, nw=2, nr=1, t0=1, maxt=6, kinds=['rt', 'conc', 'minrt']),
                   dict(n=2, bl=2, nw=2, nr=1, t0=1, maxt=6, kinds=['complete', 'conc', 'maxconc']),
                   dict(n=2, bl=2, nw=2, nr=1, t0=1, maxt=6, kinds=['block', 'rt', 'rt']),
                   dict(n=1, bl=2, nw=1, nr=2, t0=1, maxt=4, kinds=['rt', 'minrt', 'rt']),
                   dict(n=1, bl=2, nw=3, nr=0, t0=1, maxt=4), dict(n=2, bl=1, nw=2, nr=1, t0=1, maxt=4),
                   dict(n=1, bl=2, nw=1, nr=2, t0=1, maxt=4)]
        nsim = 10
    for k in configs:
        r = c.model_check('WindowConc_MC', cfg_text=cfg(**k), workers=8, timeout=3000, heap='14g')
        if not r.completed:
            c.inconclusive.append('WindowConc.tla (fixed order) violates %s for %s' % (r.violated, k))
    c.cov['exhaustive'] = True
    scns, tr = [], 0
    # spec-level mutants = the two orders of the pinned tree + "skip the reset of an idle bucket" for three statistics; each
    # must violate its invariant (vacuity guard) and its counterexample schedule is replayed on the real code
    muts = []
    small = dict(n=1, bl=2, nw=1, nr=1, t0=1, maxt=4)
    mutants = [('publish-then-reset', dict(resetfirst=False), 'NoInventionInv', dict(n=1, bl=2, nw=2, nr=1, t0=1, maxt=4)),
               ('no-recheck-under-lock', dict(recheck=False), 'FinalExact', dict(n=2, bl=2, nw=2, nr=1, t0=1, maxt=6)),
               ('skip-reset-when-no-pass/complete', dict(idle=['pass'], invs='NoInventionInv'), 'NoInventionInv', dict(small, kinds=['complete', 'complete'])),
               ('skip-reset-when-no-pass/minrt', dict(idle=['pass'], invs='NoInventionInv'), 'NoInventionInv', dict(small, kinds=['rt', 'minrt'])),
               ('skip-reset-when-no-pass/maxconc', dict(idle=['pass'], invs='NoInventionInv'), 'NoInventionInv', dict(small, kinds=['conc', 'maxconc']))]
    if not thorough:
        mutants.pop()       # quick: one sum statistic and one extremum statistic are enough as vacuity guards
    for name, kw, inv, k in mutants:
        r = c.tlc('WindowConc_MC', cfg_text=cfg(**kw, **k), workers=8 if name.startswith('no-recheck') else 1, timeout=900, count=False)
        if r.violated != inv:
            raise MachineryError('vacuity guard: the %s mutant of WindowConc must violate %s, got %s' % (name, inv, r.violated or r.error))
        tr += 1
        scns.append(scenario(tr, last_sched(r.out) + list(range(1, k['nw'] + k['nr'] + 1)) * 8, **shape(k)))
        muts.append('%s violates %s: %s' % (name, inv, scns[-1]['sched']))
    c.cov['spec_mutants'] = muts
    c.log('S1 vacuity guard: %s' % muts)
    # S2 ---------------------------------------------------------------------------------------
    for k in configs[:nsim]:
        num = 150 if not thorough else 1500
        r = c.tlc('WindowConc_Gen', cfg_text=cfg(extra='ACTION_CONSTRAINT Emit\n', **k).replace('INVARIANTS NoInventionInv ExactInv FinalExact TypeOK\n', ''),
                  workers=1, timeout=900, count=False, args=['-simulate', 'num=%d' % num, '-depth', '60', '-seed', str(c.seed)])
        hs = maximal(r.json_prints())
        for sch in hs:
            tr += 1
            scns.append(scenario(tr, sch, **shape(k)))
        c.log('S2 TLC simulation %s: %d schedules' % (k, len(hs)))
    ntlc = len(scns)
    rng = c.rng
    # family 1: 2-4 goroutines x 1-2 ops, any schedule
    for i in range(800 if not thorough else 12000):
        tr += 1
        n = rng.choice([1, 1, 2, 2, 3])
        bl = rng.choice([1, 2, 3])
        np_ = rng.choice([2, 3, 3, 4])
        palette = rand_palette(rng)
        procs = [rand_ops(rng, rng.choice([1, 1, 2]), palette, 0.65) for p in range(np_)]
        ln = rng.randint(12, 70)
        sched = [rng.choice([0, 0] + list(range(1, np_ + 1)) * 3) for _ in range(ln)]
        scns.append(scenario(tr, sched, n=n, bl=bl, t0=rng.choice([1, bl, 2 * bl - 1, n * bl, 3 * n * bl + 1]), unit=rng.choice([1, 1, 100, 500]), procs=procs))
    # family 2: sparse traffic - 1-2 goroutines x 3-5 ops while the clock runs through several intervals (a bucket often
    # holds a single statistic, e.g. only completions, when it is rolled over; later windows must not see it again)
    for i in range(400 if not thorough else 6000):
        tr += 1
        n = rng.choice([1, 2, 2, 3])
        bl = rng.choice([1, 2, 3])
        np_ = rng.choice([1, 2, 2])
        palette = rand_palette(rng)
        procs = [rand_ops(rng, rng.choice([3, 4, 5]), palette, 0.55) for p in range(np_)]
        ln = rng.randint(40, 120)
        sched = [rng.choice([0] * (2 + np_) + list(range(1, np_ + 1)) * 2) for _ in range(ln)]
        scns.append(scenario(tr, sched, n=n, bl=bl, t0=rng.choice([1, bl, 2 * bl - 1, n * bl, 3 * n * bl + 1]), unit=rng.choice([1, 1, 100, 500]), procs=procs))
    # S3 + S4 ----------------------------------------------------------------------------------
    first = True
    for i in range(0, len(scns), 3000):
        part = scns[i:i + 3000]
        mism, tp = run_and_validate(c, drv, part, 'sched%d' % i)
        c.cov['conformance_mismatches'] += len(mism)
        handle(c, drv, part, mism, 'sched')
        if first and not c.violations:
            binding_selftest(c, tp)
            first = False
    c.cov['distinct_nontrivial'] = len({json.dumps([s['sched'], s['procs'], s['n'], s['bl'], s['t0']]) for s in scns if 0 in s['sched']})
    c.cov['scenarios_with_other_statistics_than_pass'] = sum(1 for s in scns if any(o['ev'] != 'pass' for p in s['procs'] for o in p))
    c.cov['rule'] = ('schedule = sequence of "goroutine i moves to its next la.*/mb.* yield point" / clock tick forced on the real '
                     'BucketLeapArray; %d from TLC (simulation of WindowConc + counterexamples of its %d spec-level mutants), rest seeded '
                     'random (1-2 ops per goroutine, and sparse-traffic runs of 3-5 ops per goroutine) over all statistics of a bucket; non-trivial = distinct schedule containing a clock tick (so a roll-over can happen)' % (ntlc, len(mutants)))
    c.sample(scns[0])
    c.sample(scns[ntlc - 1])
    c.sample(scns[-1])
    c.assumptions += ['no recorder is stalled for more than one bucket length (the driver refuses clock ticks that would break it, as the spec does)',
                      'hook placement: a step resuming from la.setstart / la.reset is a roll-over of the slot selected by that goroutine',
                      'the minimum / maximum of a bucket (AddRt, UpdateConcurrency) has no yield point of its own: exactness of MinRt / MaxConcurrency is '
                      'claimed only for recorders of one bucket that do not overlap each other and for reads during which the clock stood still',
                      'termination is checked as "every forced schedule runs to completion within 5000 steps" plus TLC deadlock-free exploration',
                      'exhaustive interleavings only for the bounded configurations listed in tlc_runs']


main('C09', check)
