"""C09 - sliding-window counters stay sound under concurrent writers and rollover.

S1  TLC explores spec/WindowConc.tla (PlusCal; labels = la.* / mb.* yield hooks of the real code) for all
    interleavings of 2-3 goroutines (writers / a reader) and the clock around a bucket boundary, under the
    property's stall assumption, and checks NoInvention and ExactWhenNoOverlap (operators of WindowConcProp).
    The pinned order "publish the new start, then zero the counters" is kept as a spec-level mutant
    (ResetFirst = FALSE): TLC must find its NoInvention counterexample, which is replayed on the real code.
S2  schedules: TLC random simulation, the mutant's counterexample, seeded random schedules (1-2 ops per goroutine).
S3  harness/cmd/c09 forces them on sbase.BucketLeapArray (AddCount / Count) through the goroutine gate.
S4  spec/WindowConc_Trace.tla (TLC) judges the recorded operation-level traces with the same operators.
    Thorough tier adds a free-running stress (no gate) judged for NoInvention / exactness at quiescence.
"""
import json, os, re
from vlib import main, write_ndjson, read_ndjson, MachineryError

CFG = """SPECIFICATION Spec
CONSTANTS
  N = %(n)d
  BL = %(bl)d
  Writers = %(writers)s
  Readers = %(readers)s
  Amt <- MCAmt
  T0 = %(t0)d
  MaxT = %(maxt)d
  ResetFirst = %(resetfirst)s
  Recheck = %(recheck)s
VIEW view
INVARIANTS NoInventionInv ExactInv FinalExact
CHECK_DEADLOCK FALSE
%(extra)s"""


def cfg(n=1, bl=2, nw=2, nr=1, t0=1, maxt=4, resetfirst=True, recheck=True, extra=''):
    w = list(range(1, nw + 1))
    r = list(range(nw + 1, nw + nr + 1))
    return CFG % dict(n=n, bl=bl, writers='{%s}' % ', '.join(map(str, w)), readers='{%s}' % ', '.join(map(str, r)), t0=t0, maxt=maxt,
                      resetfirst='TRUE' if resetfirst else 'FALSE',
                      recheck='TRUE' if recheck else 'FALSE', extra=extra)


def scenario(tr, sched, n=1, bl=2, nw=2, nr=1, t0=1, unit=1, procs=None):
    if procs is None:
        procs = [[dict(kind='add', n=i)] for i in range(1, nw + 1)] + [[dict(kind='read', n=0)] for _ in range(nr)]
    return dict(tr=tr, unit=unit, n=n, bl=bl, t0=t0, procs=procs, sched=sched)


def last_sched(out):
    m = re.findall(r'/\\ sched = <<([^>]*)>>', out)
    return [int(x) for x in re.findall(r'-?\d+', m[-1])] if m else None


def maximal(hs):
    keys = sorted(json.dumps(x)[:-1] for x in hs)
    out = []
    for i, k in enumerate(keys):
        if i + 1 < len(keys) and keys[i + 1].startswith(k) and (keys[i + 1] == k or keys[i + 1][len(k)] == ','):
            continue
        out.append(json.loads(k + ']'))
    return out


def run_and_validate(c, drv, scns, tag, mode=None):
    sp = os.path.join(c.scratch, tag + '.scn.ndjson')
    tp = os.path.join(c.scratch, tag + '.trace.ndjson')
    write_ndjson(sp, scns)
    c.run([drv, sp, tp] + ([mode] if mode else []), timeout=1200)
    nlines = sum(1 for _ in open(tp))
    mism, consumed, r = c.validate('WindowConc_Trace', tp, nlines)
    if consumed != nlines:
        raise MachineryError('%s: trace validation consumed %d of %d lines\n%s' % (tag, consumed, nlines, r.out[-1500:]))
    c.cov['traces_validated_against_impl'] += len(scns)
    c.cov['evaluations'] += nlines
    c.log('S3/S4 %s: %d executions of the real window, %d events validated in %.0fs, %d rejected' % (tag, len(scns), nlines, r.wall, len(mism)))
    return mism, tp


def classify(exp):
    return None


def handle(c, drv, scns, mism, tag, mode=None):
    by = {s['tr']: s for s in scns}
    for tr, line, exp in mism:
        if len(c.violations) >= 5:
            break
        s = by[tr]
        rp = c.save_replay('%s-tr%d.ndjson' % (tag, tr), [s])
        if mode:    # free-running executions are not replayable schedule by schedule: report what was observed
            c.violation('free-running stress execution violates C09: %s' % exp[:600], rp)
            continue
        ok = 0
        for i in range(2):
            m2, _ = run_and_validate(c, drv, [s], 'confirm%d' % i)
            ok += 1 if m2 else 0
        if ok < 2:
            c.inconclusive.append('rejection of %s schedule %d did not reproduce (%d/2)' % (tag, tr, ok))
            continue
        key = classify(exp)
        if key and c.is_known(key):
            c.known(key, c.kf[key]['description'])
        else:
            c.violation('real sliding window violates C09 under the forced schedule %s (n=%d bl=%d): %s' % (s['sched'], s['n'], s['bl'], exp[:600]), rp)


def binding_selftest(c, tp):
    """inflate the value returned by one read in each of the first good traces: all must be rejected"""
    lines = [json.loads(l) for l in open(tp)]
    out, want, done = [], 0, True
    for e in lines:
        if e['op'] == 'new':
            if want >= 30:
                break
            done = False
        elif e['op'] == 'ret' and e['p'] == 8 and not done:     # the final quiescent read
            e = dict(e, val=e['val'] + 1000)     # more than was ever recorded
            done = True
            want += 1
        out.append(e)
    while out and out[-1]['op'] != 'end':
        out.pop()
    cp = os.path.join(c.scratch, 'corrupt.ndjson')
    write_ndjson(cp, out)
    mism, consumed, r = c.validate('WindowConc_Trace', cp, len(out))
    n = sum(1 for e in out if e['op'] == 'new')
    if len({m[0] for m in mism}) != n:
        raise MachineryError('binding self-test failed: %d corrupted traces, %d rejected' % (n, len(mism)))
    c.cov['binding_selftest'] = '%d traces with an inflated read value, all rejected' % n
    c.log('binding self-test: %d corrupted traces, all rejected' % n)


def check(c, tier, replay):
    drv = c.build('c09')
    if replay:
        s = read_ndjson(replay)
        mism, _ = run_and_validate(c, drv, s, 'replay')
        if mism:
            c.violation('replayed schedule violates C09: %s' % mism[0][2][:600], replay)
        c.cov['states'] = c.cov['transitions'] = 1
        c.sample(s[0])
        return
    thorough = tier == 'thorough'
    # S1 ---------------------------------------------------------------------------------------
    configs = [dict(n=1, bl=2, nw=2, nr=1, t0=1, maxt=4), dict(n=2, bl=2, nw=2, nr=1, t0=1, maxt=6)]
    if thorough:
        configs = [dict(n=1, bl=2, nw=2, nr=1, t0=1, maxt=5), dict(n=2, bl=2, nw=2, nr=1, t0=1, maxt=7),
                   dict(n=1, bl=2, nw=3, nr=0, t0=1, maxt=4), dict(n=2, bl=1, nw=2, nr=1, t0=1, maxt=4),
                   dict(n=1, bl=2, nw=1, nr=2, t0=1, maxt=4)]
    for k in configs:
        r = c.model_check('WindowConc_MC', cfg_text=cfg(**k), workers=8, timeout=3000, heap='14g')
        if not r.completed:
            c.inconclusive.append('WindowConc.tla (fixed order) violates %s for %s' % (r.violated, k))
    c.cov['exhaustive'] = True
    scns, tr = [], 0
    # spec-level mutants = the two orders of the pinned tree; each must violate its invariant (vacuity guard) and its
    # counterexample schedule is replayed on the real code
    muts = []
    for name, kw, inv, k in (('publish-then-reset', dict(resetfirst=False), 'NoInventionInv', dict(n=1, bl=2, nw=2, nr=1, t0=1, maxt=4)),
                             ('no-recheck-under-lock', dict(recheck=False), 'FinalExact', dict(n=2, bl=2, nw=2, nr=1, t0=1, maxt=6))):
        r = c.tlc('WindowConc_MC', cfg_text=cfg(**kw, **k), workers=1 if name.startswith('publish') else 8, timeout=900, count=False)
        if r.violated != inv:
            raise MachineryError('vacuity guard: the %s mutant of WindowConc must violate %s, got %s' % (name, inv, r.violated or r.error))
        tr += 1
        scns.append(scenario(tr, last_sched(r.out) + [1, 2, 3] * 8, **{x: k[x] for x in ('n', 'bl', 'nw', 'nr', 't0')}))
        muts.append('%s violates %s: %s' % (name, inv, scns[-1]['sched']))
    c.cov['spec_mutants'] = muts
    c.log('S1 vacuity guard: %s' % muts)
    # S2 ---------------------------------------------------------------------------------------
    for k in configs[:2]:
        num = 150 if not thorough else 1500
        r = c.tlc('WindowConc_Gen', cfg_text=cfg(extra='ACTION_CONSTRAINT Emit\n', **k).replace('INVARIANTS NoInventionInv ExactInv FinalExact', ''),
                  workers=1, timeout=900, count=False, args=['-simulate', 'num=%d' % num, '-depth', '60', '-seed', str(c.seed)])
        hs = maximal(r.json_prints())
        for sch in hs:
            tr += 1
            scns.append(scenario(tr, sch, **{x: k[x] for x in ('n', 'bl', 'nw', 'nr', 't0')}))
        c.log('S2 TLC simulation %s: %d schedules' % (k, len(hs)))
    ntlc = len(scns)
    rng = c.rng
    for i in range(800 if not thorough else 12000):
        tr += 1
        n = rng.choice([1, 1, 2, 2, 3])
        bl = rng.choice([1, 2, 3])
        np_ = rng.choice([2, 3, 3, 4])
        procs = []
        for p in range(np_):
            ops = []
            for _ in range(rng.choice([1, 1, 2])):
                ops.append(dict(kind='add', n=rng.choice([1, 2, 5])) if rng.random() < 0.65 else dict(kind='read', n=0))
            procs.append(ops)
        ln = rng.randint(12, 70)
        sched = [rng.choice([0, 0] + list(range(1, np_ + 1)) * 3) for _ in range(ln)]
        scns.append(scenario(tr, sched, n=n, bl=bl, t0=rng.choice([1, bl, 2 * bl - 1, n * bl, 3 * n * bl + 1]), unit=rng.choice([1, 1, 100, 500]), procs=procs))
    # S3 + S4 ----------------------------------------------------------------------------------
    first = True
    for i in range(0, len(scns), 3000):
        part = scns[i:i + 3000]
        mism, tp = run_and_validate(c, drv, part, 'sched%d' % i)
        c.cov['conformance_mismatches'] += len(mism)
        handle(c, drv, part, mism, 'sched')
        if first and not c.violations:
            binding_selftest(c, tp)
            first = False
    c.cov['distinct_nontrivial'] = len({json.dumps([s['sched'], s['procs'], s['n'], s['bl'], s['t0']]) for s in scns if 0 in s['sched']})
    c.cov['rule'] = ('schedule = sequence of "goroutine i moves to its next la.*/mb.* yield point" / clock tick forced on the real '
                     'BucketLeapArray; %d from TLC (simulation of WindowConc + counterexamples of its two spec-level mutants), rest seeded '
                     'random with 1-2 ops per goroutine; non-trivial = distinct schedule containing a clock tick (so a roll-over can happen)' % ntlc)
    c.sample(scns[0])
    c.sample(scns[ntlc - 1])
    c.sample(scns[-1])
    c.assumptions += ['no recorder is stalled for more than one bucket length (the driver refuses clock ticks that would break it, as the spec does)',
                      'hook placement: a step resuming from la.setstart / la.reset is a roll-over of the slot selected by that goroutine',
                      'termination is checked as "every forced schedule runs to completion within 5000 steps" plus TLC deadlock-free exploration',
                      'exhaustive interleavings only for the bounded configurations listed in tlc_runs']


main('C09', check)
