"""C06 - hot-parameter concurrency is capped per value and its counters are conserved.

S1  TLC checks HotParamConc.tla exhaustively: the per-value in-flight SETS equal the true live entries
    (Conserved), the integer cell of the implementation-shaped layer equals their size (CounterOK), the
    cell-based decision equals the set-based one (DecisionOK), Capped, ZeroAfterDrain; and the broken
    variant Alias=TRUE (exit keyed by the latest arguments) must violate CounterOK (non-vacuity).
    Concurrent admission: the same spec with K >= 1 splits the admission into Check -> (yield) -> Record with Exit
    as a separate action, K callers inside the path at a time: Conserved / CounterOK in every state, Capped with
    the slack K - 1 (PendCapped counts the parked admitted callers, too); CappedStrict (no slack) must be
    violated for K = 2 and the broken variant DropZero=TRUE (a cell returning to zero is removed, the record
    step skips a missing cell) must violate CounterOK for K = 1 while it passes for K = 0 (non-vacuity).
    First use of a value: with Fresh=TRUE the counter of a value is created on demand, Lookup -> Create -> Record are
    separate steps of up to K callers; OneObject (a value never gets a second counter object) and Conserved / CounterOK /
    ZeroAfterDrain hold; the broken variant BothInstall=TRUE (a caller that missed the lookup installs without re-checking)
    must violate OneObject and CounterOK (thorough: also ZeroAfterDrain) for K = 2 and pass for K = 1.
    Reload in flight: Reload(r, table, fresh, sel) replaces the rule of a resource between admissions - identical / modified rule:
    counters kept; statistic parameter changed (fresh): the new rule counts from the reload, both admissible designs are checked
    (CountOld FALSE / TRUE); selector changed (sel): counters kept, entries keep the value they were admitted with.  FigureInRange
    (live entries admitted since the reload <= figure <= all live entries) is the design-independent demand of the statement;
    the broken variant ExitCurrent=TRUE (= the pinned code: the exit looks the counter up again and re-reads the arguments) must
    violate FigureInRange / ZeroAfterDrain with reloads and pass without.
    Other slots that fail: a request carries the point at which a user slot panics while it is served (Points: chk = rule-check slot in
    front of the check, sb / sa = statistic slot in front of / behind the hot-parameter statistic slot when told "passed", cb / ca =
    the same when told "completed"); the chain is fail-open; the figure is the number of live entries that were COUNTED, each holds
    and releases exactly its unit.  Broken variants SkipAll (= seeded C06-f) and CompAbort (= the pinned exit loop) must be rejected.
S2  scenarios: (a) one per transition of a small bounded instance (ACTION_CONSTRAINT Emit), (b) TLC random
    simulation of a larger one, (c) seeded random histories (3 ruled resources, specific items, index /
    negative index / attachment key, argument types cycled), (d) many-goroutine stress runs.
    (e) gated schedules: EVERY interleaving of the check / record / exit steps of 3 callers of one value (TLC,
    VIEW hview), a sample of those of 4 callers, one per transition of larger K-instances, and seeded random
    histories with parked callers; replayed with the goroutine gate (a caller is parked at chain.checked while
    the main goroutine opens / exits / probes other entries).
    (f) first use under real parallelism (free-running, there is no yield point inside the parameter cache): per round G
    goroutines released by a spin barrier request a value the rule has never seen (fresh value per round, many rounds;
    controls: value already known / entries live / unruled resource / missing argument); the entries are held (probe with them
    live, exit all, probe: exactly thr admitted again) or exited by their own goroutines; the outcomes of a burst are judged
    by the relation the design allows, the probes at quiescence exactly.
    (g) reload in flight: one scenario per transition of a Reload instance, seeded random histories with reloads of every kind
    (same / thresholds / capacity / clear + load / drop / add / selector; LoadRules, LoadRulesOfResource, ClearRules + LoadRules) and
    directed ones (entries, a reload, entries for the same values, the earlier entries exit, probes).
    (h) other slots that fail: the entries go through a chain of their own (api.WithSlotChain: BuildDefaultSlotChain / only the
    hot-parameter slots) with three user slots; one scenario per transition of a Points instance, seeded random (sequential and
    parked callers) and directed histories.
    Every scenario ends with a drain and a post-drain admission probe per value (gated ones: first every parked
    caller records and the value is probed with its entries still live).
S3  harness/cmd/c06 replays them on the real code (hotspot.LoadRules, api.Entry(WithArgs/WithAttachments),
    Exit) and records decision, TriggeredValue, Input.Args of every live entry after every op, probe counts.
S4  HotParamConc_Trace.tla (TLC) judges every recorded observable.
"""
import json, os
import vlib
from vlib import main, write_ndjson, read_ndjson, MachineryError

KEY_ALIAS = 'C06/live-entry-args/aliased-to-pooled-options'
KEY_THR0 = 'C06/threshold-0/first-access-admitted'
KEY_RELOAD = 'C06/reload-in-flight/exit-of-earlier-entry-releases-unit-of-new-counter'
KEY_COMP = 'C06/slot-panic/completion-panic-of-earlier-stat-slot-skips-the-release'
KEY_RESEL = 'C06/reload-in-flight/exit-re-reads-the-argument-with-the-new-selector'
WHAT = {
    KEY_COMP: 'a statistic slot in front of the hot-parameter statistic slot panicked in OnCompleted when an admitted, counted entry was exited: '
              'SlotChain.exit stops at the first panic, the hot-parameter statistic slot is never told and the unit of the value is never released',
    KEY_RESEL: 'the selector (ParamIndex / ParamKey) of a hotspot rule was changed while entries were in flight (counters kept): the exit of an '
               'entry admitted before the reload re-reads its arguments with the NEW selector and releases the unit of another value (or none), '
               'so the value it was admitted with keeps a unit for ever and the other value\'s figure is too low',
    KEY_RELOAD: 'a hotspot rule was replaced (new counters) while entries were in flight: the exit of an entry admitted BEFORE the reload '
                'decrements the NEW rule\'s counter for its value although it was never counted there, so the figure of the entries admitted '
                'after the reload is too low (more than threshold live entries are admitted; the figure ends below zero)',
    KEY_ALIAS: 'Input.Args of a live entry aliases the backing array of the pooled EntryOptions: a later api.Entry overwrites it, '
               'so the exit releases the unit of a different value (per-value concurrency drifts, never returns to zero)',
    KEY_THR0: 'the first request for a value is admitted by a concurrency rule even when the threshold for that value is 0',
}
TYPES = ['int', 'string', 'bool', 'float', 'struct', 'mix', 'int64']

RULESETS = {
    'MCRules1': {'A': dict(thr=1, items={'a': 0, 'b': 2}), 'B': dict(thr=2, items={})},
    'MCRules2': {'A': dict(thr=0, items={'c': 1}), 'B': dict(thr=1, items={'a': 2})},
    'MCRules3': {'A': dict(thr=2, items={'a': 1})},
    'MCRules4': {'A': dict(thr=2, items={'a': 1})},
    'MCRules5': {'A': dict(thr=1, items={'b': 3})},
}
# the alternative tables a Reload of HotParamConc puts in force (MCAlt1 / MCAlt3 of HotParamConc_MC.tla)
ALTSETS = {
    'MCRules1': {'A': dict(thr=2, items={'a': 1}), 'B': dict(thr=1, items={'b': 2})},
    'MCRules3': {'A': dict(thr=1, items={'a': 2})},
}
ALTNAME = {'MCRules1': 'MCAlt1', 'MCRules3': 'MCAlt3'}
FREE_RUNNING = ('first', 'stress')     # batches driven with real parallelism (no gate)
INVS = 'TypeOK Conserved CounterOK Capped PendCapped ZeroAfterDrain DecisionOK OneObject FigureInRange'


def mc_cfg(rules, maxops, maxlive, alias=False, res='MCRes', emit=False, inv=True, k=0, drop=False, values='MCValues', oth='MCOth',
           view='view', nonone=False, fresh=False, both=False, maxrel=0, countold=False, exitcur=False, points='MCPoints0', skipall=False, compabort=False):
    """inv: True = all invariants, False = none, or the names to check"""
    ac = (['NoNone'] if nonone else []) + (['Emit'] if emit else [])
    return """SPECIFICATION Spec
CONSTANTS
  Res <- %s
  Oth <- %s
  Values <- %s
  Rules <- %s
  MaxLive = %d
  MaxOps = %d
  Alias = %s
  K = %d
  DropZero = %s
  Fresh = %s
  BothInstall = %s
  Alt <- %s
  MaxReloads = %d
  CountOld = %s
  ExitCurrent = %s
  Remap <- %s
  Points <- %s
  SkipAll = %s
  CompAbort = %s
VIEW %s
%s
%s
CHECK_DEADLOCK FALSE
""" % (res, oth, values, rules, maxlive, maxops, 'TRUE' if alias else 'FALSE', k, 'TRUE' if drop else 'FALSE',
       'TRUE' if fresh else 'FALSE', 'TRUE' if both else 'FALSE', ALTNAME.get(rules, rules) if maxrel else rules, maxrel,
       'TRUE' if countold else 'FALSE', 'TRUE' if exitcur else 'FALSE', {'MCValues': 'MCRemap3', 'MCValues2': 'MCRemap2', 'MCValues1': 'MCRemap1'}[values], points,
       'TRUE' if skipall else 'FALSE', 'TRUE' if compabort else 'FALSE', view,
       'INVARIANTS ' + (INVS if inv is True else inv) if inv else '',
       'ACTION_CONSTRAINT ' + ' '.join(ac) if ac else '')


# ------------------------------------------------------------------------------------------ scenarios
def layout(rng, keyed_ok=True):
    """how a rule selects its argument: (idx, key)"""
    x = rng.random()
    if keyed_ok and x < 0.25:
        return rng.choice([0, -1]), 'k'
    return rng.choice([0, 0, -1, -1, 1, -2]), ''


def shape(rng, idx, key, v, fillers=('x', 'y')):
    """concrete (args, atts) of a request whose selected argument under (idx, key) is v ('-' = none)"""
    f = lambda: rng.choice(fillers)
    atts = {}
    if v == '-':
        if key and rng.random() < 0.5:
            atts = {'other': f()}
        # positional part must not select anything either
        if idx in (0, -1):
            args = []
        elif idx == 1:
            args = rng.choice([[], [f()]])
        else:  # -2
            args = rng.choice([[], [f()]])
        return args, atts
    if key and rng.random() < 0.7:
        atts = {key: v}
        if rng.random() < 0.3:
            atts['other'] = f()
        # the positional argument (if any) is a different value: the key has priority
        args = rng.choice([[], [f()], [f(), f()]])
        return args, atts
    if idx == 0:
        args = rng.choice([[v], [v], [v, f()], [v, f(), f()]])
    elif idx == -1:
        args = rng.choice([[v], [v], [f(), v], [f(), f(), v]])
    elif idx == 1:
        args = rng.choice([[f(), v], [f(), v, f()]])
    else:
        args = rng.choice([[v, f()], [f(), v, f()]])
    if key and rng.random() < 0.5:
        atts = {'other': f()}
    return args, atts


def finish(rng, s, rules, used, gated=False):
    """drain + post-drain admission probe for every (resource, value) used; a gated scenario first lets every parked caller
    record and probes every value with its entries still live (quiescence: exactly thr - live further entries are admitted)"""
    if gated:
        s.append(dict(op='recall', order=rng.choice(['fifo', 'lifo'])))
        for res, v in sorted(used):
            if v == '-' or res not in rules:
                continue
            args, atts = shape(rng, rules[res]['idx'], rules[res]['key'], v)
            s.append(dict(op='probe', res=res, args=args, atts=atts))
    s.append(dict(op='exitall', order=rng.choice(['fifo', 'lifo'])))
    for res, v in sorted(used):
        if v == '-' or res not in rules:
            continue
        args, atts = shape(rng, rules[res]['idx'], rules[res]['key'], v)
        s.append(dict(op='probe', res=res, args=args, atts=atts))


def decorate(c, hist, tr, ruleset):
    """TLC history (abstract res / value) -> driver scenario"""
    rng = c.rng
    rules = {}
    for res, r in RULESETS[ruleset].items():
        idx, key = layout(rng)
        rules[res] = dict(thr=r['thr'], items=r['items'], idx=idx, key=key, cap=0)
    s = [dict(op='new', tr=tr, ty=rng.choice(TYPES), rules=rules)]
    if any(o.get('pp', 'none') != 'none' for o in hist):
        s[0]['chain'] = rng.choice(['user', 'custom'])          # a slot chain of its own with the user slots that panic
    used = set()
    gated = any(o['op'] == 'chk' for o in hist)
    if any(o['op'] == 'reload' for o in hist):
        for res in rules:
            rules[res]['cap'] = rng.choice([0, 100])
    for o in hist:
        if o['op'] == 'reload':
            # Reload(r, alt, fresh) of HotParamConc: the table Alt / Rules in force for r; fresh = a statistic parameter (the capacity)
            # changes as well, or (one ruled resource only: clearing refreshes every resource) the rules are cleared and loaded again
            res = o['res']
            t = (ALTSETS if o['alt'] else RULESETS)[ruleset][res]
            rules = json.loads(json.dumps(rules))
            rules[res].update(thr=t['thr'], items=t['items'])
            if o.get('sel'):
                cur = (rules[res]['idx'], rules[res]['key'])
                while (rules[res]['idx'], rules[res]['key']) == cur:
                    rules[res]['idx'], rules[res]['key'] = layout(rng)
            via = rng.choice(['load', 'load', 'res'])
            if o['fresh']:
                if len(rules) == 1 and rng.random() < 0.3:
                    via = 'clear'
                else:
                    rules[res]['cap'] = rules[res]['cap'] + 100
            s.append(dict(op='reload', via=via, only=[res], rules=rules))
            continue
        if o['op'] in ('req', 'chk'):
            if o['res'] in rules:
                args, atts = shape(rng, rules[o['res']]['idx'], rules[o['res']]['key'], o['v'])
                used.add((o['res'], o['v']))
            else:
                # entries on a resource without a rule: same arity as the common case, so the pooled option slice is reused in place
                args, atts = rng.choice([[o['v']], [o['v']], [o['v'], 'x']]), {}
            s.append(dict(op=o['op'], id=o['id'], res=o['res'], args=args, atts=atts, b=rng.choice([1, 1, 1, 2, 3])))
            if o.get('pp', 'none') != 'none':
                s[-1]['pp'] = o['pp']
        else:
            s.append(dict(op=o['op'], id=o['id']))      # exit / rec
        if rng.random() < (0.2 if gated else 0.08) and used:
            res, v = rng.choice(sorted(used))
            if v != '-':
                a, t = shape(rng, rules[res]['idx'], rules[res]['key'], v)
                s.append(dict(op='probe', res=res, args=a, atts=t))
    finish(rng, s, rules, used, gated)
    return s


def random_rules(rng, zero_ok):
    rules = {}
    for res in rng.sample(['A', 'B', 'C'], rng.randint(1, 3)):
        idx, key = layout(rng)
        items = {}
        for v in rng.sample(['a', 'b', 'c', 'd'], rng.randint(0, 2)):
            items[v] = rng.choice([0, 1, 2, 3] if zero_ok else [1, 2, 3])
        rules[res] = dict(thr=rng.choice([0, 1, 1, 2, 2, 3, 5] if zero_ok else [1, 1, 2, 2, 3, 5]), items=items, idx=idx, key=key,
                          cap=rng.choice([0, 0, 50]))
    return rules


def random_scenario(c, tr):
    rng = c.rng
    rules = random_rules(rng, zero_ok=rng.random() < 0.3)
    s = [dict(op='new', tr=tr, ty=rng.choice(TYPES), rules=rules)]
    live, used, nid = [], set(), 0
    vals = ['a', 'b', 'c', 'd'][:rng.randint(2, 4)]
    for _ in range(rng.randint(8, 40)):
        x = rng.random()
        if x < 0.55 or not live:
            nid += 1
            res = rng.choice(sorted(rules) + ['o', 'p'][:rng.randint(0, 2)])
            v = rng.choice(vals + ['-']) if rng.random() < 0.9 else '-'
            if res in rules:
                args, atts = shape(rng, rules[res]['idx'], rules[res]['key'], v)
                used.add((res, v))
            else:
                args, atts = ([] if v == '-' else rng.choice([[v], [v], [v, 'y']])), {}
            s.append(dict(op='req', id=nid, res=res, args=args, atts=atts, b=rng.choice([1, 1, 1, 2, 3, 5])))
            live.append(nid)        # (an exit of a rejected request is skipped by the driver)
        elif x < 0.92:
            i = rng.choice([0, -1, rng.randrange(len(live))])    # FIFO, nested (LIFO), any order
            s.append(dict(op='exit', id=live.pop(i)))
        else:
            cand = [u for u in sorted(used) if u[1] != '-']
            if cand:
                res, v = rng.choice(cand)
                a, t = shape(rng, rules[res]['idx'], rules[res]['key'], v)
                s.append(dict(op='probe', res=res, args=a, atts=t))
    finish(rng, s, rules, used)
    return s


def reload_step(rng, rules, kind):
    """one replacement of the rule table: (new table, via, only).  Kinds: same (identical table), thr (thresholds / specific items of one
    resource: the counters are kept), cap (capacity of one resource: new counters), clear (ClearRules + LoadRules: new counters for every
    resource), drop (one resource loses its rule), add (a resource gets a rule), sel (the selector - position / attachment key - of one
    resource: the counters are kept, entries in flight keep the value they were admitted with)."""
    new = json.loads(json.dumps(rules))
    res = rng.choice(sorted(new)) if new else None
    via, only = rng.choice(['load', 'load', 'res']), [res] if res else []
    if kind == 'add' or res is None:
        free = [r for r in ['A', 'B', 'C'] if r not in new]
        if free:
            res = rng.choice(free)
            idx, key = layout(rng)
            new[res] = dict(thr=rng.choice([1, 1, 2, 2, 3]), items={}, idx=idx, key=key, cap=rng.choice([0, 100]))
            only = [res]
        elif res is None:
            return new, 'load', []
    elif kind in ('thr', 'cap', 'clear'):
        if kind != 'clear' or rng.random() < 0.5:
            new[res]['thr'] = rng.choice([t for t in [1, 2, 3, 4, 5] if t != new[res]['thr']])
            if rng.random() < 0.4:
                new[res]['items'] = {v: rng.choice([1, 2, 3]) for v in rng.sample(['a', 'b', 'c', 'd'], rng.randint(0, 2))}
        if kind == 'cap':
            new[res]['cap'] += 100
        if kind == 'clear':
            via, only = 'clear', sorted(new)
    elif kind == 'sel':
        cur = (new[res]['idx'], new[res]['key'])
        idx, key = cur
        while (idx, key) == cur:
            idx, key = layout(rng)
        new[res].update(idx=idx, key=key)
    elif kind == 'drop':
        del new[res]
    return new, via, only


def reload_scenario(c, tr, directed):
    """a history in which the rule table is REPLACED while entries are in flight (hotspot.LoadRules / LoadRulesOfResource / ClearRules +
    LoadRules): random (long, several reloads of every kind), or directed at the exits of entries admitted BEFORE a reload that brings new
    counters (short: a few entries for one or two values, the reload, entries for the same values, the earlier entries exit, probes)"""
    rng = c.rng
    rules = random_rules(rng, zero_ok=False)
    for r in rules.values():
        r['cap'] = rng.choice([0, 100])
        if directed:
            r['thr'] = rng.choice([1, 1, 2, 2, 3])
    s = [dict(op='new', tr=tr, ty=rng.choice(TYPES), rules=rules)]
    live, used, nid, nrel = [], set(), 0, 0          # live: (id, number of reloads before its admission)
    vals = ['a', 'b', 'c', 'd'][:rng.randint(1, 2) if directed else rng.randint(2, 4)]
    n = rng.randint(6, 16) if directed else rng.randint(10, 40)
    at = {rng.randint(1, max(1, n // 2))} if directed else {i for i in range(n) if rng.random() < 0.12}
    for i in range(n):
        x = rng.random()
        if i in at:
            kind = rng.choice(['cap', 'cap', 'clear', 'clear', 'drop', 'thr', 'same', 'sel', 'sel'] if directed else
                              ['same', 'thr', 'thr', 'cap', 'cap', 'clear', 'drop', 'add', 'sel'])
            rules, via, only = reload_step(rng, rules, kind)
            s.append(dict(op='reload', via=via, only=only, rules=rules))
            nrel += 1
            if kind == 'drop' and (directed or rng.random() < 0.5):
                rules, via, only = reload_step(rng, rules, 'add')
                s.append(dict(op='reload', via=via, only=only, rules=rules))
                nrel += 1
            continue
        old = [k for k, e in enumerate(live) if e[1] < nrel]
        if x < 0.5 or not live:
            nid += 1
            res = rng.choice(['A', 'B', 'C'] if not directed else (sorted(rules) or ['A'])) if rng.random() < 0.9 else rng.choice(['o', 'p'])
            v = rng.choice(vals) if rng.random() < 0.93 else '-'
            if res in rules:
                args, atts = shape(rng, rules[res]['idx'], rules[res]['key'], v)
                used.add((res, v))
            else:
                args, atts = ([] if v == '-' else rng.choice([[v], [v], [v, 'y']])), {}
            s.append(dict(op='req', id=nid, res=res, args=args, atts=atts, b=rng.choice([1, 1, 1, 2, 3])))
            live.append((nid, nrel))
        elif x < 0.85:
            # directed: the entries admitted before the last reload leave first
            k = rng.choice(old) if old and (directed or rng.random() < 0.5) else rng.choice([0, -1, rng.randrange(len(live))])
            s.append(dict(op='exit', id=live.pop(k)[0]))
        else:
            cand = [u for u in sorted(used) if u[1] != '-' and u[0] in rules]
            if cand:
                res, v = rng.choice(cand)
                a, t = shape(rng, rules[res]['idx'], rules[res]['key'], v)
                s.append(dict(op='probe', res=res, args=a, atts=t))
    finish(rng, s, rules, used)
    return s


POINTS = ['chk', 'sb', 'sa', 'cb', 'ca']


def panic_scenario(c, tr, directed):
    """entries through a slot chain of their own (the default slots / only the hot-parameter slots + three user slots) in which a user
    slot panics for some requests: the rule-check slot in front of every check (chk), the statistic slot in front of (sb) / behind (sa)
    the hot-parameter statistic slot when told "passed", the same two when told "completed" (cb / ca).  Sequential requests and
    callers parked at chain.checked (not chk: that caller never gets there).  directed: short, one value, the panicking request at a
    chosen fill level, probe, exit, probe."""
    rng = c.rng
    rules = random_rules(rng, zero_ok=(not directed and rng.random() < 0.15))
    for r in rules.values():
        r['cap'] = 0
        if directed:
            r['thr'] = rng.choice([1, 1, 2, 3])
    s = [dict(op='new', tr=tr, ty=rng.choice(TYPES), rules=rules, chain=rng.choice(['user', 'user', 'custom']))]
    live, pend, used, nid = [], [], set(), 0
    vals = ['a', 'b', 'c'][:1 if directed else rng.randint(1, 3)]
    k = 0 if directed or rng.random() < 0.5 else rng.choice([1, 2])
    for _ in range(rng.randint(5, 14) if directed else rng.randint(8, 36)):
        x = rng.random()
        if x < 0.5 or not (live or pend):
            nid += 1
            res = rng.choice(sorted(rules) * 4 + ['o'])
            v = rng.choice(vals) if rng.random() < 0.95 else '-'
            if res in rules:
                args, atts = shape(rng, rules[res]['idx'], rules[res]['key'], v)
                used.add((res, v))
            else:
                args, atts = ([] if v == '-' else [v]), {}
            op = 'chk' if len(pend) < k and rng.random() < 0.4 else 'req'
            o = dict(op=op, id=nid, res=res, args=args, atts=atts, b=rng.choice([1, 1, 1, 2]))
            if rng.random() < (0.6 if directed else 0.4):
                o['pp'] = rng.choice([p for p in POINTS if not (op == 'chk' and p == 'chk')])
            s.append(o)
            (pend if op == 'chk' else live).append(nid)
        elif x < 0.6 and pend:
            i = pend.pop(rng.randrange(len(pend)))
            s.append(dict(op='rec', id=i))
            live.append(i)
        elif x < 0.88 and live:
            s.append(dict(op='exit', id=live.pop(rng.choice([0, -1, rng.randrange(len(live))]))))
        else:
            cand = [u for u in sorted(used) if u[1] != '-']
            if cand:
                res, v = rng.choice(cand)
                a, t = shape(rng, rules[res]['idx'], rules[res]['key'], v)
                s.append(dict(op='probe', res=res, args=a, atts=t))
    finish(rng, s, rules, used, gated=True)
    return s


def random_gated_scenario(c, tr):
    """seeded random history with up to k callers parked between check and record while other entries of the same (and of
    other) values and resources are opened, exited and probed"""
    rng = c.rng
    rules = random_rules(rng, zero_ok=rng.random() < 0.15)
    k = rng.choice([1, 1, 2, 2, 3])
    s = [dict(op='new', tr=tr, ty=rng.choice(TYPES), rules=rules)]
    live, pend, used, nid = [], [], set(), 0
    vals = ['a', 'b', 'c', 'd'][:rng.randint(1, 3)]
    for _ in range(rng.randint(8, 36)):
        x = rng.random()
        if x < 0.45 and len(pend) < k:
            nid += 1
            res = rng.choice(sorted(rules) * 3 + ['o'])
            v = rng.choice(vals) if rng.random() < 0.93 else '-'
            if res in rules:
                args, atts = shape(rng, rules[res]['idx'], rules[res]['key'], v)
                used.add((res, v))
            else:
                args, atts = ([] if v == '-' else [v]), {}
            op = 'chk' if rng.random() < 0.55 else 'req'
            s.append(dict(op=op, id=nid, res=res, args=args, atts=atts, b=rng.choice([1, 1, 1, 2, 5])))
            (pend if op == 'chk' else live).append(nid)
        elif x < 0.62 and pend:
            i = pend.pop(rng.randrange(len(pend)))
            s.append(dict(op='rec', id=i))
            live.append(i)
        elif x < 0.92 and live:
            s.append(dict(op='exit', id=live.pop(rng.choice([0, -1, rng.randrange(len(live))]))))
        else:
            cand = [u for u in sorted(used) if u[1] != '-']
            if cand:
                res, v = rng.choice(cand)
                a, t = shape(rng, rules[res]['idx'], rules[res]['key'], v)
                s.append(dict(op='probe', res=res, args=a, atts=t))
    finish(rng, s, rules, used, gated=True)
    return s


def stress_scenario(c, tr, g, n):
    rng = c.rng
    rules = random_rules(rng, zero_ok=False)
    s = [dict(op='new', tr=tr, ty=rng.choice(TYPES), rules=rules)]
    reqs, used = [], set()
    for res in sorted(rules):
        for v in ['a', 'b', 'c']:
            args, atts = shape(rng, rules[res]['idx'], rules[res]['key'], v)
            reqs.append(dict(res=res, args=args, atts=atts))
            used.add((res, v))
    reqs.append(dict(res='o', args=['d'], atts={}))
    reqs.append(dict(res='o', args=['x', 'y'], atts={}))
    s.append(dict(op='stress', g=g, n=n, seed=rng.randrange(10 ** 6), reqs=reqs, used=[list(u) for u in sorted(used)]))
    finish(rng, s, rules, used)
    return s


def fresh_names(n):
    """n abstract value names whose concrete values are pairwise different for every argument type (harness/hpx gives an
    unknown name the slot 100 + hash % 1000; two names with the same slot would be the same int / float / ... value)"""
    out, slots, i = [], set(), 0
    assert n <= 900
    while len(out) < n:
        name, h = 'f%d' % i, 0
        i += 1
        for ch in name:
            h = h * 31 + ord(ch)
        if h % 1000 in slots:
            continue
        slots.add(h % 1000)
        out.append(name)
    return out


def firstuse_scenario(c, tr, rounds):
    """first use of a value under real parallelism: per round a value the rule has NEVER seen is requested by G goroutines at the
    same instant (spin barrier; they race for the on-demand creation of the value's counter); the admitted entries are held
    (probe with them live, exit all, probe: exactly thr admitted again) or exited by their own goroutines (probe).  Some rounds
    are controls: the value was first requested sequentially / has entries live / the burst is repeated on a used value."""
    rng = c.rng
    names = fresh_names(rounds)
    rules = {}
    for res in rng.sample(['A', 'B'], rng.randint(1, 2)):
        idx, key = layout(rng)
        items = {v: rng.choice([1, 2, 3, 8]) for v in rng.sample(names, min(len(names), rounds // 6))}
        rules[res] = dict(thr=rng.choice([1, 2, 3, 4, 5, 8, 8, 8, 10]), items=items, idx=idx, key=key, cap=0)
    if rng.random() < 0.1:
        rules[rng.choice(sorted(rules))]['thr'] = 0
    s = [dict(op='new', tr=tr, ty=rng.choice(TYPES), rules=rules)]
    nid, usedv, known = 0, [], set()

    def ids(n):
        nonlocal nid
        nid += n
        return list(range(nid - n + 1, nid + 1))

    for v in names:
        res = rng.choice(sorted(rules))
        rl = rules[res]
        x = rng.random()
        if x < 0.04:
            res, v = 'o', v                         # a resource without a rule: never limited
        elif x < 0.08:
            v = '-'                                 # the selected argument is missing: never limited
        elif x < 0.16 and usedv:
            res, v = rng.choice(usedv)              # control: the value has had its counter for a while
            rl = rules[res]
        if res in rules:
            args, atts = shape(rng, rl['idx'], rl['key'], v)
        else:
            args, atts = [v], {}
        if res in rules and v != '-' and rng.random() < 0.12:
            # control: one or two sequential requests first (the counter exists, entries are live during the burst)
            for i in ids(rng.randint(1, 2)):
                a2, t2 = shape(rng, rl['idx'], rl['key'], v)
                s.append(dict(op='req', id=i, res=res, args=a2, atts=t2, b=1))
                known.add((res, v))
        g = rng.choice([2, 3, 4, 4, 8, 8, 8, 8, 12, 16, 16, 24, 32])
        hold = 1 if rng.random() < 0.7 else 0
        s.append(dict(op='burst', ids=ids(g), res=res, args=args, atts=atts, b=rng.choice([1, 1, 1, 2, 3]), hold=hold,
                      lag=rng.choice([0, 0, 1, 3]), fresh=int(res in rules and v != '-' and (res, v) not in known)))
        known.add((res, v))
        probe = None
        if res in rules and v != '-':
            usedv.append((res, v))
            a2, t2 = shape(rng, rl['idx'], rl['key'], v)
            probe = dict(op='probe', res=res, args=a2, atts=t2)
        if probe and (not hold or rng.random() < 0.6):
            s.append(probe)
        s.append(dict(op='exitall', order=rng.choice(['fifo', 'lifo'])))
        if probe:
            s.append(probe)
    return s


# ------------------------------------------------------------------------------------------ pipeline
def ptlc(c, jobs, width=4):
    """several small, independent TLC runs of HotParamConc_MC side by side (self-tests of the broken variants, scenario generation):
    jobs = [dict(cfg_text=.., workers=.., args=[..], timeout=..)] -> [TLCResult] in the same order.  (A variant of Check.tlc, which
    runs one TLC at a time: a dozen JVM starts in a row cost more than the model checking itself.)"""
    import shutil, subprocess, time
    from concurrent.futures import ThreadPoolExecutor
    c._ptlc = getattr(c, '_ptlc', 0) + 1
    batch = c._ptlc

    def one(ij):
        i, j = ij
        d = os.path.join(c.scratch, 'ptlc%d_%d' % (batch, i))
        os.makedirs(d)
        for f in os.listdir(vlib.SPEC):
            if f.startswith('HotParam') and f.endswith('.tla'):
                shutil.copy(os.path.join(vlib.SPEC, f), d)
        open(os.path.join(d, 'HotParamConc_MC.cfg'), 'w').write(j['cfg_text'])
        cmd = ['java', '-XX:+UseParallelGC', '-Xmx' + j.get('heap', '4g'), '-Xss64m', '-cp', vlib.TLA_CP, 'tlc2.TLC', '-workers', str(j.get('workers', 2)),
               '-metadir', os.path.join(d, 'md'), '-noGenerateSpecTE'] + list(j.get('args', [])) + ['HotParamConc_MC']
        t = time.time()
        try:
            q = subprocess.run(cmd, cwd=d, stdout=subprocess.PIPE, stderr=subprocess.STDOUT, text=True, timeout=j.get('timeout', 900))
            out, rc = q.stdout, q.returncode
        except subprocess.TimeoutExpired as e:
            out, rc = (e.stdout.decode() if isinstance(e.stdout, bytes) else (e.stdout or '')), 124
            subprocess.run(['pkill', '-f', d], stdout=subprocess.DEVNULL, stderr=subprocess.DEVNULL)
        r = vlib.TLCResult(out, rc, time.time() - t)
        if rc == 124:
            r.error = 'timeout'
        shutil.rmtree(os.path.join(d, 'md'), ignore_errors=True)
        return r

    with ThreadPoolExecutor(width) as ex:
        return list(ex.map(one, enumerate(jobs)))


class SelfTests:
    """the runs in which a deliberately broken variant must be rejected (expect = the invariant TLC has to report) or a variant
    must pass (expect = None); collected while S1 goes along, run side by side at its end"""
    def __init__(self):
        self.jobs, self.models = [], []

    def add(self, cfg_text, expect, what):
        self.jobs.append((cfg_text, expect, what))

    def model(self, cfg_text, what):
        """an exhaustive run of the design model in which every invariant must hold (S1 proper; counts go into the evidence)"""
        self.models.append((cfg_text, what))

    def run_models(self, c, thorough):
        # three runs side by side (16 CPUs: 5 TLC workers each); thorough: the instances are large, two at a time with 8 workers
        rs = ptlc(c, [dict(cfg_text=m[0], workers=8 if thorough else 5, timeout=2400, heap='6g') for m in self.models], width=2 if thorough else 3)
        for (cfg, what), r in zip(self.models, rs):
            if r.error:
                raise MachineryError('TLC failed on %s: %s\n%s' % (what, r.error, r.out[-3000:]))
            c.cov['states'] += r.distinct
            c.cov['transitions'] += r.generated
            c.cov['tlc_runs'].append(dict(module='HotParamConc_MC', cfg=what, generated=r.generated, distinct=r.distinct, depth=r.depth,
                                          wall_s=round(r.wall, 1), args='', result='ok' if r.completed else (r.violated or ('deadlock' if r.deadlock else r.error))))
            c.log('S1 %s: %d distinct states, %d transitions, depth %d, %.0fs -> %s' % (
                what, r.distinct, r.generated, r.depth, r.wall, 'no error' if r.completed else ('VIOLATED ' + str(r.violated) if r.violated else 'deadlock')))
            if not r.completed:
                c.inconclusive.append('%s: %s violated - the spec no longer describes a correct design' % (what, r.violated))

    def run(self, c):
        rs = ptlc(c, [dict(cfg_text=j[0], workers=2, timeout=600) for j in self.jobs])
        for (cfg, expect, what), r in zip(self.jobs, rs):
            if expect is None and not r.completed:
                raise MachineryError('self-test failed: %s is expected to pass: %s' % (what, r.violated or r.error))
            if expect is not None and r.violated != expect:
                raise MachineryError('vacuity self-test failed: %s does not violate %s (%s)' % (what, expect, r.violated or r.error))
        c.log('S1 self-tests: %d broken / control variants of HotParamConc judged as expected' % len(self.jobs))


class Gen:
    """scenario-generation runs of S2 (TLC prints the histories): everything listed with prefetch() runs side by side; get() hands a
    result out (or runs it on the spot when it was not listed)"""
    def __init__(self, c):
        self.c, self.res = c, {}

    def prefetch(self, jobs):
        jobs = [j for j in jobs if (j[0], tuple(j[1])) not in self.res]
        rs = ptlc(self.c, [dict(cfg_text=j[0], args=j[1], workers=1 if j[1] else 3, timeout=1200) for j in jobs])
        for j, r in zip(jobs, rs):
            self.res[(j[0], tuple(j[1]))] = r

    def get(self, cfg_text, args=()):
        if (cfg_text, tuple(args)) not in self.res:
            self.prefetch([(cfg_text, list(args))])
        return self.res.pop((cfg_text, tuple(args)))


def split_traces(lines):
    out, cur = {}, None
    for l in lines:
        if l.get('op') == 'new':
            cur = l['tr']
            out[cur] = []
        out[cur].append(l)
    return out


def run_and_validate(c, drv, scns, tag):
    sp = os.path.join(c.scratch, tag + '.scn.ndjson')
    tp = os.path.join(c.scratch, tag + '.trace.ndjson')
    write_ndjson(sp, [o for s in scns for o in s])
    c.run([drv, sp, tp], timeout=600)
    nlines = sum(1 for _ in open(tp))
    mism, consumed, r = c.validate('HotParamConc_Trace', tp, nlines)
    if consumed != nlines:
        raise MachineryError('%s: trace validation consumed %d of %d lines (malformed trace?)\n%s' % (tag, consumed, nlines, r.out[-1500:]))
    c.cov['traces_validated_against_impl'] += len(scns)
    c.cov['evaluations'] += nlines
    c.log('S3/S4 %s: %d scenarios, %d events validated in %.0fs, %d mismatching traces' % (tag, len(scns), nlines, r.wall, len(mism)))
    return mism, tp


def binding_selftest(c, tp, bad_traces, first_use=False):
    """flip one recorded decision / probe count in each of the first good traces: every one must be rejected
    (first_use: one more admission than the threshold allows at a probe, or an admitted caller of a burst reported refused)"""
    traces = split_traces(read_ndjson(tp))
    out, want = [], set()
    for tr, lines in traces.items():
        if tr in bad_traces or len(want) >= 40:
            continue
        cand = [e for e in lines if e['op'] in ('req', 'rec', 'probe')] if not first_use else \
               [e for e in lines if e['op'] == 'probe' or (e['op'] == 'burst' and any(o['ok'] for o in e['out']))]
        if not cand:
            continue
        e = c.rng.choice(cand)
        if e['op'] in ('req', 'rec'):
            e['ok'] = not e['ok']
        elif e['op'] == 'burst':
            c.rng.choice([o for o in e['out'] if o['ok']])['ok'] = False
        else:
            e['n'] += 1
        want.add(tr)
        out += lines
    if len(want) < 5:
        if not (first_use and c.violations):
            c.inconclusive.append('binding self-test%s: fewer than 5 clean traces to corrupt' % (' (first use)' if first_use else ''))
        return
    cp = os.path.join(c.scratch, 'corrupt.ndjson')
    write_ndjson(cp, out)
    mism, consumed, r = c.validate('HotParamConc_Trace', cp, len(out))
    if consumed != len(out):
        raise MachineryError('binding self-test: corrupted trace file not consumed (%d of %d)' % (consumed, len(out)))
    got = {m[0] for m in mism}
    if got != want:
        raise MachineryError('binding self-test failed: corrupted traces %s, rejected %s' % (sorted(want), sorted(got)))
    c.cov['binding_selftest' + ('_first_use' if first_use else '')] = '%d corrupted traces, all rejected' % len(want)
    c.log('binding self-test%s: %d corrupted traces, all rejected by HotParamConc_Trace' % (' (first use)' if first_use else '', len(want)))


def classify(exp, trace_lines):
    """known-finding key of a confirmed mismatch (one precise key per defect), or None.
    exp = the expectation record printed by HotParamConc_Trace; trace_lines = the recorded trace."""
    why = exp.get('why')
    if why == 'live-args':
        return KEY_ALIAS
    if why == 'decision' and exp.get('admit') is False and exp.get('thr') == 0 and exp.get('first') and exp.get('inflight') == 0:
        return KEY_THR0
    if why in ('decision', 'tv', 'probe', 'probe-tv') and exp.get('stale') and exp.get('over'):
        # (judged by HotParamConc_Trace) on this resource an entry admitted BEFORE the counters in use started (a reload that brought
        # new counters) has exited since, and the observed outcome needs a figure BELOW the number of live entries admitted since
        return KEY_RELOAD
    if why in ('decision', 'tv', 'probe', 'probe-tv') and exp.get('cbx') and exp.get('under'):
        # (judged by HotParamConc_Trace) on this resource a counted entry has exited while a statistic slot in front of the
        # hot-parameter one panicked in OnCompleted, and the observed outcome needs a figure ABOVE the number of live counted entries
        return KEY_COMP
    if why in ('decision', 'tv', 'probe', 'probe-tv') and exp.get('resel'):
        # (judged by HotParamConc_Trace) on this resource an entry has exited whose arguments the rule in force at its exit (selector
        # changed by a reload, counters kept) read as another value than the one it was admitted with
        return KEY_RESEL
    if why in ('probe', 'probe-tv'):
        # conservation lost after a concurrent run in which entries were seen reading foreign arguments at exit
        for e in trace_lines:
            if e.get('op') == 'stress' and e.get('aliased', 0) > 0:
                return KEY_ALIAS
    return None


def describe(exp, obs):
    why = exp.get('why')
    rng_ = lambda lo, hi: str(hi) if lo in (None, hi) else 'between %s (admitted since the reload that brought new counters) and %s' % (lo, hi)
    return {'decision': 'admission decision differs: property admits=%s with %s live entries for value %s (threshold %s)' % (
                exp.get('admit'), rng_(exp.get('since'), exp.get('inflight')), exp.get('v'), exp.get('thr')),
            'tv': 'TriggeredValue of the rejection is not live+1 = %s' % exp.get('tv'),
            'cap': 'more live entries for value %s than threshold + (overlapping callers - 1) = %s' % (exp.get('v'), exp.get('cap')),
            'live-args': 'a live entry no longer reads the arguments it was opened with (expected %s)' % json.dumps(exp.get('live')),
            'burst': 'outcomes of %s simultaneous requests for value %s (threshold %s, %s live before) are not decisions of the admission '
                     'predicate over any number of live entries the callers can have met: between %s and %s of them are admitted, a refusal '
                     'reports live + 1' % (exp.get('g'), exp.get('v'), exp.get('thr'), exp.get('inflight'), exp.get('lo'), exp.get('hi')),
            'probe': 'admission count for value %s is not threshold - live = %s' % (exp.get('v'), rng_(exp.get('nmax'), exp.get('n'))),
            'reload-rules-not-in-force': 'after the reload the number of rules in force is not the number of rules loaded',
            'probe-tv': 'TriggeredValue of the first rejected probe is not %s' % exp.get('tv'),
            'panic': 'a panic reached the caller of api.Entry / Exit'}.get(why, str(why)) + '; observed ' + obs[:300]


def handle_mismatches(c, drv, scns, mism, tp, tag):
    if not mism:
        return
    by_tr = {s[0]['tr']: s for s in scns}
    traces = split_traces(read_ndjson(tp))
    lines = open(tp).read().splitlines()
    groups = {}
    for tr, line, exp in mism:
        e = json.loads(exp)
        groups.setdefault(classify(e, traces[tr]) or 'unknown:' + str(e.get('why')), []).append((tr, line, e))
    for gkey, ms in sorted(groups.items()):
        ms.sort(key=lambda m: len(by_tr[m[0]]))          # shortest scenarios first
        c.log('%s: %d mismatching traces of kind %s' % (tag, len(ms), gkey))
        # every unclassified kind is confirmed for each batch; a classified defect is confirmed on 2 scenarios per run
        done = c.cov.setdefault('confirmed_per_kind', {})
        limit = 3 if gkey.startswith('unknown:') else max(0, 2 - done.get(gkey, 0))
        for tr, line, e in ms[:limit]:
            s = by_tr[tr]
            rp = c.save_replay('%s-tr%d.ndjson' % (tag, tr), s)
            ok, key = 0, None
            # confirm twice from the replay file in fresh processes; the free-running scenarios (real parallelism: whether the
            # offending interleaving occurs is up to the scheduler) get up to 5 attempts for the two reproductions
            for i in range(5 if tag in FREE_RUNNING else 2):
                m2, tp2 = run_and_validate(c, drv, [read_ndjson(rp)], 'confirm%d' % i)
                if m2:
                    ok += 1
                    key = classify(json.loads(m2[0][2]), read_ndjson(tp2))
                if ok >= 2:
                    break
            if ok == 0 and tag not in FREE_RUNNING:
                # the outcome may depend on what the process did BEFORE the trace (pooled option / context objects handed from one
                # trace to the next): replay the trace behind its predecessors of the batch, in fresh processes, twice
                i = [x[0]['tr'] for x in scns].index(tr)
                ctx = scns[max(0, i - 30):i + 1]
                rpc = c.save_replay('%s-tr%d-after-predecessors.ndjson' % (tag, tr), [o for x in ctx for o in x])
                for j in range(2):
                    m2, tp2 = run_and_validate(c, drv, ctx, 'confirmctx%d' % j)
                    hit = [m for m in m2 if m[0] == tr]
                    if hit:
                        ok += 1
                        key = classify(json.loads(hit[0][2]), split_traces(read_ndjson(tp2))[tr])
                if ok >= 2:
                    rp = rpc
            if ok < 2:
                c.inconclusive.append('mismatch of %s trace %d did not reproduce (%d/2)' % (tag, tr, ok))
                continue
            done[gkey] = done.get(gkey, 0) + 1
            what = describe(e, lines[line - 1])
            if key and c.is_known(key):
                c.known(key, c.kf[key]['description'])
            else:
                c.violation(('[%s] %s: ' % (key, WHAT[key]) if key else '') + what + ' (line %d of trace %d)' % (line, tr), rp)


def nontrivial(s):
    """the per-value count matters: a value is requested while an earlier entry for it may still be live"""
    seen, parked = set(), set()
    for o in s:
        if o['op'] == 'chk':
            parked.add(o['id'])
        elif o['op'] == 'rec':
            parked.discard(o['id'])
        elif parked and o['op'] in ('req', 'exit'):
            return True         # another entry is opened / exited while a caller sits between its check and its record
        if o['op'] in ('req', 'chk'):
            k = (o['res'], json.dumps(o['args']), json.dumps(o['atts'], sort_keys=True))
            if k in seen:
                return True
            seen.add(k)
        if o['op'] in ('stress', 'burst', 'reload') or o.get('pp'):
            return True
    return False


def maximal(hs):
    keys = sorted(json.dumps(x, sort_keys=True)[:-1] for x in hs)
    out = []
    for i, k in enumerate(keys):
        if i + 1 < len(keys) and keys[i + 1].startswith(k) and (keys[i + 1] == k or keys[i + 1][len(k)] == ','):
            continue
        out.append(json.loads(k + ']'))
    return out


def check(c, tier, replay):
    if os.environ.get('VERIF_KNOWN_FINDINGS'):
        # a private copy of known_findings.json (lib/vlib reads the one of the framework only): used to exercise the KNOWN-FINDING path
        data = json.load(open(os.environ['VERIF_KNOWN_FINDINGS']))
        c.kf = {e['key']: e for e in data.get('findings', []) if e.get('property') == c.pid and e.get('status', 'open') == 'open'}
    drv = c.build('c06')
    if replay:
        s = read_ndjson(replay)
        mism, tp = run_and_validate(c, drv, [s], 'replay')
        for tr, line, exp in mism:
            e = json.loads(exp)
            key = classify(e, read_ndjson(tp))
            if key and c.is_known(key):
                c.known(key, c.kf[key]['description'])
            else:
                c.violation(('[%s] ' % key if key else '') + describe(e, open(tp).read().splitlines()[line - 1]), replay)
        c.cov['states'] = c.cov['transitions'] = 1
        c.sample(s[:6])
        return
    thorough = tier == 'thorough'
    st = SelfTests()
    # S1 ---------------------------------------------------------------------------------
    runs = [('MCRules1', 5, 4, 'MCRes'), ('MCRules2', 5, 4, 'MCRes'), ('MCRules3', 6, 4, 'MCRes1')] if not thorough else \
           [('MCRules1', 7, 5, 'MCRes'), ('MCRules2', 7, 5, 'MCRes'), ('MCRules3', 8, 6, 'MCRes1')]
    for rules, mo, ml, res in runs:
        st.model(mc_cfg(rules, mo, ml, res=res), 'HotParamConc.tla for %s' % rules)
    st.add(mc_cfg('MCRules1', 5, 4, alias=True), 'CounterOK', 'the Alias=TRUE variant')
    c.cov['spec_mutant'] = 'Alias=TRUE (exit keyed by the latest arguments) violates CounterOK'
    # concurrent admission path: Check -> (yield) -> Record, Exit separate, K callers inside at a time
    kruns = [('MCRules4', 6, 4, 'MCRes1', 'MCValues2', 2), ('MCRules5', 6, 4, 'MCRes1', 'MCValues2', 3), ('MCRules1', 4, 4, 'MCRes', 'MCValues', 2)] \
        if not thorough else \
            [('MCRules4', 8, 5, 'MCRes1', 'MCValues2', 2), ('MCRules5', 7, 5, 'MCRes1', 'MCValues2', 3), ('MCRules1', 6, 4, 'MCRes', 'MCValues', 2),
             ('MCRules2', 6, 4, 'MCRes', 'MCValues', 2)]
    for rules, mo, ml, res, vals, k in kruns:
        st.model(mc_cfg(rules, mo, ml, res=res, values=vals, k=k), 'HotParamConc.tla (K=%d) for %s' % (k, rules))
    st.add(mc_cfg('MCRules4', 6, 4, res='MCRes1', values='MCValues2', k=1, drop=True), 'CounterOK', 'the DropZero=TRUE variant with K=1')
    st.add(mc_cfg('MCRules4', 6, 4, res='MCRes1', values='MCValues2', k=0, drop=True), None, 'the DropZero=TRUE variant when admission is one step (K=0)')
    st.add(mc_cfg('MCRules4', 6, 4, res='MCRes1', values='MCValues2', k=2, inv='CappedStrict'), 'CappedStrict', 'the cap without slack for K=2')
    c.cov['spec_mutant_concurrent'] = ('DropZero=TRUE (cell removed when it returns to zero, record skips a missing cell) violates CounterOK for K=1 '
                                       'and passes for K=0; CappedStrict (no slack) is violated for K=2, Capped/PendCapped with slack K-1 hold')
    # first use of a value: the counter is created on demand, Lookup -> Create -> Record are separate steps of up to K callers
    fruns = [('MCRules4', 6, 4, 'MCRes1', 'MCValues2', 'MCOth0', 2), ('MCRules5', 5, 4, 'MCRes1', 'MCValues2', 'MCOth0', 3)] if not thorough else \
            [('MCRules4', 8, 5, 'MCRes1', 'MCValues2', 'MCOth0', 2), ('MCRules5', 7, 5, 'MCRes1', 'MCValues2', 'MCOth0', 3),
             ('MCRules6', 6, 5, 'MCRes', 'MCValues1', 'MCOth', 2), ('MCRules1', 4, 4, 'MCRes', 'MCValues', 'MCOth', 2)]
    for rules, mo, ml, res, vals, oth, k in fruns:
        st.model(mc_cfg(rules, mo, ml, res=res, values=vals, oth=oth, k=k, fresh=True), 'HotParamConc.tla (Fresh, K=%d) for %s' % (k, rules))
    for inv in (('OneObject', 'CounterOK') if not thorough else ('OneObject', 'CounterOK', 'ZeroAfterDrain')):
        st.add(mc_cfg('MCRules4', 5, 4, res='MCRes1', values='MCValues2', oth='MCOth0', k=2, fresh=True, both=True, inv=inv), inv,
               'the BothInstall=TRUE variant with K=2')
    st.add(mc_cfg('MCRules4', 5, 4, res='MCRes1', values='MCValues2', oth='MCOth0', k=1, fresh=True, both=True), None,
           'the BothInstall=TRUE variant when no two callers are between lookup and record (K=1)')
    c.cov['spec_mutant_first_use'] = ('BothInstall=TRUE (a caller that missed the lookup installs a counter without re-checking) violates OneObject '
                                      'and CounterOK%s for K=2 and passes for K=1' % (', ZeroAfterDrain' if thorough else ''))
    # reload in flight: the rule of a resource is replaced between admissions; both admissible designs (the new rule counts from zero /
    # the figures are carried over), with pre-existing cells and with cells created on demand
    rruns = [('MCRules3', 5, 4, 'MCRes1', 'MCValues2', 'MCOth0', 2, False, False), ('MCRules3', 4, 4, 'MCRes1', 'MCValues2', 'MCOth0', 2, True, False),
             ('MCRules3', 4, 4, 'MCRes1', 'MCValues2', 'MCOth0', 2, False, True)] if not thorough else \
            [('MCRules3', 6, 5, 'MCRes1', 'MCValues2', 'MCOth0', 2, False, False), ('MCRules3', 6, 5, 'MCRes1', 'MCValues2', 'MCOth0', 2, True, False),
             ('MCRules3', 6, 5, 'MCRes1', 'MCValues2', 'MCOth0', 2, False, True), ('MCRules1', 4, 3, 'MCRes', 'MCValues', 'MCOth', 2, False, False)]
    for rules, mo, ml, res, vals, oth, mr, co, fr in rruns:
        st.model(mc_cfg(rules, mo, ml, res=res, values=vals, oth=oth, maxrel=mr, countold=co, fresh=fr),
                 'HotParamConc.tla (MaxReloads=%d, CountOld=%s, Fresh=%s) for %s' % (mr, co, fr, rules))
    for inv, fr in ((('FigureInRange', True), ('ZeroAfterDrain', False)) if not thorough else
                    (('FigureInRange', True), ('ZeroAfterDrain', False), ('DecisionOK', True), ('CounterOK', False))):
        st.add(mc_cfg('MCRules3', 5, 4, res='MCRes1', values='MCValues2', oth='MCOth0', maxrel=2, fresh=fr, exitcur=True, inv=inv), inv,
               'the ExitCurrent=TRUE variant with reloads')
    st.add(mc_cfg('MCRules3', 5, 4, res='MCRes1', values='MCValues2', oth='MCOth0', maxrel=0, fresh=True, exitcur=True), None,
           'the ExitCurrent=TRUE variant when the rules never change (MaxReloads=0)')
    c.cov['spec_mutant_reload'] = ('ExitCurrent=TRUE (an exit releases on whatever counter is current, for the value the rule in force reads then) violates FigureInRange and '
                                   'ZeroAfterDrain%s with reloads and passes without' % (', DecisionOK, CounterOK' if thorough else ''))
    # other slots that fail: a user slot panics while a request is served (in front of the check; in front of / behind the hot-parameter
    # statistic slot when told "passed" or "completed"); the chain is fail-open, a counted entry holds and releases exactly its unit
    pruns = [('MCRules3', 4, 4, 'MCRes1', 'MCValues2', 'MCOth0', 0, 'MCPointsAll'), ('MCRules4', 3, 3, 'MCRes1', 'MCValues2', 'MCOth0', 2, 'MCPointsStat')] \
        if not thorough else \
            [('MCRules3', 5, 4, 'MCRes1', 'MCValues2', 'MCOth0', 0, 'MCPointsAll'), ('MCRules4', 5, 4, 'MCRes1', 'MCValues2', 'MCOth0', 2, 'MCPointsStat'),
             ('MCRules1', 4, 3, 'MCRes', 'MCValues', 'MCOth', 0, 'MCPointsAll')]
    for rules, mo, ml, res, vals, oth, k, pts in pruns:
        st.model(mc_cfg(rules, mo, ml, res=res, values=vals, oth=oth, k=k, points=pts), 'HotParamConc.tla (Points=%s, K=%d) for %s' % (pts, k, rules))
    for kw, inv in ((dict(skipall=True), 'CounterOK'), (dict(compabort=True), 'ZeroAfterDrain')):
        st.add(mc_cfg('MCRules3', 4, 4, res='MCRes1', values='MCValues2', oth='MCOth0', points='MCPointsAll', inv=inv, **kw), inv, 'the %s variant' % kw)
    st.add(mc_cfg('MCRules3', 4, 4, res='MCRes1', values='MCValues2', oth='MCOth0', skipall=True, compabort=True), None,
           'the SkipAll / CompAbort variants when no slot ever panics')
    st.run_models(c, thorough)
    st.run(c)
    c.cov['spec_mutant_slot_panic'] = ('SkipAll=TRUE (an entry let through after ANY recovered panic is never completed) violates CounterOK, CompAbort=TRUE '
                                       '(a panic of an earlier statistic slot at the exit ends the completion) violates ZeroAfterDrain; both pass when '
                                       'no slot panics')
    c.cov['exhaustive'] = True
    # S2 ---------------------------------------------------------------------------------
    scns, tr = [], 0
    cover_runs = [('MCRules1', 4, 3, 'MCRes'), ('MCRules2', 4, 3, 'MCRes')] if not thorough else \
                 [('MCRules1', 5, 4, 'MCRes'), ('MCRules2', 5, 4, 'MCRes'), ('MCRules3', 6, 4, 'MCRes1')]
    sim_runs = ['MCRules1'] if not thorough else ['MCRules1', 'MCRules2', 'MCRules3']
    sim_num = 150 if not thorough else 1500
    sim_args = ['-simulate', 'num=%d' % sim_num, '-depth', '20', '-seed', str(c.seed)]
    sched_runs = [(3, None), (4, 250)] if not thorough else [(3, None), (4, None)]
    kcover_runs = [('MCRules4', 4, 3, 'MCRes1', 'MCValues2', 2), ('MCRules5', 4, 4, 'MCRes1', 'MCValues2', 3)] if not thorough else \
                  [('MCRules4', 5, 4, 'MCRes1', 'MCValues2', 2), ('MCRules5', 5, 4, 'MCRes1', 'MCValues2', 3), ('MCRules1', 4, 3, 'MCRes', 'MCValues', 2)]
    reload_runs = [('MCRules3', 4, 3, 'MCRes1', 'MCValues2', 'MCOth0', 1, 500)] if not thorough else \
                  [('MCRules3', 4, 4, 'MCRes1', 'MCValues2', 'MCOth0', 2, 5000), ('MCRules1', 3, 3, 'MCRes', 'MCValues', 'MCOth', 1, 5000)]
    panic_runs = [('MCRules3', 3, 3, 'MCRes1', 'MCValues2', 'MCOth0', 0, 'MCPointsAll', 400)] if not thorough else \
                 [('MCRules3', 4, 3, 'MCRes1', 'MCValues2', 'MCOth0', 0, 'MCPointsAll', 5000), ('MCRules4', 3, 3, 'MCRes1', 'MCValues2', 'MCOth0', 2, 'MCPointsStat', 3000)]
    cfg_cover = lambda rules, mo, ml, res: mc_cfg(rules, mo, ml, res=res, emit=True, inv=False)
    cfg_sim = lambda rules: mc_cfg(rules, 14, 6, res='MCRes1' if rules == 'MCRules3' else 'MCRes', emit=True, inv=False)
    cfg_sched = lambda ncall: mc_cfg('MCRules4', ncall, ncall, res='MCRes1', values='MCValues1', oth='MCOth0', k=2, emit=True, inv=False, view='hview',
                                     nonone=True)
    cfg_kcover = lambda rules, mo, ml, res, vals, k: mc_cfg(rules, mo, ml, res=res, values=vals, k=k, emit=True, inv=False)
    cfg_reload = lambda rules, mo, ml, res, vals, oth, mr: mc_cfg(rules, mo, ml, res=res, values=vals, oth=oth, maxrel=mr, emit=True, inv=False)
    cfg_panic = lambda rules, mo, ml, res, vals, oth, k, pts: mc_cfg(rules, mo, ml, res=res, values=vals, oth=oth, k=k, points=pts, emit=True, inv=False)
    gen = Gen(c)
    # all generation runs side by side (the histories are turned into scenarios below, in a fixed order: the seeded choices do not depend
    # on which run finishes first)
    gen.prefetch([(cfg_cover(*x), []) for x in cover_runs] + [(cfg_sim(x), sim_args) for x in sim_runs] + [(cfg_sched(x[0]), []) for x in sched_runs] +
                 [(cfg_kcover(*x), []) for x in kcover_runs] + [(cfg_reload(*x[:7]), []) for x in reload_runs] + [(cfg_panic(*x[:8]), []) for x in panic_runs])
    for rules, mo, ml, res in cover_runs:
        r = gen.get(cfg_cover(rules, mo, ml, res))
        if r.error:
            raise MachineryError('scenario generation failed: %s' % r.error)
        hs = r.json_prints()
        keep = maximal(hs)
        cap = 700 if not thorough else 8000
        if len(keep) > cap:
            keep = c.rng.sample(keep, cap)
        for hist in keep:
            tr += 1
            scns.append(decorate(c, hist, tr, rules))
        c.log('S2 transition cover %s: %d transitions -> %d scenarios' % (rules, len(hs), len(keep)))
    cover_n = len(scns)
    for rules in sim_runs:
        num = sim_num
        r = gen.get(cfg_sim(rules), sim_args)
        keep = maximal(r.json_prints())
        if len(keep) > num * 3:     # (simulation mode prints every candidate successor of every step)
            keep = c.rng.sample(keep, num * 3)
        for hist in keep:
            tr += 1
            scns.append(decorate(c, hist, tr, rules))
        c.log('S2 TLC simulation %s: %d behaviours' % (rules, len(keep)))
    # gated schedules (concurrent admission path)
    gs = []
    #  - every interleaving of the check / record / exit steps of 3 callers of ONE value (threshold 2); thorough: 4 callers
    for ncall, cap in sched_runs:
        r = gen.get(cfg_sched(ncall))
        if r.error:
            raise MachineryError('schedule enumeration failed: %s' % r.error)
        hs = r.json_prints()
        keep = [x for x in maximal(hs) if any(o['op'] == 'chk' for o in x)]
        n_all = len(keep)
        if cap and len(keep) > cap:
            keep = c.rng.sample(keep, cap)
        for hist in keep:
            tr += 1
            gs.append(decorate(c, hist, tr, 'MCRules4'))
        c.cov['schedules_%d_callers' % ncall] = '%d histories, %d maximal with a parked caller, %d replayed' % (len(hs), n_all, len(keep))
        c.log('S2 schedule enumeration, %d callers of one value, K=2: %d histories -> %d maximal -> %d scenarios' % (ncall, len(hs), n_all, len(keep)))
    #  - one per transition of larger K-instances (two values / two resources + unruled resource, K = 2 and 3)
    for rules, mo, ml, res, vals, k in kcover_runs:
        r = gen.get(cfg_kcover(rules, mo, ml, res, vals, k))
        if r.error:
            raise MachineryError('scenario generation failed: %s' % r.error)
        hs = r.json_prints()
        keep = [x for x in maximal(hs) if any(o['op'] == 'chk' for o in x)]
        cap = 500 if not thorough else 6000
        if len(keep) > cap:
            keep = c.rng.sample(keep, cap)
        for hist in keep:
            tr += 1
            gs.append(decorate(c, hist, tr, rules))
        c.log('S2 transition cover %s K=%d: %d transitions -> %d scenarios' % (rules, k, len(hs), len(keep)))
    gated_tlc = len(gs)
    for _ in range(300 if not thorough else 4000):
        tr += 1
        gs.append(random_gated_scenario(c, tr))
    nrand = 400 if not thorough else 5000
    rs = []
    for _ in range(nrand):
        tr += 1
        rs.append(random_scenario(c, tr))
    st = []
    for g, n in ([(4, 200), (8, 400), (16, 300), (8, 1500)] if not thorough else [(4, 200), (8, 400), (16, 300), (8, 1500)] * 6 + [(32, 2000)] * 4):
        tr += 1
        st.append(stress_scenario(c, tr, g, n))
    # first use under real parallelism (free-running: no yield point inside the parameter cache)
    fu = []
    for rounds in ([160] * 8 if not thorough else [200] * 40 + [400] * 10):
        tr += 1
        fu.append(firstuse_scenario(c, tr, rounds))
    # reload in flight: one per transition of a Reload instance, random histories with reloads of every kind, directed ones
    rl = []
    for rules, mo, ml, res, vals, oth, mr, cap in reload_runs:
        r = gen.get(cfg_reload(rules, mo, ml, res, vals, oth, mr))
        if r.error:
            raise MachineryError('scenario generation failed: %s' % r.error)
        hs = r.json_prints()
        keep = [x for x in maximal(hs) if any(o['op'] == 'reload' for o in x)]
        if len(keep) > cap:
            keep = c.rng.sample(keep, cap)
        for hist in keep:
            tr += 1
            rl.append(decorate(c, hist, tr, rules))
        c.log('S2 transition cover %s MaxReloads=%d: %d transitions -> %d scenarios with a reload' % (rules, mr, len(hs), len(keep)))
    reload_tlc = len(rl)
    for i in range(500 if not thorough else 6000):
        tr += 1
        rl.append(reload_scenario(c, tr, directed=i % 2 == 0))
    # other slots that fail: one per transition of a Points instance, seeded random (sequential + parked callers) and directed histories
    pn = []
    for rules, mo, ml, res, vals, oth, k, pts, cap in panic_runs:
        r = gen.get(cfg_panic(rules, mo, ml, res, vals, oth, k, pts))
        if r.error:
            raise MachineryError('scenario generation failed: %s' % r.error)
        hs = r.json_prints()
        keep = [x for x in maximal(hs) if any(o.get('pp', 'none') != 'none' for o in x)]
        if len(keep) > cap:
            keep = c.rng.sample(keep, cap)
        for hist in keep:
            tr += 1
            pn.append(decorate(c, hist, tr, rules))
        c.log('S2 transition cover %s %s K=%d: %d transitions -> %d scenarios with a panicking slot' % (rules, pts, k, len(hs), len(keep)))
    panic_tlc = len(pn)
    for i in range(400 if not thorough else 5000):
        tr += 1
        pn.append(panic_scenario(c, tr, directed=i % 2 == 0))
    # S3 + S4 ----------------------------------------------------------------------------
    selftested = False
    for tag, group in (('tlc', scns), ('gated', gs), ('rand', rs), ('first', fu), ('stress', st), ('reload', rl), ('panic', pn)):
        for i in range(0, len(group), 3000):
            part = group[i:i + 3000]
            try:
                mism, tp = run_and_validate(c, drv, part, '%s%d' % (tag, i))
            except MachineryError as e:
                # (batches first / stress) the free-running goroutines can bring the process down on a tree whose defect was already reproduced twice from
                # replay files by the sequential / gated stages (e.g. a Go runtime "concurrent map" abort): the verdict stands
                if tag not in FREE_RUNNING or not c.violations:
                    raise
                c.inconclusive.append('%s stage did not run to completion: %s' % (tag, str(e)[:300]))
                c.log('%s stage skipped after a harness failure (violations already confirmed): %s' % (tag, str(e)[:200]))
                continue
            if not selftested and tag != 'stress':
                binding_selftest(c, tp, {m[0] for m in mism})
                selftested = True
            c.cov['mismatching_traces'] = c.cov.get('mismatching_traces', 0) + len(mism)
            try:
                handle_mismatches(c, drv, part, mism, tp, tag)
            except MachineryError as e:
                if tag not in FREE_RUNNING or not c.violations:
                    raise
                c.inconclusive.append('confirmation of a %s mismatch did not run to completion: %s' % (tag, str(e)[:300]))
            if tag == 'first' and i == 0:
                binding_selftest(c, tp, {m[0] for m in mism}, first_use=True)
    allscn = scns + gs + rs + fu + st + rl + pn
    c.cov['gated_scenarios'] = '%d from TLC (schedule enumeration + transition cover of K-instances), %d seeded random' % (gated_tlc, len(gs) - gated_tlc)
    c.cov['distinct_nontrivial'] = len({json.dumps(s[1:], sort_keys=True) for s in allscn if nontrivial(s)})
    c.cov['stress_runs'] = len(st)
    c.cov['slot_panic_scenarios'] = '%d from TLC (one per transition of a Points instance), %d seeded random / directed; %d requests with a panicking slot' % (
        panic_tlc, len(pn) - panic_tlc, sum(1 for s in pn for o in s if o.get('pp')))
    c.cov['reload_scenarios'] = '%d from TLC (one per transition of a Reload instance), %d seeded random / directed; %d reloads in all' % (
        reload_tlc, len(rl) - reload_tlc, sum(1 for s in rl for o in s if o['op'] == 'reload'))
    c.cov['first_use'] = '%d traces, %d bursts (G goroutines at a spin barrier request the same value), %d of them for a never-seen value' % (
        len(fu), sum(1 for s in fu for o in s if o['op'] == 'burst'), sum(1 for s in fu for o in s if o['op'] == 'burst' and o.get('fresh')))
    c.cov['rule'] = ('scenarios = one per transition of the bounded HotParamConc spec (%d) + TLC random simulation + seeded random histories '
                     '+ many-goroutine stress runs, each ending in a drain and a post-drain admission probe per value; non-trivial = distinct '
                     'scenario in which some (resource, argument list) is requested at least twice (so the per-value count decides), or '
                     'another entry is opened / exited while a caller is parked between its check and its record (gated schedules from '
                     'HotParamConc with K >= 1), or a concurrent stress run / burst, or a rule table replaced in the middle of the history, '
                     'or a request during which a user slot of the chain panics' % cover_n)
    c.sample(scns[len(scns) // 2][:8])
    c.sample(gs[0][:10])
    c.sample(rs[0][:8])
    c.sample(st[0][:3])
    c.assumptions += ['argument values are hashable (comparable Go values); unhashable arguments are the business of C01',
                      'ParamsMaxCapacity of a concurrency rule is never below the number of values in use (the statement has no capacity clause)',
                      'the many-goroutine runs are judged at quiescence only (conservation), not per decision',
                      'first-use bursts are free-running (real parallelism, spin barrier): which interleavings of lookup / create / record '
                      'occur is up to the Go scheduler; the outcomes of a burst are judged by the relation the design allows and the '
                      'probes that follow (quiescence) exactly',
                      'concurrent admission is explored at the grain of the yield point chain.checked (between the rule checks and the '
                      'statistic slots): one caller step = check or record; finer interleavings inside a slot are not scheduled',
                      'when a rule has both an attachment key and an index, the key has priority and the index is the fall-back',
                      'reloads are taken between admissions (no caller parked inside the admission path) and from the goroutine that drives the '
                      'history; after a reload that brings new counters the statement leaves open whether earlier entries count against the '
                      'new rule: any figure between the live entries admitted since the reload and all live entries is accepted',
                      'TLC model checking is exhaustive only for the bounded instances listed in tlc_runs']


main('C06', check)
