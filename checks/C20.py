"""C20 - outlier ejection never removes more than the allowed share of nodes.

S1  TLC checks Outlier.tla exhaustively (per-node three-state breakers, known set, rational ejection percentage,
    recycler marks, active recovery, pooled contexts, rule reloads) against the action properties PFilter PCap PHalf PQuiet
    POwn PRecycle PKept PSurvive PKnown PReload PIsolated, and shows on six deliberately broken designs (Mut = cap / closed /
    half / recycle / stale / forget) that each property can fail.
S2  scenarios: (a) one per transition of a bounded instance of the same spec, (b) TLC random simulation of a larger
    instance, (c) seeded random per-node success/failure histories over 1..12 (some up to 100) nodes, every
    percentage k/10, 1/3, k/100, all three strategies, retry timeouts, probe numbers, active recovery on / off.
    (d) the same families over TWO or THREE resources that share the slot chain - and with it the pooled entry contexts in
    which the answer lists live - plus a directed family "quiet after ejection": something was reported earlier, now no
    node rejects and none is probed, the next requests (same and other resource, contexts rotating) must be told nothing.
    (e) hand-shaped scenarios for the recycle clause that wait for the library's REAL time.AfterFunc.
    (f) RELOADS in the middle of histories (Reload of Outlier.tla: the rule in force is state): in the transition cover / TLC
    simulation of instances with MaxReload > 0, in half of the random histories, in a directed family (eject - change the
    percentage / the recovery mode / nothing / clear and load - ask again) and in the recycle scenarios R6a-d (the rule is
    loaded again while the recycle timers are pending; the node completes successfully afterwards).
S3  harness/cmd/c20 drives the real code: a slot chain built like the micro/kratos adapters build it
    (api.BuildDefaultSlotChain + outlier.DefaultSlot + outlier.DefaultMetricStatSlot), api.Entry, FilterNodes() /
    HalfOpenNodes(), api.TraceCallee / TraceError, Exit, virtual clock at hx.BaseMs + t.
S4  Outlier_Trace.tla (TLC) replays every operation on the abstract state and judges every recorded answer.
"""
import concurrent.futures, copy, json, os
import vlib
from vlib import main, write_ndjson, read_ndjson, MachineryError

CHUNK = 150      # scenarios per driver process
PCTS = [[0, 1], [1, 10], [3, 10], [1, 3], [1, 2], [7, 10], [1, 1]]
PROPS = 'PFilter PCap PHalf PQuiet POwn PRecycle PKept PSurvive PKnown PReload PIsolated'


def mc_cfg(nodes, pct, rules, actives, maxt, maxreq, maxin, mut='none', gen=False, sym=True, steps='{1, 2}', pre=False, nres=1, pooled=False,
           props=PROPS, reloads=0):
    if isinstance(nodes, int) and sym and not gen:
        nodeline = '  Nodes = {%s}\n' % ', '.join('n%d' % i for i in range(1, nodes + 1))
        symline = 'SYMMETRY NodeSym\n'
    else:
        nodeline = '  Nodes <- MCNodes\n'
        symline = ''
    head = 'INIT Init\nNEXT GenNext\nACTION_CONSTRAINT Emit\n' if gen else 'SPECIFICATION Spec\n'
    return head + 'CONSTANTS\n' + nodeline + """  Cfgs <- MCCfgs
  NNodes = %d
  PctIdx = {%s}
  RuleIdx = {%s}
  Actives = {%s}
  Steps = %s
  MaxT = %d
  MaxReq = %d
  MaxInflight = %d
  Mut = "%s"
  Pre = %s
  NRes = %d
  Pooled = %s
  MaxReload = %d
%sVIEW view
%sCHECK_DEADLOCK FALSE
""" % (nodes, ', '.join(map(str, pct)), ', '.join(map(str, rules)), ', '.join(actives), steps, maxt, maxreq, maxin, mut, 'TRUE' if pre else 'FALSE', nres,
       'TRUE' if pooled else 'FALSE', reloads, symline, '' if gen else 'INVARIANT TypeOK\nPROPERTIES %s\n' % props)


# ------------------------------------------------------------------------------------------- scenarios
def split(lines):
    out = []
    for l in lines:
        if l.get('op') == 'new':
            out.append([])
        out[-1].append(l)
    return out


def scale_rule(r, unit):
    r = dict(r)
    for k in ('timeout', 'I', 'maxRt'):
        r[k] = r[k] * unit
    return r


def decorate(hist, tr, unit):
    """TLC history (ticks) -> driver scenario (ms)"""
    out = []
    for o in hist:
        o = dict(o)
        if o['op'] == 'new':
            nres = o.get('nres', 1)
            o = dict(op='new', tr=tr, rule=scale_rule(o['rule'], unit), pct=o['pct'], active=o['active'])
            if nres > 1:     # the design model gives every resource the same configuration
                o['more'] = [dict(rule=o['rule'], pct=o['pct'], active=o['active']) for _ in range(nres - 1)]
        elif o['op'] == 'tick':
            o['d'] = o['d'] * unit
        elif o['op'] == 'reload':
            o['rule'] = scale_rule(o['rule'], unit)
        out.append(o)
    # the spec starts at tick 1: the scenario starts one unit after the base
    out.insert(1, dict(op='tick', d=unit))
    return out


def spice(rng, scn, timers=False):
    """the fields of a reload the specification abstracts from: the public entry point (LoadRuleOfResource / LoadRules) and
    the intervals of the recycler and the retryer.  Sequential stages: RecycleIntervalS 0 (= 10 min) or 4 - no recycle timer
    fires while a virtual-time scenario runs (milliseconds of real time); the health check of these stages never succeeds."""
    for o in scn:
        if o['op'] == 'reload':
            o.setdefault('via', rng.choice(['res', 'res', 'all']))
            if not timers:
                if rng.random() < 0.5:
                    o.setdefault('recycle_s', rng.choice([0, 4]))
                if rng.random() < 0.5:
                    o.setdefault('recov_ms', rng.choice([4000, 500]))
                if rng.random() < 0.3:
                    o.setdefault('attempts', rng.choice([1, 3, 5]))
    return scn


def random_reload(rng, cfgs, k, clear_ok=True):
    """a reload of resource k: (mostly) the embedded circuit-breaker rule stays and the percentage / the recovery mode
    change - or nothing does; sometimes the rule is cleared first and (possibly another) rule is loaded.  Returns the op and
    replaces cfgs[k-1] (never mutates it: the `new' line refers to the old one)."""
    old = cfgs[k - 1]
    o = dict(op='reload', res=k)
    x = rng.random()
    if clear_ok and x < 0.2:
        o['clear'] = True
        if rng.random() < 0.5:
            o['rule'] = random_rule(rng)
    if x < 0.85:
        if rng.random() < 0.7:
            o['pct'] = rng.choice(RAND_PCTS)
        if rng.random() < 0.3:
            o['active'] = not old['active']
    cfgs[k - 1] = dict(rule=o.get('rule', old['rule']), pct=o.get('pct', old['pct']), active=o.get('active', old['active']))
    return o


def random_rule(rng):
    k = rng.random()
    I = rng.choice([1000, 1000, 2000, 500, 10000])
    nb = rng.choice([1, 1, 2, 5, 0, 3])
    timeout = rng.choice([1000, 3000, 500, 2500])
    probe = rng.choice([0, 0, 0, 1, 2, 3])
    if k < 0.6:
        return dict(strategy='ecount', thr=[rng.choice([1, 1, 2, 3]), 1], minAmt=rng.choice([1, 1, 2, 3]), timeout=timeout, I=I, nb=nb,
                    maxRt=0, probeNum=probe)
    if k < 0.85:
        return dict(strategy='eratio', thr=rng.choice([[1, 2], [1, 4], [3, 4], [1, 1], [1, 10]]), minAmt=rng.choice([1, 2, 4]),
                    timeout=timeout, I=I, nb=nb, maxRt=0, probeNum=probe)
    return dict(strategy='slow', thr=rng.choice([[1, 2], [1, 1], [1, 4]]), minAmt=rng.choice([1, 2]), timeout=timeout, I=I, nb=nb,
                maxRt=rng.choice([10, 100]), probeNum=probe)


RAND_PCTS = PCTS + [[k, 10] for k in range(1, 10)] + [[2, 3], [1, 4], [3, 4], [1, 5], [29, 100], [57, 100]]


def random_scenarios(c, n, first_tr, big=False):
    """per-node success/failure histories in virtual time; about half of the small scenarios use two or three resources
    (own rule / percentage / recovery mode, overlapping callee addresses) on the shared slot chain"""
    rng = c.rng
    out = []
    for i in range(n):
        tr = first_tr + i
        if big:
            nn = rng.choice([10, 20, 33, 50, 64, 99, 100])
            pct = rng.choice([[k, 100] for k in (1, 7, 14, 29, 33, 57, 58, 70, 99)] + PCTS)
        else:
            nn = rng.randint(1, 12)
            pct = rng.choice(RAND_PCTS)
        rule = random_rule(rng)
        if big and i == 0:
            # fixed probe of the float rounding: float64(0.29) * 100 = 28.999999999999996 -> the code ejects 28 of 100, floor is 29
            nn, pct, rule = 100, [29, 100], dict(strategy='ecount', thr=[1, 1], minAmt=1, timeout=3000, I=1000, nb=1, maxRt=0, probeNum=0)
        nodes = ['n%d' % k for k in range(1, nn + 1)]
        nres = 1 if big else rng.choice([1, 1, 2, 2, 3])
        cfgs = [dict(rule=rule, pct=pct, active=rng.random() < 0.35)]
        for _ in range(nres - 1):
            same = rng.random() < 0.5
            cfgs.append(dict(rule=rule if same else random_rule(rng), pct=pct if rng.random() < 0.5 else rng.choice(RAND_PCTS),
                             active=cfgs[0]['active'] if same else rng.random() < 0.35))
        # resource k talks to a subset of the addresses (resource 1 to all of them)
        rnodes = {1: nodes}
        for k in range(2, nres + 1):
            rnodes[k] = rng.sample(nodes, rng.randint(1, len(nodes)))
        flaky = {(k, x): rng.choice([0.0, 0.0, 0.3, 0.9, 1.0, 1.0]) for k in rnodes for x in rnodes[k]}   # failure probability
        if nres > 1 and rng.random() < 0.5:
            for x in rnodes[nres]:
                flaky[(nres, x)] = 0.0           # a resource whose callees never fail: it must never be told anything
        if big:
            flaky = {(1, x): rng.choice([0.0, 1.0, 1.0]) for x in nodes}
        if big and i == 0:
            flaky = {(1, x): 1.0 for x in nodes}
        new = dict(op='new', tr=tr, rule=rule, pct=pct, active=cfgs[0]['active'])
        if nres > 1:
            new['more'] = list(cfgs[1:])
        # about half of the scenarios load the rule of a resource again in the middle of the history (see random_reload)
        reloads = i % 2 == 1
        if reloads and rng.random() < 0.3 and not any(x['active'] for x in cfgs):
            new['nocheck'] = True      # no RecoveryCheckFunc: an identical reload is recognised as such by the library
        s = [new, dict(op='tick', d=rng.choice([1, 7, 250, 999]))]
        if big and i == 0:
            for x in nodes:
                s += [dict(op='req', id=1), dict(op='done', id=1, node=x, err=True)]
            s.append(dict(op='req', id=1))
            out.append(s)
            continue
        if big and reloads:
            # directed: many nodes fail, then the percentage is changed under the ejection: the cap follows at once
            for x in nodes:
                if flaky[(1, x)] == 1.0:
                    for _ in range(rule['thr'][0] if rule['strategy'] == 'ecount' else 1):
                        s.append(dict(op='req', id=1))
                        if rule['strategy'] == 'slow':
                            s.append(dict(op='tick', d=rule['maxRt'] + 1))
                        s.append(dict(op='done', id=1, node=x, err=True))
            for _ in range(3):
                s.append(dict(op='obs'))
                s.append(random_reload(rng, cfgs, 1, clear_ok=False))
            s.append(dict(op='obs'))
        free = [1, 2, 3]
        open_ = {}    # id -> resource
        steps = rng.randint(15, 60) if not big else nn * rule['thr'][0] * 2 + 20
        warm = {k: list(rnodes[k]) for k in rnodes}
        for k in warm:
            rng.shuffle(warm[k])
        for _ in range(steps):
            x = rng.random()
            if open_ and (x < 0.45 or not free):
                rid = rng.choice(sorted(open_))
                k = open_[rid]
                rl = cfgs[k - 1]['rule']
                if nres > 1 and rng.random() < 0.08:
                    s.append(dict(op='leave', id=rid))
                else:
                    node = warm[k].pop() if warm[k] and rng.random() < 0.7 else rng.choice(rnodes[k])
                    if rl['strategy'] == 'slow' and rng.random() < flaky[(k, node)]:
                        s.append(dict(op='tick', d=rl['maxRt'] + rng.choice([1, 5])))
                    s.append(dict(op='done', id=rid, node=node, err=rng.random() < flaky[(k, node)]))
                del open_[rid]
                free.append(rid)
            elif reloads and x > 0.96:
                k = rng.randint(1, nres)
                o = random_reload(rng, cfgs, k)
                s.append(o)
                if o.get('clear'):
                    warm[k] = list(rnodes[k])
                    rng.shuffle(warm[k])
            elif free and x < 0.85:
                rid = free.pop(0)
                k = rng.randint(1, nres)
                open_[rid] = k
                s.append(dict(op='req', id=rid, res=k) if nres > 1 else dict(op='req', id=rid))
            else:
                rl = cfgs[rng.randint(1, nres) - 1]['rule']
                T, I = rl['timeout'], rl['I']
                s.append(dict(op='tick', d=rng.choice([1, 10, T - 1, T, T + 1, I, I // 2 + 1, 2 * T, rng.randint(1, 2 * T)])))
        s.append(dict(op='req', id=9))
        for k in range(2, nres + 1):
            s.append(dict(op='obs', res=k))
        out.append(spice(rng, s))
    return out


def reload_scenarios(c, n, first_tr):
    """directed family (virtual clock): nodes are ejected under one percentage / recovery mode, then the rule of the resource
    is loaded again - other percentage, other mode, nothing changed, or cleared and loaded - and the next requests must be
    answered from the rule NOW in force over the SAME known nodes and breaker states (clear: over no node at all)"""
    rng = c.rng
    out = []
    for i in range(n):
        tr = first_tr + i
        T = rng.choice([1000, 3000, 500])
        probe = rng.choice([0, 0, 1, 2])
        thr = rng.choice([1, 1, 2])
        rule = dict(strategy='ecount', thr=[thr, 1], minAmt=1, timeout=T, I=rng.choice([1000, 10000]), nb=rng.choice([1, 2]), maxRt=0, probeNum=probe)
        nn = rng.randint(2, 9)
        nodes = ['n%d' % k for k in range(1, nn + 1)]
        cfgs = [dict(rule=rule, pct=rng.choice(RAND_PCTS), active=rng.random() < 0.35)]
        two = rng.random() < 0.4
        new = dict(op='new', tr=tr, rule=rule, pct=cfgs[0]['pct'], active=cfgs[0]['active'])
        if two:
            cfgs.append(dict(rule=rule, pct=rng.choice(RAND_PCTS), active=rng.random() < 0.35))
            new['more'] = [cfgs[1]]
        if not any(x['active'] for x in cfgs) and rng.random() < 0.3:
            new['nocheck'] = True
        s = [new, dict(op='tick', d=rng.choice([1, 250, 999]))]

        def call(res, node, err=False):
            s.append(dict(op='req', id=1, res=res) if two else dict(op='req', id=1))
            s.append(dict(op='done', id=1, node=node, err=err))

        def look():
            for res in ([1, 2] if two else [1]):
                s.append(dict(op='obs', res=res) if two else dict(op='obs'))

        def reload(res, **kw):
            o = dict(op='reload', res=res, **kw)
            old = cfgs[res - 1]
            cfgs[res - 1] = dict(rule=o.get('rule', old['rule']), pct=o.get('pct', old['pct']), active=o.get('active', old['active']))
            s.append(o)

        for res in ([1, 2] if two else [1]):
            if rng.random() < 0.7:
                for x in nodes:
                    call(res, x)
        bad = rng.sample(nodes, rng.randint(1, nn))
        for x in bad:
            for _ in range(thr):
                call(1, x, True)
        if two:
            for x in rng.sample(bad, rng.randint(0, len(bad))):
                for _ in range(thr):
                    call(2, x, True)
        look()
        # the percentage changes under the ejection (twice), then nothing changes
        reload(1, pct=rng.choice(RAND_PCTS))
        look()
        reload(rng.choice([1, 2]) if two else 1, pct=rng.choice([[1, 1], [0, 1], [1, 2], rng.choice(RAND_PCTS)]))
        look()
        reload(1)
        look()
        # the retry timeout passes (or just not); the recovery mode in force decides whether the probed nodes are reported
        s.append(dict(op='tick', d=rng.choice([T, T + 1, T - 1, 2 * T])))
        if rng.random() < 0.6:
            reload(1, active=not cfgs[0]['active'])
        s.append(dict(op='req', id=2, res=1) if two else dict(op='req', id=2))
        look()
        if rng.random() < 0.5:
            reload(1, active=not cfgs[0]['active'], pct=rng.choice(RAND_PCTS))
        s.append(dict(op='done', id=2, node=bad[0], err=rng.random() < 0.3))
        look()
        for x in bad[1:]:
            call(1, x, rng.random() < 0.3)
        look()
        if rng.random() < 0.4:
            # cleared and loaded again (same or another circuit-breaker rule): nothing is known, nothing may be reported
            reload(1, clear=True, **(dict(rule=random_rule(rng)) if rng.random() < 0.5 else {}))
            look()
            rl = cfgs[0]['rule']
            for x in rng.sample(nodes, rng.randint(1, nn)):
                for _ in range(3):
                    if rl['strategy'] == 'slow':
                        s.append(dict(op='req', id=1, res=1) if two else dict(op='req', id=1))
                        s.append(dict(op='tick', d=rl['maxRt'] + 1))
                        s.append(dict(op='done', id=1, node=x, err=True))
                    else:
                        call(1, x, True)
            look()
            reload(1, pct=rng.choice(RAND_PCTS))
            look()
        out.append(spice(rng, s))
    return out


def quiet_scenarios(c, n, first_tr):
    """directed family: nodes of resource 1 are ejected and reported, they recover (retry timeout, probes succeed), and then
    NOTHING rejects and nothing is probed: every later request - of resource 1 and of a healthy second resource that knows
    the same addresses - must be told two empty lists, whichever pooled context it draws (entries held open rotate them)"""
    rng = c.rng
    out = []
    for i in range(n):
        tr = first_tr + i
        T = rng.choice([1000, 3000, 500])
        probe = rng.choice([0, 0, 1, 2, 3])
        thr = rng.choice([1, 1, 2])
        rule = dict(strategy='ecount', thr=[thr, 1], minAmt=1, timeout=T, I=rng.choice([1000, 10000]), nb=rng.choice([1, 2]), maxRt=0, probeNum=probe)
        if rng.random() < 0.25:
            rule.update(strategy='eratio', thr=[1, 2], minAmt=thr)
        active = rng.random() < 0.4
        nn = rng.randint(1, 5)
        nodes = ['n%d' % k for k in range(1, nn + 1)]
        pct = rng.choice([[1, 1], [1, 1], [1, 2], [7, 10], [1, 3]])
        two = rng.random() < 0.7
        new = dict(op='new', tr=tr, rule=rule, pct=pct, active=active)
        if two:
            new['more'] = [dict(rule=rule if rng.random() < 0.6 else random_rule(rng), pct=rng.choice([[1, 1], pct]),
                                active=active if rng.random() < 0.7 else not active)]
        s = [new, dict(op='tick', d=rng.choice([1, 250, 999]))]
        held = []          # entries held open so that the contexts rotate

        def call(res, node=None, err=False, rid=1):
            s.append(dict(op='req', id=rid, res=res) if two else dict(op='req', id=rid))
            if node is None:
                s.append(dict(op='leave', id=rid))
            else:
                s.append(dict(op='done', id=rid, node=node, err=err))

        def look():
            """requests of every resource, some while another entry is open"""
            for res in ([1, 2] if two else [1]):
                k = rng.random()
                if k < 0.3 and not held:
                    s.append(dict(op='req', id=7, res=res) if two else dict(op='req', id=7))
                    held.append(7)
                elif k < 0.6:
                    s.append(dict(op='obs', res=res) if two else dict(op='obs'))
                else:
                    call(res, rng.choice(nodes), False, rid=2)
                if held and rng.random() < 0.5:
                    s.append(dict(op='leave', id=held.pop()))

        if rng.random() < 0.6:       # every address known and healthy, for both resources
            for res in ([1, 2] if two else [1]):
                for x in nodes:
                    call(res, x)
        bad = rng.sample(nodes, rng.randint(1, nn))
        for x in bad:
            for _ in range(thr * (2 if rule['strategy'] == 'eratio' else 1)):
                call(1, x, True)
        look()
        look()
        s.append(dict(op='tick', d=rng.choice([T, T + 1, T - 1, 2 * T])))
        look()
        # every ejected node completes successfully until its breaker closed (probe numbers up to 3)
        for _ in range(max(probe, 1) + 1):
            for x in bad:
                call(1, x)
                if rng.random() < 0.3:
                    look()
        for _ in range(rng.randint(2, 4)):
            look()
        while held:
            s.append(dict(op='leave', id=held.pop()))
        look()
        out.append(s)
    return out


def recycle_scenarios(c, first_tr, reload_variants='abcd'):
    """the recycle clause needs the library's real timers (RecycleIntervalS = 1)"""
    rng = c.rng
    out = []
    tr = first_tr

    def base(active=False, probe=0, healthy=None, thr=1, recov=60):
        nonlocal tr
        tr += 1
        o = dict(op='new', tr=tr, rule=dict(strategy='ecount', thr=[thr, 1], minAmt=1, timeout=3000, I=1000, nb=1, maxRt=0, probeNum=probe),
                 pct=[1, 1], active=active, recycle_s=1)
        if active:
            o.update(recov_ms=recov, healthy=healthy or {})
        return [o, dict(op='tick', d=rng.choice([1, 500, 1234]))]

    def fail(s, node, thr=1):
        for _ in range(thr):
            s.append(dict(op='req', id=1))
            s.append(dict(op='done', id=1, node=node, err=True))

    extra = ['b%d' % k for k in range(rng.randint(0, 3))]
    # R1: a straggler completes successfully at `a' after `a' was handed to the recycler: a stays, zz goes
    s = base()
    s.append(dict(op='req', id=2))
    for n in ['a'] + extra:
        fail(s, n)
    fail(s, 'zz')
    s.append(dict(op='req', id=1)); s.append(dict(op='done', id=1, node='ok', err=False))
    s.append(dict(op='done', id=2, node='a', err=False))
    s += [dict(op='req', id=1), dict(op='wait', sentinel='zz')]
    out.append(s)
    # R2: two probes needed; the first successful probe completes at a half-open `a': a stays (half-open), zz goes
    s = base(probe=2)
    for n in ['a'] + extra:
        fail(s, n)
    fail(s, 'zz')
    s.append(dict(op='req', id=1)); s.append(dict(op='done', id=1, node='ok', err=False))
    s.append(dict(op='tick', d=3000))
    s.append(dict(op='req', id=1)); s.append(dict(op='done', id=1, node='a', err=False))
    s += [dict(op='req', id=1), dict(op='wait', sentinel='zz')]
    out.append(s)
    # R5: default probe number: the single successful probe completes at a half-open `a' and closes its breaker: a stays, zz goes
    s = base(probe=0)
    for n in ['a'] + extra:
        fail(s, n)
    fail(s, 'zz')
    s.append(dict(op='req', id=1)); s.append(dict(op='done', id=1, node='ok', err=False))
    s.append(dict(op='tick', d=3000))
    s.append(dict(op='req', id=1)); s.append(dict(op='done', id=1, node='a', err=False))
    s += [dict(op='req', id=1), dict(op='wait', sentinel='zz')]
    out.append(s)
    # R3: control - nobody recovers, every rejecting node goes
    s = base(thr=2)
    for n in ['a'] + extra:
        fail(s, n, 2)
    fail(s, 'zz', 2)
    s += [dict(op='req', id=1), dict(op='wait', sentinel='zz')]
    out.append(s)
    # R4: active recovery: the health check of `a' succeeds while its breaker is still open: a stays, zz goes
    s = base(active=True, healthy={'a': True})
    for n in ['a'] + extra:
        fail(s, n)
    fail(s, 'zz')
    s.append(dict(op='req', id=1)); s.append(dict(op='done', id=1, node='ok', err=False))
    s += [dict(op='active', node='a'), dict(op='req', id=1), dict(op='wait', sentinel='zz')]
    out.append(s)
    # R5: a recovered through an exclusive probe and failed again before the timers fire: recovered mark stays
    s = base()
    fail(s, 'a')
    fail(s, 'zz')
    s.append(dict(op='req', id=1)); s.append(dict(op='done', id=1, node='ok', err=False))
    s.append(dict(op='tick', d=3000))
    s.append(dict(op='req', id=1)); s.append(dict(op='done', id=1, node='a', err=False))
    fail(s, 'a')
    s += [dict(op='req', id=1), dict(op='wait', sentinel='zz')]
    out.append(s)
    # R6: the outlier rule of the resource is loaded AGAIN while the recycle timers are pending (the percentage stays 1 so that
    # the observation hides nothing); `a' completes successfully only AFTER the reload.  Whatever was reloaded, a node that
    # completed successfully after it was handed to the recycler is not recycled; zz (and the extras) are.
    for v in reload_variants:
        if v in 'ab':
            # a: LoadRuleOfResource with other recovery parameters;  b: LoadRules with every rule, nothing changed
            s = base()
            for n in ['a'] + extra:
                fail(s, n)
            fail(s, 'zz')
            s.append(dict(op='req', id=1)); s.append(dict(op='done', id=1, node='ok', err=False))
            s.append(dict(op='reload', res=1, via='res', recov_ms=1000, attempts=5) if v == 'a' else dict(op='reload', res=1, via='all'))
            s.append(dict(op='tick', d=3000))
            s.append(dict(op='req', id=1)); s.append(dict(op='done', id=1, node='a', err=False))
            if v == 'b':
                s.append(dict(op='reload', res=1, via='res'))
            fail(s, 'a')
            s += [dict(op='req', id=1), dict(op='wait', sentinel='zz')]
        elif v == 'c':
            # active recovery: the rule is reloaded before the health check of `a' succeeds (its breaker is still open)
            s = base(active=True, healthy={'a': True}, recov=250)
            for n in ['a'] + extra:
                fail(s, n)
            fail(s, 'zz')
            s.append(dict(op='req', id=1)); s.append(dict(op='done', id=1, node='ok', err=False))
            s.append(dict(op='reload', res=1, via=rng.choice(['res', 'all']), recov_ms=100))
            s += [dict(op='active', node='a'), dict(op='req', id=1), dict(op='wait', sentinel='zz')]
        else:
            # d: the rule is cleared and loaded again while the timers are pending: every node is forgotten, the recycler is not;
            # `a' is learnt again through a successful completion, a and zz fail again: zz goes when its (old) timer fires, a stays
            s = base()
            for n in ['a'] + extra:
                fail(s, n)
            fail(s, 'zz')
            s.append(dict(op='req', id=1)); s.append(dict(op='done', id=1, node='ok', err=False))
            s.append(dict(op='reload', res=1, clear=True, via=rng.choice(['res', 'all'])))
            s.append(dict(op='req', id=1)); s.append(dict(op='done', id=1, node='a', err=False))
            fail(s, 'a')
            fail(s, 'zz')
            s += [dict(op='req', id=1), dict(op='wait', sentinel='zz')]
        out.append(s)
    return out


# ------------------------------------------------------------------------------------------- drive + validate
def wellformed_prefix(lines):
    good = []
    for l in lines:
        try:
            json.loads(l)
        except ValueError:
            break
        good.append(l)
    return good


def run_and_validate(c, drv, scns, tag, timeout=600, retries=0, partial=False, each=False):
    """drive + judge.  Returns (mismatches, trace path, driver error).  partial=True (timer scenarios): a driver that gives
    up (exit 2: a wait timed out, unsafe timing) is not the end - whatever it recorded until then is still judged by the
    trace spec, and the error is handed back to the caller, so that a forbidden answer in the recorded part becomes a
    violation and the machinery failure never hides it.
    each=True (timer scenarios): one driver process PER SCENARIO (the real-time guard of `wait' is per process start), the
    processes run side by side (they mostly sleep), the traces are judged as one file; the error handed back is the list
    [(trace number, error)] of the scenarios whose driver gave up."""
    sp = os.path.join(c.scratch, tag + '.scn.ndjson')
    tp = os.path.join(c.scratch, tag + '.trace.ndjson')
    err = None
    if each:
        def one(k):
            spk, tpk = '%s.%d' % (sp, k), '%s.%d' % (tp, k)
            write_ndjson(spk, scns[k])
            e = None
            for attempt in range(retries + 1):
                try:
                    c.run([drv, spk, tpk], timeout=timeout)
                    e = None
                    break
                except MachineryError as ex:
                    if attempt < retries and 'timing unsafe' in str(ex):
                        c.log('%s scenario %d: driver reported unsafe timing, retrying (%d)' % (tag, scns[k][0]['tr'], attempt + 1))
                        continue
                    if not partial or not os.path.exists(tpk):
                        raise
                    e = ex
                    break
            ls = [l for l in open(tpk).read().splitlines() if l.strip()]
            return (wellformed_prefix(ls) if e is not None else ls), e
        with concurrent.futures.ThreadPoolExecutor(max_workers=8) as ex:
            res = list(ex.map(one, range(len(scns))))
        lines = [l for ls, _ in res for l in ls]
        err = [(scns[k][0]['tr'], e) for k, (_, e) in enumerate(res) if e is not None] or None
        open(tp, 'w').write(''.join(l + '\n' for l in lines))
        if not lines:
            raise err[0][1]
    elif len(scns) > CHUNK:
        # several driver processes (rules of finished scenarios stay loaded: a long run makes the heap - and the two garbage
        # collections per scenario that empty the context pool - grow); the traces are judged as one file
        parts = [scns[i:i + CHUNK] for i in range(0, len(scns), CHUNK)]

        def drive(k):
            spk, tpk = '%s.%d' % (sp, k), '%s.%d' % (tp, k)
            write_ndjson(spk, [o for s in parts[k] for o in s])
            c.run([drv, spk, tpk], timeout=timeout)
            return open(tpk).read()
        with concurrent.futures.ThreadPoolExecutor(max_workers=6) as ex:
            texts = list(ex.map(drive, range(len(parts))))
        open(tp, 'w').write(''.join(texts))
    else:
        write_ndjson(sp, [o for s in scns for o in s])
        for attempt in range(retries + 1):
            try:
                c.run([drv, sp, tp], timeout=timeout)
                err = None
                break
            except MachineryError as e:
                if attempt < retries and 'timing unsafe' in str(e):
                    c.log('%s: driver reported unsafe timing, retrying (%d)' % (tag, attempt + 1))
                    continue
                if not partial or not os.path.exists(tp):
                    raise
                err = e
                break
    if not each:
        lines = [l for l in open(tp).read().splitlines() if l.strip()]
        if err is not None:
            lines = wellformed_prefix(lines)
            open(tp, 'w').write(''.join(l + '\n' for l in lines))
            if not lines:
                raise err
    nlines = len(lines)
    mism, consumed, r = c.validate('Outlier_Trace', tp, nlines)
    if consumed != nlines:
        raise MachineryError('%s: trace validation consumed %d of %d lines (malformed trace?)\n%s' % (tag, consumed, nlines, r.out[-1500:]))
    drift = [l for l in r.out.splitlines() if l.startswith('"DRIFT ')]
    c.cov['conformance_mismatches'] += len(drift)
    c.cov['traces_validated_against_impl'] += len(scns)
    c.cov['evaluations'] += nlines
    c.log('S3/S4 %s: %d scenarios, %d events validated in %.0fs, %d mismatching traces, %d non-maximal filter answers (drift)%s' % (
        tag, len(scns), nlines, r.wall, len(mism), len(drift), '' if err is None else ' [driver gave up: partial trace]'))
    run_and_validate.drift = {int(json.loads(l).split(' ')[1]) for l in drift}
    if mism:
        mism = [(tr, ln, exp + '  OBSERVED: ' + lines[ln - 1][:600]) for tr, ln, exp in mism]
    return mism, tp, err


def binding_selftest(c, tp, want_n=40, drift=()):
    """corrupt one recorded answer in each of the first traces of a good trace file: every one must be rejected.
    One corruption is the left-over of a pooled context: a request that was (rightly) told nothing reports the lists an
    EARLIER request of the same trace (any resource) was told."""
    traces = split(read_ndjson(tp))
    out, want, nstale = [], set(), 0
    for t in traces:
        if len(want) >= want_n:
            break
        asks = [e for e in t if e['op'] in ('req', 'obs')]
        cands = [e for e in asks if e['half'] or e['filter']] + [e for e in t if e['op'] == 'recycle' and e['visible']]
        if not cands:
            continue
        e = c.rng.choice(cands)
        later = [x for x in asks[asks.index(e) + 1:] if not x['filter'] and not x['half']] if e in asks else []
        if later and t[0]['tr'] not in drift and c.rng.random() < 0.6:
            q = c.rng.choice(later)                                  # stale lists of an earlier entry
            q['filter'], q['half'] = list(e['filter']), list(e['half'])
            nstale += 1
        elif e['op'] == 'recycle':
            e['visible'] = e['visible'] + ['never-seen']           # a node nobody knows shows up
        elif e['half'] and (not e['filter'] or c.rng.random() < 0.5):
            e['half'] = e['half'][1:]                                # a probed node is not reported
        elif c.rng.random() < 0.5:
            e['filter'] = e['filter'] + ['never-seen']               # a node without a rejecting breaker is filtered
        else:
            e['half'] = e['half'] + [e['filter'][0]]                 # a rejecting node is reported as half-open
        want.add(t[0]['tr'])
        out += t
    if not want:
        raise MachineryError('binding self-test: no trace with a non-empty answer to corrupt')
    cp = os.path.join(c.scratch, 'corrupt.ndjson')
    write_ndjson(cp, out)
    mism, consumed, r = c.validate('Outlier_Trace', cp, len(out))
    got = {m[0] for m in mism}
    if got != want:
        raise MachineryError('binding self-test failed: corrupted traces %s, rejected %s' % (sorted(want), sorted(got)))
    c.cov['binding_selftest'] = c.cov.get('binding_selftest', '') + '%d corrupted traces (%d with the stale lists of an earlier entry), all rejected; ' % (len(want), nstale)
    c.log('binding self-test: %d corrupted traces (%d = stale lists of an earlier entry), all rejected by Outlier_Trace' % (len(want), nstale))
    return nstale


def recycle_selftest(c, tp):
    """drop the recovered node from the recorded observation after the timers fired: must be rejected"""
    traces = split(read_ndjson(tp))
    out, want = [], set()
    for t in traces:
        e = t[-1]
        if e['op'] == 'recycle' and 'a' in e['visible']:
            e['visible'] = [x for x in e['visible'] if x != 'a']
            want.add(t[0]['tr'])
            out += t
    if not want:
        raise MachineryError('recycle self-test: no scenario kept its recovered node')
    cp = os.path.join(c.scratch, 'corrupt-recycle.ndjson')
    write_ndjson(cp, out)
    mism, consumed, r = c.validate('Outlier_Trace', cp, len(out))
    if {m[0] for m in mism} != want:
        raise MachineryError('recycle self-test failed: corrupted %s, rejected %s' % (sorted(want), sorted({m[0] for m in mism})))
    c.cov['binding_selftest'] = c.cov.get('binding_selftest', '') + 'recycle clause: %d corrupted observations, all rejected; ' % len(want)
    c.log('recycle self-test: %d observations with the recovered node removed, all rejected' % len(want))


def nontrivial(trace):
    """a trace is non-trivial if some request answered a non-empty filter or half-open set"""
    return any(e['op'] in ('req', 'obs') and (e['filter'] or e['half']) for e in trace) or any(e['op'] == 'recycle' for e in trace)


def quiet_after_report(trace):
    """number of requests that were told nothing AFTER an earlier request of the trace had been told something"""
    n, seen = 0, False
    for e in trace:
        if e['op'] in ('req', 'obs'):
            if e['filter'] or e['half']:
                seen = True
            elif seen:
                n += 1
    return n


def reload_stats(trace):
    """(reloads, clearing reloads, reloads through LoadRules, requests of a reloaded resource that were told something afterwards)"""
    n = ncl = nall = after = 0
    seen = set()
    for e in trace:
        if e['op'] == 'reload':
            n += 1
            ncl += 1 if e['clear'] else 0
            nall += 1 if e.get('via') == 'all' else 0
            seen.add(e['res'])
        elif e['op'] in ('req', 'obs') and e.get('res', 1) in seen and (e['filter'] or e['half']):
            after += 1
    return n, ncl, nall, after


def classify(c, scn, exp):
    """known-finding key for a confirmed mismatch, or None"""
    return None


def handle_mismatches(c, drv, scns, mism, tag, **kw):
    by_tr = {s[0]['tr']: s for s in scns}
    # a handful per group is enough for a verdict (each is confirmed twice): the shortest scenarios make the best replays
    for tr, line, exp in sorted(mism, key=lambda m: len(by_tr[m[0]]))[:4]:
        s = by_tr[tr]
        rp = c.save_replay('%s-tr%d.ndjson' % (tag, tr), s)
        ok = 0
        for i in range(2):   # confirm twice from the replay file in fresh processes
            m2, _, _ = run_and_validate(c, drv, [read_ndjson(rp)], 'confirm%d' % i, **kw)
            ok += 1 if m2 else 0
        if ok < 2:
            c.inconclusive.append('mismatch of %s trace %d did not reproduce (%d/2)' % (tag, tr, ok))
            continue
        key = classify(c, s, exp)
        what = 'answer of the outlier slot forbidden by the property at line %d of trace %d; spec state %s' % (line, tr, exp[:500])
        if key and c.is_known(key):
            c.known(key, c.kf[key]['description'])
        else:
            c.violation(what, rp)


def maximal(hs):
    keys = sorted(json.dumps(x, sort_keys=True)[:-1] for x in hs)
    out = []
    for i, k in enumerate(keys):
        if i + 1 < len(keys) and keys[i + 1].startswith(k) and (keys[i + 1] == k or keys[i + 1][len(k)] == ','):
            continue
        out.append(json.loads(k + ']'))
    return out


def model_check_design(c, thorough):
    """S1: exhaustive TLC runs of the bounded instances of Outlier.tla and the broken designs (vacuity).  Independent of the
    scenario stages: check_body runs it beside them (own scratch directory, own TLC run counter)."""
    ALLP, BOTH = [1, 2, 3, 4, 5, 6, 7], ['FALSE', 'TRUE']
    # S1 ---------------------------------------------------------------------------------
    if not thorough:
        runs = [dict(nodes=3, pct=ALLP, rules=[1], actives=BOTH, maxt=5, maxreq=3, maxin=2, steps='{2}'),
                dict(nodes=2, pct=[2, 4, 5, 7], rules=[2, 3, 4], actives=['FALSE'], maxt=4, maxreq=3, maxin=1),
                # pre = start from ANY set of known nodes, any of them open: every (known, open) split of 4 nodes x every percentage
                dict(nodes=4, pct=ALLP, rules=[1], actives=BOTH, maxt=3, maxreq=1, maxin=1, steps='{2}', pre=True),
                # two resources on one chain: the answer lists live in pooled contexts that keep their content
                dict(nodes=2, pct=[5, 7], rules=[1], actives=BOTH, maxt=5, maxreq=3, maxin=2, steps='{2}', nres=2, pooled=True),
                # one resource, pooled contexts, long enough to eject - recover - be quiet again (two probes with rule 2)
                dict(nodes=1, pct=[7], rules=[1, 2], actives=BOTH, maxt=7, maxreq=5, maxin=1, steps='{2}', pooled=True),
                # the rule of a resource is loaded again in the middle of the history (other percentage / recovery mode, nothing
                # changed, cleared and loaded): straggling completions, recycle timers and health checks around the reload
                dict(nodes=2, pct=[5, 7], rules=[1], actives=BOTH, maxt=5, maxreq=3, maxin=2, steps='{2}', reloads=1),
                # three nodes, the percentages whose caps differ for 2 and 3 known nodes (0, 1/3, 1/2, 1)
                dict(nodes=3, pct=[1, 4, 5, 7], rules=[1], actives=['FALSE'], maxt=5, maxreq=3, maxin=1, steps='{2}', reloads=1)]
    else:
        runs = [dict(nodes=3, pct=ALLP, rules=[1], actives=BOTH, maxt=5, maxreq=3, maxin=2),
                dict(nodes=3, pct=[1, 4, 5, 7], rules=[1], actives=BOTH, maxt=5, maxreq=4, maxin=2, steps='{2}'),
                dict(nodes=4, pct=ALLP, rules=[1], actives=BOTH, maxt=5, maxreq=3, maxin=1, steps='{2}'),
                dict(nodes=5, pct=ALLP, rules=[1], actives=BOTH, maxt=3, maxreq=1, maxin=1, steps='{2}', pre=True),
                dict(nodes=4, pct=ALLP, rules=[1], actives=BOTH, maxt=3, maxreq=1, maxin=1, steps='{2}', pre=True),
                dict(nodes=3, pct=ALLP, rules=[1], actives=['FALSE'], maxt=5, maxreq=2, maxin=1, steps='{2}', pre=True),
                dict(nodes=1, pct=[1, 5, 7], rules=[1, 2, 3, 4], actives=BOTH, maxt=6, maxreq=5, maxin=2),
                dict(nodes=2, pct=ALLP, rules=[2, 3, 4], actives=BOTH, maxt=4, maxreq=3, maxin=2),
                dict(nodes=2, pct=[5, 7], rules=[1], actives=BOTH, maxt=5, maxreq=4, maxin=2, steps='{2}', nres=2, pooled=True),
                dict(nodes=1, pct=[7], rules=[1], actives=BOTH, maxt=5, maxreq=5, maxin=1, steps='{2}', nres=2, pooled=True),
                dict(nodes=1, pct=[7], rules=[1, 2], actives=BOTH, maxt=7, maxreq=5, maxin=2, steps='{2}', pooled=True),
                dict(nodes=2, pct=[5, 7], rules=[1], actives=BOTH, maxt=5, maxreq=3, maxin=2, steps='{2}', reloads=1),
                dict(nodes=3, pct=[1, 4, 5, 7], rules=[1], actives=BOTH, maxt=5, maxreq=3, maxin=1, steps='{2}', reloads=1),
                # two reloads, the circuit-breaker rule changes with a clear: eject - reload - recover - reload
                dict(nodes=1, pct=[1, 7], rules=[1, 2], actives=BOTH, maxt=7, maxreq=4, maxin=1, steps='{2}', reloads=2),
                # two resources on one chain, each with its own rule in force
                dict(nodes=1, pct=[5, 7], rules=[1], actives=BOTH, maxt=5, maxreq=3, maxin=1, steps='{2}', nres=2, pooled=True, reloads=1)]
    for kw in runs:
        r = c.model_check('Outlier_MC', cfg_text=mc_cfg(**kw), workers=8, timeout=1500 if thorough else 170)
        if not r.completed:
            c.inconclusive.append('Outlier.tla: %s violated for %s - the spec no longer describes a correct design' % (r.violated, kw))
    c.cov['exhaustive'] = True


def model_check_mutants(c, thorough):
    """S1, second half: the deliberately broken designs (vacuity self-test of every clause); runs beside model_check_design"""
    ALLP, BOTH = [1, 2, 3, 4, 5, 6, 7], ['FALSE', 'TRUE']
    # vacuity: each clause of the property fails on the corresponding broken design
    for mut, prop in (('cap', 'PCap'), ('closed', 'PFilter'), ('half', 'PHalf'), ('recycle', 'PRecycle')):
        r = c.tlc('Outlier_MC', cfg_text=mc_cfg(nodes=3, pct=[3, 5, 7], rules=[1], actives=['FALSE'], maxt=4, maxreq=3, maxin=1, mut=mut),
                  workers=2, timeout=170, count=False)
        if r.violated != prop:
            raise MachineryError('vacuity self-test: broken design %s should violate %s, TLC says %s %s' % (mut, prop, r.violated, r.error))
    # the shortcut "nothing rejects, nothing is probed: return before the lists are written" shows only through the pooled
    # contexts: it must violate the clause about quiet requests and the clause about the own resource's nodes
    stale = dict(nodes=2, pct=[5, 7], rules=[1], actives=BOTH, maxt=5, maxreq=4, maxin=1, steps='{2}', nres=2, pooled=True, mut='stale')
    for prop in ('PQuiet', 'POwn'):
        r = c.tlc('Outlier_MC', cfg_text=mc_cfg(props=prop, **stale), workers=2, timeout=170, count=False)
        if r.violated != prop:
            raise MachineryError('vacuity self-test: broken design stale should violate %s, TLC says %s %s' % (prop, r.violated, r.error))
    # a reload that forgets which scheduled nodes have recovered (the armed timers stay): a node that completed successfully
    # is recycled.  Must violate the statement-level clause over the history (PSurvive) and the clause about what a reload
    # may touch (PReload); the clauses about the recycler's own marks (PRecycle, PKept) cannot see it.
    forget = dict(nodes=2, pct=[5, 7], rules=[1], actives=BOTH, maxt=5, maxreq=3, maxin=2, steps='{2}', reloads=1, mut='forget')
    for prop in ('PSurvive', 'PReload'):
        r = c.tlc('Outlier_MC', cfg_text=mc_cfg(props=prop, **forget), workers=2, timeout=170, count=False)
        if r.violated != prop:
            raise MachineryError('vacuity self-test: broken design forget should violate %s, TLC says %s %s' % (prop, r.violated, r.error))
    c.cov['spec_mutants'] = ('cap->PCap closed->PFilter half->PHalf recycle->PRecycle stale(pooled contexts)->PQuiet, POwn '
                             'forget(reload drops the recovered marks)->PSurvive, PReload: all violated as required')
    c.log('S1 vacuity: the six broken designs violate PCap / PFilter / PHalf / PRecycle / PQuiet + POwn / PSurvive + PReload')


def check(c, tier, replay):
    try:
        check_body(c, tier, replay)
    except MachineryError as e:
        # a machinery failure never hides what the real code was already caught doing
        if not c.violations:
            raise
        c.inconclusive.append('machinery failure after violations had been found: %s' % str(e)[:600])


def check_body(c, tier, replay):
    drv = c.build('c20')
    if replay:
        s = read_ndjson(replay)
        timers = any(o['op'] in ('wait', 'active') for o in s)
        mism, _, err = run_and_validate(c, drv, [s], 'replay', retries=2 if timers else 0, partial=timers)
        if mism:
            c.violation('replayed scenario: answer forbidden by the property: %s' % (mism[0][2][:500]), replay)
        elif err is not None:
            raise err
        c.cov['states'] = c.cov['transitions'] = 1
        c.sample(s[:8])
        return
    thorough = tier == 'thorough'
    ALLP, BOTH = [1, 2, 3, 4, 5, 6, 7], ['FALSE', 'TRUE']
    # S1 runs beside S2-S4 (pure TLC work on the design model, nothing the scenario stages depend on): a shallow copy of the
    # check object with its own scratch directory and run counter shares the evidence dictionaries (only S1 writes states /
    # transitions / tlc_runs / spec_mutants).  Its failures are raised when it is joined, before any verdict.
    s1_pool = concurrent.futures.ThreadPoolExecutor(max_workers=2)
    s1 = []
    for k, fn in enumerate((model_check_design, model_check_mutants)):
        c1 = copy.copy(c)
        c1.scratch = os.path.join(c.scratch, 's1-%d' % k)
        os.makedirs(c1.scratch)
        c1._tlc_n = 0
        s1.append(s1_pool.submit(fn, c1, thorough))
    try:
        scenario_stages(c, drv, thorough, ALLP, BOTH)
    finally:
        s1_pool.shutdown(wait=True)
    for f in s1:
        f.result()


def scenario_stages(c, drv, thorough, ALLP, BOTH):
    # S2 ---------------------------------------------------------------------------------
    scns, tr = [], 0
    gens = [dict(nodes=3, pct=[4, 5], rules=[1], actives=BOTH, maxt=5, maxreq=3, maxin=1, steps='{2}'),
            dict(nodes=2, pct=[5], rules=[2, 3, 4], actives=['FALSE'], maxt=4, maxreq=3, maxin=1),
            dict(nodes=2, pct=[7], rules=[1], actives=BOTH, maxt=5, maxreq=3, maxin=1, steps='{2}', nres=2),
            dict(nodes=2, pct=[4, 7], rules=[1], actives=BOTH, maxt=5, maxreq=2, maxin=1, steps='{2}', reloads=1)]
    if thorough:
        gens = [dict(nodes=3, pct=[2, 4, 5, 7], rules=[1], actives=BOTH, maxt=5, maxreq=3, maxin=2),
                dict(nodes=2, pct=[2, 5, 7], rules=[2, 3, 4], actives=BOTH, maxt=4, maxreq=3, maxin=2),
                dict(nodes=4, pct=[3, 5, 6], rules=[1], actives=['FALSE'], maxt=5, maxreq=3, maxin=1, steps='{2}'),
                dict(nodes=2, pct=[5, 7], rules=[1], actives=BOTH, maxt=5, maxreq=3, maxin=2, steps='{2}', nres=2),
                dict(nodes=3, pct=[4, 7], rules=[1], actives=BOTH, maxt=5, maxreq=3, maxin=1, steps='{2}', reloads=1),
                dict(nodes=2, pct=[7], rules=[1, 2], actives=BOTH, maxt=5, maxreq=3, maxin=1, steps='{2}', reloads=2)]
    cap = 1200 if not thorough else 30000
    nsim = 200 if not thorough else 3000
    sims = ((1, 0), (2, 0), (2, 3))

    # the TLC runs that generate scenarios are independent of each other: quick runs them side by side (each in its own
    # scratch directory), their output is consumed in the fixed order below (the seeded choices stay reproducible)
    def tlc_job(k):
        cc = copy.copy(c)
        cc.scratch = os.path.join(c.scratch, 'gen%d' % k)
        os.makedirs(cc.scratch)
        cc._tlc_n = 0
        if k < len(gens):
            return cc.tlc('Outlier_MC', cfg_text=mc_cfg(gen=True, **gens[k]), workers=4, timeout=900 if thorough else 120, count=False)
        nres, reloads = sims[k - len(gens)]
        return cc.tlc('Outlier_MC', cfg_text=mc_cfg(gen=True, nodes=5 if nres == 1 else 3, pct=ALLP, rules=[1, 2, 3, 4], actives=BOTH, maxt=12,
                                                    maxreq=12, maxin=2, nres=nres, reloads=reloads),
                      workers=1, timeout=300, count=False, args=['-simulate', 'num=%d' % (nsim // nres), '-depth', '28', '-seed', str(c.seed)])
    with concurrent.futures.ThreadPoolExecutor(max_workers=1 if thorough else 4) as ex:
        jobs = list(ex.map(tlc_job, range(len(gens) + len(sims))))
    for kw, r in zip(gens, jobs):
        if r.error:
            raise MachineryError('scenario generation failed: %s\n%s' % (r.error, r.out[-1500:]))
        hs = r.json_prints()
        keep = maximal(hs)
        kcap = cap // (3 if thorough else 2) if kw.get('reloads') else cap
        if len(keep) > kcap:
            keep = c.rng.sample(keep, kcap)
        for hh in keep:
            tr += 1
            scns.append(spice(c.rng, decorate(hh, tr, c.rng.choice([500, 1000, 250]))))
        c.log('S2 transition cover %s: %d transitions -> %d scenarios' % ({k: kw.get(k, 0) for k in ('nodes', 'rules', 'reloads')}, len(hs), len(keep)))
    cover_n = len(scns)
    for (nres, reloads), r in zip(sims, jobs[len(gens):]):
        if r.error:
            raise MachineryError('scenario generation (simulation) failed: %s\n%s' % (r.error, r.out[-1500:]))
        keep = maximal(r.json_prints())
        for hh in keep:
            tr += 1
            scns.append(spice(c.rng, decorate(hh, tr, c.rng.choice([500, 1000]))))
        c.log('S2 TLC simulation (%d resource(s), <= %d reloads): %d behaviours' % (nres, reloads, len(keep)))
    nrand = 400 if not thorough else 6000
    rs = random_scenarios(c, nrand, tr + 1)
    tr += nrand
    nquiet = 150 if not thorough else 2000
    rq = quiet_scenarios(c, nquiet, tr + 1)
    tr += nquiet
    nbig = 25 if not thorough else 300
    rb = random_scenarios(c, nbig, tr + 1, big=True)
    tr += nbig
    nrel = 120 if not thorough else 2000
    rr = reload_scenarios(c, nrel, tr + 1)
    tr += nrel
    # S3 + S4 ----------------------------------------------------------------------------
    all_traces = []
    nstale = 0
    for tag, group in (('tlc', scns), ('random', rs), ('quiet', rq), ('big', rb), ('reload', rr)):
        for i in range(0, len(group), 5000):
            part = group[i:i + 5000]
            mism, tp, _ = run_and_validate(c, drv, part, '%s%d' % (tag, i))
            if i == 0 and not mism and tag in ('tlc', 'random', 'quiet') + (('reload',) if thorough else ()):
                nstale += binding_selftest(c, tp, drift=run_and_validate.drift)
            all_traces += split(read_ndjson(tp))
            handle_mismatches(c, drv, part, mism, tag)
    if nstale == 0 and not c.violations:
        raise MachineryError('binding self-test: no request that was told nothing after an earlier one was told something - the '
                             'stale-list corruption was never exercised')
    if True:   # (the recycle scenarios use the library's real 1 s timers: one repetition in quick, four in thorough)
        rec = []
        for rep in range(4 if thorough else 1):
            # quick: R6a (reload through LoadRuleOfResource while the timers are pending) and one of R6b / R6c / R6d
            rec += recycle_scenarios(c, tr, 'abcd' if thorough else 'a' + c.rng.choice('bcd'))
            tr += 12
        # one driver process per scenario (the real-time guard of `wait' is per process start), side by side; one judgement.
        # partial: if a driver gives up (timeout / unsafe timing) what it recorded is still judged, and the failure is
        # reported at the end (exit 2 only if nothing else was found)
        mism, tp, errs = run_and_validate(c, drv, rec, 'recycle', timeout=120, retries=3, partial=True, each=True)
        rec_traces = split(read_ndjson(tp))
        all_traces += rec_traces
        handle_mismatches(c, drv, rec, mism, 'recycle', timeout=120, retries=3, partial=True)
        gave_up = ['recycle scenario %d: %s' % (t, str(e).strip().splitlines()[-1][:300]) for t, e in (errs or [])]
        bad = {m[0] for m in mism} | {t for t, _ in (errs or [])}
        good = [e for t in rec_traces if t[0]['tr'] not in bad for e in t]
        if good:
            gp = os.path.join(c.scratch, 'recycle-good.ndjson')
            write_ndjson(gp, good)
            recycle_selftest(c, gp)
        c.inconclusive += gave_up
        c.cov['recycle_scenarios'] = len(rec)
        c.sample(rec[0])
    else:
        c.cov['recycle_scenarios'] = 0
        c.assumptions.append('quick tier: the recycle clause is model-checked on the spec only; its binding to the code (real time.AfterFunc, '
                             '1 s) runs in the thorough tier')
    asks = [e for t in all_traces for e in t if e['op'] in ('req', 'obs')]
    c.cov['distinct_nontrivial'] = len({json.dumps(t[1:], sort_keys=True) for t in all_traces if nontrivial(t)})
    c.cov['requests_with_nonempty_filter'] = sum(1 for e in asks if e['filter'])
    c.cov['requests_with_nonempty_half'] = sum(1 for e in asks if e['half'])
    c.cov['traces_with_several_resources'] = sum(1 for t in all_traces if len(t[0].get('cfgs', [])) > 1)
    c.cov['requests_of_second_resources'] = sum(1 for e in asks if e.get('res', 1) > 1)
    c.cov['quiet_requests_after_a_report'] = sum(quiet_after_report(t) for t in all_traces)
    rl = [reload_stats(t) for t in all_traces]
    c.cov['reloads_in_mid_history'] = sum(x[0] for x in rl)
    c.cov['clearing_reloads'] = sum(x[1] for x in rl)
    c.cov['reloads_through_LoadRules'] = sum(x[2] for x in rl)
    c.cov['nonempty_answers_after_a_reload'] = sum(x[3] for x in rl)
    c.cov['recycle_scenarios_with_a_reload_while_timers_pend'] = sum(1 for t in all_traces if t[-1]['op'] == 'recycle' and any(e['op'] == 'reload' for e in t))
    if c.cov['reloads_in_mid_history'] < 500 or c.cov['nonempty_answers_after_a_reload'] < 500 or c.cov['clearing_reloads'] < 50:
        raise MachineryError('coverage guard: only %d reloads in mid-history (%d clearing), %d non-empty answers after a reload' % (
            c.cov['reloads_in_mid_history'], c.cov['clearing_reloads'], c.cov['nonempty_answers_after_a_reload']))
    if c.cov['quiet_requests_after_a_report'] < 500 or c.cov['requests_of_second_resources'] < 500:
        raise MachineryError('coverage guard: only %d quiet requests after a report / %d requests of second resources' % (
            c.cov['quiet_requests_after_a_report'], c.cov['requests_of_second_resources']))
    c.cov['rule'] = ('scenarios = one per transition of a bounded Outlier spec (%d) + TLC random simulation + seeded random per-node '
                     'histories (1..12 and 10..100 nodes, 1..3 resources on one chain) + directed eject-recover-quiet histories; '
                     'non-trivial = distinct recorded trace in which at least one request answered a '
                     'non-empty filter or half-open set (or the recycle timers were awaited)' % cover_n)
    c.sample(scns[len(scns) // 2][:10])
    c.sample(rs[0][:12])
    c.assumptions += ['MaxEjectionPercent is the rational num/den handed to the driver; float64(num)/float64(den) is what the rule carries '
                      '(for den <= 100 the float product cannot exceed the rational floor; it can fall below it, which the statement allows and '
                      'which is counted as conformance drift)',
                      'requests are sequential (one goroutine); the breaker machine under concurrency is the subject of C12',
                      'the pool of entry contexts is emptied (two garbage collections) at the start of every scenario, so that scenarios and '
                      'replay files are self-contained; which pooled context an entry draws inside a scenario is the runtime\'s choice',
                      'active recovery in the quick tier never reports a node healthy (the check function is ours); a healthy answer and '
                      'the recycle timers are exercised with real timers and condition polling',
                      'TLC model checking is exhaustive only for the bounded instances listed in tlc_runs']


main('C20', check)
