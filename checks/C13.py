"""C13 - only valid, latest-loaded rules are in force; reported rules equal enforced rules.

S1  TLC checks RuleStore.tla exhaustively: the design (raw-input cache for unchanged-detection, grouped whole-set
    path, per-resource path, refused loads) satisfies the property level (want = valid rules of the most recent load
    per resource, getters = enforced, identical reload = unchanged) for all mixed sequences of whole-set / per-resource
    loads and clears over lists of valid / near-equal / invalid / nil elements; six deliberately broken variants of the
    spec must be caught (vacuity self-test).
S2  scenarios: (a) one per transition of a small bounded instance of the same spec, per module descriptor,
    (b) TLC random simulation of a larger instance, (c) seeded random sequences with longer lists.  Abstract tokens are
    mapped onto the concrete token table of each of the six modules; the k-th invalid token cycles through every
    field-wise invalidity of the module's IsValid... function.
    NEAR-EQUAL VARIANTS: tokens "R1a" / "R1b" stand for the rule of "R1" with ONE field changed slightly (fractional
    threshold, +-1 on an integer field, a flipped enum; the driver's delta table has an entry for every field a module's
    rule equality / controller reuse looks at).  The spec treats them as different rules (identity = full field tuple),
    models controller reuse explicitly (Rebuild) and names the failure of a too coarse equality (NoStaleVariant, spec
    mutants coarseReuse / coarseUnchanged); scenario families (d) transitions of spec instances over {R1, R1a, R1b},
    (e) fixed reload patterns old -> near-equal new for EVERY (module, base rule, field), (f) random sequences.
S3  harness/cmd/c13 replays them on the real rule managers (fresh rule objects per call, panics recovered) and records
    the returned (changed, err, panicked), GetRules()/GetRulesOfResource() and the answers of probing requests.
S4  RuleStore_Trace.tla (TLC) judges every recorded observable with the operators of RuleStore.tla.
"""
import json, os, sys
import vlib
from vlib import main, write_ndjson, read_ndjson, MachineryError

MODS = ['flow', 'isolation', 'hotspot', 'circuitbreaker', 'system', 'outlier']
LIST_BASED = ['flow', 'isolation', 'hotspot', 'circuitbreaker']
NVAR = dict(flow=16, isolation=3, hotspot=9, circuitbreaker=6, system=4, outlier=8)
VALID = ['R1', 'R2', 'R3']
INVALID = ['I1', 'I2', 'I3']
NEAR = {}        # module -> base token -> [names of the near-equal variants], read from the driver (c13 -describe)
INVS = 'TypeOK EnforcedIsLatestValid NothingElseEnforced OnlyValidEnforced ReportedIsEnforced NoStaleVariant IdenticalReloadUnchanged'


def is_near(tok):
    return len(tok) == 3 and tok[0] == 'R'


def near_tok(mod, tok):
    """a near token the module has no (second) variant for falls back to the first variant / the base token"""
    if not is_near(tok):
        return tok
    n = len(NEAR[mod][tok[:2]])
    return tok[:2] if n == 0 else tok[:2] + 'a' if n == 1 else tok


def mc_cfg(descs, resources, tokens, maxlen, mutant='none', check=True, extra='', invs=None):
    return """SPECIFICATION Spec
CONSTANTS
  Descs <- %s
  Resources = {%s}
  Tokens = {%s}
  MaxLen = %d
  Mutant = "%s"
VIEW view
%s
CHECK_DEADLOCK FALSE
%s""" % (descs, ', '.join('"%s"' % r for r in resources), ', '.join('"%s"' % t for t in tokens), maxlen, mutant,
         'INVARIANTS ' + (invs or INVS) + '\nPROPERTIES ErrorMeansRejected' if check else '', extra)


# ---------------------------------------------------------------------------------------------- scenarios
def variants(mod, tr):
    """the k-th invalid token of scenario tr carries variant 3*tr+k: every field-wise invalidity comes round;
    the near tokens <base>a / <base>b carry the deltas 2*tr / 2*tr+1 of the module's table for that base"""
    v = {t: (3 * tr + k) % NVAR[mod] for k, t in enumerate(INVALID)}
    for b in VALID:
        n = len(NEAR[mod][b])
        if n:
            v[b + 'a'] = (2 * tr) % n
        if n > 1:
            v[b + 'b'] = (2 * tr + 1) % n
    return v


def concretise(hist, mod, tr, rng):
    """TLC history over abstract tokens {R1, R2, I1, Nil} / resources -> driver scenario of module mod (or None)"""
    vmap = dict(zip(['R1', 'R2', 'R3'], rng.sample(VALID, 3)))
    imap = dict(zip(['I1', 'I2', 'I3'], rng.sample(INVALID, 3)))
    out = [dict(op='new', tr=tr, mod=mod, var=variants(mod, tr))]
    for o in hist:
        lst = []
        for tok, res in o['list']:
            if is_near(tok):
                tok = near_tok(mod, vmap[tok[:2]] + tok[2])
            else:
                tok = vmap.get(tok, imap.get(tok, tok))
            if mod == 'system' and tok != 'Nil':
                res = 'sys'
            lst.append([tok, res])
        o = dict(op=o['op'], scope=o['scope'], list=lst)
        if mod == 'outlier' and not outlier_ok(o):
            break
        out.append(o)
    return out if len(out) > 1 else None


def outlier_ok(o):
    """outlier holds ONE rule per resource: whole-set lists name each resource at most once, a per-resource load is one (non-nil) rule"""
    if o['op'] == 'clear':
        return True
    if o['scope'] != '*':
        # (LoadRuleOfResource(res, nil) IS the per-resource clear: a nil element cannot be expressed on this path)
        return len(o['list']) <= 1 and all(t != 'Nil' for t, _ in o['list'])
    rs = [r for t, r in o['list'] if t != 'Nil']
    return len(rs) == len(set(rs))


def random_scenario(rng, mod, tr, near=False):
    ress = ['sys'] if mod == 'system' else ['r1', 'r2']
    per_res = mod != 'system'
    use_nil = rng.random() < 0.3
    foreign = rng.random() < 0.15
    s = [dict(op='new', tr=tr, mod=mod, var=variants(mod, tr))]
    prev = None
    near_base = rng.choice(VALID) if near else None
    for _ in range(rng.randint(2, 7)):
        x = rng.random()
        if prev is not None and x < 0.22:
            o = json.loads(json.dumps(prev))          # identical reload
        elif x < 0.38 and [q for q in s[1:] if q['op'] == 'load' and q['list']]:
            o = json.loads(json.dumps(rng.choice([q for q in s[1:] if q['op'] == 'load' and q['list']])))   # an earlier load again (after clears / other loads)
        else:
            y = rng.random()
            if not per_res:
                kind = 'load*' if y < 0.85 else 'clear*'
            else:
                kind = 'load*' if y < 0.4 else 'loadr' if y < 0.75 else 'clear*' if y < 0.85 else 'clearr'
            scope = '*' if kind.endswith('*') else rng.choice(ress)
            lst = []
            if kind.startswith('load'):
                n = rng.choice([0, 1, 1, 2, 2, 2, 3, 3, 4])
                if mod == 'outlier' and scope != '*':
                    n = 1
                for _ in range(n):
                    z = rng.random()
                    tok = rng.choice(VALID) if z < 0.6 else ('Nil' if (use_nil and z > 0.9 and not (mod == 'outlier' and scope != '*')) else rng.choice(INVALID))
                    if tok == 'Nil':
                        lst.append(['Nil', '-'])
                        continue
                    if near and tok[0] == 'R':        # mostly variants of ONE base rule: reloads old -> near-equal new
                        if rng.random() < 0.7:
                            tok = near_base
                        tok = near_tok(mod, tok + rng.choice(['', 'a', 'b']))
                    res = scope if scope != '*' else rng.choice(ress)
                    if scope != '*' and foreign and rng.random() < 0.3:
                        res = [r for r in ress if r != scope][0]
                    lst.append([tok, res])
                if mod == 'outlier' and scope == '*':      # one rule per resource
                    seen, l2 = set(), []
                    for t, r in lst:
                        if t == 'Nil' or r not in seen:
                            l2.append([t, r])
                        if t != 'Nil':
                            seen.add(r)
                    lst = l2
            o = dict(op='load' if kind.startswith('load') else 'clear', scope=scope, list=lst)
        s.append(o)
        prev = o if o['op'] == 'load' else None
    return s


def pattern_scenarios(mod, tr0):
    """deterministic sequences every run replays: reload after a clear / after an overlapping load, identical reloads
    across scopes, invalid-only loads - the patterns the unchanged-detection caches and the two load paths can get wrong"""
    single = mod == 'outlier'
    if mod == 'system':
        L1, L2 = [['R1', 'sys'], ['I1', 'sys'], ['R2', 'sys']], [['R3', 'sys']]
        seqs = [[('load', '*', L1), ('clear', '*', []), ('load', '*', L1)],
                [('load', '*', L1), ('load', '*', L1), ('load', '*', L2), ('load', '*', L1)],
                [('load', '*', [['I1', 'sys']]), ('load', '*', L2), ('load', '*', [['I2', 'sys'], ['I3', 'sys']])],
                [('load', '*', L1), ('load', '*', []), ('load', '*', L1), ('load', '*', L1)]]
    else:
        L1 = [['R1', 'r1']] if single else [['R1', 'r1'], ['I1', 'r1'], ['R2', 'r1']]
        L2 = [['R3', 'r1']]
        M = [['R2', 'r2']]
        Linv = [['I2', 'r1']] if single else [['I2', 'r1'], ['I3', 'r1']]
        seqs = [[('load', '*', L1), ('clear', '*', []), ('load', '*', L1)],
                [('load', 'r1', L1), ('clear', 'r1', []), ('load', 'r1', L1)],
                [('load', 'r1', L1), ('load', 'r1', []), ('load', 'r1', L1), ('load', 'r1', L1)],
                [('load', '*', L1), ('load', 'r1', L2), ('load', '*', L1)],
                [('load', 'r1', L1), ('load', '*', M), ('load', 'r1', L1)],
                [('load', '*', L1 + M), ('clear', 'r1', []), ('load', '*', L1 + M)],
                [('load', '*', L1 + M), ('load', 'r1', L1), ('load', 'r1', L1), ('clear', '*', []), ('load', 'r1', L1)],
                [('load', 'r1', L1), ('load', 'r2', M), ('load', 'r1', L1), ('load', 'r2', M)],
                [('load', '*', Linv), ('load', '*', L2), ('load', '*', Linv)],
                [('load', 'r1', L2), ('load', 'r1', Linv), ('load', 'r1', L2)],
                [('load', '*', M + L1), ('load', '*', L1 + M), ('clear', 'r2', []), ('load', 'r2', M)]]
    out = []
    for i, q in enumerate(seqs):
        tr = tr0 + i + 1
        out.append([dict(op='new', tr=tr, mod=mod, var=variants(mod, tr))] + [dict(op=o, scope=sc, list=l) for o, sc, l in q])
    return out


def near_patterns(mod, tr0):
    """for EVERY near-equal variant (base rule b, field k) of the module: reloads b -> variant -> b, variant -> the same
    variant (identical) -> the next variant, on the whole-set path, on the per-resource path, across the two paths, and
    with an unchanged neighbour before / behind it in the list"""
    res = 'sys' if mod == 'system' else 'r1'
    per_res, single = mod != 'system', mod == 'outlier'
    out, tr = [], tr0
    for b in VALID:
        n = len(NEAR[mod][b])
        for k in range(n):
            var = {b + 'a': k}
            if n > 1:
                var[b + 'b'] = (k + 1) % n
            B, Ba = [[b, res]], [[b + 'a', res]]
            Bb = [[b + 'b', res]] if n > 1 else B
            X = [[[x for x in VALID if x != b][k % 2], res]]
            seqs = [[('load', '*', B), ('load', '*', Ba), ('load', '*', B)]]
            if per_res:
                seqs += [[('load', res, B), ('load', res, Ba), ('load', res, Ba), ('load', res, Bb)],
                         [('load', res, Ba), ('load', '*', Bb), ('load', res, B)]]
            else:
                seqs += [[('load', '*', Ba), ('load', '*', Ba), ('load', '*', Bb)]]
            if not single:
                seqs += [[('load', '*', X + B), ('load', '*', X + Ba), ('load', '*', Bb + X)]]
                if per_res:
                    seqs += [[('load', res, B + X), ('load', res, Ba + X), ('load', res, X + Bb)]]
            for q in seqs:
                tr += 1
                out.append([dict(op='new', tr=tr, mod=mod, var=dict(variants(mod, tr), **var))] + [dict(op=o, scope=sc, list=l) for o, sc, l in q])
    return out


def near_reloads(s):
    """{(base, delta index)} of the variants that take part in a reload old -> near-equal new (same resource, same base
    token, different rule) in scenario s"""
    var, cur, out = s[0]['var'], {}, set()
    for o in s[1:]:
        by_res = {}
        for t, r in o['list']:
            by_res.setdefault(r, []).append(t)
        scope = o['scope']
        for r in (set(cur) | set(by_res)) if scope == '*' else [scope]:
            new = by_res.get(r, [])
            for t in new:
                for u in cur.get(r, []):
                    if t != u and t[0] == 'R' and t[:2] == u[:2]:
                        out |= {(x[:2], var[x]) for x in (t, u) if is_near(x)}
            cur[r] = new
    return out


def nontrivial(s):
    """exercises the property: an invalid / nil element, an identical non-empty reload, or whole-set and per-resource ops mixed"""
    ops = s[1:]
    if len(ops) < 2:
        return False
    inv = any(t[0] in 'IN' for o in ops for t, _ in o['list'])
    ident = any(a == b and a['op'] == 'load' and a['list'] for a, b in zip(ops, ops[1:]))
    mixed = any(o['scope'] == '*' for o in ops) and any(o['scope'] != '*' for o in ops)
    return inv or ident or mixed or bool(near_reloads(s))


def maximal(hs):
    keys = sorted(json.dumps(x, sort_keys=True)[:-1] for x in hs)
    out = []
    for i, k in enumerate(keys):
        if i + 1 < len(keys) and keys[i + 1].startswith(k) and (keys[i + 1] == k or keys[i + 1][len(k)] == ','):
            continue
        out.append(json.loads(k + ']'))
    return out


# ---------------------------------------------------------------------------------------------- run + validate
def run_and_validate(c, drv, scns, tag):
    """returns (mismatches [(tr, event, expected-dict)], trace path)"""
    sp = os.path.join(c.scratch, tag + '.scn.ndjson')
    tp = os.path.join(c.scratch, tag + '.trace.ndjson')
    write_ndjson(sp, [o for s in scns for o in s])
    c.run([drv, sp, tp], timeout=900)
    lines = open(tp).read().splitlines()
    nlines = len(lines)
    mism, consumed, r = c.validate('RuleStore_Trace', tp, nlines)
    if consumed != nlines:
        raise MachineryError('%s: trace validation consumed %d of %d lines (malformed trace?)\n%s' % (tag, consumed, nlines, r.out[-1500:]))
    c.cov['traces_validated_against_impl'] += len(scns)
    c.cov['evaluations'] += nlines
    c.log('S3/S4 %s: %d scenarios, %d events validated in %.0fs, %d mismatching traces' % (tag, len(scns), nlines, r.wall, len(mism)))
    out = []
    for trn, ln, exp in mism:
        out.append((trn, json.loads(lines[ln - 1]), json.loads(exp)))
    return out, tp


def signature(ev, exp, scn=None):
    """minimal failing pattern of a mismatch: (known-finding key or generic signature, human text)"""
    mod, why = exp['mod'], exp['why']
    toks = [t for t, _ in ev['list']]
    whole = ev['scope'] == '*'
    path = 'whole-set-load' if whole else 'per-resource-load'
    if ev['op'] == 'clear':
        path = 'whole-set-clear' if whole else 'per-resource-clear'
    if 'panic' in why:
        if ev.get('where'):
            return ('C13/%s/%s/getter-or-probe-panics' % (mod, path), '%s: a getter or a probing request panics after %s of %s' % (mod, path, ev['list']))
        if 'Nil' in toks:
            return ('C13/%s/nil-element/panic' % mod,
                    '%s: %s of a list containing a nil element panics' % (mod, 'LoadRules' if whole else 'LoadRulesOfResource'))
        if mod == 'outlier' and scn and any(t in scn[0]['var'] and scn[0]['var'][t] % NVAR['outlier'] == 7 for t in toks):
            return ('C13/outlier/nil-embedded-rule/panic', 'outlier: LoadRules of a rule whose embedded circuit breaker rule is nil panics')
        return ('C13/%s/%s/panic' % (mod, path), '%s: %s panics on %s' % (mod, path, ev['list']))
    if why == ['unchanged']:
        if mod == 'flow' and 'R2' in toks:
            return ('C13/flow/warmup-cold-factor-defaulted-in-callers-rule/identical-reload-reports-changed',
                    'flow: an identical reload of a list with a warm-up rule whose WarmUpColdFactor is 0 reports "changed" '
                    '(the first load wrote the default cold factor into the cached caller rule)')
        if mod == 'hotspot' and 'R1' in toks:
            return ('C13/hotspot/nil-specific-items-replaced-in-callers-rule/identical-reload-reports-changed',
                    'hotspot: an identical reload of a list with a rule whose SpecificItems is nil reports "changed" '
                    '(the first load stored an empty map into the cached caller rule)')
        return ('C13/%s/%s/identical-reload-reports-changed' % (mod, path), '%s: identical reload of %s reports changed/err' % (mod, ev['list']))
    want = exp['want']
    if 'stale' in why:
        # RuleStore!NoStaleVariant on the observed behaviour: a request is refused by a rule that is not in force although
        # a near-equal variant of it (same resource, one field differs slightly) is
        st = exp['stale'][0]
        var = scn[0]['var'] if scn else {}
        names = ['%s = %s with %s' % (t, t[:2], NEAR[mod][t[:2]][var[t]]) for t in sorted({st['by']} | {x[0] for x in want.get(st['res'], [])})
                 if is_near(t) and t in var and t[:2] == st['by'][:2]]
        return ('C13/%s/%s/near-equal-reload-keeps-old-rule' % (mod, path),
                '%s: after %s %s of %s a request of %s (probe %s) is refused by rule %s, which is NOT in force: the rules of the latest load are %s and '
                'the getters report them, but the controller of the near-equal earlier rule survived the reload [%s]' % (
                    mod, path, ev['scope'], ev['list'], st['res'], st['p'], st['by'], json.dumps(want.get(st['res'], [])), '; '.join(names)))
    # a rule set differs from the demanded one: attribute EVERY discrepancy the spec names (badp / badrep / badall)
    invalid_in_list = [t for t in toks if t[0] == 'I']
    foreign = [[t, r] for t, r in ev['list'] if not whole and r != ev['scope'] and t[0] == 'R']
    K12 = 'C13/circuitbreaker/per-resource-load/invalid-rule-enforced'
    KF = 'C13/%s/per-resource-load/rule-of-other-resource-accepted' % mod
    texts = {K12: 'circuitbreaker: LoadRulesOfResource builds breakers from the raw list: an invalid rule trips and blocks traffic while GetRules omits it',
             KF: '%s: LoadRulesOfResource(%s) accepts a rule that names another resource (%s): it is reported by the getters%s' % (
                 mod, ev['scope'], foreign, ' and governs the traffic of %s' % ev['scope'] if mod == 'isolation' else ' although no controller exists for it')}
    keys = set()
    if ev['op'] == 'load' and not whole and 'unchanged' not in why:
        for p in exp['badp']:
            if mod == 'circuitbreaker' and p.get('by') in invalid_in_list and p['res'] == ev['scope']:
                keys.add(K12)
            elif p.get('by') in ['?%s@%s' % (t, r) for t, r in foreign] and p['res'] == ev['scope']:
                keys.add(KF)
            else:
                keys.add('?')
        for got_of, bad in ((ev.get('rep', {}), exp['badrep']), (ev['all'], exp['badall'])):
            for r in bad:
                rest = list(got_of[r])
                for x in want.get(r, []):
                    if x in rest:
                        rest.remove(x)
                    else:
                        keys.add('?')          # a demanded rule is missing
                keys |= {KF if x in foreign else '?' for x in rest}
        if keys and '?' not in keys:
            ks = sorted(keys)
            return (' + '.join(ks), ' AND '.join(texts[k] for k in ks))
    return ('C13/%s/%s/%s' % (mod, path, '+'.join(why)),
            '%s: after %s %s of %s the rules in force / reported differ from the valid rules of the latest load %s' % (mod, path, ev['scope'], ev['list'], json.dumps(want)))


def handle_mismatches(c, drv, scns, mism, tag, groups):
    """group by signature; the shortest scenario of each group is confirmed twice and reported once"""
    by_tr = {s[0]['tr']: s for s in scns}
    for trn, ev, exp in mism:
        s = by_tr[trn]
        key, what = signature(ev, exp, s)
        # the failing prefix is enough to reproduce
        g = groups.setdefault(key, dict(what=what, n=0, best=None, ev=None, exp=None))
        g['n'] += 1
        if g['best'] is None or len(json.dumps(s)) < len(json.dumps(g['best'])):
            g['best'], g['ev'], g['exp'] = s, ev, exp


def candidates(s):
    """scenarios one step smaller: one operation dropped, or one element of one list dropped"""
    out = []
    for i in range(1, len(s)):
        if len(s) > 2:
            out.append(s[:i] + s[i + 1:])
        for j in range(len(s[i]['list'])):
            o = dict(s[i], list=s[i]['list'][:j] + s[i]['list'][j + 1:])
            out.append(s[:i] + [o] + s[i + 1:])
            if i + 1 < len(s) and s[i + 1] == s[i]:      # identical reload: shrink both alike
                out.append(s[:i] + [o, dict(o)] + s[i + 2:])
    return out


def run_batch(c, drv, items, tag):
    """items: [(key, scenario)] -> {index: text} of the scenarios that fail with signature key (one fresh driver process)"""
    scns = []
    for i, (key, s) in enumerate(items):
        scns.append([dict(s[0], tr=i + 1)] + s[1:])
    if not scns:
        return {}
    mism, _ = run_and_validate(c, drv, scns, tag)
    out = {}
    for trn, ev, exp in mism:
        key, what = signature(ev, exp, scns[trn - 1])
        if key == items[trn - 1][0]:
            out[trn - 1] = what
    return out


def conclude(c, drv, groups):
    """per signature group: minimise the shortest failing scenario, confirm it twice in fresh processes, report once"""
    if not groups:
        return
    cur = {key: g['best'] for key, g in groups.items()}
    for rnd in range(8):
        items = [(key, cand) for key in sorted(cur) for cand in candidates(cur[key])]
        ok = run_batch(c, drv, items, 'min%d' % rnd)
        progress = False
        for key in sorted(cur):
            good = [items[i][1] for i in ok if items[i][0] == key]
            if good:
                cur[key] = min(good, key=lambda x: len(json.dumps(x)))
                progress = True
        if not progress:
            break
    items = [(key, cur[key]) for key in sorted(cur)]
    confirmed = {i: 0 for i in range(len(items))}
    texts = {}
    for k in range(2):
        for i, what in run_batch(c, drv, items, 'confirm%d' % k).items():
            confirmed[i] += 1
            texts[i] = what
    for i, (key, s) in enumerate(items):
        g = groups[key]
        if confirmed[i] < 2:
            c.inconclusive.append('mismatch %s did not reproduce (%d/2)' % (key, confirmed[i]))
            continue
        rp = c.save_replay(key.replace(' + ', '+').replace('C13/', '').replace('/', '_') + '.ndjson', s)
        what = '%s  [%d failing scenarios; minimal: %s]' % (texts[i], g['n'], json.dumps(s))
        c.cov.setdefault('failing_groups', {})[key] = dict(scenarios=g['n'], minimal=s)
        parts = key.split(' + ')        # a failure may be the joint effect of several listed defects
        if all(c.is_known(k) for k in parts):
            for k in parts:
                c.known(k, c.kf[k]['description'])
        else:
            c.violation(what, rp)


# ---------------------------------------------------------------------------------------------- binding self-test
def binding_selftest(c, tp, bad_trs):
    """corrupt one recorded field in each of the first good traces: every one must be rejected"""
    lines = [json.loads(l) for l in open(tp)]
    out, n, want, cur, done, kinds = [], 0, set(), None, True, {}
    for e in lines:
        if e['op'] == 'new':
            cur = e['tr']
            if n >= 60:
                break
            done = cur in bad_trs
            if not done:
                n += 1
        elif not done and not e['panic'] and e['probes']:
            k = c.rng.choice(['probe', 'rep', 'all', 'panic', 'extra'])
            if k == 'probe':
                p = c.rng.choice(e['probes'])
                if 'hit' in p:
                    p['hit'] = not p['hit']
                else:
                    p['by'] = 'I1' if p['by'] == 'pass' else 'pass'
            elif k == 'rep' and e.get('rep'):
                r = c.rng.choice(sorted(e['rep']))
                e['rep'][r] = e['rep'][r][1:] if e['rep'][r] else [['R1', r]]
            elif k == 'all' or k == 'rep':
                r = c.rng.choice(sorted(e['all']))
                e['all'][r] = e['all'][r][1:] if e['all'][r] else [['R2', r]]
            elif k == 'panic':
                e['panic'] = True
            else:
                r = sorted(e['all'])[0]
                e['all'][r] = e['all'][r] + [['I1', r]]
            kinds[k] = kinds.get(k, 0) + 1
            done = True
            want.add(cur)
        out.append(e)
    cp = os.path.join(c.scratch, 'corrupt.ndjson')
    write_ndjson(cp, out)
    mism, consumed, r = c.validate('RuleStore_Trace', cp, len(out))
    got = {m[0] for m in mism} - set(bad_trs)
    if got != want or not want:
        raise MachineryError('binding self-test failed: corrupted traces %s, rejected %s' % (sorted(want), sorted(got)))
    c.cov['binding_selftest'] = '%d corrupted traces (%s), all rejected' % (len(want), kinds)
    c.log('binding self-test: %d corrupted traces (%s), all rejected by RuleStore_Trace' % (len(want), kinds))


# ---------------------------------------------------------------------------------------------- the check
def check(c, tier, replay):
    drv = c.build('c13')
    NEAR.update(json.loads(c.run([drv, '-describe']).stdout))
    groups = {}
    if replay:
        s = read_ndjson(replay)
        mism, _ = run_and_validate(c, drv, [s], 'replay')
        c.cov['states'] = c.cov['transitions'] = 1
        c.sample(s[:6])
        if mism:
            handle_mismatches(c, drv, [s], mism, 'replay', groups)
            for key, g in groups.items():
                parts = key.split(' + ')
                if all(c.is_known(k) for k in parts):
                    for k in parts:
                        c.known(k, c.kf[k]['description'])
                else:
                    c.violation(g['what'], replay)
        return
    thorough = tier == 'thorough'
    # S1 ---------------------------------------------------------------------------------
    # The second valid token of the quick model is the near-equal variant R1a of R1: without a mutant the design treats it
    # like any other valid token (the state space is that of {R1, R2, I1}), and NoStaleVariant is checked non-trivially.
    if not thorough:
        runs = [('MCDescs', ['r1', 'r2'], ['R1', 'R1a', 'I1'], 2)]
    else:
        runs = [('MCDescs', ['r1', 'r2'], ['R1', 'R2', 'I1'], 2), ('MCDescs', ['r1', 'r2'], ['R1', 'R1a', 'R1b', 'I1'], 2),
                ('MCDescs', ['r1', 'r2'], ['R1', 'R2', 'R3', 'I1'], 2), ('MCDescs', ['r1'], ['R1', 'R2', 'I1'], 3),
                ('MCDescs', ['r1'], ['R1', 'R1a', 'R2'], 3)]
    for descs, ress, toks, ml in runs:
        r = c.model_check('RuleStore_MC', cfg_text=mc_cfg(descs, ress, toks, ml), workers=8, timeout=3000)
        if not r.completed:
            c.inconclusive.append('RuleStore.tla: %s violated - the spec no longer describes a correct design' % r.violated)
    c.cov['exhaustive'] = True
    # vacuity: every deliberately broken variant of the design must violate an invariant
    caught = {}
    for mut in ['rawBuild', 'staleClear', 'wrongCache', 'neverUnchanged', 'coarseReuse', 'coarseUnchanged']:
        # the two mutants with a too coarse rule equality must be caught by NoStaleVariant alone
        coarse = mut.startswith('coarse')
        r = c.tlc('RuleStore_MC', cfg_text=mc_cfg('MCDescs1', ['r1', 'r2'], ['R1', 'R1a', 'I1'], 2, mutant=mut, invs='NoStaleVariant' if coarse else None),
                  workers=4, timeout=600, count=False)
        if not r.violated:
            raise MachineryError('vacuity self-test: spec mutant %s is not caught by TLC (%s)' % (mut, r.error))
        caught[mut] = r.violated
    c.cov['spec_mutants_caught'] = caught
    c.log('vacuity self-test: spec mutants caught: %s' % caught)
    # S2 ---------------------------------------------------------------------------------
    scns, tr = [], 0
    cap = 250 if not thorough else 3000
    gen = [('MCDescs1', ['r1', 'r2'], ['R1', 'I1'], 1, LIST_BASED), ('MCDescs1', ['r1'], ['R1', 'R2', 'I1'], 2, LIST_BASED),
           ('MCDescsSys', ['sys'], ['R1', 'R2', 'I1'], 2, ['system']), ('MCDescsOut', ['r1', 'r2'], ['R1', 'I1'], 1, ['outlier'])]
    if thorough:
        gen.append(('MCDescs1', ['r1', 'r2'], ['R1'], 2, LIST_BASED))
    # (d) instances whose tokens are a rule and its near-equal variants: every transition is a reload old -> near-equal new,
    # an identical reload of a variant, or a clear in between
    ngen = [('MCDescs1', ['r1'], ['R1', 'R1a', 'R1b'], 2, LIST_BASED), ('MCDescs1', ['r1', 'r2'], ['R1', 'R1a'], 1, LIST_BASED),
            ('MCDescsSys', ['sys'], ['R1', 'R1a', 'R1b'], 2, ['system']), ('MCDescsOut', ['r1', 'r2'], ['R1', 'R1a'], 1, ['outlier'])]
    nscns = []

    def transition_cover(descs, ress, toks, ml, mods, into, tr):
        n = 0
        cfg = mc_cfg(descs, ress, toks, ml, check=False, extra='ACTION_CONSTRAINT Emit\n')
        r = c.tlc('RuleStore_MC', cfg_text=cfg, workers=4, timeout=900, count=False)
        if r.error:
            raise MachineryError('scenario generation failed: %s' % r.error)
        hs = maximal(r.json_prints())
        for mod in mods:
            keep = hs if len(hs) <= cap else c.rng.sample(hs, cap)
            k = 0
            for hhist in keep:
                s = concretise(hhist, mod, tr + 1, c.rng)
                if s:
                    tr += 1
                    k += 1
                    into.append(s)
            n += k
            c.log('S2 transition cover %s %s -> %s: %d maximal histories, %d scenarios' % (descs, '/'.join(toks), mod, len(hs), k))
        return n, tr

    cover_n = 0
    for g in gen:
        n, tr = transition_cover(*g, scns, tr)
        cover_n += n
    if not thorough:
        cap = 120
    # TLC simulation of a larger instance (3 valid + 2 invalid tokens + nil, lists <= 3)
    sim = []
    for descs, ress, mods in [('MCDescs1', ['r1', 'r2'], LIST_BASED), ('MCDescsSys', ['sys'], ['system']), ('MCDescsOut', ['r1', 'r2'], ['outlier'])]:
        cfg = mc_cfg(descs, ress, ['R1', 'R2', 'R3', 'I1', 'I2'], 3, check=False, extra='ACTION_CONSTRAINT Emit\n')
        num = 40 if not thorough else 400
        r = c.tlc('RuleStore_MC', cfg_text=cfg, workers=1, timeout=900, count=False,
                  args=['-simulate', 'num=%d' % num, '-depth', '6', '-seed', str(c.seed)])
        hs = maximal(r.json_prints())
        for i, hhist in enumerate(hs):
            s = concretise(hhist, mods[i % len(mods)], tr + 1, c.rng)
            if s:
                tr += 1
                sim.append(s)
        c.log('S2 TLC simulation %s: %d behaviours' % (descs, len(hs)))
    # seeded random sequences (longer lists, identical reloads, foreign-resource rules, nil elements)
    rnd = []
    nrand = 150 if not thorough else 1500
    for mod in MODS:
        for _ in range(nrand):
            tr += 1
            rnd.append(random_scenario(c.rng, mod, tr))
    pat = []
    for mod in MODS:
        for rep in range(2):        # twice: the invalid tokens carry other field-wise invalidities the second time
            ps = pattern_scenarios(mod, tr)
            tr += len(ps)
            pat += ps
    # (e) reloads old -> near-equal new for every (module, base rule, field), (f) random sequences over a rule and its variants
    npat, nrnd = [], []
    for g in ngen:
        n, tr = transition_cover(*g, nscns, tr)
        cover_n += n
    for mod in MODS:
        ps = near_patterns(mod, tr)
        tr += len(ps)
        npat += ps
    for mod in MODS:
        for _ in range(60 if not thorough else 600):
            tr += 1
            nrnd.append(random_scenario(c.rng, mod, tr, near=True))
    # S3 + S4 ----------------------------------------------------------------------------
    first = True
    for tag, group in (('tlc', scns), ('sim', sim), ('rnd', rnd), ('pat', pat), ('ntlc', nscns), ('npat', npat), ('nrnd', nrnd)):
        for i in range(0, len(group), 1500):
            part = group[i:i + 1500]
            mism, tp = run_and_validate(c, drv, part, '%s%d' % (tag, i))
            if first:
                binding_selftest(c, tp, {m[0] for m in mism})
                first = False
            c.cov['conformance_mismatches'] += len(mism)
            handle_mismatches(c, drv, part, mism, tag, groups)
    conclude(c, drv, groups)
    allscn = scns + sim + rnd + pat + nscns + npat + nrnd
    c.cov['distinct_nontrivial'] = len({json.dumps(s[1:], sort_keys=True) + s[0]['mod'] for s in allscn if nontrivial(s)})
    seen = set()
    for s in allscn:
        for o in s[1:]:
            for t, _ in o['list']:
                if t in s[0]['var']:
                    seen.add((s[0]['mod'], s[0]['var'][t] % NVAR[s[0]['mod']]))
    c.cov['invalid_variants_exercised'] = '%d of %d (module, field-wise invalidity) pairs' % (len(seen), sum(NVAR.values()))
    if len(seen) < sum(NVAR.values()):
        c.inconclusive.append('only %d of %d field-wise invalidities were exercised' % (len(seen), sum(NVAR.values())))
    nseen = {}
    for s in allscn:
        for b, k in near_reloads(s):
            nseen[(s[0]['mod'], b, k)] = nseen.get((s[0]['mod'], b, k), 0) + 1
    nall = [(m, b, k) for m in MODS for b in VALID for k in range(len(NEAR[m][b]))]
    c.cov['near_equal_reloads'] = '%d of %d (module, base rule, changed field) variants took part in a reload old -> near-equal new; %d scenarios contain one' % (
        len(nseen), len(nall), sum(1 for s in allscn if near_reloads(s)))
    c.cov['near_equal_variants'] = {m: {b: NEAR[m][b] for b in VALID} for m in MODS}
    missing = [x for x in nall if x not in nseen]
    if missing:
        c.inconclusive.append('near-equal variants never reloaded: %s' % missing[:10])
    c.cov['per_module'] = {m: sum(1 for s in allscn if s[0]['mod'] == m) for m in MODS}
    c.cov['rule'] = ('scenarios = one per transition of the bounded RuleStore spec per module (%d) + TLC random simulation (%d) + seeded '
                     'random sequences (%d) + %d fixed patterns + near-equal variants: %d reload patterns (one group per module, base rule and field) and %d '
                     'random sequences; non-trivial = distinct (module, operation sequence) with >= 2 operations that contains an '
                     'invalid or nil element, an identical non-empty reload, a reload old -> near-equal new, or mixes whole-set and per-resource operations'
                     % (cover_n, len(sim), len(rnd), len(pat), len(npat), len(nrnd)))
    c.sample(scns[len(scns) // 2])
    c.sample(sim[0] if sim else rnd[0])
    c.sample(rnd[len(rnd) // 2])
    c.sample(npat[len(npat) // 2])
    c.assumptions += ['callers pass freshly allocated rule objects on every call and never mutate them (the property\'s domain)',
                      'valid tokens use strategies the module implements (a rule that passes IsValidRule but names an unknown strategy has no controller)',
                      'outlier holds one rule per resource: whole-set lists name each resource at most once',
                      'a rule is identified by its ID, which the driver derives from the token (= the semantic fields)',
                      'near-equal variants: the probe table of a variant (which probing requests its rule refuses) is the driver\'s delta table '
                      '(c13 -calibrate compares it with a first load of every variant)',
                      'a load that returns an error may leave its scope as it was (RejectedLoad); "identical reload reports unchanged" is demanded for '
                      'non-empty loads only; the changed flag of a non-identical load is free',
                      'system: which of several violated rules is named, and the order of GetRules(), are free (map iteration)',
                      'TLC model checking is exhaustive only for the bounded universes listed in tlc_runs']


main('C13', check)
