"""C13 - only valid, latest-loaded rules are in force; reported rules equal enforced rules.

S1  TLC checks RuleStore.tla exhaustively: the design (raw-input cache for unchanged-detection, grouped whole-set
    path, per-resource path, refused loads) satisfies the property level (want = valid rules of the most recent load
    per resource, getters = enforced, identical reload = unchanged) for all mixed sequences of whole-set / per-resource
    loads and clears over lists of valid / near-equal / invalid / nil elements; six deliberately broken variants of the
    spec must be caught (vacuity self-test).
S2  scenarios: (a) one per transition of a small bounded instance of the same spec, per module descriptor,
    (b) TLC random simulation of a larger instance, (c) seeded random sequences with longer lists.  Abstract tokens are
    mapped onto the concrete token table of each of the six modules; the k-th invalid token cycles through every
    field-wise invalidity of the module's IsValid... function.
    NEAR-EQUAL VARIANTS: tokens "R1a" / "R1b" stand for the rule of "R1" with ONE field changed slightly (fractional
    threshold, +-1 on an integer field, a flipped enum; the driver's delta table has an entry for every field a module's
    rule equality / controller reuse looks at).  The spec treats them as different rules (identity = full field tuple),
    models controller reuse explicitly (Rebuild) and names the failure of a too coarse equality (NoStaleVariant, spec
    mutants coarseReuse / coarseUnchanged); scenario families (d) transitions of spec instances over {R1, R1a, R1b},
    (e) fixed reload patterns old -> near-equal new for EVERY (module, base rule, field), (f) random sequences.
    PARAMETER SWEEP (g): the statement quantifies over EVERY rule the module's validity check accepts, whatever its numbers.
    Tokens "P1".."P3" stand for RULE RECORDS (the numeric fields of the module's rule type) drawn from boundary-rich ranges
    (flow statistic intervals 0..20000 that are / are not multiples or divisors of 500 / 1000 / 10000, thresholds 0 /
    fractional / large, warm-up, queueing, memory water marks; breaker intervals x bucket counts that divide or not, retry
    timeouts, minimum request amounts, ratios and counts; hotspot durations, bursts, capacities; isolation thresholds;
    system trigger counts; outlier ejection percentages).  RuleStore!ValidRule - the transcription of each module's
    IsValidRule - says which records are valid rules (the driver never asks the library); a valid one must be reported
    and ENFORCED (probe traffic derived from its numbers, every request judged by RuleStore!Verdict / Trips / Ejects), an
    invalid one must be absent.  Design level: the controller of every valid rule must be buildable (sample count of the
    flow statistic, bucket count of a breaker; EveryValidRuleBuildable, spec mutants naiveSampleCount / keepBucketCount).
S3  harness/cmd/c13 replays them on the real rule managers (fresh rule objects per call, panics recovered) and records
    the returned (changed, err, panicked), GetRules()/GetRulesOfResource() and the answers of probing requests.
S4  RuleStore_Trace.tla (TLC) judges every recorded observable with the operators of RuleStore.tla.
"""
import json, os, sys
import vlib
from vlib import main, write_ndjson, read_ndjson, MachineryError

MODS = ['flow', 'isolation', 'hotspot', 'circuitbreaker', 'system', 'outlier']
LIST_BASED = ['flow', 'isolation', 'hotspot', 'circuitbreaker']
NVAR = dict(flow=16, isolation=3, hotspot=9, circuitbreaker=6, system=4, outlier=8)
VALID = ['R1', 'R2', 'R3']
INVALID = ['I1', 'I2', 'I3']
NEAR = {}        # module -> base token -> [names of the near-equal variants], read from the driver (c13 -describe)
INVS = 'TypeOK EnforcedIsLatestValid NothingElseEnforced OnlyValidEnforced ReportedIsEnforced NoStaleVariant IdenticalReloadUnchanged EveryValidRuleBuildable'


def is_near(tok):
    return len(tok) == 3 and tok[0] == 'R'


def near_tok(mod, tok):
    """a near token the module has no (second) variant for falls back to the first variant / the base token"""
    if not is_near(tok):
        return tok
    n = len(NEAR[mod][tok[:2]])
    return tok[:2] if n == 0 else tok[:2] + 'a' if n == 1 else tok


def mc_cfg(descs, resources, tokens, maxlen, mutant='none', check=True, extra='', invs=None):
    return """SPECIFICATION Spec
CONSTANTS
  Descs <- %s
  Resources = {%s}
  Tokens = {%s}
  MaxLen = %d
  Mutant = "%s"
VIEW view
%s
CHECK_DEADLOCK FALSE
%s""" % (descs, ', '.join('"%s"' % r for r in resources), ', '.join('"%s"' % t for t in tokens), maxlen, mutant,
         'INVARIANTS ' + (invs or INVS) + '\nPROPERTIES ErrorMeansRejected' if check else '', extra)


# ---------------------------------------------------------------------------------------------- scenarios
def variants(mod, tr):
    """the k-th invalid token of scenario tr carries variant 3*tr+k: every field-wise invalidity comes round;
    the near tokens <base>a / <base>b carry the deltas 2*tr / 2*tr+1 of the module's table for that base"""
    v = {t: (3 * tr + k) % NVAR[mod] for k, t in enumerate(INVALID)}
    for b in VALID:
        n = len(NEAR[mod][b])
        if n:
            v[b + 'a'] = (2 * tr) % n
        if n > 1:
            v[b + 'b'] = (2 * tr + 1) % n
    return v


def concretise(hist, mod, tr, rng):
    """TLC history over abstract tokens {R1, R2, I1, Nil} / resources -> driver scenario of module mod (or None)"""
    vmap = dict(zip(['R1', 'R2', 'R3'], rng.sample(VALID, 3)))
    imap = dict(zip(['I1', 'I2', 'I3'], rng.sample(INVALID, 3)))
    out = [dict(op='new', tr=tr, mod=mod, var=variants(mod, tr))]
    for o in hist:
        lst = []
        for tok, res in o['list']:
            if is_near(tok):
                tok = near_tok(mod, vmap[tok[:2]] + tok[2])
            else:
                tok = vmap.get(tok, imap.get(tok, tok))
            if mod == 'system' and tok != 'Nil':
                res = 'sys'
            lst.append([tok, res])
        o = dict(op=o['op'], scope=o['scope'], list=lst)
        if mod == 'outlier' and not outlier_ok(o):
            break
        out.append(o)
    return out if len(out) > 1 else None


def outlier_ok(o):
    """outlier holds ONE rule per resource: whole-set lists name each resource at most once, a per-resource load is one (non-nil) rule"""
    if o['op'] == 'clear':
        return True
    if o['scope'] != '*':
        # (LoadRuleOfResource(res, nil) IS the per-resource clear: a nil element cannot be expressed on this path)
        return len(o['list']) <= 1 and all(t != 'Nil' for t, _ in o['list'])
    rs = [r for t, r in o['list'] if t != 'Nil']
    return len(rs) == len(set(rs))


def random_scenario(rng, mod, tr, near=False):
    ress = ['sys'] if mod == 'system' else ['r1', 'r2']
    per_res = mod != 'system'
    use_nil = rng.random() < 0.3
    foreign = rng.random() < 0.15
    s = [dict(op='new', tr=tr, mod=mod, var=variants(mod, tr))]
    prev = None
    near_base = rng.choice(VALID) if near else None
    for _ in range(rng.randint(2, 7)):
        x = rng.random()
        if prev is not None and x < 0.22:
            o = json.loads(json.dumps(prev))          # identical reload
        elif x < 0.38 and [q for q in s[1:] if q['op'] == 'load' and q['list']]:
            o = json.loads(json.dumps(rng.choice([q for q in s[1:] if q['op'] == 'load' and q['list']])))   # an earlier load again (after clears / other loads)
        else:
            y = rng.random()
            if not per_res:
                kind = 'load*' if y < 0.85 else 'clear*'
            else:
                kind = 'load*' if y < 0.4 else 'loadr' if y < 0.75 else 'clear*' if y < 0.85 else 'clearr'
            scope = '*' if kind.endswith('*') else rng.choice(ress)
            lst = []
            if kind.startswith('load'):
                n = rng.choice([0, 1, 1, 2, 2, 2, 3, 3, 4])
                if mod == 'outlier' and scope != '*':
                    n = 1
                for _ in range(n):
                    z = rng.random()
                    tok = rng.choice(VALID) if z < 0.6 else ('Nil' if (use_nil and z > 0.9 and not (mod == 'outlier' and scope != '*')) else rng.choice(INVALID))
                    if tok == 'Nil':
                        lst.append(['Nil', '-'])
                        continue
                    if near and tok[0] == 'R':        # mostly variants of ONE base rule: reloads old -> near-equal new
                        if rng.random() < 0.7:
                            tok = near_base
                        tok = near_tok(mod, tok + rng.choice(['', 'a', 'b']))
                    res = scope if scope != '*' else rng.choice(ress)
                    if scope != '*' and foreign and rng.random() < 0.3:
                        res = [r for r in ress if r != scope][0]
                    lst.append([tok, res])
                if mod == 'outlier' and scope == '*':      # one rule per resource
                    seen, l2 = set(), []
                    for t, r in lst:
                        if t == 'Nil' or r not in seen:
                            l2.append([t, r])
                        if t != 'Nil':
                            seen.add(r)
                    lst = l2
            o = dict(op='load' if kind.startswith('load') else 'clear', scope=scope, list=lst)
        s.append(o)
        prev = o if o['op'] == 'load' else None
    return s


def pattern_scenarios(mod, tr0):
    """deterministic sequences every run replays: reload after a clear / after an overlapping load, identical reloads
    across scopes, invalid-only loads - the patterns the unchanged-detection caches and the two load paths can get wrong"""
    single = mod == 'outlier'
    if mod == 'system':
        L1, L2 = [['R1', 'sys'], ['I1', 'sys'], ['R2', 'sys']], [['R3', 'sys']]
        seqs = [[('load', '*', L1), ('clear', '*', []), ('load', '*', L1)],
                [('load', '*', L1), ('load', '*', L1), ('load', '*', L2), ('load', '*', L1)],
                [('load', '*', [['I1', 'sys']]), ('load', '*', L2), ('load', '*', [['I2', 'sys'], ['I3', 'sys']])],
                [('load', '*', L1), ('load', '*', []), ('load', '*', L1), ('load', '*', L1)]]
    else:
        L1 = [['R1', 'r1']] if single else [['R1', 'r1'], ['I1', 'r1'], ['R2', 'r1']]
        L2 = [['R3', 'r1']]
        M = [['R2', 'r2']]
        Linv = [['I2', 'r1']] if single else [['I2', 'r1'], ['I3', 'r1']]
        seqs = [[('load', '*', L1), ('clear', '*', []), ('load', '*', L1)],
                [('load', 'r1', L1), ('clear', 'r1', []), ('load', 'r1', L1)],
                [('load', 'r1', L1), ('load', 'r1', []), ('load', 'r1', L1), ('load', 'r1', L1)],
                [('load', '*', L1), ('load', 'r1', L2), ('load', '*', L1)],
                [('load', 'r1', L1), ('load', '*', M), ('load', 'r1', L1)],
                [('load', '*', L1 + M), ('clear', 'r1', []), ('load', '*', L1 + M)],
                [('load', '*', L1 + M), ('load', 'r1', L1), ('load', 'r1', L1), ('clear', '*', []), ('load', 'r1', L1)],
                [('load', 'r1', L1), ('load', 'r2', M), ('load', 'r1', L1), ('load', 'r2', M)],
                [('load', '*', Linv), ('load', '*', L2), ('load', '*', Linv)],
                [('load', 'r1', L2), ('load', 'r1', Linv), ('load', 'r1', L2)],
                [('load', '*', M + L1), ('load', '*', L1 + M), ('clear', 'r2', []), ('load', 'r2', M)]]
    out = []
    for i, q in enumerate(seqs):
        tr = tr0 + i + 1
        out.append([dict(op='new', tr=tr, mod=mod, var=variants(mod, tr))] + [dict(op=o, scope=sc, list=l) for o, sc, l in q])
    return out


def near_patterns(mod, tr0):
    """for EVERY near-equal variant (base rule b, field k) of the module: reloads b -> variant -> b, variant -> the same
    variant (identical) -> the next variant, on the whole-set path, on the per-resource path, across the two paths, and
    with an unchanged neighbour before / behind it in the list"""
    res = 'sys' if mod == 'system' else 'r1'
    per_res, single = mod != 'system', mod == 'outlier'
    out, tr = [], tr0
    for b in VALID:
        n = len(NEAR[mod][b])
        for k in range(n):
            var = {b + 'a': k}
            if n > 1:
                var[b + 'b'] = (k + 1) % n
            B, Ba = [[b, res]], [[b + 'a', res]]
            Bb = [[b + 'b', res]] if n > 1 else B
            X = [[[x for x in VALID if x != b][k % 2], res]]
            seqs = [[('load', '*', B), ('load', '*', Ba), ('load', '*', B)]]
            if per_res:
                seqs += [[('load', res, B), ('load', res, Ba), ('load', res, Ba), ('load', res, Bb)],
                         [('load', res, Ba), ('load', '*', Bb), ('load', res, B)]]
            else:
                seqs += [[('load', '*', Ba), ('load', '*', Ba), ('load', '*', Bb)]]
            if not single:
                seqs += [[('load', '*', X + B), ('load', '*', X + Ba), ('load', '*', Bb + X)]]
                if per_res:
                    seqs += [[('load', res, B + X), ('load', res, Ba + X), ('load', res, X + Bb)]]
            for q in seqs:
                tr += 1
                out.append([dict(op='new', tr=tr, mod=mod, var=dict(variants(mod, tr), **var))] + [dict(op=o, scope=sc, list=l) for o, sc, l in q])
    return out


# ---------------------------------------------------------------------------------------------- parameter sweep
PTOK = ['P1', 'P2', 'P3']
INTERVALS = [0, 1, 2, 3, 7, 100, 250, 333, 499, 500, 501, 700, 999, 1000, 1001, 1200, 1300, 1500, 1600, 1700, 1900, 2000, 2100, 2200, 2300,
             2500, 2600, 2700, 3000, 3100, 3300, 4000, 4700, 5000, 6000, 7500, 9000, 9500, 9999, 10000, 10001, 12000, 15000, 19999, 20000]


def pick(rng, usual, rare=(), p_rare=0.04):
    return rng.choice(rare) if rare and rng.random() < p_rare else rng.choice(usual)


def sweep_rec(rng, mod):
    """one rule record of module mod (spec/RuleStore.tla, RULE PARAMETERS): every numeric field from a boundary-rich range;
    each way of being invalid is individually rare so that most records are valid rules - WHICH are is the spec's business"""
    nores = rng.random() < 0.03
    if mod == 'flow':
        tcs = pick(rng, [0, 0, 0, 0, 1, 1, 2], [-1])
        rel = pick(rng, [0, 0, 0, 0, 0, 1], [2, -1])
        return dict(nores=nores, tcs=tcs, cb=pick(rng, [0, 0, 1], [-1]),
                    thr=pick(rng, [0, 1, 500, 999, 1000, 1001, 1500, 2000, 2500, 3000, 4000, 5000, 7300, 10000, 12500, 100000, 1000000000], [-1, -1000]),
                    rel=rel, ref=(rng.random() < 0.9) if rel == 1 else (rng.random() < 0.1),
                    intv=rng.choice(INTERVALS) if rng.random() < 0.5 else rng.randint(1, 20000),
                    wup=pick(rng, [1, 2, 10, 60], [0], 0.08 if tcs == 1 else 0.3), wcf=pick(rng, [0, 2, 3, 5], [1], 0.08 if tcs == 1 else 0.2),
                    mq=rng.choice([0, 0, 1, 10, 100, 333, 334, 500, 1000, 5000]),
                    lomem=pick(rng, [2, 5, 10, 100], [0, -1], 0.06 if tcs == 2 else 0.5), himem=pick(rng, [1, 1, 3], [0, 100], 0.06 if tcs == 2 else 0.5),
                    lowm=pick(rng, [1, 1024, 1 << 20], [0, 1 << 27], 0.06 if tcs == 2 else 0.5), hiwm=pick(rng, [2048, 1 << 21, 1 << 26], [0, 1], 0.06 if tcs == 2 else 0.5))
    if mod == 'isolation':
        return dict(nores=nores, mt=pick(rng, [0], [1, 2, -1], 0.06), thr=pick(rng, [1, 1, 2, 3, 4, 5, 7, 10, 100, 65535, 1000000], [0], 0.07))
    if mod == 'hotspot':
        mt = pick(rng, [1, 1, 1, 0], [-1])              # 1 = QPS, 0 = Concurrency
        return dict(nores=nores, mt=mt, cb=pick(rng, [0, 0, 1], [-1]), idx=pick(rng, [0, 0, 0, -1, -2], [1, 2], 0.05), key=rng.random() < 0.95,
                    thr=pick(rng, [0, 1, 1, 2, 3, 5, 10, 100, 1000], [-1]), burst=pick(rng, [0, 0, 0, 1, 2, 5, 100], [-1]),
                    dur=pick(rng, [1, 1, 2, 10, 60], [0, -1], 0.05 if mt == 1 else 0.3), cap=rng.choice([0, 0, 1, 2, 100, 20000, -1]),
                    mq=pick(rng, [0, 0, 1, 5, 100, 500, 1000, 2000], [-1]))
    if mod in ('circuitbreaker', 'outlier'):
        strat = rng.choice([0, 1, 2])
        if strat == 2:
            thr = pick(rng, [1, 500, 1000, 1001, 1500, 2000, 2500, 3000, 3500, 5000, 10000, 1000000000], [-1, -1000])
        else:
            thr = pick(rng, [1, 100, 250, 333, 500, 501, 667, 999, 1000], [1001, 1500, -1], 0.06)
        r = dict(nores=nores, strat=strat, retry=pick(rng, [1, 10, 999, 1000, 1001, 5000, 60000], [0]), minreq=rng.choice([0, 1, 1, 2, 3, 5, 10]),
                 intv=pick(rng, [1, 7, 100, 999, 1000, 1001, 1500, 2000, 3000, 10000, 20000], [0]),
                 bc=rng.choice([0, 0, 1, 2, 3, 4, 7, 10, 16, 1000, 2000]), maxrt=rng.choice([0, 10, 99, 100, 101, 1000]), thr=thr,
                 probenum=rng.choice([0, 0, 1, 2, 3]))
        if mod == 'outlier':
            r.update(nilrule=rng.random() < 0.03, pct=pick(rng, [0, 1, 499, 500, 501, 999, 1000, 1000, 1000], [-1, 1001, 1500], 0.06))
        return r
    if mod == 'system':
        mt = pick(rng, [0, 1, 2, 3, 4], [5, 6, 99], 0.06)
        return dict(mt=mt, strat=rng.choice([-1, -1, -1, 0, 1]),
                    thr=pick(rng, [0, 1, 500, 999, 1000], [1001, 1500, -1], 0.1) if mt == 4 else pick(rng, [0, 1, 500, 1000, 1500, 2000, 2500, 3000, 5000, 7000], [-1, -1000]))
    raise ValueError(mod)


def sweep_probe_candidates(rng, mod, tok, r):
    """probe traffic whose shape follows the numbers of record r: just below / at / just above what a rule with these numbers
    admits (the generator proposes traffic; what each request must be answered is decided by the spec)"""
    env = dict(load=0, cpu=0, mem=0)

    def req(bs, **e):
        return dict(kind='req', tok=tok, env=dict(env, **e), bs=[max(1, min(int(b), 1000001)) for b in bs])

    def around(T):
        T = max(T, 0)
        c = [[T + 1], [1, 1], [max(T, 1)]]
        if T >= 1:
            c += [[T, 1], [T, 1], [T - 1, 1, 1] if T >= 2 else [1, 1, 1]]
        if T <= 6:
            c += [[1] * (T + 1)]
        return c
    if mod == 'flow':
        if r['tcs'] == 2:
            mems = [0, r['lowm'], r['lowm'] + 1, max(r['hiwm'] - 1, 0), r['hiwm'], r['hiwm'] + 1]
            return [req(bs, mem=max(m, 0)) for m in mems for T in (r['lomem'], r['himem']) for bs in around(T)]
        out = [req(bs) for bs in around(r['thr'] // 1000)]
        if r['tcs'] == 1:
            cold = r['thr'] // 1000 // (r['wcf'] if r['wcf'] > 1 else 3)
            out += [req(bs) for bs in around(cold - 1)]
        return out
    if mod == 'isolation':
        return [req(bs) for bs in around(r['thr'])]
    if mod == 'hotspot':
        return [req(bs) for bs in around(r['thr'] + max(r['burst'], 0) if r['mt'] == 1 and r['cb'] == 0 else r['thr'])] + [req([1, 1, 1])]
    if mod == 'system':
        k = max(r['thr'], 0) // 1000
        seqs = [[1] * (min(k, 7) + 1), [1] * max(min(k, 7), 1), [max(k, 1), 1], [1, 1]]
        envs = [dict(), dict(load=max(r['thr'], 0)), dict(load=max(r['thr'], 0) + 1), dict(cpu=max(r['thr'], 0)), dict(cpu=max(r['thr'], 0) + 1),
                dict(load=10000, cpu=2000)]
        return [req(bs, **e) for bs in seqs for e in envs]
    # breakers: n requests, the last `fails' fail, rt ms each
    need = -(-max(r['thr'], 0) // 1000)
    ns = {max(1, r['minreq'] - 1), max(1, r['minreq']), r['minreq'] + 1, need, need + 1, 2, 4}
    out = []
    for n in ns:
        if not 1 <= n <= 14:
            continue
        if r['strat'] == 2:
            fs = {n, min(n, need), min(n, max(need - 1, 0))}
        else:
            f = -(-max(r['thr'], 0) * n // 1000)          # the smallest number of failures that reaches the ratio
            fs = {n, min(n, f), min(n, max(f - 1, 0)), 0}
        for f in fs:
            for rt in {0, r['maxrt'], r['maxrt'] + 1}:
                out.append(dict(kind='eject' if mod == 'outlier' else 'trip', n=n, fails=f, rt=rt))
    return out


def sweep_scenario(rng, mod, tr):
    """a scenario over parametric tokens: records P1..P3, 2..4 loads / clears over lists of them (and nil elements) on both
    load paths - first loads, identical reloads, a working rule replaced per resource, clears - and up to 5 probes"""
    params = {t: sweep_rec(rng, mod) for t in PTOK}
    ress = ['sys'] if mod == 'system' else ['r1', 'r2']
    per_res = mod != 'system'
    single = mod == 'outlier'
    ops, prev = [], None
    for _ in range(rng.randint(2, 4)):
        x = rng.random()
        if prev is not None and x < 0.2:
            o = json.loads(json.dumps(prev))
        else:
            y = rng.random()
            kind = ('load*' if y < 0.9 else 'clear*') if not per_res else ('load*' if y < 0.4 else 'loadr' if y < 0.85 else 'clear*' if y < 0.92 else 'clearr')
            scope = '*' if kind.endswith('*') else rng.choice(ress)
            lst = []
            if kind.startswith('load'):
                n = 1 if single and scope != '*' else rng.choice([1, 1, 2, 2, 3])
                for _ in range(n):
                    if rng.random() < 0.06 and not (single and scope != '*'):
                        lst.append(['Nil', '-'])
                    else:
                        lst.append([rng.choice(PTOK), scope if scope != '*' else rng.choice(ress)])
                if single and scope == '*':
                    seen, l2 = set(), []
                    for t, r in lst:
                        if t == 'Nil' or r not in seen:
                            l2.append([t, r])
                        if t != 'Nil':
                            seen.add(r)
                    lst = l2
            o = dict(op='load' if kind.startswith('load') else 'clear', scope=scope, list=lst)
        ops.append(o)
        prev = o if o['op'] == 'load' else None
    used = sorted({t for o in ops for t, _ in o['list'] if t != 'Nil'})
    probes = []
    # a breaker with threshold 0 trips on every completion (also on the good ones of the recovery): such a scenario is
    # judged through the getters only
    if not (mod in ('circuitbreaker', 'outlier') and any(params[t]['thr'] == 0 for t in PTOK)):
        for t in used:
            c = sweep_probe_candidates(rng, mod, t, params[t])
            probes += rng.sample(c, min(2, len(c)))
        probes = rng.sample(probes, min(5, len(probes)))
    return [dict(op='new', tr=tr, mod=mod, var={}, params=params, sweep=probes)] + ops


# ---------------------------------------------------------------------------------------------- large lists
ORDERED_MODS = ['flow', 'isolation', 'hotspot', 'circuitbreaker']


def large_scenario(rng, mod, tr):
    """(h) LARGE LISTS: 13..40 valid rules with DISTINCT parameters over 2..5 resources, several per resource, so that the order
    inside a resource is observable: the getters must list them in load order and a request every rule of the resource objects to
    must be refused by the FIRST one (parametric tokens P1..Pn: RuleStore!ValidRule / Verdict / Trips judge them).  One whole-set
    load, a reload that permutes the list, per-resource loads of long lists, an identical reload."""
    n = rng.randint(13, 40)
    ress = ['r%d' % i for i in range(1, rng.randint(2, 5) + 1)]
    toks = ['P%d' % i for i in range(1, n + 1)]
    ks = rng.sample(range(2, 60), n)          # distinct thresholds
    params = {}
    for t, k in zip(toks, ks):
        if mod == 'flow':
            params[t] = dict(nores=False, tcs=0, cb=0, thr=k * 1000 + rng.choice([0, 0, 500]), rel=0, ref=False, intv=rng.choice([0, 1000, 1000, 2000, 500, 700, 5000]),
                             wup=0, wcf=0, mq=0, lomem=0, himem=0, lowm=0, hiwm=0)
        elif mod == 'isolation':
            params[t] = dict(nores=False, mt=0, thr=k)
        elif mod == 'hotspot':
            params[t] = dict(nores=False, mt=1, cb=0, idx=0, key=True, thr=k, burst=rng.choice([0, 0, 1]), dur=1, cap=0, mq=0)
        else:
            params[t] = dict(nores=False, strat=2, retry=1000 + k, minreq=rng.choice([0, 1, 2]), intv=1000, bc=0, maxrt=0, thr=(k % 12 + 1) * 1000 + rng.choice([0, 0, -500]), probenum=0)
    lst = [[t, rng.choice(ress)] for t in toks]
    lst[1][1] = lst[0][1]                     # at least two rules share a resource
    ops = [dict(op='load', scope='*', list=lst)]
    perm = [list(x) for x in lst]
    rng.shuffle(perm)
    ops.append(dict(op='load', scope='*', list=perm))                       # the same rules in another order
    r = lst[0][1]
    mine = [list(x) for x in perm if x[1] == r]
    x = rng.random()
    if x < 0.5:        # a long per-resource list: every rule on one resource, permuted once more
        allr = [[t, r] for t in toks]
        rng.shuffle(allr)
        ops.append(dict(op='load', scope=r, list=allr))
    elif x < 0.8:
        rng.shuffle(mine)
        ops.append(dict(op='load', scope=r, list=mine))
    if rng.random() < 0.4:
        ops.append(json.loads(json.dumps(ops[-1])))                         # identical reload
    if rng.random() < 0.5:
        rng.shuffle(ops)                                                   # the permuted / per-resource load may come first
    env = dict(load=0, cpu=0, mem=0)
    if mod == 'circuitbreaker':
        probes = [dict(kind='trip', n=14, fails=14, rt=0), dict(kind='trip', n=rng.randint(2, 12), fails=rng.randint(1, 12), rt=0)]
        probes[1]['fails'] = min(probes[1]['fails'], probes[1]['n'])
    elif mod == 'hotspot':       # a hotspot rule reads ITS OWN key: order is observable through the getters; two rules are probed
        probes = [dict(kind='req', tok=t, env=env, bs=[params[t]['thr'] + params[t]['burst'], 1]) for t in rng.sample(toks, 2)]
    else:                        # more than every threshold: the FIRST rule of the resource must be named; then about the median
        probes = [dict(kind='req', tok='P1', env=env, bs=[100]), dict(kind='req', tok='P1', env=env, bs=[rng.randint(3, 59)]),
                  dict(kind='req', tok='P1', env=env, bs=[rng.randint(1, 30), rng.randint(1, 30)])]
    return [dict(op='new', tr=tr, mod=mod, var={}, res=ress, params=params, sweep=probes)] + ops


def near_reloads(s):
    """{(base, delta index)} of the variants that take part in a reload old -> near-equal new (same resource, same base
    token, different rule) in scenario s"""
    var, cur, out = s[0]['var'], {}, set()
    for o in s[1:]:
        by_res = {}
        for t, r in o['list']:
            by_res.setdefault(r, []).append(t)
        scope = o['scope']
        for r in (set(cur) | set(by_res)) if scope == '*' else [scope]:
            new = by_res.get(r, [])
            for t in new:
                for u in cur.get(r, []):
                    if t != u and t[0] == 'R' and t[:2] == u[:2]:
                        out |= {(x[:2], var[x]) for x in (t, u) if is_near(x)}
            cur[r] = new
    return out


def nontrivial(s):
    """exercises the property: an invalid / nil element, an identical non-empty reload, or whole-set and per-resource ops mixed"""
    ops = s[1:]
    if len(ops) < 2:
        return False
    inv = any(t[0] in 'IN' for o in ops for t, _ in o['list'])
    ident = any(a == b and a['op'] == 'load' and a['list'] for a, b in zip(ops, ops[1:]))
    mixed = any(o['scope'] == '*' for o in ops) and any(o['scope'] != '*' for o in ops)
    return inv or ident or mixed or bool(near_reloads(s))


def maximal(hs):
    keys = sorted(json.dumps(x, sort_keys=True)[:-1] for x in hs)
    out = []
    for i, k in enumerate(keys):
        if i + 1 < len(keys) and keys[i + 1].startswith(k) and (keys[i + 1] == k or keys[i + 1][len(k)] == ','):
            continue
        out.append(json.loads(k + ']'))
    return out


# ---------------------------------------------------------------------------------------------- run + validate
def run_and_validate(c, drv, scns, tag):
    """returns (mismatches [(tr, event, expected-dict)], trace path)"""
    sp = os.path.join(c.scratch, tag + '.scn.ndjson')
    tp = os.path.join(c.scratch, tag + '.trace.ndjson')
    write_ndjson(sp, [o for s in scns for o in s])
    c.run([drv, sp, tp], timeout=900)
    lines = open(tp).read().splitlines()
    nlines = len(lines)
    mism, consumed, r = c.validate('RuleStore_Trace', tp, nlines)
    if consumed != nlines:
        raise MachineryError('%s: trace validation consumed %d of %d lines (malformed trace?)\n%s' % (tag, consumed, nlines, r.out[-1500:]))
    c.cov['traces_validated_against_impl'] += len(scns)
    c.cov['evaluations'] += nlines
    c.log('S3/S4 %s: %d scenarios, %d events validated in %.0fs, %d mismatching traces' % (tag, len(scns), nlines, r.wall, len(mism)))
    out = []
    for trn, ln, exp in mism:
        out.append((trn, json.loads(lines[ln - 1]), json.loads(exp)))
    return out, tp


def signature(ev, exp, scn=None):
    """minimal failing pattern of a mismatch: (known-finding key or generic signature, human text)"""
    mod, why = exp['mod'], exp['why']
    toks = [t for t, _ in ev['list']]
    whole = ev['scope'] == '*'
    path = 'whole-set-load' if whole else 'per-resource-load'
    if ev['op'] == 'clear':
        path = 'whole-set-clear' if whole else 'per-resource-clear'
    if 'panic' in why:
        if ev.get('where'):
            return ('C13/%s/%s/getter-or-probe-panics' % (mod, path), '%s: a getter or a probing request panics after %s of %s' % (mod, path, ev['list']))
        if 'Nil' in toks:
            return ('C13/%s/nil-element/panic' % mod,
                    '%s: %s of a list containing a nil element panics' % (mod, 'LoadRules' if whole else 'LoadRulesOfResource'))
        if mod == 'outlier' and scn and any(t in scn[0]['var'] and scn[0]['var'][t] % NVAR['outlier'] == 7 for t in toks):
            return ('C13/outlier/nil-embedded-rule/panic', 'outlier: LoadRules of a rule whose embedded circuit breaker rule is nil panics')
        return ('C13/%s/%s/panic' % (mod, path), '%s: %s panics on %s' % (mod, path, ev['list']))
    if scn and scn[0].get('params'):
        return sweep_signature(ev, exp, scn, path)
    if why == ['unchanged']:
        if mod == 'flow' and 'R2' in toks:
            return ('C13/flow/warmup-cold-factor-defaulted-in-callers-rule/identical-reload-reports-changed',
                    'flow: an identical reload of a list with a warm-up rule whose WarmUpColdFactor is 0 reports "changed" '
                    '(the first load wrote the default cold factor into the cached caller rule)')
        if mod == 'hotspot' and 'R1' in toks:
            return ('C13/hotspot/nil-specific-items-replaced-in-callers-rule/identical-reload-reports-changed',
                    'hotspot: an identical reload of a list with a rule whose SpecificItems is nil reports "changed" '
                    '(the first load stored an empty map into the cached caller rule)')
        return ('C13/%s/%s/identical-reload-reports-changed' % (mod, path), '%s: identical reload of %s reports changed/err' % (mod, ev['list']))
    want = exp['want']
    if 'stale' in why:
        # RuleStore!NoStaleVariant on the observed behaviour: a request is refused by a rule that is not in force although
        # a near-equal variant of it (same resource, one field differs slightly) is
        st = exp['stale'][0]
        var = scn[0]['var'] if scn else {}
        names = ['%s = %s with %s' % (t, t[:2], NEAR[mod][t[:2]][var[t]]) for t in sorted({st['by']} | {x[0] for x in want.get(st['res'], [])})
                 if is_near(t) and t in var and t[:2] == st['by'][:2]]
        return ('C13/%s/%s/near-equal-reload-keeps-old-rule' % (mod, path),
                '%s: after %s %s of %s a request of %s (probe %s) is refused by rule %s, which is NOT in force: the rules of the latest load are %s and '
                'the getters report them, but the controller of the near-equal earlier rule survived the reload [%s]' % (
                    mod, path, ev['scope'], ev['list'], st['res'], st['p'], st['by'], json.dumps(want.get(st['res'], [])), '; '.join(names)))
    # a rule set differs from the demanded one: attribute EVERY discrepancy the spec names (badp / badrep / badall)
    invalid_in_list = [t for t in toks if t[0] == 'I']
    foreign = [[t, r] for t, r in ev['list'] if not whole and r != ev['scope'] and t[0] == 'R']
    K12 = 'C13/circuitbreaker/per-resource-load/invalid-rule-enforced'
    KF = 'C13/%s/per-resource-load/rule-of-other-resource-accepted' % mod
    texts = {K12: 'circuitbreaker: LoadRulesOfResource builds breakers from the raw list: an invalid rule trips and blocks traffic while GetRules omits it',
             KF: '%s: LoadRulesOfResource(%s) accepts a rule that names another resource (%s): it is reported by the getters%s' % (
                 mod, ev['scope'], foreign, ' and governs the traffic of %s' % ev['scope'] if mod == 'isolation' else ' although no controller exists for it')}
    keys = set()
    if ev['op'] == 'load' and not whole and 'unchanged' not in why:
        for p in exp['badp']:
            if mod == 'circuitbreaker' and p.get('by') in invalid_in_list and p['res'] == ev['scope']:
                keys.add(K12)
            elif p.get('by') in ['?%s@%s' % (t, r) for t, r in foreign] and p['res'] == ev['scope']:
                keys.add(KF)
            else:
                keys.add('?')
        for got_of, bad in ((ev.get('rep', {}), exp['badrep']), (ev['all'], exp['badall'])):
            for r in bad:
                rest = list(got_of[r])
                for x in want.get(r, []):
                    if x in rest:
                        rest.remove(x)
                    else:
                        keys.add('?')          # a demanded rule is missing
                keys |= {KF if x in foreign else '?' for x in rest}
        if keys and '?' not in keys:
            ks = sorted(keys)
            return (' + '.join(ks), ' AND '.join(texts[k] for k in ks))
    return ('C13/%s/%s/%s' % (mod, path, '+'.join(why)),
            '%s: after %s %s of %s the rules in force / reported differ from the valid rules of the latest load %s' % (mod, path, ev['scope'], ev['list'], json.dumps(want)))


def sweep_signature(ev, exp, scn, path):
    """a mismatch in a parameter-sweep scenario: which rule RECORD is concerned and what the spec demands of it"""
    mod, why, want, params = exp['mod'], exp['why'], exp['want'], scn[0]['params']
    recs = lambda toks: '; '.join('%s = %s' % (t, json.dumps(params[t], sort_keys=True)) for t in sorted(set(toks)) if t in params)
    if 'unchanged' in why:
        return ('C13/%s/%s/sweep/identical-reload-reports-changed' % (mod, path),
                '%s: an identical reload of %s reports changed / an error [%s]' % (mod, ev['list'], recs(t for t, _ in ev['list'])))
    missing, extra = [], []
    for got_of, bad in ((ev.get('rep', {}), exp['badrep']), (ev['all'], exp['badall'])):
        for r in bad:
            rest = [list(x) for x in got_of[r]]
            for x in want.get(r, []):
                if list(x) in rest:
                    rest.remove(list(x))
                elif list(x) not in missing:
                    missing.append(list(x))
            extra += [x for x in rest if x not in extra]
    if missing:
        return ('C13/%s/%s/sweep/valid-rule-dropped' % (mod, path),
                '%s: after %s %s of %s the rule(s) %s - VALID by the module\'s own validity predicate (RuleStore!ValidRule) and part of the latest load - are '
                'not reported by the getters (got %s)%s [%s]' % (mod, path, ev['scope'], ev['list'], missing, json.dumps(ev.get('rep', ev['all'])),
                                                               ' and not enforced either' if exp['badp'] else '', recs(t for t, _ in missing)))
    if extra:
        return ('C13/%s/%s/sweep/rule-reported-that-is-not-in-force' % (mod, path),
                '%s: after %s %s of %s the getters report %s, which the valid rules of the latest load %s do not contain [%s]' % (
                    mod, path, ev['scope'], ev['list'], extra, json.dumps(want), recs(t for t, _ in extra)))
    if exp['badrep'] or exp['badall']:
        return ('C13/%s/%s/sweep/reported-in-another-order' % (mod, path),
                '%s: after %s %s of %s the getters report %s, the valid rules of the latest load are %s (same rules, other order) [%s]' % (
                    mod, path, ev['scope'], ev['list'], json.dumps(ev.get('rep', ev['all'])), json.dumps(want), recs(t for t, _ in ev['list'])))
    p = exp['badp'][0] if exp['badp'] else {}
    inforce = [t for t, _ in want.get(p.get('res'), [])]
    return ('C13/%s/%s/sweep/not-enforced-as-the-parameters-demand' % (mod, path),
            '%s: after %s %s of %s the rules in force on %s are %s and the getters report them, but probe traffic is not answered as rules with '
            'exactly these parameters must answer it (RuleStore!Verdict / Trips / Ejects): %s [%s]' % (
                mod, path, ev['scope'], ev['list'], p.get('res'), inforce, json.dumps(p, sort_keys=True), recs(inforce + [t for t, _ in ev['list']])))


def handle_mismatches(c, drv, scns, mism, tag, groups):
    """group by signature; the shortest scenario of each group is confirmed twice and reported once"""
    by_tr = {s[0]['tr']: s for s in scns}
    for trn, ev, exp in mism:
        s = by_tr[trn]
        key, what = signature(ev, exp, s)
        # the failing prefix is enough to reproduce
        g = groups.setdefault(key, dict(what=what, n=0, best=None, ev=None, exp=None))
        g['n'] += 1
        if g['best'] is None or len(json.dumps(s)) < len(json.dumps(g['best'])):
            g['best'], g['ev'], g['exp'] = s, ev, exp


def candidates(s):
    """scenarios one step smaller: one operation dropped, or one element of one list dropped"""
    out = []
    for i in range(1, len(s)):
        if len(s) > 2:
            out.append(s[:i] + s[i + 1:])
        for j in range(len(s[i]['list'])):
            o = dict(s[i], list=s[i]['list'][:j] + s[i]['list'][j + 1:])
            out.append(s[:i] + [o] + s[i + 1:])
            if i + 1 < len(s) and s[i + 1] == s[i]:      # identical reload: shrink both alike
                out.append(s[:i] + [o, dict(o)] + s[i + 2:])
    if s[0].get('params'):      # parameter sweep: records of tokens that are never loaded, and the probes derived from them
        used = {t for o in s[1:] for t, _ in o['list']}
        if set(s[0]['params']) - used:
            out.append([dict(s[0], params={t: r for t, r in s[0]['params'].items() if t in used},
                             sweep=[p for p in s[0]['sweep'] if p.get('tok', next(iter(used), None)) in used])] + s[1:])
    return out


def run_batch(c, drv, items, tag):
    """items: [(key, scenario)] -> {index: text} of the scenarios that fail with signature key (one fresh driver process)"""
    scns = []
    for i, (key, s) in enumerate(items):
        scns.append([dict(s[0], tr=i + 1)] + s[1:])
    if not scns:
        return {}
    mism, _ = run_and_validate(c, drv, scns, tag)
    out = {}
    for trn, ev, exp in mism:
        key, what = signature(ev, exp, scns[trn - 1])
        if key == items[trn - 1][0]:
            out[trn - 1] = what
    return out


def conclude(c, drv, groups):
    """per signature group: minimise the shortest failing scenario, confirm it twice in fresh processes, report once"""
    if not groups:
        return
    cur = {key: g['best'] for key, g in groups.items()}
    for rnd in range(8):
        items = [(key, cand) for key in sorted(cur) for cand in candidates(cur[key])]
        ok = run_batch(c, drv, items, 'min%d' % rnd)
        progress = False
        for key in sorted(cur):
            good = [items[i][1] for i in ok if items[i][0] == key]
            if good:
                cur[key] = min(good, key=lambda x: len(json.dumps(x)))
                progress = True
        if not progress:
            break
    items = [(key, cur[key]) for key in sorted(cur)]
    confirmed = {i: 0 for i in range(len(items))}
    texts = {}
    for k in range(2):
        for i, what in run_batch(c, drv, items, 'confirm%d' % k).items():
            confirmed[i] += 1
            texts[i] = what
    for i, (key, s) in enumerate(items):
        g = groups[key]
        if confirmed[i] < 2:
            c.inconclusive.append('mismatch %s did not reproduce (%d/2)' % (key, confirmed[i]))
            continue
        rp = c.save_replay(key.replace(' + ', '+').replace('C13/', '').replace('/', '_') + '.ndjson', s)
        what = '%s  [%d failing scenarios; minimal: %s]' % (texts[i], g['n'], json.dumps(s))
        c.cov.setdefault('failing_groups', {})[key] = dict(scenarios=g['n'], minimal=s)
        parts = key.split(' + ')        # a failure may be the joint effect of several listed defects
        if all(c.is_known(k) for k in parts):
            for k in parts:
                c.known(k, c.kf[k]['description'])
        else:
            c.violation(what, rp)


# ---------------------------------------------------------------------------------------------- binding self-test
def binding_selftest(c, tp, bad_trs):
    """corrupt one recorded field in each of the first good traces: every one must be rejected"""
    lines = [json.loads(l) for l in open(tp)]
    out, n, want, cur, done, kinds = [], 0, set(), None, True, {}
    for e in lines:
        if e['op'] == 'new':
            cur = e['tr']
            if n >= 60:
                break
            done = cur in bad_trs
            if not done:
                n += 1
        elif not done and not e['panic'] and e['probes']:
            k = c.rng.choice(['probe', 'rep', 'all', 'panic', 'extra'])
            if k == 'probe':
                p = c.rng.choice(e['probes'])
                if 'hit' in p:
                    p['hit'] = not p['hit']
                else:
                    p['by'] = 'I1' if p['by'] == 'pass' else 'pass'
            elif k == 'rep' and e.get('rep'):
                r = c.rng.choice(sorted(e['rep']))
                e['rep'][r] = e['rep'][r][1:] if e['rep'][r] else [['R1', r]]
            elif k == 'all' or k == 'rep':
                r = c.rng.choice(sorted(e['all']))
                e['all'][r] = e['all'][r][1:] if e['all'][r] else [['R2', r]]
            elif k == 'panic':
                e['panic'] = True
            else:
                r = sorted(e['all'])[0]
                e['all'][r] = e['all'][r] + [['I1', r]]
            kinds[k] = kinds.get(k, 0) + 1
            done = True
            want.add(cur)
        out.append(e)
    cp = os.path.join(c.scratch, 'corrupt.ndjson')
    write_ndjson(cp, out)
    mism, consumed, r = c.validate('RuleStore_Trace', cp, len(out))
    got = {m[0] for m in mism} - set(bad_trs)
    if got != want or not want:
        raise MachineryError('binding self-test failed: corrupted traces %s, rejected %s' % (sorted(want), sorted(got)))
    c.cov['binding_selftest'] = '%d corrupted traces (%s), all rejected' % (len(want), kinds)
    c.log('binding self-test: %d corrupted traces (%s), all rejected by RuleStore_Trace' % (len(want), kinds))


def binding_selftest_sweep(c, tp, bad_trs):
    """parameter-sweep traces: corrupt one recorded answer (a request answered "pass" becomes a refusal by a rule that does
    not exist, an observed request after the completions likewise, an ejection flag is flipped) or one getter result in each
    of the first good traces: every one must be rejected"""
    lines = [json.loads(l) for l in open(tp)]
    good = [e['tr'] for e in lines if e['op'] == 'new' and e['tr'] not in bad_trs]
    chosen = set(good[::max(1, len(good) // 60)][:60])       # spread over the modules (the trace is ordered by module)
    out, want, cur, done, kinds = [], set(), None, True, {}
    for e in lines:
        if e['op'] == 'new':
            cur = e['tr']
            done = cur not in chosen
        elif not done and not e['panic']:
            k = c.rng.choice(['req', 'req', 'all'])
            ps = [p for p in e['probes'] if (p['kind'] == 'req' and any(q['by'] == 'pass' for q in p['reqs'])) or p['kind'] != 'req']
            if k == 'req' and ps:
                p = c.rng.choice(ps)
                if p['kind'] == 'req':
                    c.rng.choice([q for q in p['reqs'] if q['by'] == 'pass'])['by'] = 'P9'
                elif p['kind'] == 'trip':
                    p['obs'][0] = 'P9'
                else:
                    p['hit'] = not p['hit']
                k = p['kind']
            else:
                r = c.rng.choice(sorted(e['all']))
                e['all'][r] = e['all'][r][1:] if e['all'][r] else [['P1', r]]
                k = 'all'
            kinds[k] = kinds.get(k, 0) + 1
            done = True
            want.add(cur)
        out.append(e)
    cp = os.path.join(c.scratch, 'corrupt-sweep.ndjson')
    write_ndjson(cp, out)
    mism, consumed, r = c.validate('RuleStore_Trace', cp, len(out))
    got = {m[0] for m in mism} - set(bad_trs)
    if got != want or not want:
        raise MachineryError('binding self-test (parameter sweep) failed: corrupted traces %s, rejected %s' % (sorted(want), sorted(got)))
    c.cov['binding_selftest_sweep'] = '%d corrupted traces (%s), all rejected' % (len(want), kinds)
    c.log('binding self-test (parameter sweep): %d corrupted traces (%s), all rejected by RuleStore_Trace' % (len(want), kinds))


# ---------------------------------------------------------------------------------------------- the check
def check(c, tier, replay):
    drv = c.build('c13')
    NEAR.update(json.loads(c.run([drv, '-describe']).stdout))
    groups = {}
    if replay:
        s = read_ndjson(replay)
        mism, _ = run_and_validate(c, drv, [s], 'replay')
        c.cov['states'] = c.cov['transitions'] = 1
        c.sample(s[:6])
        if mism:
            handle_mismatches(c, drv, [s], mism, 'replay', groups)
            for key, g in groups.items():
                parts = key.split(' + ')
                if all(c.is_known(k) for k in parts):
                    for k in parts:
                        c.known(k, c.kf[k]['description'])
                else:
                    c.violation(g['what'], replay)
        return
    thorough = tier == 'thorough'
    # S1 ---------------------------------------------------------------------------------
    # The second valid token of the quick model is the near-equal variant R1a of R1: without a mutant the design treats it
    # like any other valid token (the state space is that of {R1, R2, I1}), and NoStaleVariant is checked non-trivially.
    if not thorough:
        runs = [('MCDescs', ['r1', 'r2'], ['R1', 'R1a', 'I1'], 2)]
    else:
        runs = [('MCDescs', ['r1', 'r2'], ['R1', 'R2', 'I1'], 2), ('MCDescs', ['r1', 'r2'], ['R1', 'R1a', 'R1b', 'I1'], 2),
                ('MCDescs', ['r1', 'r2'], ['R1', 'R2', 'R3', 'I1'], 2), ('MCDescs', ['r1'], ['R1', 'R2', 'I1'], 3),
                ('MCDescs', ['r1'], ['R1', 'R1a', 'R2'], 3)]
    for descs, ress, toks, ml in runs:
        r = c.model_check('RuleStore_MC', cfg_text=mc_cfg(descs, ress, toks, ml), workers=8, timeout=3000)
        if not r.completed:
            c.inconclusive.append('RuleStore.tla: %s violated - the spec no longer describes a correct design' % r.violated)
    # parameter sweep: descriptors whose token P1 ranges over boundary-rich rule records (statistic intervals / bucket counts that
    # divide or not, invalid values); validity from RuleStore!ValidRule, every valid rule must be buildable and in force
    r = c.model_check('RuleStore_MC', cfg_text=mc_cfg('MCSweepFull' if thorough else 'MCSweep', ['r1'], ['P1', 'P2'], 2), workers=8, timeout=3000)
    if not r.completed:
        c.inconclusive.append('RuleStore.tla (parameter sweep): %s violated - the spec no longer describes a correct design' % r.violated)
    # ... and the whole range of intervals 0..20000 x strategies / intervals x bucket counts (state-independent, on a tiny instance)
    r = c.model_check('RuleStore_MC', cfg_text=mc_cfg('MCDescs1', ['r1'], ['R1'], 1, invs='BuildableSweep'), workers=2, timeout=900)
    if not r.completed:
        c.inconclusive.append('RuleStore.tla: BuildableSweep does not hold (%s)' % (r.violated or r.error))
    c.cov['exhaustive'] = True
    # vacuity: every deliberately broken variant of the design must violate an invariant
    caught = {}
    for mut in ['rawBuild', 'staleClear', 'wrongCache', 'neverUnchanged', 'coarseReuse', 'coarseUnchanged']:
        # the two mutants with a too coarse rule equality must be caught by NoStaleVariant alone
        coarse = mut.startswith('coarse')
        r = c.tlc('RuleStore_MC', cfg_text=mc_cfg('MCDescs1', ['r1', 'r2'], ['R1', 'R1a', 'I1'], 2, mutant=mut, invs='NoStaleVariant' if coarse else None),
                  workers=4, timeout=600, count=False)
        if not r.violated:
            raise MachineryError('vacuity self-test: spec mutant %s is not caught by TLC (%s)' % (mut, r.error))
        caught[mut] = r.violated
    # a controller derivation that fails for some VALID rules (naiveSampleCount = seeded change C13-e: sample count = interval /
    # bucket length without the "is a multiple" guard; keepBucketCount: a breaker bucket count that does not divide the interval
    # is kept) drops those rules: the store-level invariant alone must see it
    r = c.tlc('RuleStore_MC', cfg_text=mc_cfg('MCDescs1', ['r1', 'r2'], ['R1', 'R1a', 'I1'], 2, mutant='unstableGroup', invs='EnforcedIsLatestValid'), workers=4, timeout=600, count=False)
    if r.violated != 'EnforcedIsLatestValid':       # a grouping that does not keep the order inside a resource (= seeded change C13-g)
        raise MachineryError('vacuity self-test: spec mutant unstableGroup is not caught by TLC (%s)' % (r.error or r.violated))
    caught['unstableGroup'] = r.violated
    for mut in ['naiveSampleCount', 'keepBucketCount']:
        r = c.tlc('RuleStore_MC', cfg_text=mc_cfg('MCSweep', ['r1'], ['P1', 'P2'], 1, mutant=mut, invs='EnforcedIsLatestValid'), workers=4, timeout=600, count=False)
        if r.violated != 'EnforcedIsLatestValid':
            raise MachineryError('vacuity self-test: spec mutant %s is not caught by TLC (%s)' % (mut, r.error or r.violated))
        caught[mut] = r.violated
    c.cov['spec_mutants_caught'] = caught
    c.log('vacuity self-test: spec mutants caught: %s' % caught)
    # S2 ---------------------------------------------------------------------------------
    scns, tr = [], 0
    cap = 250 if not thorough else 3000
    gen = [('MCDescs1', ['r1', 'r2'], ['R1', 'I1'], 1, LIST_BASED), ('MCDescs1', ['r1'], ['R1', 'R2', 'I1'], 2, LIST_BASED),
           ('MCDescsSys', ['sys'], ['R1', 'R2', 'I1'], 2, ['system']), ('MCDescsOut', ['r1', 'r2'], ['R1', 'I1'], 1, ['outlier'])]
    if thorough:
        gen.append(('MCDescs1', ['r1', 'r2'], ['R1'], 2, LIST_BASED))
    # (d) instances whose tokens are a rule and its near-equal variants: every transition is a reload old -> near-equal new,
    # an identical reload of a variant, or a clear in between
    ngen = [('MCDescs1', ['r1'], ['R1', 'R1a', 'R1b'], 2, LIST_BASED), ('MCDescs1', ['r1', 'r2'], ['R1', 'R1a'], 1, LIST_BASED),
            ('MCDescsSys', ['sys'], ['R1', 'R1a', 'R1b'], 2, ['system']), ('MCDescsOut', ['r1', 'r2'], ['R1', 'R1a'], 1, ['outlier'])]
    nscns = []

    def transition_cover(descs, ress, toks, ml, mods, into, tr):
        n = 0
        cfg = mc_cfg(descs, ress, toks, ml, check=False, extra='ACTION_CONSTRAINT Emit\n')
        r = c.tlc('RuleStore_MC', cfg_text=cfg, workers=4, timeout=900, count=False)
        if r.error:
            raise MachineryError('scenario generation failed: %s' % r.error)
        hs = maximal(r.json_prints())
        for mod in mods:
            keep = hs if len(hs) <= cap else c.rng.sample(hs, cap)
            k = 0
            for hhist in keep:
                s = concretise(hhist, mod, tr + 1, c.rng)
                if s:
                    tr += 1
                    k += 1
                    into.append(s)
            n += k
            c.log('S2 transition cover %s %s -> %s: %d maximal histories, %d scenarios' % (descs, '/'.join(toks), mod, len(hs), k))
        return n, tr

    cover_n = 0
    for g in gen:
        n, tr = transition_cover(*g, scns, tr)
        cover_n += n
    if not thorough:
        cap = 120
    # TLC simulation of a larger instance (3 valid + 2 invalid tokens + nil, lists <= 3)
    sim = []
    for descs, ress, mods in [('MCDescs1', ['r1', 'r2'], LIST_BASED), ('MCDescsSys', ['sys'], ['system']), ('MCDescsOut', ['r1', 'r2'], ['outlier'])]:
        cfg = mc_cfg(descs, ress, ['R1', 'R2', 'R3', 'I1', 'I2'], 3, check=False, extra='ACTION_CONSTRAINT Emit\n')
        num = 40 if not thorough else 400
        r = c.tlc('RuleStore_MC', cfg_text=cfg, workers=1, timeout=900, count=False,
                  args=['-simulate', 'num=%d' % num, '-depth', '6', '-seed', str(c.seed)])
        hs = maximal(r.json_prints())
        for i, hhist in enumerate(hs):
            s = concretise(hhist, mods[i % len(mods)], tr + 1, c.rng)
            if s:
                tr += 1
                sim.append(s)
        c.log('S2 TLC simulation %s: %d behaviours' % (descs, len(hs)))
    # seeded random sequences (longer lists, identical reloads, foreign-resource rules, nil elements)
    rnd = []
    nrand = 150 if not thorough else 1500
    for mod in MODS:
        for _ in range(nrand):
            tr += 1
            rnd.append(random_scenario(c.rng, mod, tr))
    pat = []
    for mod in MODS:
        for rep in range(2):        # twice: the invalid tokens carry other field-wise invalidities the second time
            ps = pattern_scenarios(mod, tr)
            tr += len(ps)
            pat += ps
    # (e) reloads old -> near-equal new for every (module, base rule, field), (f) random sequences over a rule and its variants
    npat, nrnd = [], []
    for g in ngen:
        n, tr = transition_cover(*g, nscns, tr)
        cover_n += n
    for mod in MODS:
        ps = near_patterns(mod, tr)
        tr += len(ps)
        npat += ps
    for mod in MODS:
        for _ in range(60 if not thorough else 600):
            tr += 1
            nrnd.append(random_scenario(c.rng, mod, tr, near=True))
    # (g) parameter sweep: rule records drawn from boundary-rich ranges, judged by RuleStore!ValidRule / Verdict / Trips / Ejects
    swp = []
    for mod in MODS:
        for _ in range(170 if not thorough else 2500):
            tr += 1
            swp.append(sweep_scenario(c.rng, mod, tr))
    # (h) large lists: 13..40 valid rules with distinct parameters over 2..5 resources, order observable
    nlarge = 0
    for mod in ORDERED_MODS:
        for _ in range(40 if not thorough else 400):
            tr += 1
            nlarge += 1
            swp.append(large_scenario(c.rng, mod, tr))
    # S3 + S4 ----------------------------------------------------------------------------
    first, first_sweep = True, True
    for tag, group in (('tlc', scns), ('sim', sim), ('rnd', rnd), ('pat', pat), ('ntlc', nscns), ('npat', npat), ('nrnd', nrnd), ('sweep', swp)):
        for i in range(0, len(group), 1500):
            part = group[i:i + 1500]
            mism, tp = run_and_validate(c, drv, part, '%s%d' % (tag, i))
            if first:
                binding_selftest(c, tp, {m[0] for m in mism})
                first = False
            if tag == 'sweep' and first_sweep:
                binding_selftest_sweep(c, tp, {m[0] for m in mism})
                first_sweep = False
            c.cov['conformance_mismatches'] += len(mism)
            handle_mismatches(c, drv, part, mism, tag, groups)
    conclude(c, drv, groups)
    allscn = scns + sim + rnd + pat + nscns + npat + nrnd
    c.cov['distinct_nontrivial'] = len({json.dumps(s[1:], sort_keys=True) + s[0]['mod'] for s in allscn if nontrivial(s)})
    # parameter sweep: what was drawn (a record counts when its token is loaded at least once)
    loaded = [(s[0]['mod'], s[0]['params'][t]) for s in swp for t in sorted({t for o in s[1:] for t, _ in o['list'] if t in s[0]['params']})]
    fi = sorted({r['intv'] for m, r in loaded if m == 'flow' and (r['cb'] == 0 or r['tcs'] == 1)})
    big = [s for s in swp if 'res' in s[0]]
    c.cov['large_lists'] = dict(scenarios=len(big), longest_list=max(len(o['list']) for s in big for o in s[1:]),
                                whole_set_loads_of_more_than_12=sum(1 for s in big for o in s[1:] if o['scope'] == '*' and len(o['list']) > 12),
                                per_resource_loads_of_more_than_12=sum(1 for s in big for o in s[1:] if o['scope'] != '*' and len(o['list']) > 12),
                                most_rules_on_one_resource=max(max(sum(1 for _, r in o['list'] if r == x) for x in s[0]['res']) for s in big for o in s[1:]))
    c.cov['parameter_sweep'] = dict(
        scenarios=len(swp), rule_records_loaded=len(loaded), distinct_rule_records=len({m + json.dumps(r, sort_keys=True) for m, r in loaded}),
        probes=sum(len(s[0]['sweep']) for s in swp), per_module={m: sum(1 for x, _ in loaded if x == m) for m in MODS},
        flow_stat_intervals=dict(distinct=len(fi), not_multiple_of_500=sum(1 for i in fi if i % 500), divisor_of_10000=sum(1 for i in fi if i and 10000 % i == 0),
                                 between_500_and_10000_not_multiple=sum(1 for i in fi if 500 < i < 10000 and i % 500), above_10000=sum(1 for i in fi if i > 10000)),
        breaker_interval_bucket_pairs=len({(r['intv'], r['bc']) for m, r in loaded if m in ('circuitbreaker', 'outlier')}),
        breaker_buckets_not_dividing=len({(r['intv'], r['bc']) for m, r in loaded if m in ('circuitbreaker', 'outlier') and r['bc'] and r['intv'] % r['bc']}))
    if c.cov['parameter_sweep']['flow_stat_intervals']['between_500_and_10000_not_multiple'] < 20 or any(v < 100 for v in c.cov['parameter_sweep']['per_module'].values()):
        c.inconclusive.append('parameter sweep too thin: %s' % c.cov['parameter_sweep'])
    c.cov['distinct_nontrivial'] += len({json.dumps(s, sort_keys=True) for s in swp})
    allscn = allscn + swp
    seen = set()
    for s in allscn:
        for o in s[1:]:
            for t, _ in o['list']:
                if t in s[0]['var']:
                    seen.add((s[0]['mod'], s[0]['var'][t] % NVAR[s[0]['mod']]))
    c.cov['invalid_variants_exercised'] = '%d of %d (module, field-wise invalidity) pairs' % (len(seen), sum(NVAR.values()))
    if len(seen) < sum(NVAR.values()):
        c.inconclusive.append('only %d of %d field-wise invalidities were exercised' % (len(seen), sum(NVAR.values())))
    nseen = {}
    for s in allscn:
        for b, k in near_reloads(s):
            nseen[(s[0]['mod'], b, k)] = nseen.get((s[0]['mod'], b, k), 0) + 1
    nall = [(m, b, k) for m in MODS for b in VALID for k in range(len(NEAR[m][b]))]
    c.cov['near_equal_reloads'] = '%d of %d (module, base rule, changed field) variants took part in a reload old -> near-equal new; %d scenarios contain one' % (
        len(nseen), len(nall), sum(1 for s in allscn if near_reloads(s)))
    c.cov['near_equal_variants'] = {m: {b: NEAR[m][b] for b in VALID} for m in MODS}
    missing = [x for x in nall if x not in nseen]
    if missing:
        c.inconclusive.append('near-equal variants never reloaded: %s' % missing[:10])
    c.cov['per_module'] = {m: sum(1 for s in allscn if s[0]['mod'] == m) for m in MODS}
    c.cov['rule'] = ('scenarios = one per transition of the bounded RuleStore spec per module (%d) + TLC random simulation (%d) + seeded '
                     'random sequences (%d) + %d fixed patterns + near-equal variants: %d reload patterns (one group per module, base rule and field) and %d '
                     'random sequences + %d parameter-sweep scenarios (rule records from boundary-rich ranges, validity and enforcement judged by the spec); non-trivial = distinct (module, operation sequence) with >= 2 operations that contains an '
                     'invalid or nil element, an identical non-empty reload, a reload old -> near-equal new, or mixes whole-set and per-resource operations'
                     % (cover_n, len(sim), len(rnd), len(pat), len(npat), len(nrnd), len(swp)))
    c.sample(scns[len(scns) // 2])
    c.sample(sim[0] if sim else rnd[0])
    c.sample(rnd[len(rnd) // 2])
    c.sample(npat[len(npat) // 2])
    c.sample(swp[len(swp) // 2])
    c.assumptions += ['callers pass freshly allocated rule objects on every call and never mutate them (the property\'s domain)',
                      'valid tokens use strategies the module implements (a rule that passes IsValidRule but names an unknown strategy has no controller)',
                      'outlier holds one rule per resource: whole-set lists name each resource at most once',
                      'a rule is identified by its ID, which the driver derives from the token (= the semantic fields)',
                      'near-equal variants: the probe table of a variant (which probing requests its rule refuses) is the driver\'s delta table '
                      '(c13 -calibrate compares it with a first load of every variant)',
                      'a load that returns an error may leave its scope as it was (RejectedLoad); "identical reload reports unchanged" is demanded for '
                      'non-empty loads only; the changed flag of a non-identical load is free',
                      'system: which of several violated rules is named, and the order of GetRules(), are free (map iteration)',
                      'parameter sweep: enum fields stay within the strategies / metric types the module implements (or are negative = invalid); memory water '
                      'marks stay below the host\'s memory size; a request probe starts 60 s after the last traffic (longer than every statistic interval drawn); '
                      'where the model does not determine an answer (warm-up between cold and warm, queueing behind a queued request, BBR, a rule on an associated '
                      'resource) either answer is accepted; a breaker with threshold 0 (trips on every completion) is judged through the getters only',
                      'TLC model checking is exhaustive only for the bounded universes listed in tlc_runs']


main('C13', check)
