"""C12 - breaker transitions are atomic and probes exclusive under concurrency.

S1  TLC explores spec/BreakerConc.tla (PlusCal, one label per atomic access = yield hook of the real code) for
    all interleavings of NC clients + clock and checks NoEarlyProbe / ExclusiveProbe / ReportedOnce.
    The pinned order "swap, then store the deadline" is kept as a spec-level mutant (DlFirst = FALSE): TLC must
    find its NoEarlyProbe counterexample (vacuity guard) and that schedule is replayed on the real code.
S2  schedules = sequences "who moves next" (0 = clock tick): TLC random simulation of the spec, the mutant's
    counterexample, and seeded random schedules.
S3  harness/cmd/c12 forces each schedule on the real breaker through api.Entry/Exit with goroutines parked at
    the cb.* yield points (build tag verif) and records steps, ticks, listener callbacks and results.
S4  spec/BreakerConc_Trace.tla (TLC) judges every recorded execution: LegalPath, NoEarlyProbe, ExclusiveProbe.

Rule reloads racing with requests / completions: spec/BreakerConcReload.tla = the BreakerConc model (fixed order) with
breaker OBJECTS and a loader process (identical rule -> object kept; statistic-reusable rule -> new object, Closed).
S1 checks it exhaustively (per object every clause; for the object in service NoEarlyProbePub on the state word it
looks at); its mutant ShareState (new object shares the state word of the old one, copies the deadline by value) must
violate NoEarlyProbePub and LegalPerObject and the counterexample schedules (-1 = the loader moves) are forced on the
real code, as are TLC simulations of the model and seeded random / single-preemption schedules with a reload step.
"""
import json, os, re
from vlib import main, write_ndjson, read_ndjson, MachineryError

CFG = """SPECIFICATION Spec
CONSTANTS
  NC = %(nc)d
  Errs <- MCErrs
  Timeout = %(timeout)d
  ProbeNum = %(probenum)d
  Thr = 1
  MinAmt = 1
  MaxT = %(maxt)d
  InitOpen = %(initopen)s
  DlFirst = %(dlfirst)s
VIEW view
INVARIANTS %(inv)s ExclusiveProbe ReportedOnce
CHECK_DEADLOCK FALSE
%(extra)s"""


def cfg(nc=3, timeout=2, probenum=0, maxt=4, initopen=False, dlfirst=True, extra='', inv='NoEarlyProbePub'):
    return CFG % dict(inv=inv, nc=nc, timeout=timeout, probenum=probenum, maxt=maxt, initopen='TRUE' if initopen else 'FALSE',
                      dlfirst='TRUE' if dlfirst else 'FALSE', extra=extra)


RCFG = """SPECIFICATION Spec
CONSTANTS
  NC = %(nc)d
  Errs <- %(errs)s
  Timeout = %(timeout)d
  ProbeNum = %(probenum)d
  Thr = %(thr)d
  MinAmt = 1
  MaxT = %(maxt)d
  InitOpen = %(initopen)s
  Reload = "%(reload)s"
  Thr2 = %(thr2)d
  ShareState = %(share)s
VIEW view
%(inv)s
CHECK_DEADLOCK FALSE
%(extra)s"""


def rcfg(nc=3, timeout=2, probenum=0, maxt=3, initopen=False, thr=1, thr2=2, reload='changed', share=False, allerr=False, extra='',
         inv='NoEarlyProbePub LegalPerObject ExclusiveProbe ReportedOnce'):
    return RCFG % dict(nc=nc, timeout=timeout, probenum=probenum, maxt=maxt, initopen='TRUE' if initopen else 'FALSE', thr=thr, thr2=thr2,
                       reload=reload, share='TRUE' if share else 'FALSE', errs='MCErrsAll' if allerr else 'MCErrs', extra=extra,
                       inv=('INVARIANTS ' + inv) if inv else '')


def rscenario(tr, sched, k, unit=1000):
    """scenario of a BreakerConcReload configuration k: the loader (-1 in the schedule) reloads the rule with threshold thr2"""
    nc = k.get('nc', 3)
    thr, thr2 = k.get('thr', 1), k.get('thr2', 2)
    return dict(tr=tr, unit=unit, timeout=2, probenum=k.get('probenum', 0), thr=thr, minamt=1, initopen=k.get('initopen', False),
                errs=[True] * nc if k.get('allerr') else errs(nc), sched=sched,
                reloads=[dict(thr=thr2 if k.get('reload', 'changed') == 'changed' else thr, via='all' if tr % 2 else 'res')])


def errs(nc):
    return [i % 2 == 1 for i in range(1, nc + 1)]


def scenario(tr, sched, nc=3, timeout=2, probenum=0, initopen=False, unit=None, errv=None):
    # one tick = 1 s, or 5 s (retry timeouts of 10 s and more: beyond 2^32 ns) for every third scenario
    unit = unit or (5000 if tr % 3 == 0 else 1000)
    return dict(tr=tr, unit=unit, timeout=timeout, probenum=probenum, thr=1, minamt=1, initopen=initopen,
                errs=errv if errv is not None else errs(nc), sched=sched)


def last_sched(out):
    """the value of the history variable `sched` in the last state of a TLC error trace"""
    m = re.findall(r'/\\ sched = <<([^>]*)>>', out)
    if not m:
        return None
    return [int(x) for x in re.findall(r'-?\d+', m[-1])]


def maximal(hs):
    keys = sorted(json.dumps(x)[:-1] for x in hs)
    out = []
    for i, k in enumerate(keys):
        if i + 1 < len(keys) and keys[i + 1].startswith(k) and (keys[i + 1] == k or keys[i + 1][len(k)] == ','):
            continue
        out.append(json.loads(k + ']'))
    return out


def run_and_validate(c, drv, scns, tag):
    sp = os.path.join(c.scratch, tag + '.scn.ndjson')
    tp = os.path.join(c.scratch, tag + '.trace.ndjson')
    write_ndjson(sp, scns)
    c.run([drv, sp, tp], timeout=900)
    nlines = sum(1 for _ in open(tp))
    mism, consumed, r = c.validate('BreakerConc_Trace', tp, nlines)
    if consumed != nlines:
        raise MachineryError('%s: trace validation consumed %d of %d lines\n%s' % (tag, consumed, nlines, r.out[-1500:]))
    c.cov['traces_validated_against_impl'] += len(scns)
    c.cov['evaluations'] += nlines
    c.log('S3/S4 %s: %d schedules forced on the real breaker, %d events validated in %.0fs, %d rejected' % (tag, len(scns), nlines, r.wall, len(mism)))
    return mism, tp


KEYS = {'stalled': 'C12/opener-stalled-a-full-timeout-between-deadline-publication-and-swap',
        'stale': 'C12/aba-deadline-compared-before-an-intervening-reopen'}


def classify(exp):
    """key(s) of the known residues an early probe falls under; None = not a listed deviation"""
    try:
        e = json.loads(exp)
    except Exception:
        return None
    cls = set(e.get('early') or [])
    if e.get('legal') and e.get('exclusive') and e.get('objects', True) and cls and cls <= set(KEYS):
        return [KEYS[x] for x in sorted(cls)]
    return None


def handle(c, drv, scns, mism, tag):
    by = {s['tr']: s for s in scns}
    seen = set()
    for tr, line, exp in mism:
        key = classify(exp)
        sig = tuple(key) if key else exp[:80]
        if key and sig in seen:
            continue            # one confirmation per class of known deviation is enough
        seen.add(sig)
        if len(c.violations) >= 5:
            break
        s = by[tr]
        rp = c.save_replay('%s-tr%d.ndjson' % (tag, tr), [s])
        ok = 0
        for i in range(2):
            m2, _ = run_and_validate(c, drv, [s], 'confirm%d' % i)
            ok += 1 if m2 else 0
        if ok < 2:
            c.inconclusive.append('rejection of %s schedule %d did not reproduce (%d/2)' % (tag, tr, ok))
            continue
        if key and all(c.is_known(k) for k in key):
            for k in key:
                c.known(k, c.kf[k]['description'])
        else:
            c.violation('real breaker execution violates C12 under the forced schedule %s: %s' % (s['sched'], exp[:500]), rp)


def binding_selftest(c, tp):
    """corrupt good traces in two ways; every corrupted trace must be rejected"""
    lines = [json.loads(l) for l in open(tp)]
    traces, cur = [], None
    for e in lines:
        if e['op'] == 'new':
            cur = []
            traces.append(cur)
        cur.append(e)
    out, want, nobj = [], 0, 0
    for t in traces:
        if want >= 40:
            break
        oh = [e for e in t if e['op'] == 'listen' and e['to'] == 'H']
        if any(e['op'] == 'reload' for e in t) and any(e['op'] == 'listen' for e in t) and nobj < 10:
            # a transition is reported for a breaker (rule threshold) that never existed
            t = [dict(e) for e in t]
            [e for e in t if e['op'] == 'listen'][-1]['thr'] = 77
            out += t
            want += 1
            nobj += 1
        elif oh and want % 2 == 0:
            # the winner compared the deadline earlier than it really did
            p = oh[0]['p']
            t = [dict(e) for e in t]
            for e in t:
                if e['op'] == 'step' and e['p'] == p and e['at'] == 'cb.deadline.load':
                    e['now'] = 0
            out += t
            want += 1
        elif any(e['op'] == 'listen' for e in t):
            # a transition is reported twice
            t2 = []
            done = False
            for e in t:
                t2.append(e)
                if e['op'] == 'listen' and not done:
                    t2.append(dict(e))
                    done = True
            out += t2
            want += 1
    if want == 0:
        raise MachineryError('binding self-test: no trace with a transition')
    cp = os.path.join(c.scratch, 'corrupt.ndjson')
    write_ndjson(cp, out)
    mism, consumed, r = c.validate('BreakerConc_Trace', cp, len(out))
    if len({m[0] for m in mism}) != want:
        raise MachineryError('binding self-test failed: %d corrupted traces, %d rejected' % (want, len(mism)))
    c.cov['binding_selftest'] = '%d corrupted traces (early deadline compare / duplicated report / report for a breaker object that never existed: %d), all rejected' % (want, nobj)
    c.log('binding self-test: %d corrupted traces, all rejected' % want)


def check(c, tier, replay):
    drv = c.build('c12')
    if replay:
        s = read_ndjson(replay)
        mism, _ = run_and_validate(c, drv, s, 'replay')
        k = classify(mism[0][2]) if mism else None
        if mism and k and all(c.is_known(x) for x in k):
            for x in k:
                c.known(x, c.kf[x]['description'])
        elif mism:
            c.violation('replayed schedule violates C12: %s' % mism[0][2][:500], replay)
        c.cov['states'] = c.cov['transitions'] = 1
        c.sample(s[0])
        return
    thorough = tier == 'thorough'
    # S1 ---------------------------------------------------------------------------------------
    configs = [dict(nc=3, initopen=False, probenum=0, maxt=3), dict(nc=3, initopen=True, probenum=0, maxt=4),
               dict(nc=2, initopen=True, probenum=1, maxt=4)]
    if thorough:
        configs = [dict(nc=3, initopen=False, probenum=0, maxt=5), dict(nc=3, initopen=True, probenum=0, maxt=5),
                   dict(nc=3, initopen=True, probenum=1, maxt=4), dict(nc=3, initopen=True, probenum=2, maxt=4),
                   dict(nc=4, initopen=True, probenum=0, maxt=3)]
    for k in configs:
        r = c.model_check('BreakerConc_MC', cfg_text=cfg(**k), workers=8, timeout=2400, heap='12g')
        if not r.completed:
            c.inconclusive.append('BreakerConc.tla (order of the fixed code) violates %s for %s: the design model is wrong or the code order changed' % (r.violated, k))
    c.cov['exhaustive'] = True
    # spec-level mutant: pinned order swap-then-store must violate NoEarlyProbePub (vacuity guard) -> schedule to replay
    scns, tr = [], 0
    for k in (dict(nc=3, initopen=False, probenum=0, maxt=3), dict(nc=2, initopen=True, probenum=0, maxt=4)):
        r = c.tlc('BreakerConc_MC', cfg_text=cfg(dlfirst=False, **k), workers=4, timeout=600, count=False)
        if r.violated != 'NoEarlyProbePub':
            raise MachineryError('vacuity guard: the swap-then-store mutant of BreakerConc must violate NoEarlyProbePub, got %s' % (r.violated or r.error))
        sched = last_sched(r.out)
        if not sched:
            raise MachineryError('could not extract the counterexample schedule')
        tr += 1
        scns.append(scenario(tr, sched + [2, 2, 2, 2, 2, 2], nc=k['nc'], initopen=k['initopen']))
    c.cov['spec_mutant'] = 'DlFirst=FALSE violates NoEarlyProbePub; its counterexample schedules are replayed on the real code'
    c.log('S1 vacuity guard: swap-then-store mutant violates NoEarlyProbePub; counterexample schedule %s' % scns[0]['sched'])
    # the property as stated (strict NoEarlyProbe) is violated by the design when the opener is stalled for a whole
    # timeout between publishing the deadline and the swap: a lead (DESIGN section 6) -> replayed on the real code
    leads = []
    for inv, k in (('NoStalledEarly', dict(nc=2, initopen=False, probenum=0, maxt=4)),
                   ('NoStaleEarly', dict(nc=3, initopen=True, probenum=0, maxt=5))):
        r = c.tlc('BreakerConc_MC', cfg_text=cfg(inv=inv, **k), workers=8, timeout=900, count=False)
        if r.violated == inv:
            tr += 1
            scns.append(scenario(tr, last_sched(r.out) + [1, 2, 3] * 12, nc=k['nc'], initopen=k['initopen']))
            leads.append('%s: %s' % (inv, scns[-1]['sched']))
    c.cov['design_leads'] = leads
    c.log('S1 leads (residues of the two-word design, replayed on the real code): %s' % leads)
    # rule reloads racing with requests / completions: BreakerConcReload (objects + loader) ------------------------
    rconfigs = [dict(nc=3, initopen=False, thr=1, thr2=2, maxt=3), dict(nc=2, initopen=True, thr=2, thr2=1, maxt=4, allerr=True),
                dict(nc=2, initopen=True, thr=1, thr2=2, maxt=4, probenum=1, allerr=True), dict(nc=3, initopen=False, thr=1, thr2=2, maxt=3, reload='same')]
    if thorough:
        rconfigs += [dict(nc=3, initopen=True, thr=1, thr2=2, maxt=4), dict(nc=3, initopen=True, thr=2, thr2=1, maxt=4, allerr=True),
                     dict(nc=3, initopen=False, thr=1, thr2=1, maxt=4, allerr=True)]
    for k in rconfigs:
        r = c.model_check('BreakerConcReload_MC', cfg_text=rcfg(**k), workers=8, timeout=2400, heap='12g')
        if not r.completed:
            c.inconclusive.append('BreakerConcReload.tla violates %s for %s: the design model of a reload is wrong' % (r.violated, k))
    nmut = 0
    for k in (dict(nc=3, initopen=False, thr=1, thr2=2, maxt=3), dict(nc=2, initopen=True, thr=2, thr2=1, maxt=4, allerr=True)):
        for inv in ('NoEarlyProbePub', 'LegalPerObject'):
            r = c.tlc('BreakerConcReload_MC', cfg_text=rcfg(share=True, inv=inv, **k), workers=4, timeout=600, count=False)
            if r.violated != inv:
                raise MachineryError('vacuity guard: the ShareState mutant of BreakerConcReload (state word shared, deadline copied at reload) '
                                     'must violate %s, got %s' % (inv, r.violated or r.error))
            sched = last_sched(r.out)
            if not sched or -1 not in sched:
                raise MachineryError('could not extract the counterexample schedule of the ShareState mutant')
            tr += 1
            nmut += 1
            scns.append(rscenario(tr, sched + [1, 2, 3] * 8, k))
    c.cov['spec_mutant_reload'] = ('ShareState=TRUE (new breaker shares the state word of the replaced one, deadline copied by value) violates '
                                   'NoEarlyProbePub and LegalPerObject; %d counterexample schedules replayed on the real code' % nmut)
    c.log('S1 vacuity guard (reload): ShareState mutant rejected; counterexample schedule %s' % scns[-nmut]['sched'])
    for k in rconfigs[:3]:
        num = 80 if not thorough else 800
        r = c.tlc('BreakerConcReload_MC', cfg_text=rcfg(extra='ACTION_CONSTRAINT Emit\n', inv='', **k),
                  workers=1, timeout=900, count=False, args=['-simulate', 'num=%d' % num, '-depth', '70', '-seed', str(c.seed)])
        hs = [h for h in maximal(r.json_prints()) if -1 in h]
        for sch in hs:
            tr += 1
            scns.append(rscenario(tr, sch, k))
        c.log('S2 TLC simulation of BreakerConcReload %s: %d schedules with a reload' % (k, len(hs)))
    # S2 ---------------------------------------------------------------------------------------
    for k in configs[:3]:
        num = 120 if not thorough else 1200
        r = c.tlc('BreakerConc_Gen', cfg_text=cfg(extra='ACTION_CONSTRAINT Emit\n', **k).replace('INVARIANTS NoEarlyProbePub ExclusiveProbe ReportedOnce', ''),
                  workers=1, timeout=900, count=False, args=['-simulate', 'num=%d' % num, '-depth', '70', '-seed', str(c.seed)])
        hs = maximal(r.json_prints())
        for sch in hs:
            tr += 1
            scns.append(scenario(tr, sch, nc=k['nc'], timeout=2, probenum=k['probenum'], initopen=k['initopen']))
        c.log('S2 TLC simulation %s: %d schedules' % (k, len(hs)))
    ntlc = len(scns)
    nrand = 600 if not thorough else 8000
    rng = c.rng
    for i in range(nrand):
        tr += 1
        nc = rng.choice([2, 3, 3, 4])
        timeout = rng.choice([1, 2, 3])
        n = rng.randint(10, 60)
        # ticks are rare so that most interleavings happen around the deadline
        sched = [rng.choice([0] + list(range(1, nc + 1)) * 4) for _ in range(n)]
        scns.append(scenario(tr, sched, nc=nc, timeout=timeout, probenum=rng.choice([0, 0, 0, 1, 2]), initopen=rng.random() < 0.6,
                             errv=[rng.random() < 0.5 for _ in range(nc)]))
        if i % 3 == 0:      # the loader replaces the rule somewhere in the schedule (statistic-reusable: another threshold; 1 in 4: identical)
            s = scns[-1]
            s['thr'] = rng.choice([1, 1, 2])
            s['reloads'] = [dict(thr=rng.choice([s['thr'], 1, 2, 3, 3]), via=rng.choice(['all', 'res']))]
            s['sched'].insert(rng.randint(0, min(len(sched), 25)), -1)
            s['errs'] = [rng.random() < 0.7 for _ in range(nc)]
    # one long preemption: goroutine p runs to its k-th yield point and is parked while the others run whole
    # operations (with the clock advancing by about one timeout at chosen places), then p resumes
    import itertools
    npre = 0
    for nc, errv, initopen in ((3, [False, True, False], True), (3, [True, False, True], False), (3, [False, True, True], True)):
        for p in range(1, nc + 1):
            others = [q for q in range(1, nc + 1) if q != p]
            for k in range(1, 13):
                for perm in itertools.permutations(others):
                    for t0, t1, t2 in ((2, 0, 0), (0, 2, 0), (2, 0, 2), (3, 2, 0), (0, 0, 2)):
                        for shape in (0, 1):
                            if shape == 0:   # p parked while both others run, then p resumes
                                sched = [0] * t0 + [p] * k + [perm[0]] * 30 + [0] * t1 + [perm[1]] * 30 + [0] * t2 + [p] * 30 + [perm[0], perm[1]] * 15
                            else:            # p parked while one other runs, p resumes, then the third goroutine
                                sched = [0] * t0 + [p] * k + [perm[0]] * 30 + [0] * t1 + [p] * 30 + [0] * t2 + [perm[1]] * 30 + [perm[0], perm[1]] * 15
                            tr += 1
                            npre += 1
                            scns.append(scenario(tr, sched, nc=nc, timeout=2, probenum=0, initopen=initopen, errv=errv))
    # the same single preemption with the rule reloaded while p is parked inside the breaker code of the OLD list (and, second
    # shape, right before p starts: p then completes on the object built while another goroutine was inside the old one)
    nprl = 0
    for nc, errv, initopen, thr, thr2 in ((3, [True, True, False], False, 1, 2), (3, [True, False, True], True, 2, 1), (2, [True, True], False, 1, 3),
                                          (3, [False, True, True], True, 1, 1)):
        for p in range(1, nc + 1):
            others = [q for q in range(1, nc + 1) if q != p]
            for k in range(1, 11):
                for perm in itertools.permutations(others):
                    for t0, t1 in ((0, 0), (2, 0), (0, 2), (2, 2)):
                        for shape in (0, 1):
                            rest = [q for q in perm for _ in range(30)]
                            if shape == 0:
                                sched = [0] * t0 + [p] * k + [-1] + [perm[0]] * 30 + [0] * t1 + [p] * 30 + rest[30:] + list(perm) * 10
                            else:
                                sched = [0] * t0 + [p] * k + [perm[0]] * (k % 5 + 1) + [-1] + [p] * 30 + [0] * t1 + rest + list(perm) * 10
                            tr += 1
                            nprl += 1
                            s = scenario(tr, sched, nc=nc, timeout=2, probenum=0, initopen=initopen, errv=errv)
                            s['thr'] = thr
                            s['reloads'] = [dict(thr=thr2, via='all' if nprl % 2 else 'res')]
                            scns.append(s)
    c.cov['preemption_schedules'] = npre
    c.cov['preemption_schedules_with_reload'] = nprl
    c.cov['schedules_with_reload'] = sum(1 for s in scns if s.get('reloads') and -1 in s['sched'])
    # S3 + S4 ----------------------------------------------------------------------------------
    first = True
    for i in range(0, len(scns), 3000):
        part = scns[i:i + 3000]
        mism, tp = run_and_validate(c, drv, part, 'sched%d' % i)
        c.cov['conformance_mismatches'] += len(mism)
        handle(c, drv, part, mism, 'sched')
        if first and not c.violations:
            binding_selftest(c, tp)
            first = False
    c.cov['distinct_nontrivial'] = len({json.dumps([s['sched'], s['errs'], s['initopen'], s['probenum'], s['timeout'], s.get('thr'), s.get('reloads')]) for s in scns
                                        if s['initopen'] or any(s['errs'])})
    c.cov['rule'] = ('schedule = sequence of "goroutine i moves to its next cb.* yield point" / clock tick, forced on the real breaker; '
                     '%d from TLC (simulation of BreakerConc + counterexamples of its swap-then-store mutant), rest seeded random; '
                     'non-trivial = distinct schedule in which the breaker can leave Closed (starts open or a failing client exists)' % ntlc)
    c.sample(scns[0])
    c.sample(scns[ntlc - 1])
    c.sample(scns[-1])
    c.assumptions += ['the state word is swapped in the step resuming from cb.cas, the deadline is compared in the step resuming from cb.deadline.load (hook placement)',
                      'one breaker (error-count strategy) per resource; the three strategies share the transition code',
                      'at most one reload per schedule; the reloaded rule differs in the threshold only (statistic-reusable) or is identical; breaker objects are told apart by the threshold the listener is handed',
                      'a goroutine acts on the breaker object in service when it fetched the list: in its step from "start" (Entry) and from "drv.exit" (Exit)',
                      'exhaustive interleavings only for the bounded configurations listed in tlc_runs']
    if thorough: import stages; stages.run_stage(c, 'REFINE', 'refinement_stage')   # BreakerConc => Breaker, WindowConc => Window, AdmitPath => FlowQps / Isolation (checks/REFINE.py)


main('C12', check)
