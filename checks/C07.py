"""C07 - system protection gates inbound traffic only, by the configured predicate.

S1  TLC checks SystemGate.tla: (A) with no rule loaded, every reachable state of the inbound aggregate: the quantities
    the gate reads (qps, avg RT, min RT, peak completions, in-flight) equal first-principles definitions over the plain
    history, and lemmas quantified over the whole rule universe x every reading (BBR never stricter than its plain twin,
    unsampled load/cpu never blocks, monotone in the trigger); (B) rule list chosen in Init (every single rule of the
    universe + hand-picked lists): outbound never blocked, blocked iff some rule violated, blocked leaves no trace.
    An entry completes by Exit(), Exit(WithError) or TraceError + Exit (and calls on a completed entry change nothing):
    the first-principles readings range over every completion whatever its kind; spec-level mutants of the completion
    bookkeeping (an error completion skips the RT / the completion count / loses its flag) must be rejected (vacuity guard).
S2  scenarios: TLC random simulation of the same spec (rule lists of up to 2 rules), a TLC transition cover of a tiny
    instance, and seeded random histories (mixed inbound/outbound on several resources, batches, held entries, rule
    reloads, load / cpu samples; a BBR-focused family that builds a capacity estimate and then probes around it; a
    completion-focused family: held entries completing in every way, then a reload to a probing rule list - avg RT
    trigger 0 makes the block REPORT the inbound average RT, BBR trigger 0 exposes min RT x peak - and back).
S3  harness/cmd/c07 replays them on the real code through api.Entry and records every decision.
S4  SystemGate_Trace.tla (TLC) decides each recorded decision with the operators of SystemGateOps.tla.
"""
import json, os, sys
import vlib
from vlib import main, write_ndjson, read_ndjson, MachineryError

TRACE = 'SystemGate_Trace'


INV_A = 'TypeOK QpsOK AvgRtOK MinRtOK PeakOK ConcOK ErrOK LoneRequestNeverShed AllBBRWeaker AllUnsampledNeverBlocks AllMonotoneInTrigger'

# spec-level mutants of the completion bookkeeping (SystemGate_MC) and the invariant that must reject each
SPEC_MUTANTS = [('MutErrSkipsRt', 'AvgRtOK'), ('MutErrSkipsRt', 'MinRtOK'), ('MutErrSkipsComplete', 'PeakOK'),
                ('MutErrSkipsComplete', 'AvgRtOK'), ('MutErrDropped', 'ErrOK')]


def mc_cfg(which, thorough, emit=False, mutant=None, inv=None):
    if which == 'A':
        c = dict(lists='MCRuleLists', maxrules=0, ops=3, open=2, sets=0, ticks=3 if thorough else 2, steps='{250, 500, 1000}',
                 traced=2, exits='{FALSE, TRUE}', lates='{"exit", "trace"}', inv=INV_A)
    elif which == 'B':
        c = dict(lists='MCRuleListsPlus', maxrules=1, ops=3 if thorough else 2, open=2, sets=1, ticks=2, steps='{250, 1000}',
                 # quick: the structural invariants do not read the error kind - plain completions only (run A explores
                 # every kind of completion); thorough: both kinds of Exit
                 traced=0, exits='{FALSE, TRUE}' if thorough else '{FALSE}', lates='{}',
                 inv='TypeOK ConcOK OutboundNeverBlocked BlockedIffViolated NoRuleNoBlock BlockedLeavesNoTrace BBRWeaker UnsampledNeverBlocks LoneRequestNeverShed')
    elif which == 'cover':      # tiny instance for the transition cover
        c = dict(lists='MCMulti', maxrules=0, ops=2, open=2, sets=0, ticks=1, steps='{250, 1000}', traced=0, exits='{FALSE, TRUE}', lates='{}', inv='')
    else:                       # 'sim': random behaviours over rule lists of up to 2 rules
        c = dict(lists='MCRuleListsPlus', maxrules=2, ops=8, open=3, sets=3, ticks=6, steps='{250, 500, 1000}', traced=3, exits='{FALSE, TRUE}', lates='{"exit", "trace"}', inv='')
    if inv is not None:
        c['inv'] = inv
    c['mut'] = ('CONSTANT CompleteUpd <- %s\n' % mutant) if mutant else ''
    return """SPECIFICATION Spec
CONSTANTS
  RuleLists <- %(lists)s
  Samples <- MCSamples
  Batches = {1, 4}
  Steps = %(steps)s
  MaxOps = %(ops)d
  MaxOpen = %(open)d
  MaxSets = %(sets)d
  MaxTicks = %(ticks)d
  MaxTraced = %(traced)d
  ExitKinds = %(exits)s
  LateKinds = %(lates)s
  MaxRules = %(maxrules)d
  Triggers = {0, 1, 2}
%(mut)sVIEW view
%(invl)s
CHECK_DEADLOCK FALSE
%(emit)s""" % dict(c, invl=('INVARIANTS ' + c['inv']) if c['inv'] else '', emit='ACTION_CONSTRAINT Emit\n' if emit else '')


def decorate(hist, tr, rng):
    """TLC history -> driver scenario: resources, start time, exits of outbound entries, final exits left to the driver"""
    out = []
    outb = []
    for o in hist:
        o = dict(o)
        if o['op'] == 'new':
            o.update(tr=tr, t=1000 + rng.choice([0, 0, 1, 100, 249]))
            out.append(o)
            continue
        if o['op'] in ('load', 'cpu') and o['num'] < 0:
            o['num'], o['den'] = -1, 1
        if o['op'] == 'enter':
            o['res'] = rng.randint(1, 3)
            if o['ty'] == 'out':
                outb.append(o['id'])
        if o['op'] == 'trace':
            o['via'] = rng.choice(['api', 'api', 'entry'])
        out.append(o)
        if outb and rng.random() < 0.3:         # outbound entries complete in every way too (never reaches the inbound node)
            i = outb.pop(rng.randrange(len(outb)))
            if rng.random() < 0.25:
                out.append(dict(op='trace', id=i, via='api'))
            out.append(dict(op='exit', id=i, err=rng.random() < 0.3))
    return out


RULE_TRIGGERS = {
    'qps': [(0, 1), (1, 1), (2, 1), (3, 1), (5, 1), (8, 1), (5, 2), (13, 1)],
    'conc': [(0, 1), (1, 1), (2, 1), (3, 1), (4, 1), (5, 2)],
    'rt': [(0, 1), (1, 1), (10, 1), (100, 1), (250, 1), (500, 1), (75, 2), (1000, 1)],
    'load': [(0, 1), (1, 2), (1, 1), (2, 1), (4, 1)],
    'cpu': [(0, 1), (1, 4), (1, 2), (3, 4), (1, 1)],
}
LOADS = [(-1, 1), (0, 1), (1, 2), (1, 1), (3, 2), (2, 1), (3, 1), (8, 1), (17, 4)]
CPUS = [(-1, 1), (0, 1), (1, 4), (1, 2), (3, 4), (1, 1), (5, 4), (1, 8)]


def rnd_rules(rng, n=None, mts=None):
    n = rng.choice([0, 1, 1, 2, 2, 3, 4]) if n is None else n
    rules = []
    for _ in range(n):
        mt = rng.choice(mts or ['qps', 'conc', 'rt', 'load', 'cpu'])
        num, den = rng.choice(RULE_TRIGGERS[mt])
        rules.append(dict(mt=mt, num=num, den=den, bbr=rng.random() < (0.6 if mt in ('load', 'cpu') else 0.15)))
    return rules


def completion_ops(rng, open_ids, done_ids):
    """complete one open entry in one of the three ways: Exit(), Exit(WithError), TraceError/SetError [... later] Exit"""
    i = open_ids.pop(rng.randrange(len(open_ids)))
    done_ids.append(i)
    x = rng.random()
    if x < 0.50:
        return [dict(op='exit', id=i, err=False)]
    if x < 0.80:
        return [dict(op='exit', id=i, err=True)]
    return [dict(op='trace', id=i, via=rng.choice(['api', 'entry'])), dict(op='exit', id=i, err=rng.random() < 0.2)]


PROBES = [[('rt', 0, 1)], [('rt', 0, 1)], [('rt', 0, 1)], [('rt', 1, 1)], [('rt', 10, 1)], [('rt', 50, 1)], [('rt', 100, 1)],
          [('rt', 250, 1)], [('rt', 500, 1)], [('rt', 75, 2)], [('rt', 0, 1), ('qps', 0, 1)], [('conc', 0, 1)], [('qps', 0, 1)],
          [('load', 0, 1)], [('cpu', 0, 1)], [('load', 1, 2), ('cpu', 1, 4)], [('load', 0, 1), ('rt', 100, 1)]]


def completion_scenario(rng, tr):
    """completion-focused history: inbound entries held for shaped response times and completed in EVERY way, and in
    between a reload to a probing rule list followed by one inbound request: an avg-RT rule with trigger 0 always blocks
    and REPORTS the inbound average RT (judged exactly), BBR load / cpu rules with trigger 0 block iff in-flight exceeds
    peak completions x min RT, other triggers probe the decision boundary; then the base list is loaded again"""
    base = rnd_rules(rng, rng.choice([0, 0, 1, 2]), ['qps', 'conc', 'rt', 'load', 'cpu'])
    for r in base:                                              # a loose base list: traffic mostly flows
        if r['mt'] in ('qps', 'conc'):
            r['num'], r['den'] = rng.choice([(8, 1), (13, 1), (40, 1)])
        elif r['mt'] == 'rt':
            r['num'], r['den'] = rng.choice([(100, 1), (250, 1), (500, 1), (1000, 1)])
    s = [dict(op='new', tr=tr, t=rng.choice([1, 499, 500, 777, 1000, rng.randint(1, 5000)]), rules=base)]
    s.append(dict(op='load', num=rng.choice([3, 8]), den=1))
    s.append(dict(op='cpu', num=rng.choice([3, 1]), den=rng.choice([4, 1])))
    nid, open_ids, done_ids = 0, [], []
    for _ in range(rng.randint(14, 40)):
        x = rng.random()
        if x < 0.32:
            nid += 1
            ty = 'in' if rng.random() < 0.88 else 'out'
            s.append(dict(op='enter', id=nid, res=rng.randint(1, 3), ty=ty, b=rng.choice([1, 1, 1, 2, 4])))
            if ty == 'out' and rng.random() < 0.6:
                s[-1]['imp'] = True      # outbound by default: the call does not name its traffic type (pooled options must not leak one)
            open_ids.append(nid)
        elif x < 0.57 and open_ids:
            s += completion_ops(rng, open_ids, done_ids)
        elif x < 0.80:
            s.append(dict(op='tick', d=rng.choice([0, 1, 5, 20, 40, 40, 80, 150, 250, 400, 499, 500, 700, 1000, rng.randint(0, 600)])))
        elif x < 0.83 and done_ids:
            s.append(dict(op='late', id=rng.choice(done_ids), how=rng.choice(['exit', 'trace'])))
        else:                                                   # probe
            pl = [dict(mt=mt, num=num, den=den, bbr=(mt in ('load', 'cpu') and rng.random() < 0.8)) for mt, num, den in rng.choice(PROBES)]
            nid += 1
            s.append(dict(op='rules', rules=pl))
            s.append(dict(op='enter', id=nid, res=rng.randint(1, 3), ty='in', b=1))
            if rng.random() < 0.7:
                s.append(dict(op='exit', id=nid, err=rng.random() < 0.3))      # (ignored by the driver when the probe was blocked)
            else:
                open_ids.append(nid)
            s.append(dict(op='rules', rules=base))
    return s


def random_scenarios(c, n, first_tr):
    rng = c.rng
    scns = []
    for i in range(n):
        tr = first_tr + i
        if rng.random() < 0.30:
            scns.append(completion_scenario(rng, tr))
            continue
        bbr_focus = rng.random() < 0.35
        if bbr_focus:
            rules = rnd_rules(rng, rng.choice([1, 1, 2]), ['load', 'cpu'])
            for r in rules:
                r['bbr'] = rng.random() < 0.85
                r['num'], r['den'] = rng.choice([(0, 1), (1, 4), (1, 2)])
            if rng.random() < 0.3:
                rules += rnd_rules(rng, 1, ['qps', 'conc', 'rt'])
        else:
            rules = rnd_rules(rng)
        s = [dict(op='new', tr=tr, t=rng.choice([1, 499, 500, 777, 1000, 12345, rng.randint(1, 5000)]), rules=rules)]
        nid = 0
        open_ids, done_ids = [], []
        if bbr_focus:
            s.append(dict(op=rng.choice(['load', 'cpu']), num=rng.choice([1, 3, 8]), den=rng.choice([1, 2])))
            if rng.random() < 0.7:
                s.append(dict(op='load', num=3, den=1))
                s.append(dict(op='cpu', num=3, den=4))
        for _ in range(rng.randint(12, 40)):
            x = rng.random()
            if x < 0.50:
                nid += 1
                ty = 'in' if rng.random() < (0.85 if bbr_focus else 0.7) else 'out'
                s.append(dict(op='enter', id=nid, res=rng.randint(1, 3), ty=ty, b=rng.choice([1, 1, 1, 2, 4, 8])))
                if ty == 'out' and rng.random() < 0.6:
                    s[-1]['imp'] = True
                open_ids.append(nid)
            elif x < 0.68 and open_ids:
                s += completion_ops(rng, open_ids, done_ids)
            elif x < 0.90:
                d = rng.choice([0, 1, 7, 50, 100, 250, 250, 499, 500, 501, 1000, 1500, rng.randint(0, 1200)])
                s.append(dict(op='tick', d=d))
            elif x < 0.94:
                num, den = rng.choice(LOADS)
                s.append(dict(op='load', num=num, den=den))
            elif x < 0.98:
                num, den = rng.choice(CPUS)
                s.append(dict(op='cpu', num=num, den=den))
            elif x < 0.99 or not done_ids:
                s.append(dict(op='rules', rules=rnd_rules(rng)))
            else:
                s.append(dict(op='late', id=rng.choice(done_ids), how=rng.choice(['exit', 'trace'])))
        scns.append(s)
    return scns


def run_and_validate(c, drv, scns, tag):
    sp = os.path.join(c.scratch, tag + '.scn.ndjson')
    tp = os.path.join(c.scratch, tag + '.trace.ndjson')
    write_ndjson(sp, [o for s in scns for o in s])
    c.run([drv, sp, tp], timeout=600)
    nlines = sum(1 for _ in open(tp))
    mism, consumed, r = c.validate(TRACE, tp, nlines)
    if consumed != nlines:
        raise MachineryError('%s: trace validation consumed %d of %d lines (malformed trace?)\n%s' % (tag, consumed, nlines, r.out[-1500:]))
    c.cov['traces_validated_against_impl'] += len(scns)
    c.cov['evaluations'] += nlines
    c.log('S3/S4 %s: %d scenarios, %d events validated in %.0fs, %d mismatching traces' % (tag, len(scns), nlines, r.wall, len(mism)))
    if mism:
        lines = open(tp).read().splitlines()
        mism = [(tr, ln, exp + '  OBSERVED: ' + lines[ln - 1][:400]) for tr, ln, exp in mism]
    return mism, tp


def trace_stats(c, tp):
    """coverage counted from what the real code did"""
    st = c.cov.setdefault('decisions', dict(inbound_admitted=0, inbound_blocked=0, outbound_admitted=0, outbound_blocked=0,
                                            blocked_by=dict()))
    cs = c.cov.setdefault('inbound_completions', dict(plain=0, exit_with_error=0, trace_then_exit=0, late_calls=0, outbound=0))
    traced, inb = set(), set()
    nontriv = set()
    cur, key, adm, blk, nrules = None, [], False, False, 0
    def close():
        if cur is not None and adm and blk:
            nontriv.add(json.dumps(key, sort_keys=True))
    for line in open(tp):
        e = json.loads(line)
        if e['op'] == 'new':
            close()
            cur, key, adm, blk = e['tr'], [], False, False
            nrules = len(e['rules'])
        k = dict(e)
        k.pop('tr', None)
        key.append(k)
        if e['op'] == 'rules':
            nrules = len(e['rules'])
        if e['op'] == 'new':
            traced, inb = set(), set()
        elif e['op'] == 'enter' and e['ok'] and e['ty'] == 'in':
            inb.add(e['id'])
        elif e['op'] == 'exit' and e['id'] not in inb:
            cs['outbound'] += 1
        elif e['op'] == 'trace':
            traced.add(e['id'])
        elif e['op'] == 'late':
            cs['late_calls'] += 1
        elif e['op'] == 'exit':
            cs['trace_then_exit' if e['id'] in traced else ('exit_with_error' if e.get('err') else 'plain')] += 1
        if e['op'] == 'enter':
            side = 'inbound' if e['ty'] == 'in' else 'outbound'
            st['%s_%s' % (side, 'admitted' if e['ok'] else 'blocked')] += 1
            if e['ok'] and e['ty'] == 'in' and nrules:
                adm = True
            if not e['ok']:
                blk = True
                st['blocked_by'][e.get('mt', '?')] = st['blocked_by'].get(e.get('mt', '?'), 0) + 1
    close()
    return nontriv


def binding_selftest(c, tp):
    """flip one recorded decision in each of the first traces of a good trace file: every one must be rejected"""
    lines = [json.loads(l) for l in open(tp)]
    out, n, want, done = [], 0, set(), True
    for e in lines:
        if e['op'] == 'new':
            n += 1
            if n > 40:
                break
            done = False
            nrules = len(e['rules'])
        elif not done and e['op'] == 'enter' and c.rng.random() < 0.4:
            if e['ok']:
                e['ok'] = False
                e.update(sys=True, rule=1, mt='qps', vnum=0, vden=1000)
            else:
                e['ok'] = True
            done = True
            want.add(n)
        out.append(e)
    cp = os.path.join(c.scratch, 'corrupt.ndjson')
    write_ndjson(cp, out)
    mism, consumed, r = c.validate(TRACE, cp, len(out))
    trs, k = {}, 0
    for e in out:
        if e['op'] == 'new':
            k += 1
            trs[e['tr']] = k
    got = {trs[m[0]] for m in mism}
    if got != want or len(want) < 10:
        raise MachineryError('binding self-test failed: corrupted traces %s, rejected %s' % (sorted(want), sorted(got)))
    c.cov['binding_selftest'] = '%d traces with one flipped decision, all rejected' % len(want)
    c.log('binding self-test: %d traces with one flipped decision, all rejected by %s' % (len(want), TRACE))


def classify(c, scn, exp):
    """known-finding key for a confirmed mismatch, or None (no known defect of this property)"""
    return None


def handle_mismatches(c, drv, scns, mism, tag):
    by_tr = {s[0]['tr']: s for s in scns}
    for tr, line, exp in mism[:10]:
        s = by_tr[tr]
        rp = c.save_replay('%s-tr%d.ndjson' % (tag, tr), s)
        ok = 0
        for i in range(2):      # confirm twice from the replay file in fresh processes
            m2, _ = run_and_validate(c, drv, [read_ndjson(rp)], 'confirm%d' % i)
            ok += 1 if m2 else 0
        if ok < 2:
            c.inconclusive.append('mismatch of %s trace %d did not reproduce (%d/2)' % (tag, tr, ok))
            continue
        key = classify(c, s, exp)
        what = 'system gate decision differs from the predicate at line %d of trace %d; the property demands %s' % (line, tr, exp[:500])
        if key and c.is_known(key):
            c.known(key, c.kf[key]['description'])
        else:
            c.violation(what, rp)


def maximal(hs):
    """drop histories that are proper prefixes of another history"""
    keys = sorted(json.dumps(x, sort_keys=True)[:-1] for x in hs)
    out = []
    for i, k in enumerate(keys):
        if i + 1 < len(keys) and keys[i + 1].startswith(k) and (keys[i + 1] == k or keys[i + 1][len(k)] == ','):
            continue
        out.append(json.loads(k + ']'))
    return out


def check(c, tier, replay):
    drv = c.build('c07')
    if replay:
        s = read_ndjson(replay)
        mism, _ = run_and_validate(c, drv, [s], 'replay')
        if mism:
            c.violation('replayed scenario: system gate decision differs from the predicate: %s' % (mism[0][2][:500]), replay)
        c.cov['states'] = c.cov['transitions'] = 1
        c.sample(s[:8])
        return
    thorough = tier == 'thorough'
    # S1 ---------------------------------------------------------------------------------
    for which in (() if os.environ.get('VERIF_SKIP_S1') else ('A', 'B')):      # (VERIF_SKIP_S1: mutant trials only)
        r = c.model_check('SystemGate_MC', cfg_text=mc_cfg(which, thorough), workers=8, timeout=1500)
        if not r.completed:
            c.inconclusive.append('SystemGate.tla (run %s): %s violated - the design-level spec is inconsistent' % (which, r.violated))
    # vacuity guard: the completion bookkeeping with a defect in how an error-carrying completion is recorded must be rejected
    for mut, inv in (() if os.environ.get('VERIF_SKIP_S1') else SPEC_MUTANTS):
        r = c.tlc('SystemGate_MC', cfg_text=mc_cfg('A', False, mutant=mut, inv=inv), workers=4, timeout=600, count=False)
        if r.violated != inv:
            raise MachineryError('vacuity guard: spec mutant %s of SystemGate must violate %s, got %s\n%s' % (
                mut, inv, r.violated or r.error or 'no error', r.out[-1500:]))
        c.cov.setdefault('spec_mutants_rejected', []).append('%s -> %s' % (mut, inv))
    if not os.environ.get('VERIF_SKIP_S1'):
        c.log('S1 vacuity guard: %d spec-level mutants of the completion bookkeeping rejected (%s)' % (
            len(SPEC_MUTANTS), ', '.join('%s by %s' % m for m in SPEC_MUTANTS)))
    c.cov['exhaustive'] = True
    # S2 ---------------------------------------------------------------------------------
    scns, tr = [], 0
    r = c.tlc('SystemGate_MC', cfg_text=mc_cfg('cover', thorough, emit=True), workers=4, timeout=600, count=False)
    if r.error:
        raise MachineryError('scenario generation failed: %s\n%s' % (r.error, r.out[-2000:]))
    keep = maximal(r.json_prints())
    ncover = len(keep)
    cap = 1500 if not thorough else 20000
    if len(keep) > cap:
        keep = c.rng.sample(keep, cap)
    for hh in keep:
        tr += 1
        scns.append(decorate(hh, tr, c.rng))
    c.log('S2 transition cover of the tiny instance: %d maximal histories, %d kept' % (ncover, len(keep)))
    num = 400 if not thorough else 6000
    r = c.tlc('SystemGate_MC', cfg_text=mc_cfg('sim', thorough, emit=True), workers=1, timeout=900, count=False,
              args=['-simulate', 'num=%d' % num, '-depth', '22', '-seed', str(c.seed)])
    sim = maximal(r.json_prints())
    if len(sim) < num // 4:
        raise MachineryError('TLC simulation produced only %d behaviours\n%s' % (len(sim), r.out[-2000:]))
    for hh in sim:
        tr += 1
        scns.append(decorate(hh, tr, c.rng))
    c.log('S2 TLC simulation: %d behaviours' % len(sim))
    nrand = 1700 if not thorough else 21000      # 30 % of them completion-focused
    rs = random_scenarios(c, nrand, tr + 1)
    tr += nrand
    # S3 + S4 ----------------------------------------------------------------------------
    nontriv = set()
    for tag, group in (('tlc', scns), ('rand', rs)):
        for i in range(0, len(group), 3000):
            part = group[i:i + 3000]
            mism, tp = run_and_validate(c, drv, part, '%s%d' % (tag, i))
            nontriv |= trace_stats(c, tp)
            if i == 0 and tag == 'rand' and not mism:
                binding_selftest(c, tp)
            c.cov['conformance_mismatches'] += len(mism)
            handle_mismatches(c, drv, part, mism, tag)
    c.cov['distinct_nontrivial'] = len(nontriv)
    c.cov['rule'] = ('scenarios = transition cover of a tiny SystemGate instance (%d) + TLC random simulation (%d) + seeded random '
                     'histories (%d); non-trivial = distinct recorded trace in which, with a non-empty rule list, at least one inbound '
                     'request was admitted and at least one request was blocked' % (ncover, len(sim), nrand))
    c.sample(scns[len(scns) // 2][:10])
    c.sample(rs[0][:12])
    c.assumptions += ['triggers and load / cpu readings are dyadic rationals (exact in float64); qps, in-flight and average RT are integers',
                      'the float evaluation of the BBR capacity (peak completions x min RT / 1000) is exact for the generated magnitudes '
                      '(checked offline for <= 300 completions per bucket and RT <= 2000 ms)',
                      'the > 1 in-flight guard of the capacity check is part of the reference (documented deviation from the one-line statement)',
                      'only system rules are loaded, so the decision of api.Entry is the decision of the system stage',
                      'TLC model checking is exhaustive only for the bounds listed in tlc_runs']


main('C07', check)
